(* C14 -- n_latest_tracks returns the most recently updated tracks.
   Statements only; proofs live in Proofs/TrackerCbProofs.v.  The model is pyais/tracker.py after
   `fix: n_latest_tracks() returns the newest tracks of an ordered tracker`, in its general form (Model/Tracker.v
   `trkc_step`): the subscriber callbacks may raise.

   reachable_any nattrs st : st is the state after ANY history, whatever the subscribers did -- also after operations
   that were left by the exception of a subscriber (Props/C13.v C13_invariants).  A history may contain
   `tracker.stream_is_ordered = False` (OpUnordered): from then on timestamps may arrive out of order and n_latest_tracks
   must sort.  Only this direction is modelled: a table kept sorted so far satisfies everything unordered mode needs,
   whereas switching an unordered tracker to ordered asserts an order that nobody enforced -- the first n of such a table
   are not its newest, and C14 does not quantify over such a tracker.

   mlu tr = (mmsi, last_updated).  sp_top_n n all r (Spec/TrackerSpec.v): r has min(n, |all|) elements with pairwise
   different MMSIs, all of them in `all`, and no element of `all` left out has a later last_updated than one in r. *)
From Coq Require Import ZArith List Bool.
Require Import Prim.Exn Prim.IntDict Model.Tracker Spec.TrackerSpec Proofs.TrackerProofs Proofs.TrackerCbProofs.
Import ListNotations.
Open Scope Z_scope.

(* For every state reachable by any history, every n >= 0 (also beyond the number of tracks), both modes; in
   unordered mode the result is sorted newest first; the result consists of tracks of the tracker. *)
Theorem C14_top_n : forall (V : Type) (nattrs : nat) (st : trk_tracker V) (n : Z),
  reachable_any nattrs st -> 0 <= n ->
  sp_top_n n (map mlu (trk_tracks st)) (map mlu (trk_n_latest_tracks st n)) /\
  (t_ordered st = false -> sp_newest_first (map mlu (trk_n_latest_tracks st n))) /\
  incl (trk_n_latest_tracks st n) (trk_tracks st).
Proof. exact (fun V => @n_latest_correct_c V). Qed.
Print Assumptions C14_top_n.

(* The boolean forms evaluated by the check on the implementation's outputs are these propositions. *)
Theorem C14_oracle_is_spec : forall n all r, sp_top_nb n all r = true <-> sp_top_n n all r.
Proof. exact top_nb_iff. Qed.
Print Assumptions C14_oracle_is_spec.

Theorem C14_order_oracle_is_spec : forall r, sp_newest_firstb r = true <-> sp_newest_first r.
Proof. exact newest_firstb_iff. Qed.
Print Assumptions C14_order_oracle_is_spec.

(* non-vacuity: an ordered tracker with three tracks; n = 2 selects the two NEWEST (the unrepaired code returned the
   two oldest, 111 and 222) in insertion order; n = 5 returns all three in insertion order (tests/test_tracker.py) *)
Example C14_nonvacuous :
  let q := @trk_env_quiet Z in
  let h := [(q, OpUpdate 0 (mkMsg 111 [MPresent (Some 1)]) (Some 1));
            (q, OpUpdate 0 (mkMsg 222 [MPresent (Some 2)]) (Some 2));
            (q, OpUpdate 0 (mkMsg 333 [MPresent (Some 3)]) (Some 3))] in
  let st := fst (trkc_run 1 (trk_init None true) h) in
  map (@tr_mmsi Z) (trk_n_latest_tracks st 2) = [222; 333] /\
  map (@tr_mmsi Z) (trk_n_latest_tracks st 5) = [111; 222; 333] /\
  trk_n_latest_tracks st 0 = [] /\
  let su := fst (trkc_run 1 (trk_init None false) h) in
  map (@tr_mmsi Z) (trk_n_latest_tracks su 2) = [333; 222].
Proof. vm_compute. repeat split. Qed.

(* non-vacuity with subscribers that raise: a CREATED subscriber raises for vessel 222 (update() raises, the track is in
   the table), a DELETED subscriber raises KeyError (swallowed) -- the states reached are states of the theorem and the
   answers are the newest tracks *)
Example C14_nonvacuous_raising :
  let en := @trk_env_of Z [(7, CREATED, Some 222, Py ValueError); (7, DELETED, None, Py KeyError)] [] in
  let h := [(en, OpAttach CREATED 7); (en, OpAttach DELETED 7);
            (en, OpUpdate 0 (mkMsg 111 [MPresent (Some 1)]) (Some 1));
            (en, OpUpdate 0 (mkMsg 222 [MPresent (Some 2)]) (Some 2));
            (en, OpUpdate 0 (mkMsg 333 [MPresent (Some 3)]) (Some 3));
            (en, OpPop 111)] in
  let run := trkc_run 1 (trk_init None true) h in
  map (@rc_exn Z) (snd run) = [None; None; None; Some (Py ValueError); None; None] /\
  map (@tr_mmsi Z) (trk_n_latest_tracks (fst run) 1) = [333] /\
  map (@tr_mmsi Z) (trk_n_latest_tracks (fst run) 3) = [222; 333].
Proof. vm_compute. repeat split. Qed.

(* non-vacuity: a tracker built ordered and switched to unordered.  Before the switch an older timestamp is rejected;
   after it the same update is accepted, the table is no longer sorted (333 at 3, 111 at 1 ... 222 at 2 behind them), and
   n_latest_tracks sorts: the newest first. *)
Example C14_nonvacuous_switched_to_unordered :
  let q := @trk_env_quiet Z in
  let h := [(q, OpUpdate 0 (mkMsg 111 [MPresent (Some 1)]) (Some 1));
            (q, OpUpdate 0 (mkMsg 333 [MPresent (Some 3)]) (Some 3));
            (q, OpUpdate 0 (mkMsg 222 [MPresent (Some 2)]) (Some 2));
            (q, OpUnordered);
            (q, OpUpdate 0 (mkMsg 222 [MPresent (Some 2)]) (Some 2))] in
  let run := trkc_run 1 (trk_init None true) h in
  map (@rc_exn Z) (snd run) = [None; None; Some (Py ValueError); None; None] /\
  t_ordered (fst run) = false /\
  map (@tr_mmsi Z) (trk_tracks (fst run)) = [111; 333; 222] /\
  map (@tr_mmsi Z) (trk_n_latest_tracks (fst run) 2) = [333; 222] /\
  map (@tr_mmsi Z) (trk_n_latest_tracks (fst run) 5) = [333; 222; 111].
Proof. vm_compute. repeat split. Qed.

(* non-vacuity: an ORDERED tracker fed through the public insert_or_update() with non-decreasing timestamps (the history
   satisfies the caveat trkc_run_ok): the update of 111 moves it behind 222, the last n of the table are the newest *)
Example C14_nonvacuous_insert_or_update :
  let q := @trk_env_quiet Z in
  let h := [(q, OpInsertOrUpdate 0 (mkMsg 111 [MPresent (Some 1)]) (Some 1));
            (q, OpInsertOrUpdate 0 (mkMsg 222 [MPresent (Some 2)]) (Some 2));
            (q, OpInsertOrUpdate 0 (mkMsg 111 [MPresent (Some 3)]) (Some 3))] in
  let st := fst (trkc_run 1 (trk_init None true) h) in
  trkc_run_ok 1 (trk_init None true) h /\
  map (@tr_mmsi Z) (trk_tracks st) = [222; 111] /\
  map (@tr_mmsi Z) (trk_n_latest_tracks st 1) = [111].
Proof.
  split; [|vm_compute; repeat split].
  simpl. repeat match goal with |- env_ok _ /\ _ => split; [apply env_ok_quiet|] | |- _ /\ _ => split end; try exact Logic.I.
  all: unfold out_of_order; intros (_ & k & tr & I & L); vm_compute in I;
       repeat (destruct I as [I|I]; [inversion I; subst; vm_compute in L; discriminate|]); destruct I.
Qed.
