(* C20 -- communication state is decoded bit-exactly and classified SOTDMA or ITDMA.
   Statements only; proofs live in Proofs/CommProofs.v.  The functions are the Gen/ translation of
   pyais/util.py get_sotdma_comm_state / get_itdma_comm_state and the CommunicationStateMixin. *)
From Coq Require Import ZArith List Bool String.
Require Import Prim.Exn Prim.Dict Gen.GenEnums Gen.GenComm Spec.CommSpec Proofs.CommProofs.
Import ListNotations.
Open Scope Z_scope.

(* Every reported field equals its ITU bit range, fields that do not apply are None, for every message
   type that carries a radio field and every value of that field.  The UTC minute is compared for valid
   times only (property text: minute <= 59). *)
Theorem C20_fields : forall mt radio w s,
  radio_width mt = Some w -> 0 <= radio < 2 ^ w -> comm_spec mt radio = Some s ->
  exists d, get_communication_state mt radio = Ok d /\
    map fst d = comm_keys /\
    Forall (fun k => (k = "utc_minute"%string /\ utc_minute_comparable radio = false)
                     \/ dict_get d k = lookup s k) comm_keys.
Proof. exact comm_state_correct. Qed.
Print Assumptions C20_fields.

(* SOTDMA or ITDMA according to the type or the selector bit; never both. *)
Theorem C20_classification : forall mt radio w,
  radio_width mt = Some w -> 0 <= radio < 2 ^ w ->
  is_sotdma mt radio = scheme_is SOTDMA (spec_scheme mt radio) /\
  is_itdma mt radio = scheme_is ITDMA (spec_scheme mt radio) /\
  is_sotdma mt radio = negb (is_itdma mt radio).
Proof. exact classification. Qed.
Print Assumptions C20_classification.

Theorem C20_never_both : forall mt radio, is_sotdma mt radio && is_itdma mt radio = false.
Proof. exact never_both. Qed.
Print Assumptions C20_never_both.

(* The raw value is the radio field without its selector bit ... *)
Theorem C20_raw : forall mt radio, communication_state_raw mt radio = radio mod 2 ^ 19.
Proof. exact raw_is_mod. Qed.
Print Assumptions C20_raw.

(* ... and it can be reconstructed from the reported fields (the UTC sub message reports only part of its
   14 bits, which is why the property excepts it: for time-out 1 the sub message is not a reported field). *)
Theorem C20_reconstruct_sotdma : forall r,
  bitrange r 17 2 * 2 ^ 17 + bitrange r 14 3 * 2 ^ 14 + bitrange r 0 14 = r mod 2 ^ 19.
Proof. exact sotdma_reconstruct. Qed.
Print Assumptions C20_reconstruct_sotdma.

Theorem C20_reconstruct_itdma : forall r,
  bitrange r 17 2 * 2 ^ 17 + bitrange r 4 13 * 2 ^ 4 + bitrange r 1 3 * 2 + bitrange r 0 1 = r mod 2 ^ 19.
Proof. exact itdma_reconstruct. Qed.
Print Assumptions C20_reconstruct_itdma.

(* non-vacuity: the hypotheses are met by concrete, non-trivial values *)
Example C20_nonvacuous :
  radio_width 18 = Some 20 /\ 0 <= 917510 < 2 ^ 20 /\ spec_scheme 18 917510 = Some ITDMA /\
  radio_width 1 = Some 19 /\ 0 <= 49235 < 2 ^ 19 /\
  get_communication_state 1 49235 =
    Ok [("received_stations"%string, Some 83); ("slot_number"%string, None); ("utc_hour"%string, None);
        ("utc_minute"%string, None); ("slot_offset"%string, None); ("slot_timeout"%string, Some 3);
        ("sync_state"%string, Some 0); ("keep_flag"%string, None); ("slot_increment"%string, None);
        ("num_slots"%string, None)].
Proof. vm_compute. repeat split; discriminate. Qed.
