(* C10 -- the checksum flag is true exactly when the NMEA checksum matches.
   Statements only; proofs live in Proofs/NmeaProofs.v.  Model: Model/Nmea.v (produce), Model/AssembleIter.v
   (assemble_from_iterable), Model/DecodeApi.v (decode); specification: Spec/ChecksumSpec.v.
   A sentence text is  sentence_text d body h1 h2 = d :: body ++ "*" ++ [h1; h2]  with body free of '*'.
   Scope (DESIGN 7/C10): checksum fields that are not exactly two hex digits are modelled (for C05) but nothing is
   claimed about them here. *)
From Coq Require Import ZArith List Bool.
Require Import Prim.Exn Prim.PyBytes Model.Sentence Model.AssembleIter Model.Nmea Model.DecodeApi Spec.ChecksumSpec
               Proofs.NmeaProofs.
Import ListNotations.
Open Scope Z_scope.

(* substituting one byte by a different byte changes the XOR: no single-byte corruption can keep the checksum *)
Theorem C10_xor_subst : forall l1 b b' l2, b <> b' -> xor_bytes (l1 ++ b :: l2) <> xor_bytes (l1 ++ b' :: l2).
Proof. exact xor_subst. Qed.
Print Assumptions C10_xor_subst.

(* a parsed sentence is flagged valid iff the two hex digits after '*' (either case) equal the XOR of all bytes between
   the start delimiter and '*'.  d is any start delimiter other than '*', a blank (stripped) or the tag-block mark. *)
Theorem C10_valid_iff : forall d body h1 h2 v s,
  is_space d = false -> d <> 92 -> d <> 42 ->
  star_free body = true -> hexval h1 h2 = Some v ->
  produce (sentence_text d body h1 h2) = Ok s ->
  c_is_valid (sentence_common s) = (v =? xor_bytes body).
Proof. exact valid_iff. Qed.
Print Assumptions C10_valid_iff.

(* the same for a sentence behind a tag block  \ tb \ sentence : the tag block does not take part *)
Theorem C10_valid_iff_tag_block : forall tb d body h1 h2 v s,
  sep_free 92 tb -> d <> 42 -> star_free body = true -> hexval h1 h2 = Some v ->
  produce (92 :: tb ++ 92 :: sentence_text d body h1 h2) = Ok s ->
  c_is_valid (sentence_common s) = (v =? xor_bytes body).
Proof. exact valid_iff_tag_block. Qed.
Print Assumptions C10_valid_iff_tag_block.

(* an assembled multi-part message is valid iff all of its parts are *)
Theorem C10_assembled_valid : forall parts s, assemble_from_iterable parts = Ok s ->
  c_is_valid (a_common s) = forallb ais_valid parts.
Proof. exact assembled_valid. Qed.
Print Assumptions C10_assembled_valid.

(* ... also as seen through decode_nmea_and_ais: the returned sentence carries the conjunction over the AIS parts *)
Theorem C10_decode_flag : forall strict parts s msg, decode_api strict parts = Ok (s, msg) ->
  exists ss, parse_all parts = Ok ss /\ c_is_valid (a_common s) = forallb ais_valid (ais_of ss).
Proof. exact decode_flag. Qed.
Print Assumptions C10_decode_flag.

(* strict mode: if all parts parse, decode(..., error_if_checksum_invalid=True) raises InvalidNMEAChecksum exactly when
   some part is invalid, and otherwise returns the same as lenient decoding *)
Theorem C10_strict_iff : forall parts ss, parse_all parts = Ok ss ->
  (decode_api true parts = Raise (Lib InvalidNMEAChecksum) <-> forallb sentence_valid ss = false) /\
  (forallb sentence_valid ss = true -> decode_api true parts = decode_api false parts).
Proof. exact strict_iff. Qed.
Print Assumptions C10_strict_iff.

(* corollary: every single-byte substitution in the body of a correctly checksummed sentence that does not forge a
   checksum delimiter is rejected by the parser or flagged invalid ... *)
Theorem C10_substitution_detected : forall d l1 b b' l2 h1 h2,
  is_space d = false -> d <> 92 -> d <> 42 ->
  star_free (l1 ++ b :: l2) = true -> hexval h1 h2 = Some (xor_bytes (l1 ++ b :: l2)) ->
  b' <> b -> b' <> 42 ->
  match produce (sentence_text d (l1 ++ b' :: l2) h1 h2) with
  | Ok s => c_is_valid (sentence_common s) = false
  | Raise _ => True
  end.
Proof. exact substitution_detected. Qed.
Print Assumptions C10_substitution_detected.

(* ... and never yields a message in strict mode *)
Theorem C10_substitution_rejected_strict : forall d l1 b b' l2 h1 h2,
  is_space d = false -> d <> 92 -> d <> 42 ->
  star_free (l1 ++ b :: l2) = true -> hexval h1 h2 = Some (xor_bytes (l1 ++ b :: l2)) ->
  b' <> b -> b' <> 42 ->
  is_ok (decode_api true [sentence_text d (l1 ++ b' :: l2) h1 h2]) = false.
Proof. exact substitution_rejected_strict. Qed.
Print Assumptions C10_substitution_rejected_strict.

(* non-vacuity: a real sentence meets the hypotheses, parses and is flagged valid; its corruption parses and is flagged
   invalid; a two-part message with one bad part assembles to an invalid message and is refused in strict mode *)
Example C10_nonvacuous :
  let body := [65; 73; 86; 68; 77; 44; 49; 44; 49; 44; 44; 66; 44; 49; 53; 77; 54; 55; 70; 67; 48; 48; 48; 71; 63; 117; 102; 98; 69; 96; 70; 101; 112; 84; 64; 51; 110; 48; 48; 83; 97; 44; 48] in
  let body' := [65; 73; 86; 68; 77; 44; 49; 44; 49; 44; 44; 66; 44; 49; 53; 78; 54; 55; 70; 67; 48; 48; 48; 71; 63; 117; 102; 98; 69; 96; 70; 101; 112; 84; 64; 51; 110; 48; 48; 83; 97; 44; 48] in
  star_free body = true /\ hexval 53 67 = Some (xor_bytes body) /\
  (match produce (sentence_text 33 body 53 67) with Ok s => c_is_valid (sentence_common s) | Raise _ => false end) = true /\
  (match produce (sentence_text 33 body' 53 67) with Ok s => negb (c_is_valid (sentence_common s)) | Raise _ => false end) = true /\
  is_ok (decode_api true [sentence_text 33 body 53 67]) = true /\
  (match decode_api false [[33; 65; 73; 86; 68; 77; 44; 50; 44; 49; 44; 49; 44; 65; 44; 53; 51; 56; 67; 81; 62; 48; 50; 65; 59; 104; 63; 68; 57; 81; 67; 56; 48; 48; 112; 117; 56; 64; 84; 62; 48; 80; 52; 108; 57; 69; 56; 76; 48; 48; 48; 48; 48; 49; 55; 65; 104; 58; 59; 59; 53; 114; 53; 48; 65; 104; 109; 53; 59; 67; 48; 44; 48; 42; 48; 55]; [33; 65; 73; 86; 68; 77; 44; 50; 44; 50; 44; 49; 44; 65; 44; 70; 64; 86; 64; 48; 48; 48; 48; 48; 48; 48; 48; 48; 48; 48; 44; 50; 42; 70; 70]] with
   | Ok (s, _) => negb (c_is_valid (a_common s)) | Raise _ => false end) = true /\
  decode_api true [[33; 65; 73; 86; 68; 77; 44; 50; 44; 49; 44; 49; 44; 65; 44; 53; 51; 56; 67; 81; 62; 48; 50; 65; 59; 104; 63; 68; 57; 81; 67; 56; 48; 48; 112; 117; 56; 64; 84; 62; 48; 80; 52; 108; 57; 69; 56; 76; 48; 48; 48; 48; 48; 49; 55; 65; 104; 58; 59; 59; 53; 114; 53; 48; 65; 104; 109; 53; 59; 67; 48; 44; 48; 42; 48; 55]; [33; 65; 73; 86; 68; 77; 44; 50; 44; 50; 44; 49; 44; 65; 44; 70; 64; 86; 64; 48; 48; 48; 48; 48; 48; 48; 48; 48; 48; 48; 44; 50; 42; 70; 70]] = Raise (Lib InvalidNMEAChecksum) /\
  is_ok (decode_api true [[33; 65; 73; 86; 68; 77; 44; 50; 44; 49; 44; 49; 44; 65; 44; 53; 51; 56; 67; 81; 62; 48; 50; 65; 59; 104; 63; 68; 57; 81; 67; 56; 48; 48; 112; 117; 56; 64; 84; 62; 48; 80; 52; 108; 57; 69; 56; 76; 48; 48; 48; 48; 48; 49; 55; 65; 104; 58; 59; 59; 53; 114; 53; 48; 65; 104; 109; 53; 59; 67; 48; 44; 48; 42; 48; 55]; [33; 65; 73; 86; 68; 77; 44; 50; 44; 50; 44; 49; 44; 65; 44; 70; 64; 86; 64; 48; 48; 48; 48; 48; 48; 48; 48; 48; 48; 48; 44; 50; 42; 51; 53]]) = true.
Proof. vm_compute. repeat split; reflexivity. Qed.
