(* C02 -- encode then decode returns the message that was encoded.
   Statements only; proofs live in Proofs/RoundTrip*.v.  The functions are the hand-written model of
   Payload.create / to_bitarray / from_bitarray, util.int_to_bin / str_to_bin / bytes2bits / encode_ascii_6 /
   decode_into_bit_array (Model/Codec.v) over the tables regenerated from pyais on every run (Gen/); the demand is
   Spec/RoundTripSpec.v (in_range / normalise over the hand-transcribed ITU layouts of Spec/Layout.v).
   Sentence framing (encode.ais_to_nmea_0183) and parsing are other layers (C09, C04): the statements stop at the
   payload: decode_bits (to_bitarray (create ...)) and the armoring pair. *)
From Coq Require Import ZArith List Bool String.
Require Import Prim.Exn Prim.Bits Model.FieldTypes Gen.GenTables Model.Codec Spec.Layout Spec.RoundTripSpec.
Require Import Proofs.RoundTripBits Proofs.RoundTripLoops Proofs.RoundTripKinds Proofs.RoundTripField
               Proofs.RoundTripDispatch Proofs.RoundTrip Proofs.RoundTripTol.
Import ListNotations.
Open Scope Z_scope.

(* The full statement.  For every layout variant v and every in-range assignment a (field name -> value, the fields
   without a default and the discriminator fields present): creating the message of v's type from a, serialising it
   and decoding the payload gives a message of v's class in which every supplied field has its normalised value
   ([c02_holds_for], Proofs/RoundTrip.v: exists vs b vs', create_msg = Ok (cls_of v, vs) /\ to_bitarray = Ok b /\
   decode_bits b = Ok (cls_of v, vs') /\ agrees vs' (normalise v a)). *)
Definition C02_statement : Prop :=
  forall v a, in_range v a = true -> c02_holds_for v a.

(* The unchanged code violates it on three families of inputs (known findings, see known_findings.json); each
   witness is a concrete in-range assignment, evaluated by vm_compute on the model of the code as it is. *)
Theorem C02_refuted : ~ C02_statement.
Proof.
  intros H. destruct c02_witness_inherited_type as (R & _ & N). exact (N (H _ _ R)).
Qed.
Print Assumptions C02_refuted.

Theorem C02_refuted_inherited_type :
  in_range V13 [("mmsi"%string, SInt 1)] = true /\ c02_inherited_type V13 [("mmsi"%string, SInt 1)] = true /\
  ~ c02_holds_for V13 [("mmsi"%string, SInt 1)].
Proof. exact c02_witness_inherited_type. Qed.
Print Assumptions C02_refuted_inherited_type.

Theorem C02_refuted_short_data :
  in_range V26BroadcastUnstructured witness_short_data = true /\
  c02_short_data26 V26BroadcastUnstructured witness_short_data = true /\
  ~ c02_holds_for V26BroadcastUnstructured witness_short_data.
Proof. exact c02_witness_short_data. Qed.
Print Assumptions C02_refuted_short_data.

Theorem C02_refuted_empty_text :
  in_range V12 witness_empty_text = true /\ c02_empty_varlen V12 witness_empty_text = true /\
  ~ c02_holds_for V12 witness_empty_text.
Proof. exact c02_witness_empty_text. Qed.
Print Assumptions C02_refuted_empty_text.

Theorem C02_refuted_empty_data :
  in_range V8 witness_empty_data = true /\ c02_empty_varlen V8 witness_empty_data = true /\
  ~ c02_holds_for V8 witness_empty_data.
Proof. exact c02_witness_empty_data. Qed.
Print Assumptions C02_refuted_empty_data.

(* The statement with exactly those inputs excluded: c02_guard = not (binary data shorter than its field although
   another field follows: type 26) and not (type 2/3/11/13 without an explicit msg_type) and not (an empty
   variable-length text or empty binary data).  Unbounded: all 35 variants, all assignments, all values. *)
Theorem C02_partial : forall v a, in_range v a = true -> c02_guard v a = true -> c02_holds_for v a.
Proof. exact c02_partial. Qed.
Print Assumptions C02_partial.

(* the decoded class is the one the API documents for the variant *)
Theorem C02_class_names : forall v, class_name (cls_of v) = variant_class v.
Proof.
  intros v. pose proof class_names as K. rewrite forallb_forall in K.
  apply String.eqb_eq. apply K. apply in_all_variants.
Qed.
Print Assumptions C02_class_names.

(* Tolerance corollary: a scaled quantity comes back within one wire step (truncating converters; strictly less),
   a position within half a wire step plus half a unit of the sixth decimal that the decoder reports; the wire code
   of a position is the nearest one; values the decoder can report come back unchanged (for the rate of turn: all 256
   codes). *)
Theorem C02_tolerance : forall k x n d tn td st,
  real_of x = Some (n, d) -> tolerance k = Some (tn, td, st) ->
  exists yn yd, normalise_kind k x = SFrac yn yd /\ 0 < yd /\ within st tn td n d yn yd = true.
Proof. exact tolerance_ok. Qed.
Print Assumptions C02_tolerance.

(* The property's literal tolerance for positions is HALF a wire step (1/1200000 degree).  The decoder reports the wire
   code rounded to six decimals (pinned by tests/test_decode.py::test_that_lat_and_long_are_rounded_correctly), which can
   add up to 5e-7: the literal clause is false of the code -- known finding "beyond-half-step".  Witness: lat = 0.00000084
   is sent as code 1 (the nearest, C02_position_code_nearest) and reported as 0.000002, 1.16e-6 away.  What IS proved
   (C02_tolerance) is the bound half a step + half a unit of the sixth decimal. *)
Theorem C02_refuted_half_step :
  exists n d y yd, 0 < d /\ normalise_kind KLL (SFrac n d) = SFrac y yd /\ within false 1 1200000 n d y yd = false /\
                   within false 8 6000000 n d y yd = true.
Proof. exists 84, 100000000, 2, 1000000. vm_compute. repeat split; reflexivity. Qed.
Print Assumptions C02_refuted_half_step.


Theorem C02_position_code_nearest : forall scale n d, 0 < d -> 2 * Z.abs (code_near scale n d * d - n * scale) <= d.
Proof. exact position_code_nearest. Qed.
Print Assumptions C02_position_code_nearest.

Theorem C02_representable_unchanged : forall k c,
  match k with
  | KU10 | KI10 => normalise_kind k (SFrac c 10) = SFrac c 10
  | KF1 => normalise_kind k (SFrac c 1) = SFrac c 1
  | KLL => let y := SFrac (round_half_even (c * 1000000) 600000) 1000000 in normalise_kind k y = y
  | KLL600 => let y := SFrac (round_half_even (c * 1000000) 600) 1000000 in normalise_kind k y = y
  | _ => True
  end.
Proof. exact representable_unchanged. Qed.
Print Assumptions C02_representable_unchanged.

Theorem C02_turn_roundtrip : forall c, -128 <= c <= 127 -> turn_code_stable c = true.
Proof. exact turn_roundtrip. Qed.
Print Assumptions C02_turn_roundtrip.

(* building blocks, stated at full strength *)
Theorem C02_int_roundtrip_unsigned : forall w x, (0 < w)%nat -> 0 <= x <= 2 ^ Z.of_nat w - 1 ->
  exists b, int_to_bin x w false = Ok b /\ List.length b = w /\
            Z.shiftr (from_bytes_u b) (Z.of_nat (pad_len (List.length b))) = x.
Proof. exact int_roundtrip_unsigned. Qed.
Print Assumptions C02_int_roundtrip_unsigned.

Theorem C02_int_roundtrip_signed : forall w x, (0 < w)%nat -> - 2 ^ (Z.of_nat w - 1) <= x < 2 ^ (Z.of_nat w - 1) ->
  exists b, int_to_bin x w true = Ok b /\ List.length b = w /\
            Z.shiftr (from_bytes_s b) (Z.of_nat (pad_len (List.length b))) = x.
Proof. exact int_roundtrip_signed. Qed.
Print Assumptions C02_int_roundtrip_signed.

Theorem C02_armor_roundtrip : forall b : bits,
  exists p fill, encode_ascii_6 b = Ok (p, fill) /\ fill = fill_of (List.length b) /\
                 decode_into_bit_array p (Z.of_nat fill) = Ok b /\ (b <> [] -> p <> []).
Proof. exact armor_roundtrip. Qed.
Print Assumptions C02_armor_roundtrip.

Theorem C02_fields_roundtrip : forall fs bss pre, shape fs bss ->
  from_bitarray_loop fs (pre ++ List.concat bss) (List.length pre) (List.length pre)
  = mapM (fun fb => decode_one (fst fb) (snd fb)) (combine fs bss).
Proof. exact fields_roundtrip. Qed.
Print Assumptions C02_fields_roundtrip.

Theorem C02_variant_consistent : forall b v, spec_variant b = Some v -> (disc_end v <= List.length b)%nat ->
  exists dt ct, assoc_z (get_int b 0 6 false) Gen.GenDispatch.msg_class_table = Some (dt, ct) /\
                run_dtree dt b = Ok (cls_of v).
Proof. exact dispatch_matches_spec. Qed.
Print Assumptions C02_variant_consistent.

(* non-vacuity: a concrete non-trivial assignment satisfies the hypotheses of C02_partial (a class A position report
   with a real position, a rate of turn, text-free; and a type 12 message with text), and what it decodes to *)
Example C02_nonvacuous :
  let a1 := [("mmsi"%string, SInt 366053209); ("lon"%string, SFrac (-122345678) 1000000);
             ("lat"%string, SFrac 374215 10000); ("speed"%string, SFrac 123 10); ("turn"%string, SInt 25);
             ("status"%string, SInt 5)] in
  let a2 := [("msg_type"%string, SInt 12); ("mmsi"%string, SInt 1); ("dest_mmsi"%string, SInt 2);
             ("text"%string, SText [104; 105; 32; 64; 120])] in
  in_range V1 a1 = true /\ c02_guard V1 a1 = true /\
  normalise V1 a1 = [("mmsi"%string, SInt 366053209); ("lon"%string, SFrac (-122345678) 1000000);
                     ("lat"%string, SFrac 37421500 1000000); ("speed"%string, SFrac 123 10);
                     ("turn"%string, SFrac 26 1); ("status"%string, SEnum SE_NavigationStatus 5 true)] /\
  in_range V12 a2 = true /\ c02_guard V12 a2 = true /\
  normalise V12 a2 = [("msg_type"%string, SInt 12); ("mmsi"%string, SInt 1); ("dest_mmsi"%string, SInt 2);
                      ("text"%string, SText [72; 73])].
Proof. vm_compute. repeat split; reflexivity. Qed.

(* ================================================================================================ *)
(* Composition with the framing and the decoder entry point (Proofs/EndToEndC02.v over Proofs/EndToEnd.v):
   C02_partial through the REAL public path
       create -> to_bitarray -> encode_ascii_6 -> ais_to_nmea_0183 -> produce -> _assemble_messages -> decode
   i.e. pyais.decode( *pyais.encode_msg(cls.create( **a )) ) and pyais.decode( *pyais.encode_dict({type, **a}) ). *)
Require Import Model.Frame Model.Sentence Model.DecodeApi Proofs.EndToEndC02.

(* Same hypotheses as C02_partial, nothing added: for every variant, every in-range assignment outside the guards,
   both talkers and both channels, [c02_e2e_holds_for] (Proofs/EndToEndC02.v):
     exists vs ss nmea vs',
       create_msg (type_id v) (kwargs_of a) = Ok (cls_of v, vs)                                  the message is built,
       encode_msg (cls_of v, vs) talker chan = Ok ss                                              encode_msg frames it,
       encode_dict (("type", type_id v) :: kwargs_of a) talker chan = Ok ss                       encode_dict, key `type`,
       (lookup_s "msg_type" a <> None -> encode_dict (kwargs_of a) talker chan = Ok ss)           encode_dict, key `msg_type`,
       decode_api false ss = Ok (nmea, (cls_of v, vs'))                                           decode( *ss ) accepts,
       agrees (cls_of v) vs' (normalise v a)                                                      every supplied field is back.
   The bound the framing composition needs (at most 1800 bits = five sentences) is no hypothesis: C02_payload_bound
   below proves from the regenerated tables that every class serialises to at most 1064 bits. *)
Theorem C02_end_to_end : forall v a (talker channel : list Z),
  (talker = frm_AIVDM \/ talker = frm_AIVDO) -> (channel = [65] \/ channel = [66]) ->
  in_range v a = true -> c02_guard v a = true -> c02_e2e_holds_for v a talker channel.
Proof. exact c02_end_to_end. Qed.
Print Assumptions C02_end_to_end.

(* to_bitarray cuts every field to its width, and the widths of every class add up to at most 1064 (5 slots) *)
Theorem C02_payload_bound : forall c vs b, to_bitarray c vs = Ok b -> (List.length b <= 1064)%nat.
Proof. exact to_bitarray_bound. Qed.
Print Assumptions C02_payload_bound.

(* the `type` key of a dictionary handed to encode_dict reaches get_ais_type only: create() ignores it *)
Theorem C02_type_key_ignored_by_create : forall t x kw, create_msg t (("type"%string, x) :: kw) = create_msg t kw.
Proof. exact create_msg_skip_type. Qed.
Print Assumptions C02_type_key_ignored_by_create.

(* non-vacuity, by vm_compute on the models: a two-sentence message (type 5: name, destination, draught) through
   encode_dict with the key `type` on AIVDO / B, and a type 12 text message whose type is supplied as `msg_type` on
   AIVDM / A; both satisfy the hypotheses of C02_end_to_end, are framed, decoded by decode_api, and the supplied fields
   come back normalised (text upper-cased and cut at '@') *)
Example C02_end_to_end_nonvacuous :
  let a5 := [("mmsi"%string, SInt 351759000); ("shipname"%string, SText [69; 86; 69; 82; 32; 68; 73; 65; 68; 69; 77]);
             ("destination"%string, SText [110; 101; 119; 32; 121; 111; 114; 107]); ("draught"%string, SFrac 122 10)] in
  let a12 := [("msg_type"%string, SInt 12); ("mmsi"%string, SInt 1); ("dest_mmsi"%string, SInt 2);
              ("text"%string, SText [104; 105; 32; 64; 120])] in
  in_range V5 a5 = true /\ c02_guard V5 a5 = true /\
  (exists s1 s2 nmea vs,
     encode_dict (("type"%string, VInt 5) :: kwargs_of a5) frm_AIVDO [66] = Ok [s1; s2] /\
     decode_api false [s1; s2] = Ok (nmea, (MessageType5, vs)) /\
     nth 2 vs VNone = VInt 351759000 /\ nth 6 vs VNone = VStr [69; 86; 69; 82; 32; 68; 73; 65; 68; 69; 77] /\
     nth 17 vs VNone = VFloat 122 10 /\ nth 18 vs VNone = VStr [78; 69; 87; 32; 89; 79; 82; 75]) /\
  in_range V12 a12 = true /\ c02_guard V12 a12 = true /\ lookup_s "msg_type"%string a12 <> None /\
  (exists nmea,
     encode_dict (kwargs_of a12) frm_AIVDM [65]
     = Ok [[33; 65; 73; 86; 68; 77; 44; 49; 44; 49; 44; 44; 65; 44; 60; 48; 48; 48; 48; 48; 64; 48; 48; 48; 48; 56; 56;
            57; 80; 48; 72; 44; 48; 42; 55; 66]] /\                          (* !AIVDM,1,1,,A,<00000@0000889P0H,0*7B *)
     decode_api false [[33; 65; 73; 86; 68; 77; 44; 49; 44; 49; 44; 44; 65; 44; 60; 48; 48; 48; 48; 48; 64; 48; 48; 48;
                        48; 56; 56; 57; 80; 48; 72; 44; 48; 42; 55; 66]]
     = Ok (nmea, (MessageType12, [VInt 12; VInt 0; VInt 1; VInt 0; VInt 2; VBool false; VBytes [0]; VStr [72; 73]]))).
Proof.
  cbv zeta. split; [vm_compute; reflexivity|]. split; [vm_compute; reflexivity|].
  split.
  { eexists. eexists. eexists. eexists. split; [vm_compute; reflexivity|]. split; [vm_compute; reflexivity|].
    repeat split; vm_compute; reflexivity. }
  split; [vm_compute; reflexivity|]. split; [vm_compute; reflexivity|]. split; [discriminate|].
  eexists. split; vm_compute; reflexivity.
Qed.
