(* Python integer formatting used by encode.ais_to_nmea_0183's template "!{},{},{},{},{},{},{}*{:02X}":
     '{}'.format(n)     for an int n  = str(n)             -> [fmt_dec n]
     '{:02X}'.format(n) for an int n                       -> [fmt_02X n]
   Strings are lists of character codes (Z).  No proofs in this file (they are in Proofs/FrameProofs.v);
   validated against CPython by the micro-harness of tools/props/C09.py (command "fmt"). *)
From Coq Require Import ZArith List.
Import ListNotations.
Open Scope Z_scope.

(* digits of n > 0 in the given base, most significant first, pushed in front of [acc]; [fuel] >= number of digits *)
Fixpoint fmt_digits_fuel (digit : Z -> Z) (base : Z) (fuel : nat) (n : Z) (acc : list Z) : list Z :=
  match fuel with
  | O => acc
  | S f =>
    let acc' := digit (n mod base) :: acc in
    if n <? base then acc' else fmt_digits_fuel digit base f (n / base) acc'
  end.

Definition fmt_dec_digit (d : Z) : Z := 48 + d.                                  (* '0'..'9' *)
Definition fmt_hex_digit_upper (d : Z) : Z := if d <? 10 then 48 + d else 55 + d.  (* '0'..'9', 'A'..'F' *)

(* the number of binary digits bounds the number of digits in any base >= 2 *)
Definition fmt_pos_digits (digit : Z -> Z) (base : Z) (p : positive) : list Z :=
  fmt_digits_fuel digit base (Pos.size_nat p) (Zpos p) [].

(* str(n) *)
Definition fmt_dec (n : Z) : list Z :=
  match n with
  | Z0 => [48]
  | Zpos p => fmt_pos_digits fmt_dec_digit 10 p
  | Zneg p => 45 :: fmt_pos_digits fmt_dec_digit 10 p
  end.

(* format(n, '02X'): upper-case hex, sign first, zero-padded (after the sign) to a total width of 2 *)
Definition fmt_02X (n : Z) : list Z :=
  match n with
  | Z0 => [48; 48]
  | Zpos p => let ds := fmt_pos_digits fmt_hex_digit_upper 16 p in
              match ds with [d] => [48; d] | _ => ds end
  | Zneg p => 45 :: fmt_pos_digits fmt_hex_digit_upper 16 p
  end.
