(* bytes.splitlines(keepends=True) of CPython, for *bytes* objects: the only line breaks are LF (10), CR (13) and
   the pair CR LF, which counts as ONE break (str.splitlines knows more; bytes does not).

   Transcription of Objects/stringlib/split.h, STRINGLIB(splitlines), with keepends = 1:

       for (i = j = 0; i < str_len; ) {
           while (i < str_len && !ISLINEBREAK(str[i])) i++;          -- the line's content: [cur] below
           eol = i;
           if (i < str_len) {
               if (str[i] == '\r' && i + 1 < str_len && str[i+1] == '\n') i += 2; else i++;
               if (keepends) eol = i;
           }
           SPLIT_ADD(str, j, eol);  j = i;
       }

   [splitlines_from cur s]: [cur] = the bytes str[j..i) scanned so far of the current line, [s] = str[i..).
   A byte string is a [list Z] (values 0..255; nothing here depends on the range).
   Validated against CPython on every run by tools/props/C06.py: exhaustively on all strings of length <= 8 over
   {a, CR, LF} (9841 strings) plus random strings over a wider alphabet. *)
From Coq Require Import List ZArith Bool.
Import ListNotations.
Open Scope Z_scope.

Definition LF : Z := 10.
Definition CR : Z := 13.

Fixpoint splitlines_from (cur : list Z) (s : list Z) : list (list Z) :=
  match s with
  | [] => match cur with [] => [] | _ => [cur] end            (* i = str_len: SPLIT_ADD only if j < i *)
  | c :: r =>
    if c =? LF then (cur ++ [LF]) :: splitlines_from [] r
    else if c =? CR then
      match r with
      | c2 :: r2 =>
        if c2 =? LF then (cur ++ [CR; LF]) :: splitlines_from [] r2      (* i += 2 *)
        else (cur ++ [CR]) :: splitlines_from [] r                       (* i++   *)
      | [] => [cur ++ [CR]]
      end
    else splitlines_from (cur ++ [c]) r
  end.

(* b.splitlines(keepends=True) *)
Definition splitlines (s : list Z) : list (list Z) := splitlines_from [] s.

(* b.endswith(bytes([c])) for a one-byte suffix *)
Definition endswith1 (b : list Z) (c : Z) : bool :=
  match rev b with
  | x :: _ => x =? c
  | [] => false
  end.
