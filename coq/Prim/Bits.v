(* Bit strings as [list bool], index 0 = first transmitted bit (bitarray order, big endian). *)
From Coq Require Import List Bool ZArith NArith Lia.
Import ListNotations.
Open Scope Z_scope.

Definition bits := list bool.

Definition b2z (b : bool) : Z := if b then 1 else 0.

(* big-endian unsigned value, accumulator style (mirrors int.from_bytes(..., 'big')) *)
Fixpoint ubits_acc (acc : Z) (b : bits) : Z :=
  match b with
  | [] => acc
  | x :: r => ubits_acc (2 * acc + b2z x) r
  end.
Definition ubits (b : bits) : Z := ubits_acc 0 b.

(* two's complement reading of a bit string (first bit = sign); empty -> 0 *)
Definition sbits (b : bits) : Z :=
  match b with
  | [] => 0
  | s :: _ => if s then ubits b - 2 ^ Z.of_nat (length b) else ubits b
  end.

(* bitarray.tobytes(): pad with zero bits up to a whole number of bytes *)
Definition pad_len (n : nat) : nat := ((8 - (n mod 8)) mod 8)%nat.
Definition pad8 (b : bits) : bits := b ++ repeat false (pad_len (length b)).

(* int.from_bytes(bitarray, 'big') and the signed variant: read the padded bytes *)
Definition from_bytes_u (b : bits) : Z := ubits (pad8 b).
Definition from_bytes_s (b : bits) : Z := sbits (pad8 b).

(* Python slicing b[lo:hi] for 0 <= lo, 0 <= hi *)
Definition slice {A} (l : list A) (lo hi : nat) : list A := firstn (hi - lo) (skipn lo l).

(* util.get_int(data, lo, hi, signed): shift from the *requested* width, bytes from the actual slice *)
Definition get_int (data : bits) (lo hi : nat) (signed : bool) : Z :=
  let shift := pad_len (hi - lo) in
  let d := slice data lo hi in
  Z.shiftr (if signed then from_bytes_s d else from_bytes_u d) (Z.of_nat shift).

(* f'{c:06b}' for 0 <= c < 64 : exactly [w] bits, most significant first *)
Fixpoint z_to_bits (w : nat) (z : Z) : bits :=
  match w with
  | O => []
  | S w' => Z.testbit z (Z.of_nat w') :: z_to_bits w' z
  end.

(* bytes <-> bits *)
Definition byte_to_bits (n : Z) : bits := z_to_bits 8 n.
Definition bytes_to_bits (bs : list Z) : bits := flat_map byte_to_bits bs.

Fixpoint chunks_fuel {A} (fuel : nat) (n : nat) (l : list A) : list (list A) :=
  match fuel with
  | O => []
  | S f => match l with
           | [] => []
           | _ => firstn n l :: chunks_fuel f n (skipn n l)
           end
  end.
(* util.chunks(sequence, n) for n > 0 *)
Definition chunks {A} (n : nat) (l : list A) : list (list A) := chunks_fuel (length l) n l.

(* bitarray.tobytes() as a list of byte values *)
Definition bits_to_bytes (b : bits) : list Z := map ubits (chunks 8 (pad8 b)).
