(* A decoded AIS message as the filter code sees it: a Python object whose attributes are read with
   hasattr / getattr / getattr-with-default and whose values are tested with `is None`, truthiness and
   numeric comparison.  Nothing else of an object is observable to pyais/filter.py.

   A value is None, a number (int, bool, IntEnum, float, float enum: the exact value as a rational) or some
   other object (str, bytes, tuple; only its truthiness is kept).

   READING an attribute is not a pure lookup.  A name the object has is either a stored field (reading returns the
   stored value) or a COMPUTED attribute -- a Python property such as `is_sotdma`, `is_itdma`,
   `communication_state_raw` of CommunicationStateMixin -- whose getter runs code on every read and either returns a
   value or raises (TypeError when `radio` is None on a truncated type 9/18/26 report).  The map therefore records,
   per name, the OUTCOME of evaluating `msg.<name>`: [Ok v] or [Raise e].  A name that is not in the map is absent
   (evaluating it raises AttributeError; a getter that itself raises AttributeError is indistinguishable from that
   for hasattr / getattr, and is treated the same way below through [try_except]).
   `msg_type` is kept as a field of its own (it is an int on every decoded message). *)
From Coq Require Import ZArith List Bool String.
Require Import Prim.Exn Prim.Rat.
Import ListNotations.
Open Scope Z_scope.
Open Scope exn_scope.

Inductive aval :=
| ANone
| ANum (q : ratio)
| AOther (truthy : bool).

Record pymsg := mkPyMsg { pm_type : Z; pm_attrs : list (string * M aval) }.

Fixpoint py_attr_lookup (l : list (string * M aval)) (name : string) : option (M aval) :=
  match l with
  | [] => None
  | (k, v) :: r => if String.eqb name k then Some v else py_attr_lookup r name
  end.

(* msg.<name>  /  getattr(msg, name) : the stored value, the outcome of the getter, AttributeError when absent *)
Definition py_getattr (m : pymsg) (name : string) : M aval :=
  match py_attr_lookup (pm_attrs m) name with Some r => r | None => Raise (Py AttributeError) end.

(* hasattr(msg, name): evaluates getattr(msg, name); AttributeError -> False, any other exception propagates *)
Definition py_hasattr (m : pymsg) (name : string) : M bool :=
  try_except (_ <- py_getattr m name ;; Ok true) [HPy AttributeError] (fun _ => Ok false).

(* getattr(msg, name, default): evaluates getattr(msg, name); AttributeError -> default, any other exception
   propagates (the three-argument form absorbs AttributeError only) *)
Definition py_getattr_d (m : pymsg) (name : string) (default : aval) : M aval :=
  try_except (py_getattr m name) [HPy AttributeError] (fun _ => Ok default).

(* v is not None *)
Definition py_is_not_none (v : aval) : bool := match v with ANone => false | _ => true end.

(* bool(v) *)
Definition py_truthy (v : aval) : bool :=
  match v with ANone => false | ANum q => negb (ratio_is_zero q) | AOther t => t end.

(* a <= b : defined between numbers; None or str/bytes against a number is a TypeError.  (Two non-numbers are
   never compared by the modelled code: one side is always a filter parameter.) *)
Definition py_le (a b : aval) : M bool :=
  match a, b with
  | ANum x, ANum y => Ok (ratio_leb x y)
  | _, _ => Raise (Py TypeError)
  end.

Definition py_lt (a b : aval) : M bool :=
  match a, b with
  | ANum x, ANum y => Ok (ratio_ltb x y)
  | _, _ => Raise (Py TypeError)
  end.

(* math.radians(v) accepts real numbers only: TypeError otherwise.  The value is returned unconverted, the
   trigonometry is not modelled (see Model/Filter.v, [dist]). *)
Definition py_as_real (v : aval) : M ratio :=
  match v with ANum q => Ok q | _ => Raise (Py TypeError) end.

(* ---- the shape of a DECODED message (boolean; evaluated by the harness, through the extracted code, on every
   really decoded message it generates -- an internal error of the check if one falls outside) --------------- *)

(* lat / lon, where the message has them, are stored fields holding None or a number: never a str, never a
   computed attribute that raises *)
Definition py_coord_ok (m : pymsg) (name : string) : bool :=
  match py_attr_lookup (pm_attrs m) name with
  | None | Some (Ok ANone) | Some (Ok (ANum _)) => true
  | Some (Ok (AOther _)) | Some (Raise _) => false
  end.
Definition coords_numeric (m : pymsg) : bool := py_coord_ok m "lat" && py_coord_ok m "lon".

(* what a computed attribute may do: reading any attribute of the message returns a value or raises TypeError or
   ValueError (or a subclass) -- the two ways a getter fails when a field it computes from is None *)
Definition py_read_ok (r : M aval) : bool :=
  match r with Ok _ => true | Raise e => catches [HPy TypeError; HPy ValueError] e end.
Definition attr_reads_ok (m : pymsg) : bool := forallb (fun kv => py_read_ok (snd kv)) (pm_attrs m).

(* the stronger shape under which the UNREPAIRED NoneFilter was total: no read raises at all *)
Definition py_read_total (r : M aval) : bool := match r with Ok _ => true | Raise _ => false end.
Definition attr_reads_total (m : pymsg) : bool := forallb (fun kv => py_read_total (snd kv)) (pm_attrs m).
