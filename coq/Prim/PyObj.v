(* A decoded AIS message as the filter code sees it: a Python object whose attributes are read with
   hasattr / getattr / getattr-with-default and whose values are tested with `is None`, truthiness and
   numeric comparison.  Nothing else of an object is observable to pyais/filter.py.

   An attribute is absent (not in the map), present-but-None, a number (int, bool, IntEnum, float, float enum:
   the exact value as a rational) or some other object (str, bytes; only its truthiness is kept).
   `msg_type` is kept as a field of its own (it is an int on every decoded message). *)
From Coq Require Import ZArith List Bool String.
Require Import Prim.Exn Prim.Rat.
Import ListNotations.
Open Scope Z_scope.

Inductive aval :=
| ANone
| ANum (q : ratio)
| AOther (truthy : bool).

Record pymsg := mkPyMsg { pm_type : Z; pm_attrs : list (string * aval) }.

Fixpoint py_attr_lookup (l : list (string * aval)) (name : string) : option aval :=
  match l with
  | [] => None
  | (k, v) :: r => if String.eqb name k then Some v else py_attr_lookup r name
  end.

(* hasattr(msg, name) *)
Definition py_hasattr (m : pymsg) (name : string) : bool :=
  match py_attr_lookup (pm_attrs m) name with Some _ => true | None => false end.

(* msg.<name> : AttributeError when absent *)
Definition py_getattr (m : pymsg) (name : string) : M aval :=
  match py_attr_lookup (pm_attrs m) name with Some v => Ok v | None => Raise (Py AttributeError) end.

(* getattr(msg, name, default) *)
Definition py_getattr_d (m : pymsg) (name : string) (default : aval) : aval :=
  match py_attr_lookup (pm_attrs m) name with Some v => v | None => default end.

(* v is not None *)
Definition py_is_not_none (v : aval) : bool := match v with ANone => false | _ => true end.

(* bool(v) *)
Definition py_truthy (v : aval) : bool :=
  match v with ANone => false | ANum q => negb (ratio_is_zero q) | AOther t => t end.

(* a <= b : defined between numbers; None or str/bytes against a number is a TypeError.  (Two non-numbers are
   never compared by the modelled code: one side is always a filter parameter.) *)
Definition py_le (a b : aval) : M bool :=
  match a, b with
  | ANum x, ANum y => Ok (ratio_leb x y)
  | _, _ => Raise (Py TypeError)
  end.

Definition py_lt (a b : aval) : M bool :=
  match a, b with
  | ANum x, ANum y => Ok (ratio_ltb x y)
  | _, _ => Raise (Py TypeError)
  end.

(* math.radians(v) accepts real numbers only: TypeError otherwise.  The value is returned unconverted, the
   trigonometry is not modelled (see Model/Filter.v, [dist]). *)
Definition py_as_real (v : aval) : M ratio :=
  match v with ANum q => Ok q | _ => Raise (Py TypeError) end.
