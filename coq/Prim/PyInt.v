(* CPython integer primitives used by the sentence parser, modelled literally:
     int(b) / int(b, 16) for a bytes (or ASCII-only str) argument   -- Objects/longobject.c, _PyLong_FromString
     a >> n with a negative count, str.zfill(n) with n outside Py_ssize_t
     datetime.datetime(y, m, d, H, M, S, us) argument validation      -- Modules/_datetimemodule.c
   Each has a micro-harness against CPython in tools/props/nmea_common.py (run by ./check C05).  No proofs here. *)
From Coq Require Import ZArith List Bool.
Require Import Prim.Exn Prim.PyBytes.
Import ListNotations.
Open Scope Z_scope.
Local Notation length := List.length (only parsing).

(* _PyLong_DigitValue: 0-9, a-z, A-Z; everything else is not a digit *)
Definition digit_val (c : Z) : option Z :=
  if (48 <=? c) && (c <=? 57) then Some (c - 48)
  else if (97 <=? c) && (c <=? 122) then Some (c - 87)
  else if (65 <=? c) && (c <=? 90) then Some (c - 55)
  else None.

Definition is_digit (base c : Z) : bool :=
  match digit_val c with Some d => d <? base | None => false end.

Definition UNDERSCORE : Z := 95.

(* The scanning loop of long_from_binary_base / long_from_non_binary_base:
     while (digit(p[0]) < base || p[0] == '_') { if (p[0] == '_') { if (prev == '_') error; } else ++digits;
                                                  prev = p[0]; ++p; }
     if (prev == '_') error;
   Returns the digit values (most significant first) and the unread rest, or None on a doubled/trailing underscore. *)
Fixpoint scan_digits (base : Z) (s : list Z) (prev_us : bool) : option (list Z * list Z) :=
  match s with
  | [] => if prev_us then None else Some ([], [])
  | c :: r =>
    if c =? UNDERSCORE then (if prev_us then None else scan_digits base r true)
    else match digit_val c with
         | Some d =>
           if d <? base then
             match scan_digits base r false with
             | Some (ds, rest) => Some (d :: ds, rest)
             | None => None
             end
           else if prev_us then None else Some ([], s)
         | None => if prev_us then None else Some ([], s)
         end
  end.

Definition digits_value (base : Z) (ds : list Z) : Z := fold_left (fun acc d => acc * base + d) ds 0.

(* sys.int_info.default_max_str_digits; applies to bases that are not a power of two *)
Definition MAX_STR_DIGITS : Z := 4300.
Definition base_is_pow2 (base : Z) : bool := (base =? 2) || (base =? 4) || (base =? 8) || (base =? 16) || (base =? 32).

(* int(b, base) for explicit base 10 or 16 (int(b) = base 10); every failure is ValueError.
   Embedded NUL bytes, non-ASCII bytes, '+ 1', '0x' in base 10, '1__0', '_1', '1_' all fall out of the grammar:
     [ws] [+-] ['0x'|'0X' ['_']]  digit ('_'? digit)*  [ws]                                             *)
Definition py_int_bytes (base : Z) (b : list Z) : M Z :=
  let s := lstrip b in
  let '(neg, s) := match s with
                   | 43 :: r => (false, r)
                   | 45 :: r => (true, r)
                   | _ => (false, s)
                   end in
  let s := if base =? 16 then
             match s with
             | 48 :: x :: r => if (x =? 120) || (x =? 88)
                               then (match r with c :: r' => if c =? UNDERSCORE then r' else r | [] => r end)
                               else s
             | _ => s
             end
           else s in
  match s with
  | [] => Raise (Py ValueError)
  | c :: _ =>
    if c =? UNDERSCORE then Raise (Py ValueError) else
    match scan_digits base s false with
    | None => Raise (Py ValueError)
    | Some (ds, rest) =>
      if negb (base_is_pow2 base) && (MAX_STR_DIGITS <? Z.of_nat (length ds)) then Raise (Py ValueError)
      else if negb (nonempty ds) then Raise (Py ValueError)
      else if nonempty (lstrip rest) then Raise (Py ValueError)
      else let v := digits_value base ds in Ok (if neg then - v else v)
    end
  end.

(* int(s, base) for a str given as code points: an ASCII-only str goes through exactly the bytes grammar
   (PyLong_FromUnicodeObject leaves an ASCII str untouched); a str with a non-ASCII code point is outside the model
   (Unicode decimal digits and spaces are translated first). *)
Definition py_int_str (base : Z) (s : list Z) : M Z :=
  if forallb (fun c => c <? 128) s then py_int_bytes base s else Raise (Py Unmodelled).

(* ---- a >> n : ValueError("negative shift count") ---- *)
(* a huge count is answered without iterating: beyond the bit length the result is 0 (or -1 for a negative a) *)
Definition py_rshift (a n : Z) : M Z :=
  if n <? 0 then Raise (Py ValueError)
  else if Z.log2 (Z.abs a) <? n then Ok (if a <? 0 then -1 else 0)
  else Ok (Z.shiftr a n).

(* ---- str.zfill(n): the argument is converted to Py_ssize_t first (OverflowError outside [-2^63, 2^63-1]) ---- *)
Definition PY_SSIZE_T_MIN : Z := - 2 ^ 63.
Definition PY_SSIZE_T_MAX : Z := 2 ^ 63 - 1.
Definition py_zfill (n : Z) (s : list Z) : M (list Z) :=
  if (n <? PY_SSIZE_T_MIN) || (PY_SSIZE_T_MAX <? n) then Raise (Py OverflowError)
  else Ok (repeat 48 (Z.to_nat (n - Z.of_nat (length s))) ++ s).

(* ---- datetime.datetime(year, month, day, hour, minute, second, microsecond) ---- *)
Definition is_leap (y : Z) : bool := ((y mod 4 =? 0) && negb (y mod 100 =? 0)) || (y mod 400 =? 0).
Definition days_in_month (y m : Z) : Z :=
  if m =? 2 then (if is_leap y then 29 else 28)
  else if (m =? 4) || (m =? 6) || (m =? 9) || (m =? 11) then 30 else 31.

Definition C_INT_MIN : Z := - 2 ^ 31.
Definition C_INT_MAX : Z := 2 ^ 31 - 1.
Definition fits_c_int (z : Z) : bool := (C_INT_MIN <=? z) && (z <=? C_INT_MAX).

(* Ok tt when the arguments are accepted; OverflowError when one does not fit a C int (argument parsing comes first);
   ValueError when one is out of range (MINYEAR = 1, MAXYEAR = 9999). *)
Definition py_datetime_check (y mo d h mi s us : Z) : M unit :=
  if negb (forallb fits_c_int [y; mo; d; h; mi; s; us]) then Raise (Py OverflowError)
  else if negb ((1 <=? y) && (y <=? 9999)) then Raise (Py ValueError)
  else if negb ((1 <=? mo) && (mo <=? 12)) then Raise (Py ValueError)
  else if negb ((1 <=? d) && (d <=? days_in_month y mo)) then Raise (Py ValueError)
  else if negb ((0 <=? h) && (h <=? 23)) then Raise (Py ValueError)
  else if negb ((0 <=? mi) && (mi <=? 59)) then Raise (Py ValueError)
  else if negb ((0 <=? s) && (s <=? 59)) then Raise (Py ValueError)
  else if negb ((0 <=? us) && (us <=? 999999)) then Raise (Py ValueError)
  else Ok tt.
