(* Python text primitives used by the tag block code (pyais/messages.py TagBlock, TagBlockGroup,
   NMEASentenceFactory._pre_process).  Byte strings are [list Z] (0..255).

   A Python [str] that was obtained by [bytes.decode()] (UTF-8, strict) is represented by the very bytes it was
   decoded from: [decode()] succeeds iff [pt_utf8_valid]; splitting a str at an ASCII separator, comparing it with
   an ASCII literal and encoding it again are then the same operations on the bytes (UTF-8 is self-synchronising:
   no byte < 0x80 occurs inside a multi-byte sequence).

   [int(str)] / [int(str, 16)] follow CPython 3.12 PyLong_FromString on ASCII text.  For text containing non-ASCII
   characters CPython first maps every Unicode decimal digit / white space to ASCII; that table is not modelled:
   the outcome (a value, or None = ValueError) is taken from the Section variable [uni], and every theorem holds for
   all [uni].  No proofs here. *)
From Coq Require Import ZArith List Bool.
Require Import Prim.Exn.
Import ListNotations.
Open Scope Z_scope.

(* ---- bytes.split(sep) / str.split(sep) for a one-character separator ---- *)
Fixpoint pt_split (sep : Z) (b : list Z) : list (list Z) :=
  match b with
  | [] => [[]]
  | x :: r =>
      if x =? sep then [] :: pt_split sep r
      else match pt_split sep r with
           | h :: t => (x :: h) :: t
           | [] => [[x]]                       (* never: the result has at least one element *)
           end
  end.

(* split(sep, maxsplit) *)
Fixpoint pt_split_max (sep : Z) (maxsplit : nat) (b : list Z) {struct b} : list (list Z) :=
  match maxsplit with
  | O => [b]
  | S m =>
      match b with
      | [] => [[]]
      | x :: r =>
          if x =? sep then [] :: pt_split_max sep m r
          else match pt_split_max sep (S m) r with
               | h :: t => (x :: h) :: t
               | [] => [[x]]
               end
      end
  end.

(* sep.join(l) *)
Fixpoint pt_join (sep : Z) (l : list (list Z)) : list Z :=
  match l with
  | [] => []
  | x :: r => match r with [] => x | _ :: _ => x ++ sep :: pt_join sep r end
  end.

(* ---- bytes.strip(): ASCII white space = space, \t \n \v \f \r (also Py_ISSPACE of int()) ---- *)
Definition pt_is_space (c : Z) : bool := (c =? 32) || ((9 <=? c) && (c <=? 13)).
Fixpoint pt_lstrip (b : list Z) : list Z :=
  match b with
  | [] => []
  | c :: r => if pt_is_space c then pt_lstrip r else b
  end.
Definition pt_rstrip (b : list Z) : list Z := rev (pt_lstrip (rev b)).
Definition pt_strip (b : list Z) : list Z := pt_rstrip (pt_lstrip b).

(* ---- bytes.find(one byte): index of the first occurrence or -1 ---- *)
Fixpoint pt_find (c : Z) (b : list Z) : Z :=
  match b with
  | [] => -1
  | x :: r => if x =? c then 0 else let i := pt_find c r in if i <? 0 then -1 else i + 1
  end.

(* b[lo:hi] for 0 <= lo, 0 <= hi (the only slices the modelled code takes) *)
Definition pt_slice (lo hi : Z) (b : list Z) : list Z :=
  firstn (Z.to_nat (hi - lo)) (skipn (Z.to_nat lo) b).
Definition pt_slice_from (lo : Z) (b : list Z) : list Z := skipn (Z.to_nat lo) b.

(* ---- bytes.decode() (UTF-8, errors='strict') succeeds ---- *)
Definition pt_cont (c : Z) : bool := (128 <=? c) && (c <=? 191).
Fixpoint pt_utf8_valid (b : list Z) : bool :=
  match b with
  | [] => true
  | c :: r =>
      if c <? 128 then pt_utf8_valid r
      else if (194 <=? c) && (c <=? 223) then
        match r with c1 :: r1 => pt_cont c1 && pt_utf8_valid r1 | _ => false end
      else if c =? 224 then
        match r with c1 :: c2 :: r2 => (160 <=? c1) && (c1 <=? 191) && pt_cont c2 && pt_utf8_valid r2 | _ => false end
      else if ((225 <=? c) && (c <=? 236)) || (c =? 238) || (c =? 239) then
        match r with c1 :: c2 :: r2 => pt_cont c1 && pt_cont c2 && pt_utf8_valid r2 | _ => false end
      else if c =? 237 then                                            (* no surrogates *)
        match r with c1 :: c2 :: r2 => (128 <=? c1) && (c1 <=? 159) && pt_cont c2 && pt_utf8_valid r2 | _ => false end
      else if c =? 240 then
        match r with c1 :: c2 :: c3 :: r3 => (144 <=? c1) && (c1 <=? 191) && pt_cont c2 && pt_cont c3 && pt_utf8_valid r3
                | _ => false end
      else if (241 <=? c) && (c <=? 243) then
        match r with c1 :: c2 :: c3 :: r3 => pt_cont c1 && pt_cont c2 && pt_cont c3 && pt_utf8_valid r3 | _ => false end
      else if c =? 244 then                                            (* up to U+10FFFF *)
        match r with c1 :: c2 :: c3 :: r3 => (128 <=? c1) && (c1 <=? 143) && pt_cont c2 && pt_cont c3 && pt_utf8_valid r3
                | _ => false end
      else false
  end.

Definition pt_is_ascii (b : list Z) : bool := forallb (fun c => c <? 128) b.

(* ---- int(str, base) for base 10 / 16 ---- *)
(* _PyLong_DigitValue: 0-9, a-z, A-Z; 37 for everything else *)
Definition pt_digit_val (c : Z) : Z :=
  if (48 <=? c) && (c <=? 57) then c - 48
  else if (97 <=? c) && (c <=? 122) then c - 87
  else if (65 <=? c) && (c <=? 90) then c - 55
  else 37.

(* the rest of the digit run after a digit: digits, single underscores between digits, nothing else.
   acc = value so far, cnt = digits so far *)
Fixpoint pt_int_body (base acc cnt : Z) (s : list Z) {struct s} : option (Z * Z) :=
  match s with
  | [] => Some (acc, cnt)
  | c :: r =>
      if c =? 95 then
        match r with
        | d :: r' => if pt_digit_val d <? base then pt_int_body base (acc * base + pt_digit_val d) (cnt + 1) r' else None
        | [] => None                                                    (* trailing underscore *)
        end
      else if pt_digit_val c <? base then pt_int_body base (acc * base + pt_digit_val c) (cnt + 1) r
      else None
  end.

Definition pt_max_str_digits : Z := 4300.     (* sys.int_max_str_digits default; applies to base 10, not to 16 *)

Definition pt_int_ascii (base : Z) (s : list Z) : option Z :=
  let s1 := pt_strip s in
  let sg := match s1 with
            | c :: r => if c =? 43 then (false, r) else if c =? 45 then (true, r) else (false, s1)
            | [] => (false, s1)
            end in
  let s2 := snd sg in
  let s3 := if base =? 16 then
              match s2 with
              | z :: x :: r =>
                  if (z =? 48) && ((x =? 120) || (x =? 88)) then
                    match r with u :: r' => if u =? 95 then r' else r | [] => r end     (* one '_' allowed after 0x *)
                  else s2
              | _ => s2
              end
            else s2 in
  match s3 with
  | c :: r =>
      if pt_digit_val c <? base then
        match pt_int_body base (pt_digit_val c) 1 r with
        | Some (v, cnt) =>
            if (base =? 10) && (pt_max_str_digits <? cnt) then None
            else Some (if fst sg then - v else v)
        | None => None
        end
      else None
  | [] => None
  end.

Section Oracle.
  (* value of int(text, base) for text with non-ASCII characters (given as its UTF-8 bytes); None = ValueError *)
  Variable uni : Z -> list Z -> option Z.

  Definition pt_int (base : Z) (s : list Z) : M Z :=
    match (if pt_is_ascii s then pt_int_ascii base s else uni base s) with
    | Some v => Ok v
    | None => Raise (Py ValueError)
    end.
End Oracle.

(* ---- hex(n)[2:].upper() for n >= 0 ---- *)
Definition pt_hex_digit_upper (d : Z) : Z := if d <? 10 then 48 + d else 55 + d.
Fixpoint pt_hex_upper_fuel (fuel : nat) (n : Z) (acc : list Z) : list Z :=
  match fuel with
  | O => acc
  | S f => let acc' := pt_hex_digit_upper (n mod 16) :: acc in
           if n / 16 =? 0 then acc' else pt_hex_upper_fuel f (n / 16) acc'
  end.
Definition pt_hex_upper (n : Z) : list Z := pt_hex_upper_fuel (S (Z.to_nat (Z.log2 n))) n [].

(* ---- functools.reduce(operator.xor, b): TypeError on an empty sequence ---- *)
Definition pt_reduce_xor (b : list Z) : M Z :=
  match b with
  | [] => Raise (Py TypeError)
  | x :: r => Ok (fold_left Z.lxor r x)
  end.

Fixpoint pt_list_eqb (a b : list Z) : bool :=
  match a, b with
  | [], [] => true
  | x :: a', y :: b' => (x =? y) && pt_list_eqb a' b'
  | _, _ => false
  end.
