(* Python list primitives with CPython's index rules, used by the reassembly loops:
     [x] * n            -> pyl_repeat      (n <= 0 gives [])
     l[i]               -> pyl_getitem     (negative i counts from the end; out of range -> IndexError)
     l[i] = x           -> pyl_setitem     (same index rule)
     l[lo:hi]           -> pyl_slice       (PySlice_AdjustIndices for step 1: negative bounds get len added and are
                                           clipped at 0, bounds beyond len are clipped to len, empty when lo >= hi)
   No proofs here (Proofs/AssembleProofs.v has the lemmas); validated against CPython by tools/props/stream_common.py
   (micro-harness [pylist_micro]). *)
From Coq Require Import ZArith List Bool.
Require Import Prim.Exn.
Import ListNotations.
Open Scope Z_scope.

Definition pyl_len {A} (l : list A) : Z := Z.of_nat (length l).

Definition pyl_repeat {A} (x : A) (n : Z) : list A := repeat x (Z.to_nat n).   (* Z.to_nat of n <= 0 is 0 *)

(* the position a subscript [i] denotes in a sequence of length [len], None = IndexError *)
Definition pyl_index (len i : Z) : option nat :=
  let j := if i <? 0 then i + len else i in
  if (j <? 0) || (len <=? j) then None else Some (Z.to_nat j).

Definition pyl_getitem {A} (l : list A) (i : Z) : M A :=
  match pyl_index (pyl_len l) i with
  | None => Raise (Py IndexError)
  | Some k => match nth_error l k with
              | Some x => Ok x
              | None => Raise (Py IndexError)      (* unreachable: k < length l *)
              end
  end.

Fixpoint pyl_list_set {A} (l : list A) (k : nat) (x : A) : list A :=
  match l, k with
  | [], _ => []
  | _ :: r, O => x :: r
  | y :: r, S k' => y :: pyl_list_set r k' x
  end.

Definition pyl_setitem {A} (l : list A) (i : Z) (x : A) : M (list A) :=
  match pyl_index (pyl_len l) i with
  | None => Raise (Py IndexError)
  | Some k => Ok (pyl_list_set l k x)
  end.

(* one slice bound adjusted as CPython does for step = 1 *)
Definition pyl_clip (len b : Z) : Z :=
  if b <? 0 then (if b + len <? 0 then 0 else b + len) else (if len <? b then len else b).

Definition pyl_slice {A} (l : list A) (lo hi : Z) : list A :=
  let len := pyl_len l in
  let a := pyl_clip len lo in
  let b := pyl_clip len hi in
  firstn (Z.to_nat (b - a)) (skipn (Z.to_nat a) l).                           (* b <= a gives [] *)
