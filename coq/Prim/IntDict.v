(* Python dictionaries with integer keys as insertion-ordered association lists (CPython >= 3.7: iteration
   order = insertion order; assigning to an existing key keeps its position; `del` removes the entry;
   `popitem()` removes and returns the entry inserted last).  Used by the tracker model (`AISTracker._tracks`). *)
From Coq Require Import List Bool ZArith.
Import ListNotations.
Open Scope Z_scope.

Section IntDict.
  Context {A : Type}.
  Definition idict := list (Z * A).

  (* d[k]  (None = KeyError) *)
  Fixpoint idict_get (d : idict) (k : Z) : option A :=
    match d with
    | [] => None
    | (k', v) :: r => if k =? k' then Some v else idict_get r k
    end.

  (* k in d *)
  Definition idict_mem (d : idict) (k : Z) : bool :=
    match idict_get d k with Some _ => true | None => false end.

  (* del d[k]  (the callers test membership first; on an absent key the list is returned unchanged) *)
  Fixpoint idict_del (d : idict) (k : Z) : idict :=
    match d with
    | [] => []
    | (k', v) :: r => if k =? k' then r else (k', v) :: idict_del r k
    end.

  (* d[k] = v : an existing key keeps its position, a new key goes to the end *)
  Fixpoint idict_set (d : idict) (k : Z) (v : A) : idict :=
    match d with
    | [] => [(k, v)]
    | (k', v') :: r => if k =? k' then (k', v) :: r else (k', v') :: idict_set r k v
    end.

  (* d.popitem() : None = KeyError on the empty dictionary *)
  Definition idict_popitem (d : idict) : option (Z * A * idict) :=
    match rev d with
    | [] => None
    | (k, v) :: r => Some (k, v, rev r)
    end.

  (* d.values() / d.keys() as lists *)
  Definition idict_values (d : idict) : list A := map snd d.
  Definition idict_keys (d : idict) : list Z := map fst d.
End IntDict.
Arguments idict A : clear implicits.
