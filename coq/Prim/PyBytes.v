(* CPython `bytes` / sequence primitives used by the sentence parser, modelled literally.
   A byte string is a [list Z] (values 0..255), as in Model/Sentence.v.  Every primitive here has a micro-harness
   against CPython in tools/props/nmea_common.py (run by ./check C05).  No proofs in this file.

   Only what the parser needs: separators and needles are single bytes (b',', b'*', b'\\'). *)
From Coq Require Import ZArith List Bool.
Require Import Prim.Exn.
Import ListNotations.
Open Scope Z_scope.
Local Notation length := List.length (only parsing).

(* ---- bytes.split(sep) for a one-byte separator: always at least one field ---- *)
Fixpoint bsplit (sep : Z) (b : list Z) : list (list Z) :=
  match b with
  | [] => [[]]
  | c :: r =>
    if c =? sep then [] :: bsplit sep r
    else match bsplit sep r with
         | h :: t => (c :: h) :: t
         | [] => [[c]]                      (* unreachable: bsplit never returns [] *)
         end
  end.

(* ---- bytes.split(sep, maxsplit) ---- *)
Fixpoint bsplit_max (sep : Z) (b : list Z) (maxsplit : nat) {struct b} : list (list Z) :=
  match maxsplit with
  | O => [b]
  | S n' =>
    match b with
    | [] => [[]]
    | c :: r =>
      if c =? sep then [] :: bsplit_max sep r n'
      else match bsplit_max sep r maxsplit with
           | h :: t => (c :: h) :: t
           | [] => [[c]]
           end
    end
  end.

(* ---- bytes.strip(): ASCII whitespace b' \t\n\r\x0b\x0c' ---- *)
Definition is_space (c : Z) : bool := (c =? 32) || ((9 <=? c) && (c <=? 13)).

Fixpoint lstrip (b : list Z) : list Z :=
  match b with
  | c :: r => if is_space c then lstrip r else b
  | [] => []
  end.
Fixpoint rstrip (b : list Z) : list Z :=
  match b with
  | [] => []
  | c :: r => match rstrip r with
              | [] => if is_space c then [] else [c]
              | r' => c :: r'
              end
  end.
Definition strip (b : list Z) : list Z := rstrip (lstrip b).

(* ---- bytes.find(needle) for a one-byte needle: lowest index or -1 ---- *)
Fixpoint bfind_from (needle : Z) (b : list Z) (i : Z) : Z :=
  match b with
  | [] => -1
  | c :: r => if c =? needle then i else bfind_from needle r (i + 1)
  end.
Definition bfind (needle : Z) (b : list Z) : Z := bfind_from needle b 0.

(* ---- slicing seq[lo:hi] (step 1) with Python's index normalisation; None = omitted bound ---- *)
Definition norm_index (i len : Z) : Z :=
  if i <? 0 then Z.max 0 (i + len) else Z.min i len.

Definition py_slice {A} (l : list A) (lo hi : option Z) : list A :=
  let len := Z.of_nat (length l) in
  let lo' := match lo with Some i => norm_index i len | None => 0 end in
  let hi' := match hi with Some i => norm_index i len | None => len end in
  firstn (Z.to_nat (hi' - lo')) (skipn (Z.to_nat lo') l).

(* ---- indexing seq[i]: negative indices count from the end, IndexError outside ---- *)
Definition py_index {A} (l : list A) (i : Z) : M A :=
  let len := Z.of_nat (length l) in
  let j := if i <? 0 then i + len else i in
  if (j <? 0) || (len <=? j) then Raise (Py IndexError)
  else match nth_error l (Z.to_nat j) with
       | Some x => Ok x
       | None => Raise (Py IndexError)
       end.

(* ---- bytes.upper(): ASCII letters only ---- *)
Definition upper_byte (c : Z) : Z := if (97 <=? c) && (c <=? 122) then c - 32 else c.
Definition bupper (b : list Z) : list Z := map upper_byte b.

(* ---- bytes.decode('ascii'): the str as a list of code points; UnicodeDecodeError on a byte >= 0x80 ---- *)
Definition decode_ascii (b : list Z) : M (list Z) :=
  if forallb (fun c => c <? 128) b then Ok b else Raise (Py UnicodeDecodeError).

(* ---- sequence unpacking `a, b = seq` etc.: ValueError unless the arity matches ---- *)
Definition unpack2 {A} (l : list A) : M (A * A) :=
  match l with [a; b] => Ok (a, b) | _ => Raise (Py ValueError) end.
Definition unpack5 {A} (l : list A) : M (A * A * A * A * A) :=
  match l with [a; b; c; d; e] => Ok (a, b, c, d, e) | _ => Raise (Py ValueError) end.
Definition unpack7 {A} (l : list A) : M (A * A * A * A * A * A * A) :=
  match l with [a; b; c; d; e; f; g] => Ok (a, b, c, d, e, f, g) | _ => Raise (Py ValueError) end.

(* ---- functools.reduce(operator.xor, b) without initial value: TypeError on the empty sequence ---- *)
Definition reduce_xor (b : list Z) : M Z :=
  match b with
  | [] => Raise (Py TypeError)
  | x :: r => Ok (fold_left Z.lxor r x)
  end.
(* functools.reduce(operator.xor, b, init) *)
Definition reduce_xor_init (b : list Z) (init : Z) : Z := fold_left Z.lxor b init.

(* ---- bytes equality and truthiness ---- *)
Fixpoint bytes_eqb (a b : list Z) : bool :=
  match a, b with
  | [], [] => true
  | x :: a', y :: b' => (x =? y) && bytes_eqb a' b'
  | _, _ => false
  end.
Definition nonempty {A} (l : list A) : bool := match l with [] => false | _ => true end.
