(* Exact rationals for Python numbers that are compared but never computed with.
   A Python float is a dyadic rational, a Python int an integer; `a < b`, `a <= b`, `a >= b`, `a == b` between
   ints and (finite) floats compare the exact real values, which is cross-multiplication here.
   nan / inf are outside this type (the generators never produce them; noted as an assumption of C19). *)
From Coq Require Import ZArith Bool Lia.
Open Scope Z_scope.

Record ratio := mkRatio { ratio_num : Z; ratio_den : positive }.

Definition ratio_of_Z (z : Z) : ratio := mkRatio z 1.

Definition ratio_ltb (a b : ratio) : bool := ratio_num a * Zpos (ratio_den b) <? ratio_num b * Zpos (ratio_den a).
Definition ratio_leb (a b : ratio) : bool := ratio_num a * Zpos (ratio_den b) <=? ratio_num b * Zpos (ratio_den a).
Definition ratio_eqb (a b : ratio) : bool := ratio_num a * Zpos (ratio_den b) =? ratio_num b * Zpos (ratio_den a).
Definition ratio_is_zero (a : ratio) : bool := ratio_num a =? 0.

(* Python: a >= b *)
Definition ratio_geb (a b : ratio) : bool := ratio_leb b a.
