(* Python dictionaries with string keys as insertion-ordered association lists. *)
From Coq Require Import List Bool ZArith String.
Import ListNotations.
Open Scope Z_scope.

Definition zmem (x : Z) (l : list Z) : bool := existsb (Z.eqb x) l.

Section Dict.
  Context {V : Type}.
  Definition dict_ := list (string * V).

  Fixpoint dict_set (d : dict_) (k : string) (v : V) : dict_ :=
    match d with
    | [] => [(k, v)]
    | (k', v') :: r => if String.eqb k k' then (k', v) :: r else (k', v') :: dict_set r k v
    end.

  Fixpoint dict_get (d : dict_) (k : string) : option V :=
    match d with
    | [] => None
    | (k', v') :: r => if String.eqb k k' then Some v' else dict_get r k
    end.

  Definition dict_update (d d2 : dict_) : dict_ :=
    fold_left (fun acc kv => dict_set acc (fst kv) (snd kv)) d2 d.

  Definition dict_of_list (l : list (string * V)) : dict_ := dict_update [] l.
End Dict.

(* the communication-state dictionaries map names to Optional[int] *)
Definition dict := @dict_ (option Z).
