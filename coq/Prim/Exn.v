(* Exceptions as values.  Every modelled Python function that can raise returns [M A].
   [Lib] = classes of pyais/exceptions.py, [Py] = CPython built-ins that the modelled code can raise.
   A foreign ([Py]) exception reaching an API boundary is an ordinary outcome of the model; that is
   what lets C05 be stated at all. *)
From Coq Require Import List Bool.
Import ListNotations.

Inductive libexn :=
| InvalidNMEAMessageException
| InvalidNMEAChecksum
| UnknownMessageException
| MissingMultipartMessageException
| TooManyMessagesException
| UnknownPartNoException
| InvalidDataTypeException
| NonPrintableCharacterException
| MissingPayloadException
| TagBlockNotInitializedException.   (* NOT a subclass of AISBaseException *)

Inductive pyexn :=
| ValueError
| UnicodeDecodeError      (* subclass of ValueError *)
| IndexError
| TypeError
| KeyError
| OverflowError
| AttributeError
| ZeroDivisionError
| Unmodelled.   (* not a Python class: the model's marker for "this input is outside what is modelled";
                    theorems exclude it, the correspondence check skips (and counts) such cases *)

Inductive exn := Lib (e : libexn) | Py (e : pyexn).

Inductive M (A : Type) := Ok (a : A) | Raise (e : exn).
Arguments Ok {A} a.
Arguments Raise {A} e.

Definition bind {A B} (m : M A) (f : A -> M B) : M B :=
  match m with Ok a => f a | Raise e => Raise e end.
Definition mmap {A B} (f : A -> B) (m : M A) : M B :=
  match m with Ok a => Ok (f a) | Raise e => Raise e end.

Declare Scope exn_scope.
Delimit Scope exn_scope with exn.
Notation "x <- m ;; k" := (bind m (fun x => k))
  (at level 61, m at next level, right associativity) : exn_scope.
Notation "' p <- m ;; k" := (bind m (fun x => let p := x in k))
  (at level 61, p pattern, m at next level, right associativity) : exn_scope.

(* [except_base e] : e is an instance of AISBaseException *)
Definition is_ais_base (e : exn) : bool :=
  match e with
  | Lib TagBlockNotInitializedException => false
  | Lib _ => true
  | Py _ => false
  end.

Definition pyexn_eqb (a b : pyexn) : bool :=
  match a, b with
  | ValueError, ValueError | UnicodeDecodeError, UnicodeDecodeError | IndexError, IndexError
  | TypeError, TypeError | KeyError, KeyError | OverflowError, OverflowError
  | AttributeError, AttributeError | ZeroDivisionError, ZeroDivisionError | Unmodelled, Unmodelled => true
  | _, _ => false
  end.

Definition libexn_eqb (a b : libexn) : bool :=
  match a, b with
  | InvalidNMEAMessageException, InvalidNMEAMessageException
  | InvalidNMEAChecksum, InvalidNMEAChecksum
  | UnknownMessageException, UnknownMessageException
  | MissingMultipartMessageException, MissingMultipartMessageException
  | TooManyMessagesException, TooManyMessagesException
  | UnknownPartNoException, UnknownPartNoException
  | InvalidDataTypeException, InvalidDataTypeException
  | NonPrintableCharacterException, NonPrintableCharacterException
  | MissingPayloadException, MissingPayloadException
  | TagBlockNotInitializedException, TagBlockNotInitializedException => true
  | _, _ => false
  end.

(* Python's subclass relation restricted to the classes above: [py_subclass a b] = issubclass(a, b). *)
Definition py_subclass (a b : pyexn) : bool :=
  pyexn_eqb a b ||
  match a, b with
  | UnicodeDecodeError, ValueError => true
  | _, _ => false
  end.

(* A handler clause: a specific library class, a specific built-in class (with subclasses),
   AISBaseException, or Exception (everything). *)
Inductive handler := HLib (e : libexn) | HPy (e : pyexn) | HAisBase | HException.

Definition handles (h : handler) (e : exn) : bool :=
  match h, e with
  | _, Py Unmodelled => false        (* the marker is never caught: it always reaches the boundary *)
  | HException, _ => true
  | HAisBase, _ => is_ais_base e
  | HLib a, Lib b => libexn_eqb a b
  | HPy a, Py b => py_subclass b a
  | _, _ => false
  end.

Definition catches (hs : list handler) (e : exn) : bool := existsb (fun h => handles h e) hs.

(* try: m except hs: k *)
Definition try_except {A} (m : M A) (hs : list handler) (k : exn -> M A) : M A :=
  match m with
  | Ok a => Ok a
  | Raise e => if catches hs e then k e else Raise e
  end.

Definition no_escape {A} (m : M A) : Prop :=
  match m with Raise (Py _) => False | _ => True end.

Definition is_ok {A} (m : M A) : bool := match m with Ok _ => true | Raise _ => false end.
