(* The relation between the values of the codec model (Model/FieldTypes.v [value]) and the values of the independent
   layout statement (Spec/Layout.v [sval]), and the boolean checkers that compare the REGENERATED tables of Gen/ with
   the layout tables of Spec/Layout.v.  Definitions only; the soundness proofs are in Proofs/CodecDecode.v.

   Nothing in this file is extracted: the oracle of the harness is Spec/Layout.v alone. *)
From Coq Require Import ZArith List Bool String.
Require Import Prim.Exn Prim.Bits Prim.Dict Gen.GenEnums Model.FieldTypes Gen.GenTables Gen.GenDispatch Gen.GenConv
               Model.Codec Spec.Layout.
Import ListNotations.
Open Scope list_scope.
Open Scope Z_scope.

(* ------------------------------------------------------------------------------------------------ *)
(* variants and classes                                                                               *)

(* the pyais class that represents a layout variant; layout_errors below checks that its observable name
   (class_name, regenerated) is the name the specification gives (variant_class) *)
Definition cls_of (v : variant) : cls :=
  match v with
  | V1 => MessageType1 | V2 => MessageType2 | V3 => MessageType3 | V4 => MessageType4 | V5 => MessageType5
  | V6 => MessageType6 | V7 => MessageType7 | V8 => MessageType8 | V9 => MessageType9 | V10 => MessageType10
  | V11 => MessageType11 | V12 => MessageType12 | V13 => MessageType13 | V14 => MessageType14
  | V15 => MessageType15 | V16 => MessageType16 | V17 => MessageType17 | V18 => MessageType18
  | V19 => MessageType19 | V20 => MessageType20 | V21 => MessageType21
  | V22Addressed => MessageType22Addressed | V22Broadcast => MessageType22Broadcast | V23 => MessageType23
  | V24A => MessageType24PartA | V24B => MessageType24PartB
  | V25AddressedStructured => MessageType25AddressedStructured
  | V25BroadcastStructured => MessageType25BroadcastStructured
  | V25AddressedUnstructured => MessageType25AddressedUnstructured
  | V25BroadcastUnstructured => MessageType25BroadcastUnstructured
  | V26AddressedStructured => MessageType26AddressedStructured
  | V26BroadcastStructured => MessageType26BroadcastStructured
  | V26AddressedUnstructured => MessageType26AddressedUnstructured
  | V26BroadcastUnstructured => MessageType26BroadcastUnstructured
  | V27 => MessageType27
  end.

(* ------------------------------------------------------------------------------------------------ *)
(* values                                                                                             *)

(* A decoded value satisfies a specification value:
     integers, booleans, text, bytes: equal;
     reals: the fractions are equal (VFloat n d is n/d, SFrac n' d' is n'/d');
     enumerations: a member of the enumeration of that name, with the raw code when the standard defines the code
       (any member otherwise -- exactly what SEnum carries);
     rate of turn: the sentinel member with that code. *)
Definition val_matches (v : value) (s : sval) : Prop :=
  match s, v with
  | SInt z, VInt z' => z' = z
  | SBool b, VBool b' => b' = b
  | SFrac n d, VFloat n' d' => n' * d = n * Zpos d'
  | SText t, VStr t' => t' = t
  | SBytes y, VBytes y' => y' = y
  | SEnum e code defined, VEnum e' c =>
      enum_name e' = senum_name e /\ In c (enum_members e') /\ (defined = true -> c = code)
  | STurnMember code, VTurn c => c = code
  | _, _ => False
  end.

Definition zlist_eqb (a b : list Z) : bool :=
  (Nat.eqb (List.length a) (List.length b)) && forallb (fun p => fst p =? snd p) (combine a b).

Definition val_matchesb (v : value) (s : sval) : bool :=
  match s, v with
  | SInt z, VInt z' => z' =? z
  | SBool b, VBool b' => Bool.eqb b' b
  | SFrac n d, VFloat n' d' => n' * d =? n * Zpos d'
  | SText t, VStr t' => zlist_eqb t' t
  | SBytes y, VBytes y' => zlist_eqb y' y
  | SEnum e code defined, VEnum e' c =>
      String.eqb (enum_name e') (senum_name e) && zmem c (enum_members e') && (if defined then c =? code else true)
  | STurnMember code, VTurn c => c =? code
  | _, _ => false
  end.

(* ------------------------------------------------------------------------------------------------ *)
(* the signature of a model field                                                                     *)

(* a converter reference resolved against the regenerated converter table *)
Inductive rconv :=
| RNone
| RShape (sh : conv_shape)
| REnumFV (e : enum_id)      (* Enum.from_value: None stays None *)
| REnumCtor (e : enum_id)    (* the enumeration class itself *)
| RUnknown.

Definition resolve (c : option conv_ref) : rconv :=
  match c with
  | None => RNone
  | Some (CNamed n) => match assoc_s n conv_table with Some sh => RShape sh | None => RUnknown end
  | Some (CEnumFromValue e) => REnumFV e
  | Some (CEnumCtor e) => REnumCtor e
  end.

Definition apply_rconv (r : rconv) (v : value) : M value :=
  match r with
  | RNone => Ok v
  | RShape sh => apply_shape sh v
  | REnumFV e => match v with VNone => Ok VNone | _ => enum_of_value e v end
  | REnumCtor e => enum_of_value e v
  | RUnknown => Raise (Py Unmodelled)
  end.

Definition dtype_eqb (a b : dtype) : bool :=
  match a, b with
  | DInt, DInt | DBool, DBool | DFloat, DFloat | DStr, DStr | DBytes, DBytes => true
  | _, _ => false
  end.

Definition dec_is (c : dec) (num : Z) (e : nat) : bool := (dec_num c =? num) && Nat.eqb (dec_exp c) e.

Definition is_none (r : rconv) : bool := match r with RNone => true | _ => false end.
Definition is_div (r : rconv) (num : Z) (e : nat) : bool :=
  match r with RShape (ShDiv c) => dec_is c num e | _ => false end.
Definition is_round_div (r : rconv) (num : Z) (e : nat) (digits : Z) : bool :=
  match r with RShape (ShRoundFloatDiv c nd) => dec_is c num e && (nd =? digits) | _ => false end.
Definition is_to_turn (r : rconv) : bool :=
  match r with RShape (ShToTurn k127 k128 c) => (k127 =? 127) && (k128 =? 128) && dec_is c 4733 3 | _ => false end.

(* the enumeration a (to-converter, attrs-converter) pair decodes into, for the three shapes that map a truncated
   (None) attribute to None *)
Definition enum_conv (to attrs : rconv) : option enum_id :=
  match to, attrs with
  | REnumFV e, RNone => Some e
  | REnumCtor e, RNone => Some e
  | RNone, REnumFV e => Some e
  | _, _ => None
  end.

(* for a payload of full length (C01) the attribute is never None, so the enumeration class itself is as good *)
Definition enum_conv_full (to attrs : rconv) : option enum_id :=
  match to, attrs with
  | RNone, REnumCtor e => Some e
  | _, _ => enum_conv to attrs
  end.

(* (dtype, signed, to-converter, attrs-converter) of a model field is the signature the layout kind demands *)
Definition sig_ok (k : kind) (f : field) : bool :=
  let to := resolve (f_to f) in
  let at_ := resolve (f_attrs_conv f) in
  let dt := f_dtype f in
  let sg := f_signed f in
  match k with
  | KU => dtype_eqb dt DInt && negb sg && is_none to && is_none at_
  | KB => dtype_eqb dt DBool && negb sg && is_none to && is_none at_
  | KU10 => dtype_eqb dt DFloat && negb sg && is_div to 10 0 && is_none at_
  | KI10 => dtype_eqb dt DFloat && sg && is_div to 10 0 && is_none at_
  | KF1 => dtype_eqb dt DFloat && negb sg && is_none to && is_none at_
  | KLL => dtype_eqb dt DFloat && sg && is_round_div to 600000 0 6 && is_none at_
  | KLL600 => dtype_eqb dt DFloat && sg && is_round_div to 600 0 6 && is_none at_
  | KROT => dtype_eqb dt DFloat && sg && is_to_turn to && is_none at_ && Nat.eqb (f_width f) 8
  | KT => dtype_eqb dt DStr && is_none to && is_none at_
  | KD | KX => dtype_eqb dt DBytes && is_none to && is_none at_
  | KE e => dtype_eqb dt DInt && negb sg && Nat.leb (f_width f) 8 &&
            match enum_conv_full to at_ with
            | Some e' => String.eqb (enum_name e') (senum_name e)
            | None => false
            end
  end.

(* ------------------------------------------------------------------------------------------------ *)
(* tables_match_spec: the checker                                                                     *)

Local Open Scope string_scope.

(* the complaints about one model field list against one layout table: empty = the tables agree.
   [ok s f] is the demand on the content of a field ([sig_ok] for C01, [total_ok] for C11), [what] its name in a complaint;
   names, widths and contiguous offsets are always compared. *)
Fixpoint field_errors (ok : sfield -> field -> bool) (what : string) (fs : list field) (sfs : list sfield) (off : nat)
  : list string :=
  match fs, sfs with
  | [], [] => []
  | f :: fr, s :: sr =>
      (if String.eqb (f_name f) (s_name s) then [] else [s_name s ++ ": name is " ++ f_name f]) ++
      (if Nat.eqb (f_width f) (s_width s) then [] else [s_name s ++ ": width"]) ++
      (if Nat.eqb (s_off s) off then [] else [s_name s ++ ": offset"]) ++
      (if Nat.ltb 0 (f_width f) then [] else [s_name s ++ ": empty"]) ++
      (if ok s f then [] else [s_name s ++ ": " ++ what]) ++
      field_errors ok what fr sr (off + f_width f)
  | f :: _, [] => [f_name f ++ ": not in the layout"]
  | [], s :: _ => [s_name s ++ ": missing"]
  end.

Definition table_errors (ok : sfield -> field -> bool) (what : string) (c : cls) (v : variant) : list string :=
  map (fun e => variant_class v ++ "." ++ e)
      ((if String.eqb (class_name c) (variant_class v) then [] else ["class name is " ++ class_name c]) ++
       (if Nat.eqb (total_width (spec_layout v)) (nominal v) then [] else ["nominal length"]) ++
       field_errors ok what (fields_of c) (spec_layout v) 0).

(* C01: the signature the layout kind demands *)
Definition ok_c01 (s : sfield) (f : field) : bool := sig_ok (s_kind s) f.
Definition layout_errors (c : cls) (v : variant) : list string :=
  table_errors ok_c01 "signature (type, sign or converter)" c v.

(* C11 demands less of a field than C01: decoding a slice of at most the field's width must not raise, and an attribute
   that is None must stay None in __init__.  Sign flags and scale constants do not matter here. *)
Definition is_div_any (r : rconv) : bool :=
  match r with RShape (ShDiv c) => negb (dec_num c =? 0)%Z | _ => false end.
Definition is_round_div_any (r : rconv) : bool :=
  match r with RShape (ShRoundFloatDiv c nd) => (0 <? dec_num c)%Z && (0 <=? nd)%Z | _ => false end.
Definition is_to_turn_any (r : rconv) : bool :=
  match r with
  | RShape (ShToTurn k127 k128 c) => (0 <? dec_num c)%Z && is_ok (TurnRate_ctor k127) && is_ok (TurnRate_ctor (- k127)%Z)
  | _ => false
  end.
Definition enum_total (e : enum_id) : bool := forallb (fun code => is_ok (enum_ctor e code)) (zrange 0%Z 255%Z).

Definition total_ok (f : field) : bool :=
  let to := resolve (f_to f) in
  let at_ := resolve (f_attrs_conv f) in
  match f_dtype f with
  | DStr | DBytes | DBool => is_none to && is_none at_
  | DInt => (is_none to && is_none at_) ||
            (negb (f_signed f) && Nat.leb (f_width f) 8 &&
             match enum_conv to at_ with Some e => enum_total e | None => false end)
  | DFloat => is_none at_ && (is_none to || is_div_any to || is_round_div_any to || is_to_turn_any to)
  end.

Definition ok_c11 (_ : sfield) (f : field) : bool := total_ok f.
Definition prefix_errors (c : cls) (v : variant) : list string :=
  table_errors ok_c11 "decoding may raise (type or converter)" c v.

Local Close Scope string_scope.

Definition layout_ok (c : cls) (v : variant) : bool :=
  match layout_errors c v with [] => true | _ => false end.
Definition prefix_ok (c : cls) (v : variant) : bool :=
  match prefix_errors c v with [] => true | _ => false end.

(* ------------------------------------------------------------------------------------------------ *)
(* dispatch_matches_spec: the checker                                                                 *)

(* the discriminator bits a variant fixes (beyond the type id), from Spec/Layout.v spec_variant *)
Definition known_bits (v : variant) : list (nat * bool) :=
  match v with
  | V22Addressed => [(139, true)] | V22Broadcast => [(139, false)]
  | V24A => [(38, false); (39, false)] | V24B => [(38, false); (39, true)]
  | V25AddressedStructured | V26AddressedStructured => [(38, true); (39, true)]
  | V25BroadcastStructured | V26BroadcastStructured => [(38, false); (39, true)]
  | V25AddressedUnstructured | V26AddressedUnstructured => [(38, true); (39, false)]
  | V25BroadcastUnstructured | V26BroadcastUnstructured => [(38, false); (39, false)]
  | _ => []
  end%nat.

Fixpoint kb_get (kb : list (nat * bool)) (i : nat) : option bool :=
  match kb with
  | [] => None
  | (j, x) :: r => if Nat.eqb i j then Some x else kb_get r i
  end.

(* the bits lo, lo+1, ..., lo+w-1 if all of them are known *)
Fixpoint kb_range (kb : list (nat * bool)) (lo w : nat) : option (list bool) :=
  match w with
  | O => Some []
  | S w' => match kb_get kb lo, kb_range kb (S lo) w' with
            | Some x, Some r => Some (x :: r)
            | _, _ => None
            end
  end.

Definition range_val (kb : list (nat * bool)) (lo hi : nat) : option Z :=
  if Nat.ltb lo hi then option_map uval (kb_range kb lo (hi - lo)) else None.

(* symbolic run of a decode-side decision tree when only the known bits are given *)
Fixpoint tree_sel (t : dtree cls) (kb : list (nat * bool)) : option (M cls) :=
  match t with
  | DLeaf c => Some (Ok c)
  | DRaise => Some (Raise (Lib UnknownPartNoException))
  | DIfBits lo hi t1 t2 =>
      match range_val kb lo hi with
      | Some z => if z =? 0 then tree_sel t2 kb else tree_sel t1 kb
      | None => None
      end
  | DIfBitsEq lo hi k t1 t2 =>
      match range_val kb lo hi with
      | Some z => if z =? k then tree_sel t1 kb else tree_sel t2 kb
      | None => None
      end
  end.

(* the class MSG_CLASS and the dispatcher select for the variant, if that is decided by the variant's own bits, all of
   which lie before disc_end *)
Definition dispatch_sel (v : variant) : option cls :=
  if forallb (fun p => Nat.ltb (fst p) (disc_end v)) (known_bits v) then
    match assoc_z (type_id v) msg_class_table with
    | Some (dt, _) => match tree_sel dt (known_bits v) with Some (Ok c) => Some c | _ => None end
    | None => None
    end
  else None.

(* what spec_variant bits = Some v says about the bits *)
Definition selects (b : list bool) (v : variant) : Prop :=
  uval (sub b 0 6) = type_id v /\ Forall (fun p => bit_at b (fst p) = snd p) (known_bits v).
