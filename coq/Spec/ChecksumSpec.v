(* C10 -- what the property demands of the checksum flag, stated independently of the parser model.
   A sentence text is  d :: body ++ "*" ++ [h1; h2] :  start delimiter, body (free of '*'), two hex digits.
   The flag has to be true exactly when the value of the two hex digits equals the XOR of all body bytes. *)
From Coq Require Import ZArith List Bool.
Import ListNotations.
Open Scope Z_scope.

(* XOR of all bytes, the obvious way *)
Fixpoint xor_bytes (l : list Z) : Z :=
  match l with
  | [] => 0
  | b :: r => Z.lxor b (xor_bytes r)
  end.

(* value of one hexadecimal digit character, either case *)
Definition hexdigit (c : Z) : option Z :=
  if (48 <=? c) && (c <=? 57) then Some (c - 48)            (* '0'..'9' *)
  else if (65 <=? c) && (c <=? 70) then Some (c - 55)       (* 'A'..'F' *)
  else if (97 <=? c) && (c <=? 102) then Some (c - 87)      (* 'a'..'f' *)
  else None.

Definition hexval (h1 h2 : Z) : option Z :=
  match hexdigit h1, hexdigit h2 with
  | Some a, Some b => Some (16 * a + b)
  | _, _ => None
  end.

Definition STAR : Z := 42.
Definition star_free (body : list Z) : bool := forallb (fun c => negb (c =? STAR)) body.

(* the text of a sentence with the given delimiter, body and checksum characters *)
Definition sentence_text (d : Z) (body : list Z) (h1 h2 : Z) : list Z := d :: body ++ [STAR; h1; h2].

(* the flag the property demands (None: the checksum field is not two hex digits -- outside the claim) *)
Definition demanded_flag (body : list Z) (h1 h2 : Z) : option bool :=
  match hexval h1 h2 with
  | Some v => Some (v =? xor_bytes body)
  | None => None
  end.

(* the flag of an assembled message: all parts valid *)
Definition demanded_assembled (flags : list bool) : bool := forallb (fun b => b) flags.
