(* Independent statement of the AIS payload layouts (the meaning of C01, and the frame of C02/C08/C11).
   Transcribed by hand from ITU-R M.1371-5 Annex 8 / gpsd "AIVDM/AIVDO protocol decoding", using pyais'
   attribute names (they are the observable API).  Depends on nothing generated from pyais.
   See DESIGN.md Appendix A for the same tables in text form. *)
From Coq Require Import ZArith List Bool String.
Import ListNotations.
Open Scope list_scope.
Open Scope Z_scope.

Inductive senum := SE_NavigationStatus | SE_ManeuverIndicator | SE_EpfdType | SE_ShipType | SE_NavAid
                 | SE_StationType | SE_TransmitMode | SE_StationIntervals.

Inductive kind :=
| KU            (* unsigned integer *)
| KB            (* boolean *)
| KU10          (* unsigned, tenths: value / 10 *)
| KI10          (* signed (two's complement), tenths *)
| KF1           (* unsigned integer reported as a real *)
| KLL           (* signed, 1/600000 degree, rounded to 6 decimals *)
| KLL600        (* signed, 1/600 degree, rounded to 6 decimals *)
| KROT          (* rate of turn code, signed 8 bit *)
| KT            (* six-bit text *)
| KD            (* binary data, left aligned into bytes *)
| KX            (* spare bits, reported as left-aligned bytes *)
| KE (e : senum). (* enumeration *)

Record sfield := F { s_name : string; s_off : nat; s_width : nat; s_kind : kind }.

Inductive variant :=
| V1 | V2 | V3 | V4 | V5 | V6 | V7 | V8 | V9 | V10 | V11 | V12 | V13 | V14 | V15 | V16 | V17 | V18 | V19 | V20 | V21
| V22Addressed | V22Broadcast | V23 | V24A | V24B
| V25AddressedStructured | V25BroadcastStructured | V25AddressedUnstructured | V25BroadcastUnstructured
| V26AddressedStructured | V26BroadcastStructured | V26AddressedUnstructured | V26BroadcastUnstructured
| V27.

Definition all_variants : list variant :=
  [V1; V2; V3; V4; V5; V6; V7; V8; V9; V10; V11; V12; V13; V14; V15; V16; V17; V18; V19; V20; V21;
   V22Addressed; V22Broadcast; V23; V24A; V24B;
   V25AddressedStructured; V25BroadcastStructured; V25AddressedUnstructured; V25BroadcastUnstructured;
   V26AddressedStructured; V26BroadcastStructured; V26AddressedUnstructured; V26BroadcastUnstructured; V27].

Local Open Scope string_scope.
Local Notation "n @ o + w : k" := (F n o%nat w%nat k) (at level 0, o at level 0, w at level 0, k at level 0).

Definition header : list sfield := [ "msg_type"@0+6:KU; "repeat"@6+2:KU; "mmsi"@8+30:KU ].

Definition layout_123 : list sfield := header ++
  [ "status"@38+4:(KE SE_NavigationStatus); "turn"@42+8:KROT; "speed"@50+10:KU10; "accuracy"@60+1:KB;
    "lon"@61+28:KLL; "lat"@89+27:KLL; "course"@116+12:KU10; "heading"@128+9:KU; "second"@137+6:KU;
    "maneuver"@143+2:(KE SE_ManeuverIndicator); "spare_1"@145+3:KX; "raim"@148+1:KB; "radio"@149+19:KU ].

Definition layout_4_11 : list sfield := header ++
  [ "year"@38+14:KU; "month"@52+4:KU; "day"@56+5:KU; "hour"@61+5:KU; "minute"@66+6:KU; "second"@72+6:KU;
    "accuracy"@78+1:KB; "lon"@79+28:KLL; "lat"@107+27:KLL; "epfd"@134+4:(KE SE_EpfdType); "spare_1"@138+10:KX;
    "raim"@148+1:KB; "radio"@149+19:KU ].

Definition layout_5 : list sfield := header ++
  [ "ais_version"@38+2:KU; "imo"@40+30:KU; "callsign"@70+42:KT; "shipname"@112+120:KT;
    "ship_type"@232+8:(KE SE_ShipType); "to_bow"@240+9:KU; "to_stern"@249+9:KU; "to_port"@258+6:KU;
    "to_starboard"@264+6:KU; "epfd"@270+4:(KE SE_EpfdType); "month"@274+4:KU; "day"@278+5:KU; "hour"@283+5:KU;
    "minute"@288+6:KU; "draught"@294+8:KU10; "destination"@302+120:KT; "dte"@422+1:KB; "spare_1"@423+1:KX ].

Definition layout_6 : list sfield := header ++
  [ "seqno"@38+2:KU; "dest_mmsi"@40+30:KU; "retransmit"@70+1:KB; "spare_1"@71+1:KX; "dac"@72+10:KU; "fid"@82+6:KU;
    "data"@88+920:KD ].

Definition layout_7_13 : list sfield := header ++
  [ "spare_1"@38+2:KX; "mmsi1"@40+30:KU; "mmsiseq1"@70+2:KU; "mmsi2"@72+30:KU; "mmsiseq2"@102+2:KU;
    "mmsi3"@104+30:KU; "mmsiseq3"@134+2:KU; "mmsi4"@136+30:KU; "mmsiseq4"@166+2:KU ].

Definition layout_8 : list sfield := header ++
  [ "spare_1"@38+2:KX; "dac"@40+10:KU; "fid"@50+6:KU; "data"@56+952:KD ].

Definition layout_9 : list sfield := header ++
  [ "alt"@38+12:KU; "speed"@50+10:KF1; "accuracy"@60+1:KB; "lon"@61+28:KLL; "lat"@89+27:KLL; "course"@116+12:KU10;
    "second"@128+6:KU; "reserved_1"@134+8:KU; "dte"@142+1:KB; "spare_1"@143+3:KX; "assigned"@146+1:KB;
    "raim"@147+1:KB; "radio"@148+20:KU ].

Definition layout_10 : list sfield := header ++
  [ "spare_1"@38+2:KX; "dest_mmsi"@40+30:KU; "spare_2"@70+2:KX ].

Definition layout_12 : list sfield := header ++
  [ "seqno"@38+2:KU; "dest_mmsi"@40+30:KU; "retransmit"@70+1:KB; "spare_1"@71+1:KX; "text"@72+936:KT ].

Definition layout_14 : list sfield := header ++ [ "spare_1"@38+2:KX; "text"@40+968:KT ].

Definition layout_15 : list sfield := header ++
  [ "spare_1"@38+2:KX; "mmsi1"@40+30:KU; "type1_1"@70+6:KU; "offset1_1"@76+12:KU; "spare_2"@88+2:KX;
    "type1_2"@90+6:KU; "offset1_2"@96+12:KU; "spare_3"@108+2:KX; "mmsi2"@110+30:KU; "type2_1"@140+6:KU;
    "offset2_1"@146+12:KU; "spare_4"@158+2:KX ].

Definition layout_16 : list sfield := header ++
  [ "spare_1"@38+2:KX; "mmsi1"@40+30:KU; "offset1"@70+12:KU; "increment1"@82+10:KU; "mmsi2"@92+30:KU;
    "offset2"@122+12:KU; "increment2"@134+10:KU ].

Definition layout_17 : list sfield := header ++
  [ "spare_1"@38+2:KX; "lon"@40+18:KI10; "lat"@58+17:KI10; "spare_2"@75+5:KX; "data"@80+736:KD ].

Definition layout_18 : list sfield := header ++
  [ "reserved_1"@38+8:KU; "speed"@46+10:KU10; "accuracy"@56+1:KB; "lon"@57+28:KLL; "lat"@85+27:KLL;
    "course"@112+12:KU10; "heading"@124+9:KU; "second"@133+6:KU; "reserved_2"@139+2:KU; "cs"@141+1:KB;
    "display"@142+1:KB; "dsc"@143+1:KB; "band"@144+1:KB; "msg22"@145+1:KB; "assigned"@146+1:KB; "raim"@147+1:KB;
    "radio"@148+20:KU ].

Definition layout_19 : list sfield := header ++
  [ "reserved_1"@38+8:KU; "speed"@46+10:KU10; "accuracy"@56+1:KB; "lon"@57+28:KLL; "lat"@85+27:KLL;
    "course"@112+12:KU10; "heading"@124+9:KU; "second"@133+6:KU; "reserved_2"@139+4:KU; "shipname"@143+120:KT;
    "ship_type"@263+8:(KE SE_ShipType); "to_bow"@271+9:KU; "to_stern"@280+9:KU; "to_port"@289+6:KU;
    "to_starboard"@295+6:KU; "epfd"@301+4:(KE SE_EpfdType); "raim"@305+1:KB; "dte"@306+1:KB; "assigned"@307+1:KB;
    "spare_1"@308+4:KX ].

Definition layout_20 : list sfield := header ++
  [ "spare_1"@38+2:KX;
    "offset1"@40+12:KU; "number1"@52+4:KU; "timeout1"@56+3:KU; "increment1"@59+11:KU;
    "offset2"@70+12:KU; "number2"@82+4:KU; "timeout2"@86+3:KU; "increment2"@89+11:KU;
    "offset3"@100+12:KU; "number3"@112+4:KU; "timeout3"@116+3:KU; "increment3"@119+11:KU;
    "offset4"@130+12:KU; "number4"@142+4:KU; "timeout4"@146+3:KU; "increment4"@149+11:KU ].

Definition layout_21 : list sfield := header ++
  [ "aid_type"@38+5:(KE SE_NavAid); "name"@43+120:KT; "accuracy"@163+1:KB; "lon"@164+28:KLL; "lat"@192+27:KLL;
    "to_bow"@219+9:KU; "to_stern"@228+9:KU; "to_port"@237+6:KU; "to_starboard"@243+6:KU;
    "epfd"@249+4:(KE SE_EpfdType); "second"@253+6:KU; "off_position"@259+1:KB; "reserved_1"@260+8:KU;
    "raim"@268+1:KB; "virtual_aid"@269+1:KB; "assigned"@270+1:KB; "spare_1"@271+1:KX; "name_ext"@272+88:KT ].

Definition layout_22_head : list sfield := header ++
  [ "spare_1"@38+2:KX; "channel_a"@40+12:KU; "channel_b"@52+12:KU; "txrx"@64+4:KU; "power"@68+1:KB ].
Definition layout_22_tail : list sfield :=
  [ "addressed"@139+1:KB; "band_a"@140+1:KB; "band_b"@141+1:KB; "zonesize"@142+3:KU; "spare_2"@145+23:KX ].
Definition layout_22_broadcast : list sfield := layout_22_head ++
  [ "ne_lon"@69+18:KI10; "ne_lat"@87+17:KI10; "sw_lon"@104+18:KI10; "sw_lat"@122+17:KI10 ] ++ layout_22_tail.
Definition layout_22_addressed : list sfield := layout_22_head ++
  [ "dest1"@69+30:KU; "empty_1"@99+5:KU; "dest2"@104+30:KU; "empty_2"@134+5:KU ] ++ layout_22_tail.

Definition layout_23 : list sfield := header ++
  [ "spare_1"@38+2:KX; "ne_lon"@40+18:KI10; "ne_lat"@58+17:KI10; "sw_lon"@75+18:KI10; "sw_lat"@93+17:KI10;
    "station_type"@110+4:(KE SE_StationType); "ship_type"@114+8:(KE SE_ShipType); "spare_2"@122+22:KX;
    "txrx"@144+2:(KE SE_TransmitMode); "interval"@146+4:(KE SE_StationIntervals); "quiet"@150+4:KU;
    "spare_3"@154+6:KX ].

Definition layout_24A : list sfield := header ++
  [ "partno"@38+2:KU; "shipname"@40+120:KT; "spare_1"@160+8:KX ].
Definition layout_24B : list sfield := header ++
  [ "partno"@38+2:KU; "ship_type"@40+8:KU; "vendorid"@48+18:KT; "model"@66+4:KU; "serial"@70+20:KU;
    "callsign"@90+42:KT; "to_bow"@132+9:KU; "to_stern"@141+9:KU; "to_port"@150+6:KU; "to_starboard"@156+6:KU;
    "spare_1"@162+6:KX ].

Definition head_25_26 : list sfield := header ++ [ "addressed"@38+1:KB; "structured"@39+1:KB ].
Definition layout_25AS : list sfield := head_25_26 ++ [ "dest_mmsi"@40+30:KU; "app_id"@70+16:KU; "data"@86+82:KD ].
Definition layout_25BS : list sfield := head_25_26 ++ [ "app_id"@40+16:KU; "data"@56+112:KD ].
Definition layout_25AU : list sfield := head_25_26 ++ [ "dest_mmsi"@40+30:KU; "data"@70+98:KD ].
Definition layout_25BU : list sfield := head_25_26 ++ [ "data"@40+128:KD ].
Definition layout_26AS : list sfield :=
  head_25_26 ++ [ "dest_mmsi"@40+30:KU; "app_id"@70+16:KU; "data"@86+958:KD; "radio"@1044+20:KU ].
Definition layout_26BS : list sfield := head_25_26 ++ [ "app_id"@40+16:KU; "data"@56+988:KD; "radio"@1044+20:KU ].
Definition layout_26AU : list sfield := head_25_26 ++ [ "dest_mmsi"@40+30:KU; "data"@70+974:KD; "radio"@1044+20:KU ].
Definition layout_26BU : list sfield := head_25_26 ++ [ "data"@40+1004:KD; "radio"@1044+20:KU ].

Definition layout_27 : list sfield := header ++
  [ "accuracy"@38+1:KB; "raim"@39+1:KB; "status"@40+4:(KE SE_NavigationStatus); "lon"@44+18:KLL600;
    "lat"@62+17:KLL600; "speed"@79+6:KF1; "course"@85+9:KF1; "gnss"@94+1:KB; "spare_1"@95+1:KX ].

Local Close Scope string_scope.

Definition spec_layout (v : variant) : list sfield :=
  match v with
  | V1 | V2 | V3 => layout_123
  | V4 | V11 => layout_4_11
  | V5 => layout_5 | V6 => layout_6
  | V7 | V13 => layout_7_13
  | V8 => layout_8 | V9 => layout_9 | V10 => layout_10 | V12 => layout_12 | V14 => layout_14
  | V15 => layout_15 | V16 => layout_16 | V17 => layout_17 | V18 => layout_18 | V19 => layout_19
  | V20 => layout_20 | V21 => layout_21
  | V22Addressed => layout_22_addressed | V22Broadcast => layout_22_broadcast
  | V23 => layout_23 | V24A => layout_24A | V24B => layout_24B
  | V25AddressedStructured => layout_25AS | V25BroadcastStructured => layout_25BS
  | V25AddressedUnstructured => layout_25AU | V25BroadcastUnstructured => layout_25BU
  | V26AddressedStructured => layout_26AS | V26BroadcastStructured => layout_26BS
  | V26AddressedUnstructured => layout_26AU | V26BroadcastUnstructured => layout_26BU
  | V27 => layout_27
  end.

(* nominal (maximum) length in bits *)
Definition nominal (v : variant) : nat :=
  match v with
  | V1 | V2 | V3 | V4 | V11 | V7 | V13 | V9 | V18 | V22Addressed | V22Broadcast | V24A | V24B
  | V25AddressedStructured | V25BroadcastStructured | V25AddressedUnstructured | V25BroadcastUnstructured => 168
  | V5 => 424 | V6 | V8 | V12 | V14 => 1008 | V10 => 72 | V15 | V20 | V23 => 160 | V16 => 144 | V17 => 816
  | V19 => 312 | V21 => 360
  | V26AddressedStructured | V26BroadcastStructured | V26AddressedUnstructured | V26BroadcastUnstructured => 1064
  | V27 => 96
  end%nat.

Definition type_id (v : variant) : Z :=
  match v with
  | V1 => 1 | V2 => 2 | V3 => 3 | V4 => 4 | V5 => 5 | V6 => 6 | V7 => 7 | V8 => 8 | V9 => 9 | V10 => 10 | V11 => 11
  | V12 => 12 | V13 => 13 | V14 => 14 | V15 => 15 | V16 => 16 | V17 => 17 | V18 => 18 | V19 => 19 | V20 => 20 | V21 => 21
  | V22Addressed | V22Broadcast => 22 | V23 => 23 | V24A | V24B => 24
  | V25AddressedStructured | V25BroadcastStructured | V25AddressedUnstructured | V25BroadcastUnstructured => 25
  | V26AddressedStructured | V26BroadcastStructured | V26AddressedUnstructured | V26BroadcastUnstructured => 26
  | V27 => 27
  end.

(* the name of the pyais class that represents the variant (the class is observable through the API) *)
Local Open Scope string_scope.
Definition variant_class (v : variant) : string :=
  match v with
  | V1 => "MessageType1" | V2 => "MessageType2" | V3 => "MessageType3" | V4 => "MessageType4" | V5 => "MessageType5"
  | V6 => "MessageType6" | V7 => "MessageType7" | V8 => "MessageType8" | V9 => "MessageType9" | V10 => "MessageType10"
  | V11 => "MessageType11" | V12 => "MessageType12" | V13 => "MessageType13" | V14 => "MessageType14"
  | V15 => "MessageType15" | V16 => "MessageType16" | V17 => "MessageType17" | V18 => "MessageType18"
  | V19 => "MessageType19" | V20 => "MessageType20" | V21 => "MessageType21"
  | V22Addressed => "MessageType22Addressed" | V22Broadcast => "MessageType22Broadcast" | V23 => "MessageType23"
  | V24A => "MessageType24PartA" | V24B => "MessageType24PartB"
  | V25AddressedStructured => "MessageType25AddressedStructured"
  | V25BroadcastStructured => "MessageType25BroadcastStructured"
  | V25AddressedUnstructured => "MessageType25AddressedUnstructured"
  | V25BroadcastUnstructured => "MessageType25BroadcastUnstructured"
  | V26AddressedStructured => "MessageType26AddressedStructured"
  | V26BroadcastStructured => "MessageType26BroadcastStructured"
  | V26AddressedUnstructured => "MessageType26AddressedUnstructured"
  | V26BroadcastUnstructured => "MessageType26BroadcastUnstructured"
  | V27 => "MessageType27"
  end.

Local Close Scope string_scope.

(* ---- plain readings of a bit string (first bit = most significant) ---- *)
Fixpoint uval (b : list bool) : Z :=
  match b with
  | [] => 0
  | x :: r => (if x then 2 ^ Z.of_nat (List.length r) else 0) + uval r
  end.
Definition sval_ (b : list bool) : Z :=
  match b with
  | true :: _ => uval b - 2 ^ Z.of_nat (List.length b)
  | _ => uval b
  end.
Definition bit_at (b : list bool) (i : nat) : bool := nth i b false.
Definition sub (b : list bool) (off w : nat) : list bool := firstn w (skipn off b).

(* the variant selected by the payload's own bits: type id in bits 0-5; bit 139 for type 22; bits 38-39 for 24
   (part number), 25 and 26 (bit 38 = addressed, bit 39 = structured) *)
Definition spec_variant (b : list bool) : option variant :=
  let t := uval (sub b 0 6) in
  let a := bit_at b 38 in
  let s := bit_at b 39 in
  if t =? 1 then Some V1 else if t =? 2 then Some V2 else if t =? 3 then Some V3 else if t =? 4 then Some V4
  else if t =? 5 then Some V5 else if t =? 6 then Some V6 else if t =? 7 then Some V7 else if t =? 8 then Some V8
  else if t =? 9 then Some V9 else if t =? 10 then Some V10 else if t =? 11 then Some V11 else if t =? 12 then Some V12
  else if t =? 13 then Some V13 else if t =? 14 then Some V14 else if t =? 15 then Some V15 else if t =? 16 then Some V16
  else if t =? 17 then Some V17 else if t =? 18 then Some V18 else if t =? 19 then Some V19 else if t =? 20 then Some V20
  else if t =? 21 then Some V21
  else if t =? 22 then Some (if bit_at b 139 then V22Addressed else V22Broadcast)
  else if t =? 23 then Some V23
  else if t =? 24 then (match uval (sub b 38 2) with 0 => Some V24A | 1 => Some V24B | _ => None end)
  else if t =? 25 then Some (if a then (if s then V25AddressedStructured else V25AddressedUnstructured)
                             else (if s then V25BroadcastStructured else V25BroadcastUnstructured))
  else if t =? 26 then Some (if a then (if s then V26AddressedStructured else V26AddressedUnstructured)
                             else (if s then V26BroadcastStructured else V26BroadcastUnstructured))
  else if t =? 27 then Some V27
  else None.

(* the bit index after which the variant is determined *)
Definition disc_end (v : variant) : nat :=
  match v with
  | V22Addressed | V22Broadcast => 140
  | V24A | V24B
  | V25AddressedStructured | V25BroadcastStructured | V25AddressedUnstructured | V25BroadcastUnstructured
  | V26AddressedStructured | V26BroadcastStructured | V26AddressedUnstructured | V26BroadcastUnstructured => 40
  | _ => 6
  end%nat.

(* ---- values ---- *)
Inductive sval :=
| SInt (z : Z)
| SBool (b : bool)
| SFrac (num den : Z)                 (* the real number num/den, den > 0 *)
| SText (s : list Z)
| SBytes (b : list Z)
| SEnum (e : senum) (code : Z) (defined : bool)   (* member with this code; any member if the code is undefined *)
| STurnMember (code : Z).             (* the sentinel members of the rate-of-turn enumeration *)

Local Open Scope string_scope.
Definition senum_name (e : senum) : string :=
  match e with
  | SE_NavigationStatus => "NavigationStatus" | SE_ManeuverIndicator => "ManeuverIndicator"
  | SE_EpfdType => "EpfdType" | SE_ShipType => "ShipType" | SE_NavAid => "NavAid"
  | SE_StationType => "StationType" | SE_TransmitMode => "TransmitMode" | SE_StationIntervals => "StationIntervals"
  end.

Local Close Scope string_scope.

Definition zrange (lo hi : Z) : list Z := map (fun i => lo + Z.of_nat i) (seq 0 (Z.to_nat (hi - lo + 1))).

(* codes to which the standard gives a specific meaning *)
Definition senum_defined (e : senum) : list Z :=
  match e with
  | SE_NavigationStatus => zrange 0 8 ++ [11; 12; 14; 15]
  | SE_ManeuverIndicator => zrange 0 2
  | SE_EpfdType => zrange 0 8 ++ [15]
  | SE_ShipType => [0] ++ zrange 20 24 ++ zrange 30 37 ++ zrange 40 44 ++ zrange 50 55 ++ [58; 59] ++ zrange 60 64 ++ [69]
                   ++ zrange 70 74 ++ [79] ++ zrange 80 84 ++ [89] ++ zrange 90 94 ++ [99]
  | SE_NavAid => zrange 0 31
  | SE_StationType => zrange 0 6
  | SE_TransmitMode => zrange 0 2
  | SE_StationIntervals => zrange 0 10
  end.

Definition round_half_even (a b : Z) : Z :=     (* a/b rounded to the nearest integer, ties to even; b > 0 *)
  let q := a / b in
  let r := a mod b in
  if 2 * r <? b then q else if b <? 2 * r then q + 1 else if Z.even q then q else q + 1.

(* six-bit text: code n < 32 is the character n + 64, otherwise the character n; the text ends before the
   first '@' (code 0); blanks are trimmed *)
Definition sixbit_char (n : Z) : Z := if n <? 32 then n + 64 else n.
Fixpoint sixbit_codes (b : list bool) (fuel : nat) : list Z :=
  match fuel with
  | O => []
  | S f => match b with
           | b0 :: b1 :: b2 :: b3 :: b4 :: b5 :: r => uval [b0; b1; b2; b3; b4; b5] :: sixbit_codes r f
           | _ => []          (* fewer than six bits left: sub-character padding, not a character *)
           end
  end.
Fixpoint until_at (cs : list Z) : list Z :=
  match cs with
  | [] => []
  | c :: r => if c =? 0 then [] else sixbit_char c :: until_at r
  end.
Fixpoint ltrim (s : list Z) : list Z :=
  match s with
  | c :: r => if c =? 32 then ltrim r else s
  | [] => []
  end.
Definition trim (s : list Z) : list Z := rev (ltrim (rev (ltrim s))).
Definition spec_text (b : list bool) : list Z := trim (until_at (sixbit_codes b (List.length b))).

(* bits left-aligned into bytes *)
Fixpoint bytes_of (b : list bool) (fuel : nat) : list Z :=
  match fuel with
  | O => []
  | S f => match b with
           | [] => []
           | _ => let byte := firstn 8 b in
                  uval byte * 2 ^ Z.of_nat (8 - List.length byte) :: bytes_of (skipn 8 b) f
           end
  end.
Definition spec_bytes (b : list bool) : list Z := bytes_of b (List.length b).

Definition spec_turn (code : Z) : sval :=
  if code =? 0 then SFrac 0 1
  else if (code =? 127) || (code =? -127) then STurnMember code
  else if code =? -128 then STurnMember (-128)
  else (* sign * round((code / 4.733)^2) *)
    SFrac ((if code <? 0 then -1 else 1) * round_half_even (code * code * 1000000) (4733 * 4733)) 1.

Definition spec_value (k : kind) (b : list bool) : sval :=
  match k with
  | KU => SInt (uval b)
  | KB => SBool (negb (uval b =? 0))
  | KU10 => SFrac (uval b) 10
  | KI10 => SFrac (sval_ b) 10
  | KF1 => SFrac (uval b) 1
  | KLL => SFrac (round_half_even (sval_ b * 1000000) 600000) 1000000
  | KLL600 => SFrac (round_half_even (sval_ b * 1000000) 600) 1000000
  | KROT => spec_turn (sval_ b)
  | KT => SText (spec_text b)
  | KD | KX => SBytes (spec_bytes b)
  | KE e => SEnum e (uval b) (existsb (Z.eqb (uval b)) (senum_defined e))
  end.

(* the decoded message the layout assigns to a payload of nominal length *)
Definition spec_decode (v : variant) (b : list bool) : list (string * sval) :=
  map (fun f => (s_name f, spec_value (s_kind f) (sub b (s_off f) (s_width f)))) (spec_layout v).

(* well-formedness of the tables themselves: contiguous, covering exactly the nominal length *)
Fixpoint contiguous (fs : list sfield) (off : nat) : bool :=
  match fs with
  | [] => true
  | f :: r => Nat.eqb (s_off f) off && contiguous r (off + s_width f)
  end.
Definition total_width (fs : list sfield) : nat := fold_right (fun f a => s_width f + a)%nat 0%nat fs.

(* sub-character padding bits of the text fields of a payload are zero (quantifier of C01/C08) *)
Definition text_pad_zero (v : variant) (b : list bool) : bool :=
  forallb (fun f => match s_kind f with
                    | KT => let w := s_width f in
                            forallb negb (sub b (s_off f + (w / 6) * 6) (w mod 6))
                    | _ => true end) (spec_layout v).
