(* What C03 and C18 demand of a reader, stated without any buffer, slot table or loop.

   C03.  A schedule is the sequence of arriving lines.  A fragment carries the index of the message it belongs to.
   At each arrival a message is delivered iff the arriving line is a fragment and the fragments of its message that have
   arrived so far are as many as its fragment count; the delivered message is the concatenation of those fragments in
   fragment-number order.  Nothing else is ever delivered.

   C18.  Scanning the lines, `pending` is the latest wrapper since the last delivery; a delivery takes it and clears it.

   Only the shared sentence records (Model/Sentence.v: data, no functions of the implementation) are imported. *)
From Coq Require Import ZArith List Bool.
Require Import Prim.Exn Prim.Bits Model.Sentence.
Import ListNotations.
Open Scope Z_scope.

(* ---------------------------------------------------------------- schedules *)

Record sfrag := mkSF { sf_msg : nat;                  (* which message this fragment belongs to *)
                       sf_sent : ais_sentence }.      (* the parsed sentence *)

Definition f_num (f : sfrag) : Z := a_frag_num (sf_sent f).
Definition f_cnt (f : sfrag) : Z := a_frag_cnt (sf_sent f).
Definition f_seq (f : sfrag) : option Z := a_seq_id (sf_sent f).
Definition f_chan (f : sfrag) : list Z := a_channel (sf_sent f).

(* a line of the schedule: a fragment, a Gatehouse wrapper, or a line the reader skips (unparsable / unknown sentence) *)
Inductive asm_item := IFrag (f : sfrag) | IWrapper (g : gatehouse) | ISkipped (e : libexn).

Definition asm_schedule := list asm_item.

Fixpoint asm_frags (s : asm_schedule) : list sfrag :=
  match s with
  | [] => []
  | IFrag f :: r => f :: asm_frags r
  | _ :: r => asm_frags r
  end.

(* the (sequence id, channel) stream a fragment travels in; an absent sequence id counts as -1 *)
Definition f_slot (f : sfrag) : Z * list Z := (match f_seq f with None => -1 | Some v => v end, f_chan f).

(* a single-sentence message: one fragment, no sequence id (pyais reads sequence id 0 as "none") *)
Definition f_single (f : sfrag) : bool :=
  (f_cnt f =? 1) && match f_seq f with None => true | Some v => v =? 0 end.

Definition frags_of (m : nat) (l : list sfrag) : list sfrag := filter (fun f => Nat.eqb (sf_msg f) m) l.

(* the exceptions for which both readers skip the line *)
Definition skippable (e : libexn) : bool :=
  match e with
  | InvalidNMEAMessageException | NonPrintableCharacterException | UnknownMessageException => true
  | _ => false
  end.

(* The schedules the property quantifies over (fs = the fragments in arrival order):
   - fragment numbers lie in 1..count;
   - the fragments of one message agree on sequence id, channel and count;
   - the fragment numbers of one message are pairwise distinct (each fragment arrives once; any arrival order);
   - messages that occupy the same (sequence id, channel) slot do not overlap in time: when a fragment of a multi-sentence
     message arrives, every other message that used its slot before is already complete.  Single-sentence messages occupy
     no slot.  Incomplete sets are allowed (they are never followed by another message in their slot). *)
Record WF_frags (fs : list sfrag) : Prop := mkWF {
  wf_range : forall f, In f fs -> 1 <= f_num f <= f_cnt f;
  wf_same : forall f g, In f fs -> In g fs -> sf_msg f = sf_msg g ->
            f_seq f = f_seq g /\ f_chan f = f_chan g /\ f_cnt f = f_cnt g;
  wf_distinct : forall m, NoDup (map f_num (frags_of m fs));
  wf_no_overlap : forall p f r, fs = p ++ f :: r -> f_single f = false ->
            forall g, In g p -> f_single g = false -> f_slot g = f_slot f -> sf_msg g <> sf_msg f ->
            Z.of_nat (length (frags_of (sf_msg g) p)) = f_cnt g
}.

Definition WF (s : asm_schedule) : Prop :=
  WF_frags (asm_frags s) /\ forall e, In (ISkipped e) s -> skippable e = true.

(* ---------------------------------------------------------------- C03: what is delivered, and when *)

Record asm_delivery := mkDelivery {
  d_raw : bytes; d_payload : bytes; d_bits : bits; d_valid : bool; d_seq_id : option Z; d_channel : list Z }.

(* what the properties observe of a delivered sentence *)
Definition delivery_of (a : ais_sentence) : asm_delivery :=
  mkDelivery (c_raw (a_common a)) (a_payload a) (a_bits a) (c_is_valid (a_common a)) (a_seq_id a) (a_channel a).

Fixpoint asm_zrange (lo : Z) (n : nat) : list Z :=
  match n with O => [] | S n' => lo :: asm_zrange (lo + 1) n' end.

(* the fragments of message m among l, in fragment-number order 1, 2, ..., cnt *)
Definition parts_in_order (m : nat) (cnt : Z) (l : list sfrag) : list sfrag :=
  flat_map (fun k => filter (fun f => f_num f =? k) (frags_of m l)) (asm_zrange 1 (Z.to_nat cnt)).

Fixpoint asm_join_lf (l : list bytes) : bytes :=
  match l with
  | [] => []
  | [x] => x
  | x :: r => x ++ 10 :: asm_join_lf r
  end.

(* the message completed by fragment f, given everything that has arrived up to and including f *)
Definition spec_assemble (f : sfrag) (arrived : list sfrag) : asm_delivery :=
  let parts := map sf_sent (parts_in_order (sf_msg f) (f_cnt f) arrived) in
  mkDelivery (asm_join_lf (map (fun p => c_raw (a_common p)) parts))
             (concat (map a_payload parts))
             (concat (map a_bits parts))
             (forallb (fun p => c_is_valid (a_common p)) parts)
             (f_seq f) (f_chan f).

(* complete at this arrival: as many fragments of the message have arrived as its count says *)
Definition completes (f : sfrag) (arrived : list sfrag) : bool :=
  Z.of_nat (length (frags_of (sf_msg f) arrived)) =? f_cnt f.

(* one list of deliveries per line; `before` = the fragments that arrived earlier *)
Fixpoint spec_deliveries_from (before : list sfrag) (s : asm_schedule) : list (list asm_delivery) :=
  match s with
  | [] => []
  | IFrag f :: r =>
      let arrived := before ++ [f] in
      (if completes f arrived then [spec_assemble f arrived] else []) :: spec_deliveries_from arrived r
  | _ :: r => [] :: spec_deliveries_from before r
  end.

Definition spec_deliveries (s : asm_schedule) : list (list asm_delivery) := spec_deliveries_from [] s.

(* ---------------------------------------------------------------- C18: which wrapper each delivery carries *)

Inductive asm_event := EWrap (g : gatehouse)    (* a wrapper line was read *)
                 | EDeliver                 (* this line completed a message (single or assembled) *)
                 | ENone.                   (* anything else: fragment of an incomplete message, skipped line *)

Fixpoint spec_wrapper_from (pending : option gatehouse) (evs : list asm_event) : list (list (option gatehouse)) :=
  match evs with
  | [] => []
  | EWrap g :: r => [] :: spec_wrapper_from (Some g) r
  | EDeliver :: r => [pending] :: spec_wrapper_from None r
  | ENone :: r => [] :: spec_wrapper_from pending r
  end.

Definition spec_wrapper (evs : list asm_event) : list (list (option gatehouse)) := spec_wrapper_from None evs.

(* the events of a sequence of lines given as (outcome of parsing, outcome of the tag block queue) and, per line,
   whether the reader delivered a message there.  A wrapper line counts when it was read without error. *)
Definition line_event (line : M sentence * option exn) (delivered : bool) : asm_event :=
  if delivered then EDeliver
  else match line with
       | (Ok (SGatehouse g), None) => EWrap g
       | _ => ENone
       end.

Fixpoint asm_events (lines : list (M sentence * option exn)) (delivered : list bool) : list asm_event :=
  match lines, delivered with
  | l :: ls, d :: ds => line_event l d :: asm_events ls ds
  | _, _ => []
  end.

(* the events of a schedule, with the deliveries the C03 specification prescribes *)
Fixpoint schedule_events (s : asm_schedule) (spec : list (list asm_delivery)) : list asm_event :=
  match s, spec with
  | i :: r, d :: ds =>
      (match d with
       | _ :: _ => EDeliver
       | [] => match i with IWrapper g => EWrap g | _ => ENone end
       end) :: schedule_events r ds
  | _, _ => []
  end.

(* the lines of a schedule as a reader's loop sees them: (outcome of parsing, outcome of the tag block queue) *)
Definition item_line (i : asm_item) : M sentence * option exn :=
  match i with
  | IFrag f => (Ok (SAis (sf_sent f)), None)
  | IWrapper g => (Ok (SGatehouse g), None)
  | ISkipped e => (Raise (Lib e), None)
  end.

Definition schedule_lines (s : asm_schedule) : list (M sentence * option exn) := map item_line s.

Definition has_delivery {A} (out : list A) : bool := match out with [] => false | _ :: _ => true end.

(* what the parser hands to a reader carries no wrapper yet (NMEASentence.__init__ sets wrapper_msg = None) *)
Definition fresh_line (l : M sentence * option exn) : Prop :=
  match l with
  | (Ok (SAis a), _) => a_wrapper a = None
  | _ => True
  end.

(* ---------------------------------------------------------------- a decision procedure for WF (used by the harness to
   confirm that what it feeds to the oracles lies inside the quantifier of the theorems; sound by wf_check_sound) *)

Definition asm_optz_eqb (a b : option Z) : bool :=
  match a, b with Some x, Some y => x =? y | None, None => true | _, _ => false end.
Fixpoint asm_lz_eqb (a b : list Z) : bool :=
  match a, b with [] , [] => true | x :: a', y :: b' => (x =? y) && asm_lz_eqb a' b' | _, _ => false end.

Definition asm_range_ok (f : sfrag) : bool := (1 <=? f_num f) && (f_num f <=? f_cnt f).

Definition asm_same_ok (f g : sfrag) : bool :=
  negb (Nat.eqb (sf_msg f) (sf_msg g)) ||
  (asm_optz_eqb (f_seq f) (f_seq g) && asm_lz_eqb (f_chan f) (f_chan g) && (f_cnt f =? f_cnt g)).

Fixpoint asm_distinct_ok (fs : list sfrag) : bool :=
  match fs with
  | [] => true
  | f :: r => forallb (fun g => negb (Nat.eqb (sf_msg g) (sf_msg f) && (f_num g =? f_num f))) r && asm_distinct_ok r
  end.

Definition asm_slot_eqb2 (a b : Z * list Z) : bool := (fst a =? fst b) && asm_lz_eqb (snd a) (snd b).

Fixpoint asm_overlap_ok (p rest : list sfrag) : bool :=
  match rest with
  | [] => true
  | f :: r =>
      (f_single f ||
       forallb (fun g => f_single g || negb (asm_slot_eqb2 (f_slot g) (f_slot f)) || Nat.eqb (sf_msg g) (sf_msg f) ||
                         (Z.of_nat (length (frags_of (sf_msg g) p)) =? f_cnt g)) p)
      && asm_overlap_ok (p ++ [f]) r
  end.

Definition asm_wf_frags_check (fs : list sfrag) : bool :=
  forallb asm_range_ok fs && forallb (fun f => forallb (asm_same_ok f) fs) fs && asm_distinct_ok fs && asm_overlap_ok [] fs.

Definition asm_wf_check (s : asm_schedule) : bool :=
  asm_wf_frags_check (asm_frags s) && forallb (fun i => match i with ISkipped e => skippable e | _ => true end) s.

(* ---------------------------------------------------------------- backpressure: a BOUNDED queue (NMEAQueue(maxsize=n), puts
   that do not wait for ever).  Per line the environment decides whether a put would be accepted.  What the properties
   demand then: a message that is due at a line is delivered there iff the put is accepted -- the very message the
   unbounded reader delivers, wrapper included --, otherwise queue.Full is raised there and the message is dropped as a
   whole; nothing is delivered or refused anywhere else.  [per] = what the unbounded reader delivers per line. *)

Fixpoint spec_accepted {A} (accepted : list bool) (per : list (list A)) : list (list A) :=
  match accepted, per with
  | a :: acc, d :: ds => (if a then d else []) :: spec_accepted acc ds
  | _, _ => []
  end.

(* the lines at which queue.Full is raised *)
Fixpoint spec_refused {A} (accepted : list bool) (per : list (list A)) : list bool :=
  match accepted, per with
  | a :: acc, d :: ds => (negb a && has_delivery d) :: spec_refused acc ds
  | _, _ => []
  end.
