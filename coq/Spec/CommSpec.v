(* Independent statement of the ITU-R M.1371 communication state (Annex 2, 3.3.7.2.2 / 3.3.7.3.2).
   Written from the standard's tables; depends on nothing generated from pyais.

   SOTDMA (19 bits):  sync state = bits 18-17, slot time-out = bits 16-14, sub message = bits 13-0;
     the sub message is, by time-out: 0 -> slot offset; 1 -> UTC hour (bits 13-9) and minute (bits 8-2);
     2,4,6 -> slot number; 3,5,7 -> number of received stations.
   ITDMA (19 bits):   sync state = bits 18-17, slot increment = bits 16-4, number of slots = bits 3-1,
     keep flag = bit 0.
   Messages 1, 2, 4, 11 carry SOTDMA, message 3 ITDMA; messages 9, 18, 26 carry a 20-bit field whose
   top bit (bit 19, the "communication state selector flag") is 0 for SOTDMA and 1 for ITDMA. *)
From Coq Require Import ZArith List Bool String.
Import ListNotations.
Open Scope string_scope.
Open Scope Z_scope.

Definition bitrange (r lo len : Z) : Z := (r / 2 ^ lo) mod 2 ^ len.

Inductive scheme := SOTDMA | ITDMA.

Definition zin (x : Z) (l : list Z) : bool := existsb (Z.eqb x) l.

Definition radio_width (mt : Z) : option Z :=
  if zin mt [1; 2; 3; 4; 11] then Some 19 else if zin mt [9; 18; 26] then Some 20 else None.

Definition spec_scheme (mt radio : Z) : option scheme :=
  if zin mt [1; 2; 4; 11] then Some SOTDMA
  else if mt =? 3 then Some ITDMA
  else if zin mt [9; 18; 26] then (if bitrange radio 19 1 =? 0 then Some SOTDMA else Some ITDMA)
  else None.

Definition when (b : bool) (v : Z) : option Z := if b then Some v else None.

Definition spec_sotdma (r : Z) : list (string * option Z) :=
  let t := bitrange r 14 3 in
  let sub := bitrange r 0 14 in
  [ ("sync_state", Some (bitrange r 17 2));
    ("slot_timeout", Some t);
    ("slot_offset", when (t =? 0) sub);
    ("utc_hour", when (t =? 1) (bitrange r 9 5));
    ("utc_minute", when (t =? 1) (bitrange r 2 7));
    ("slot_number", when (zin t [2; 4; 6]) sub);
    ("received_stations", when (zin t [3; 5; 7]) sub);
    ("slot_increment", None); ("num_slots", None); ("keep_flag", None) ].

Definition spec_itdma (r : Z) : list (string * option Z) :=
  [ ("sync_state", Some (bitrange r 17 2));
    ("slot_increment", Some (bitrange r 4 13));
    ("num_slots", Some (bitrange r 1 3));
    ("keep_flag", Some (bitrange r 0 1));
    ("slot_timeout", None); ("slot_offset", None); ("utc_hour", None); ("utc_minute", None);
    ("slot_number", None); ("received_stations", None) ].

Definition comm_keys : list string :=
  ["received_stations"; "slot_number"; "utc_hour"; "utc_minute"; "slot_offset"; "slot_timeout";
   "sync_state"; "keep_flag"; "slot_increment"; "num_slots"].

Definition comm_spec (mt radio : Z) : option (list (string * option Z)) :=
  match spec_scheme mt radio with
  | Some SOTDMA => Some (spec_sotdma radio)
  | Some ITDMA => Some (spec_itdma radio)
  | None => None
  end.

(* the UTC sub message is only compared for valid times (property text: minute <= 59) *)
Definition utc_minute_comparable (r : Z) : bool := bitrange r 2 7 <=? 59.

Fixpoint lookup (d : list (string * option Z)) (k : string) : option (option Z) :=
  match d with
  | [] => None
  | (k', v) :: r => if String.eqb k k' then Some v else lookup r k
  end.
