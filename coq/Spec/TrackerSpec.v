(* What C12-C15 demand of a vessel tracker, written without reference to pyais or to Model/Tracker.v.

   C12  the tracker is a finite map MMSI -> track whose content is *defined from the log of accepted updates and
        removals*: a track exists iff the MMSI was updated since its last removal; attribute i has the value carried
        by the most recent such update in which attribute i was present; last_updated is the timestamp of the most
        recent one.  (Declarative: a search backwards through the log, not a merge.)
   C13  the TTL condition on what remains and on what expiry removed.
   C14  the top-n predicate.
   C15  the life-cycle automaton (CREATED UPDATED* DELETED)* per MMSI and the events one operation must emit. *)
From Coq Require Import List Bool ZArith Sorted.
Import ListNotations.
Open Scope Z_scope.

(* ================================================================================================ C12 *)
Section Log.
  Context {V : Type}.

  (* One entry per accepted update (MMSI, for every attribute: the value if the message carried one, timestamp)
     and per removal of an MMSI (pop_track or expiry).  Newest entry first. *)
  Inductive sp_entry := SUpd (m : Z) (attrs : list (option V)) (ts : Z) | SRem (m : Z).
  Definition sp_log := list sp_entry.

  (* the accepted updates of [m] since its most recent removal, newest first *)
  Fixpoint sp_since_removal (m : Z) (log : sp_log) : list (list (option V) * Z) :=
    match log with
    | [] => []
    | SUpd m' a t :: r => if m =? m' then (a, t) :: sp_since_removal m r else sp_since_removal m r
    | SRem m' :: r => if m =? m' then [] else sp_since_removal m r
    end.

  (* attribute i: the value of the most recent message in which it was present; None if never reported *)
  Fixpoint sp_most_recent (i : nat) (msgs : list (list (option V) * Z)) : option V :=
    match msgs with
    | [] => None
    | (a, _) :: r =>
      match nth_error a i with
      | Some (Some v) => Some v
      | _ => sp_most_recent i r
      end
    end.

  Record sp_track := mkSpTrack { sp_lu : Z; sp_attrs : list (option V) }.

  (* the track the tracker must hold for [m] (None: no track) *)
  Definition sp_track_of (nattrs : nat) (m : Z) (log : sp_log) : option sp_track :=
    let msgs := sp_since_removal m log in
    match msgs with
    | [] => None
    | (_, t) :: _ => Some (mkSpTrack t (map (fun i => sp_most_recent i msgs) (seq 0 nattrs)))
    end.

  Definition sp_lu_of (m : Z) (log : sp_log) : option Z :=
    match sp_since_removal m log with [] => None | (_, t) :: _ => Some t end.

  Definition sp_mmsis (log : sp_log) : list Z :=
    map (fun e => match e with SUpd m _ _ => m | SRem m => m end) log.

  Definition sp_older (ts : Z) (m : Z) (log : sp_log) : bool :=
    match sp_lu_of m log with Some lu => ts <? lu | None => false end.

  (* An update is rejected iff it is older than the track of its MMSI, or, in ordered mode, older than any track. *)
  Definition sp_rejected (ordered : bool) (m ts : Z) (log : sp_log) : bool :=
    sp_older ts m log || (ordered && existsb (fun m' => sp_older ts m' log) (sp_mmsis log)).

  (* the operations of a history, as the specification sees them *)
  Inductive sp_op :=
  | SpUpdate (now m : Z) (attrs : list (option V)) (ts : option Z)   (* ts None: the clock value is the timestamp *)
  | SpCleanup (now : Z)
  | SpPop (m : Z)
  | SpOther                                                           (* (un)registering a callback *)
  | SpInsert (now m : Z) (attrs : list (option V)) (ts : option Z)    (* an update handed to the table directly: not
                                                                         subject to the ordered-stream rule, no expiry *)
  | SpSetTtl (ttl : option Z)                                         (* a new TTL is configured *)
  | SpUnordered.                                                      (* the tracker is switched to unordered mode *)

  (* the configuration after an operation: only the two configuration operations change it *)
  Definition sp_mode (ordered : bool) (op : sp_op) : bool := match op with SpUnordered => false | _ => ordered end.
  Definition sp_ttl_after (ttl : option Z) (op : sp_op) : option Z := match op with SpSetTtl t => t | _ => ttl end.

  (* One step.  [expired] = the MMSIs removed by expiry during this operation.  Which MMSIs these have to be is
     C13's business: C12 takes them from the DELETED events of the step, [sp_step_exact] computes them. *)
  Definition sp_step (ordered : bool) (log : sp_log) (op : sp_op) (expired : list Z) : sp_log :=
    match op with
    | SpUpdate now m a ts =>
      let t := match ts with Some t => t | None => now end in
      if sp_rejected ordered m t log then log else map SRem expired ++ SUpd m a t :: log
    | SpCleanup _ => map SRem expired ++ log
    | SpPop m => SRem m :: log
    | SpInsert now m a ts =>
      let t := match ts with Some t => t | None => now end in
      if sp_older t m log then log else SUpd m a t :: log
    | SpOther | SpSetTtl _ | SpUnordered => log
    end.

  (* [ordered] = the mode at the start; each step is judged by the mode in force when it happens *)
  Fixpoint sp_run (ordered : bool) (log : sp_log) (h : list (sp_op * list Z)) : sp_log :=
    match h with
    | [] => log
    | (op, expired) :: r => sp_run (sp_mode ordered op) (sp_step ordered log op expired) r
    end.

  (* C13 as part of the map specification: exactly the tracks whose age has reached the TTL expire *)
  Definition sp_expired (ttl : option Z) (now : Z) (log : sp_log) : list Z :=
    match ttl with
    | None => []
    | Some T => filter (fun m => match sp_lu_of m log with Some lu => T <=? now - lu | None => false end)
                       (sp_mmsis log)
    end.

  Definition sp_step_exact (ttl : option Z) (ordered : bool) (log : sp_log) (op : sp_op) : sp_log :=
    match op with
    | SpUpdate now m a ts =>
      let t := match ts with Some t => t | None => now end in
      if sp_rejected ordered m t log then log
      else let log1 := SUpd m a t :: log in map SRem (sp_expired ttl now log1) ++ log1
    | SpCleanup now => map SRem (sp_expired ttl now log) ++ log
    | SpPop m => SRem m :: log
    | SpInsert now m a ts =>
      let t := match ts with Some t => t | None => now end in
      if sp_older t m log then log else SUpd m a t :: log
    | SpOther | SpSetTtl _ | SpUnordered => log
    end.

  (* [ttl], [ordered] = the configuration at the start; each step is judged by the configuration in force *)
  Fixpoint sp_run_exact_from (ttl : option Z) (ordered : bool) (log : sp_log) (h : list sp_op) : sp_log :=
    match h with
    | [] => log
    | op :: r => sp_run_exact_from (sp_ttl_after ttl op) (sp_mode ordered op) (sp_step_exact ttl ordered log op) r
    end.

  Definition sp_run_exact (ttl : option Z) (ordered : bool) (h : list sp_op) : sp_log :=
    sp_run_exact_from ttl ordered [] h.
End Log.
Arguments sp_entry V : clear implicits.
Arguments sp_log V : clear implicits.
Arguments sp_track V : clear implicits.
Arguments sp_op V : clear implicits.

(* ================================================================================================ C13 *)
(* After update()/cleanup() at time [now] with TTL [T]: [remaining] = last_updated of every remaining track,
   [removed] = last_updated (at the moment of removal) of every track removed by expiry in this operation. *)
Definition sp_ttl_ok (T now : Z) (remaining removed : list Z) : Prop :=
  Forall (fun lu => now - lu < T) remaining /\ Forall (fun lu => T <= now - lu) removed.

Definition sp_ttl_okb (T now : Z) (remaining removed : list Z) : bool :=
  forallb (fun lu => now - lu <? T) remaining && forallb (fun lu => T <=? now - lu) removed.

(* ================================================================================================ C14 *)
(* [all] = the (mmsi, last_updated) of all tracks, [r] = those of the result of n_latest_tracks(n). *)
Definition sp_top_n (n : Z) (all r : list (Z * Z)) : Prop :=
  Z.of_nat (length r) = Z.min n (Z.of_nat (length all)) /\
  NoDup (map fst r) /\
  incl r all /\
  (forall x y, In x r -> In y all -> ~ In (fst y) (map fst r) -> snd y <= snd x).

Definition sp_newest_first (r : list (Z * Z)) : Prop := StronglySorted (fun a b => snd b <= snd a) r.

Definition zmemb (x : Z) (l : list Z) : bool := existsb (Z.eqb x) l.
Definition pair_memb (x : Z * Z) (l : list (Z * Z)) : bool :=
  existsb (fun y => (fst x =? fst y) && (snd x =? snd y)) l.
Fixpoint nodupb (l : list Z) : bool :=
  match l with [] => true | x :: r => negb (zmemb x r) && nodupb r end.

Definition sp_top_nb (n : Z) (all r : list (Z * Z)) : bool :=
  (Z.of_nat (length r) =? Z.min n (Z.of_nat (length all))) &&
  nodupb (map fst r) &&
  forallb (fun x => pair_memb x all) r &&
  forallb (fun x => forallb (fun y => zmemb (fst y) (map fst r) || (snd y <=? snd x)) all) r.

Fixpoint sp_newest_firstb (r : list (Z * Z)) : bool :=
  match r with
  | [] => true
  | a :: t => forallb (fun b => snd b <=? snd a) t && sp_newest_firstb t
  end.

(* ================================================================================================ C15 *)
Inductive sp_event := SCreated | SUpdated | SDeleted.

(* (CREATED UPDATED* DELETED)* : the state is "alive"; None = the trace left the language *)
Definition sp_auto_step (alive : bool) (e : sp_event) : option bool :=
  match e, alive with
  | SCreated, false => Some true
  | SUpdated, true => Some true
  | SDeleted, true => Some false
  | _, _ => None
  end.

Fixpoint sp_auto_run (alive : bool) (es : list sp_event) : option bool :=
  match es with
  | [] => Some alive
  | e :: r => match sp_auto_step alive e with Some a => sp_auto_run a r | None => None end
  end.

(* the events of one MMSI within a trace of (event, mmsi) *)
Definition sp_events_of (m : Z) (trace : list (sp_event * Z)) : list sp_event :=
  map fst (filter (fun e => snd e =? m) trace).

(* Some true: trace legal and [m] alive; Some false: legal and dead; None: illegal *)
Definition sp_alive (m : Z) (trace : list (sp_event * Z)) : option bool :=
  sp_auto_run false (sp_events_of m trace).

(* The events one operation must emit for MMSI [m], from what the operation was ([target] = Some m0 for an accepted
   update of m0, None for anything else, including a rejected update) and whether [m] had a track before / has one
   after: CREATED exactly when it gains a track, UPDATED for a further accepted update, DELETED exactly once when
   the track goes away. *)
Definition sp_expected_events (target : option Z) (m : Z) (before after : bool) : list sp_event :=
  let gone := if after then [] else [SDeleted] in
  match target with
  | Some m0 =>
    if m =? m0 then (if before then [SUpdated] else [SCreated]) ++ gone
    else if before then gone else []
  | None => if before then gone else []
  end.

(* To whom one event goes: the subscribers of the event are called in registration order; a subscriber that raises ends
   the loop, so the event reaches the subscribers up to and including the first one that raises. *)
Fixpoint sp_cut {A} (raises : A -> bool) (l : list A) : list A :=
  match l with
  | [] => []
  | x :: r => if raises x then [x] else x :: sp_cut raises r
  end.
