(* What C19 demands, written from the property text and independent of pyais/filter.py:

     "The output of a filter chain is the order-preserving subsequence of the decoded input consisting of
      exactly the messages that satisfy all filters in the chain: attribute predicate true, listed attributes
      present and not None, type in the allowed set, position strictly within the distance (great-circle) or
      inside the closed grid, where messages that report no position pass the geographic filters."

   A criterion is one of the five kinds of demand; [crit_satisfies] says when a message meets it; [conj_filter] is
   the subsequence of the messages that meet all of them.  The great-circle distance is a parameter. *)
From Coq Require Import ZArith List Bool String.
Require Import Prim.Exn Prim.Rat Prim.PyObj.
Import ListNotations.
Open Scope Z_scope.

Definition position_t := (ratio * ratio)%type.

Inductive criterion :=
| CPred (p : pymsg -> bool)                            (* the attribute predicate is true of the message *)
| CNotNone (names : list string)                     (* every listed attribute is present and not None *)
| CTypeIn (types : list Z)                           (* the message type is in the allowed set *)
| CWithin (ref : position_t) (d : ratio)               (* strictly within d of ref (great-circle) *)
| CInGrid (lat_min lon_min lat_max lon_max : ratio).   (* inside the closed grid *)

(* The position a message reports: both coordinates present and numbers.  A message without the attributes
   (type 5, 6, ...) and a position report cut off before its coordinates (lat or lon None) report none. *)
Definition reported_position (m : pymsg) : option position_t :=
  match py_attr_lookup (pm_attrs m) "lat", py_attr_lookup (pm_attrs m) "lon" with
  | Some (Ok (ANum lat)), Some (Ok (ANum lon)) => Some (lat, lon)
  | _, _ => None
  end.

(* "listed attributes present and not None".  An attribute of a message is PRESENT when the message has a value
   for it: a stored field, or a computed attribute (is_sotdma, communication_state_raw, ...) that can be evaluated
   for this message.  A computed attribute that cannot be evaluated for this message -- its getter raises, e.g.
   because the radio field it is computed from was cut off -- has no value: it is NOT present, whatever the
   exception is, and the message does not satisfy the criterion.  (This is a statement about the message, written
   without looking at how NoneFilter reads attributes.) *)
Definition present_not_none (m : pymsg) (name : string) : bool :=
  match py_attr_lookup (pm_attrs m) name with
  | None => false               (* absent *)
  | Some (Raise _) => false     (* computed, but cannot be evaluated for this message: no value, not present *)
  | Some (Ok ANone) => false    (* present but None *)
  | Some (Ok _) => true
  end.

Section Spec.
  Variable great_circle : position_t -> position_t -> ratio.

  Definition crit_satisfies (c : criterion) (m : pymsg) : bool :=
    match c with
    | CPred p => p m
    | CNotNone names => forallb (present_not_none m) names
    | CTypeIn types => existsb (fun t => pm_type m =? t) types
    | CWithin ref d =>
      match reported_position m with
      | None => true                                            (* no position: passes *)
      | Some p => ratio_ltb (great_circle ref p) d                (* strictly within *)
      end
    | CInGrid lat_min lon_min lat_max lon_max =>
      match reported_position m with
      | None => true
      | Some (lat, lon) =>                                      (* closed on all four edges *)
        ratio_leb lat_min lat && ratio_leb lat lat_max && ratio_leb lon_min lon && ratio_leb lon lon_max
      end
    end.

  Definition crit_satisfies_all (cs : list criterion) (m : pymsg) : bool := forallb (fun c => crit_satisfies c m) cs.

  (* the conjunction filter *)
  Definition conj_filter (cs : list criterion) (xs : list pymsg) : list pymsg := filter (crit_satisfies_all cs) xs.
End Spec.

(* [sub] is an order-preserving subsequence of [l]: obtained by deleting elements. *)
Inductive subseq {A} : list A -> list A -> Prop :=
| subseq_nil : subseq [] []
| subseq_skip x sub l : subseq sub l -> subseq sub (x :: l)
| subseq_keep x sub l : subseq sub l -> subseq (x :: sub) (x :: l).

(* "exactly the messages that satisfy P, in order": position by position, an input element is kept iff it
   satisfies P.  (Stated with a selection mask so that equal messages at different positions are told apart.) *)
Fixpoint select {A} (mask : list bool) (l : list A) : list A :=
  match mask, l with
  | b :: mask', x :: l' => if b then x :: select mask' l' else select mask' l'
  | _, _ => []
  end.

Definition exactly_those {A} (P : A -> bool) (out l : list A) : Prop := out = select (map P l) l.
