(* Independent statement of what C02 (encode then decode returns the message) and C08 (re-encoding a decoded
   message is stable) demand, over the hand-written ITU layouts of Spec/Layout.v.  Depends on nothing generated
   from pyais and on no model file.

   C02.  A caller supplies an *assignment*: field name -> value, for some of the fields of a layout variant.
     [in_range v a]   : is every supplied value one the wire can carry in that field (and is the assignment one
                        the API accepts: no duplicate names, only fields of the variant, the fields without a
                        default present, the discriminator fields present and selecting v)?
     [normalise v a]  : the value each supplied field must have after  decode (encode a): exactly the supplied
                        value for integers, booleans, enumeration members, binary data; upper-cased, cut at the first
                        '@' and trimmed for text; quantised to the wire grid for scaled quantities.
   C08.  [c08_length_ok v n], [raw_unnormalised v bits] : the lengths the property quantifies over and "no field was
                        normalised".
   Values are the [sval] of Spec/Layout.v; a real number is [SFrac num den] (den > 0) or an [SInt]. *)
From Coq Require Import ZArith List Bool String.
Require Import Spec.Layout.
Import ListNotations.
Open Scope list_scope.
Open Scope Z_scope.

Definition assignment := list (string * sval).

Fixpoint lookup_s {B} (k : string) (l : list (string * B)) : option B :=
  match l with
  | [] => None
  | (k', x) :: r => if String.eqb k k' then Some x else lookup_s k r
  end.
Fixpoint find_field (k : string) (fs : list sfield) : option sfield :=
  match fs with
  | [] => None
  | f :: r => if String.eqb k (s_name f) then Some f else find_field k r
  end.
Fixpoint mem_s (k : string) (l : list string) : bool :=
  match l with [] => false | k' :: r => String.eqb k k' || mem_s k r end.
Fixpoint nodup_s (l : list string) : bool :=
  match l with [] => true | k :: r => negb (mem_s k r) && nodup_s r end.

(* ------------------------------------------------------------------------------------------------ *)
(* real numbers and wire codes                                                                        *)

(* the real number a value denotes, as a fraction with positive denominator *)
Definition real_of (x : sval) : option (Z * Z) :=
  match x with
  | SInt z => Some (z, 1)
  | SFrac n d => if 0 <? d then Some (n, d) else None
  | _ => None
  end.

Definition umax (w : nat) : Z := 2 ^ Z.of_nat w - 1.               (* largest unsigned code of w bits *)
Definition smin (w : nat) : Z := - 2 ^ (Z.of_nat w - 1).           (* two's complement range of w bits *)
Definition smax (w : nat) : Z := 2 ^ (Z.of_nat w - 1) - 1.

(* lo <= (n/d) * s <= hi   (d > 0): the scaled value lies inside the code range *)
Definition scaled_between (lo hi s n d : Z) : bool := (lo * d <=? n * s) && (n * s <=? hi * d).

(* truncation toward zero / nearest (ties to even) of (n/d) * s *)
Definition code_trunc (s n d : Z) : Z := Z.quot (n * s) d.
Definition code_near (s n d : Z) : Z := round_half_even (n * s) d.

(* nearest integer to sqrt(a/b), ties to even (a >= 0, b > 0): the k with (2k-1)^2 b <= 4 a <= (2k+1)^2 b *)
Definition nearest_sqrt (a b : Z) : Z :=
  let k := Z.sqrt (a / b) in
  let up := b * ((2 * k + 1) * (2 * k + 1)) in
  if 4 * a <? up then k else if up <? 4 * a then k + 1 else if Z.even k then k else k + 1.

(* rate of turn (ITU: ROT_AIS = 4.733 * sqrt(ROT_sensor), sign kept): the code of the real n/d *)
Definition rot_code (n d : Z) : Z :=
  (if n <? 0 then -1 else 1) * nearest_sqrt (4733 * 4733 * Z.abs n) (1000 * 1000 * d).

(* |n/d| = k *)
Definition abs_is (n d k : Z) : bool := Z.abs n =? k * d.

(* ------------------------------------------------------------------------------------------------ *)
(* text and binary data                                                                               *)

(* the 64 characters of the six-bit alphabet are the codes 32..95 ('@A..Z[\]^_' and ' '..'?'); lower-case letters
   are accepted and stand for their capitals *)
Definition up (c : Z) : Z := if (97 <=? c) && (c <=? 122) then c - 32 else c.
Definition text_char_ok (c : Z) : bool := let u := up c in (32 <=? u) && (u <=? 95).
Fixpoint cut_at (s : list Z) : list Z :=          (* the characters before the first '@' *)
  match s with
  | [] => []
  | c :: r => if c =? 64 then [] else c :: cut_at r
  end.
Definition norm_text (s : list Z) : list Z := trim (cut_at (map up s)).

Definition byte_ok (b : Z) : bool := (0 <=? b) && (b <? 256).
Definition ceil8 (w : nat) : nat := ((w + 7) / 8)%nat.
(* the bits of the last byte that lie beyond the field width are zero *)
Definition pad_bits_zero (w : nat) (bs : list Z) : bool :=
  match (w mod 8)%nat with
  | O => true
  | r => last bs 0 mod 2 ^ Z.of_nat (8 - r) =? 0
  end.

(* ------------------------------------------------------------------------------------------------ *)
(* per field kind                                                                                     *)

Definition senum_eqb (a b : senum) : bool :=
  match a, b with
  | SE_NavigationStatus, SE_NavigationStatus | SE_ManeuverIndicator, SE_ManeuverIndicator
  | SE_EpfdType, SE_EpfdType | SE_ShipType, SE_ShipType | SE_NavAid, SE_NavAid | SE_StationType, SE_StationType
  | SE_TransmitMode, SE_TransmitMode | SE_StationIntervals, SE_StationIntervals => true
  | _, _ => false
  end.

Definition zmem_ (x : Z) (l : list Z) : bool := existsb (Z.eqb x) l.

(* [varlen]: the field is variable-length (shorter values are allowed) *)
Definition in_range_kind (k : kind) (w : nat) (varlen : bool) (x : sval) : bool :=
  match k with
  | KU => match x with SInt z => (0 <=? z) && (z <=? umax w) | _ => false end
  | KB => match x with SBool _ => true | SInt z => (z =? 0) || (z =? 1) | _ => false end
  | KU10 => match real_of x with Some (n, d) => scaled_between 0 (umax w) 10 n d | None => false end
  | KI10 => match real_of x with Some (n, d) => scaled_between (smin w) (smax w) 10 n d | None => false end
  | KF1 => match real_of x with Some (n, d) => scaled_between 0 (umax w) 1 n d | None => false end
  | KLL => match real_of x with Some (n, d) => scaled_between (smin w) (smax w) 600000 n d | None => false end
  | KLL600 => match real_of x with Some (n, d) => scaled_between (smin w) (smax w) 600 n d | None => false end
  | KROT =>
    match x with
    | STurnMember c => (c =? 127) || (c =? -127) || (c =? -128)
    | _ => match real_of x with
           | Some (n, d) =>
             (* 127 and 128 are the sentinels of the API, not turn rates; the largest code of a rate is 126 *)
             negb (abs_is n d 127) && negb (abs_is n d 128) && (Z.abs (rot_code n d) <=? 126)
           | None => false
           end
    end
  | KT => match x with
          | SText s => forallb text_char_ok s && (List.length s <=? w / 6)%nat
          | _ => false
          end
  | KD | KX => match x with
               | SBytes bs =>
                 forallb byte_ok bs &&
                 (((List.length bs =? ceil8 w)%nat && pad_bits_zero w bs)
                  || (varlen && (List.length bs <=? w / 8)%nat))
               | _ => false
               end
  | KE e => match x with
            | SEnum e' c _ => senum_eqb e e' && zmem_ c (senum_defined e) && (c <=? umax w)
            | SInt c => zmem_ c (senum_defined e) && (c <=? umax w)
            | _ => false
            end
  end.

Definition frac_or (x : sval) (f : Z -> Z -> sval) : sval :=
  match real_of x with Some (n, d) => f n d | None => x end.

Definition normalise_kind (k : kind) (x : sval) : sval :=
  match k with
  | KU => x
  | KB => match x with SInt z => SBool (negb (z =? 0)) | _ => x end
  | KU10 | KI10 => frac_or x (fun n d => SFrac (code_trunc 10 n d) 10)
  | KF1 => frac_or x (fun n d => SFrac (code_trunc 1 n d) 1)
  (* the decoder reports code/600000 rounded to six decimals (Spec/Layout.v, KLL) *)
  | KLL => frac_or x (fun n d => SFrac (round_half_even (code_near 600000 n d * 1000000) 600000) 1000000)
  | KLL600 => frac_or x (fun n d => SFrac (round_half_even (code_near 600 n d * 1000000) 600) 1000000)
  | KROT => match x with
            | STurnMember _ => x
            | _ => frac_or x (fun n d => spec_turn (rot_code n d))
            end
  | KT => match x with SText s => SText (norm_text s) | _ => x end
  | KD | KX => x
  | KE e => match x with SInt c => SEnum e c true | SEnum e' c _ => SEnum e' c true | _ => x end
  end.

(* the wire code a scaled value is sent as (used by the tolerance statements) *)
Definition wire_code (k : kind) (x : sval) : option Z :=
  match real_of x with
  | None => None
  | Some (n, d) =>
    match k with
    | KU10 | KI10 => Some (code_trunc 10 n d)
    | KF1 => Some (code_trunc 1 n d)
    | KLL => Some (code_near 600000 n d)
    | KLL600 => Some (code_near 600 n d)
    | KROT => Some (rot_code n d)
    | _ => None
    end
  end.

(* ------------------------------------------------------------------------------------------------ *)
(* assignments                                                                                        *)

(* variable-length fields: binary data (types 6, 8, 17, 25, 26) and a text that ends the message (types 12, 14 and
   the name extension of type 21) *)
Definition var_len (v : variant) (f : sfield) : bool :=
  match s_kind f with
  | KD => true
  | KT => (s_off f + s_width f =? nominal v)%nat
  | _ => false
  end.

Local Open Scope string_scope.
(* the values the discriminator fields of a variant have *)
Definition disc_values (v : variant) : list (string * sval) :=
  match v with
  | V22Addressed => [("addressed", SBool true)]
  | V22Broadcast => [("addressed", SBool false)]
  | V24A => [("partno", SInt 0)]
  | V24B => [("partno", SInt 1)]
  | V25AddressedStructured | V26AddressedStructured => [("addressed", SBool true); ("structured", SBool true)]
  | V25BroadcastStructured | V26BroadcastStructured => [("addressed", SBool false); ("structured", SBool true)]
  | V25AddressedUnstructured | V26AddressedUnstructured => [("addressed", SBool true); ("structured", SBool false)]
  | V25BroadcastUnstructured | V26BroadcastUnstructured => [("addressed", SBool false); ("structured", SBool false)]
  | _ => []
  end.

(* fields the API has no default for: the source station everywhere, the destination of an addressed message *)
Definition required (v : variant) : list string :=
  "mmsi" :: (match v with V6 | V10 | V12 => ["dest_mmsi"] | _ => [] end) ++ map fst (disc_values v).
Local Close Scope string_scope.

Definition sval_same (a b : sval) : bool :=
  match a, b with
  | SInt x, SInt y => x =? y
  | SBool x, SBool y => Bool.eqb x y
  | _, _ => false
  end.

Definition field_in_range (v : variant) (kx : string * sval) : bool :=
  match find_field (fst kx) (spec_layout v) with
  | Some f => in_range_kind (s_kind f) (s_width f) (var_len v f) (snd kx)
  | None => false
  end.

Definition field_normalise (v : variant) (kx : string * sval) : string * sval :=
  match find_field (fst kx) (spec_layout v) with
  | Some f => (fst kx, normalise_kind (s_kind f) (snd kx))
  | None => kx
  end.

Definition normalise (v : variant) (a : assignment) : assignment := map (field_normalise v) a.

Definition in_range (v : variant) (a : assignment) : bool :=
  nodup_s (map fst a)
  && forallb (field_in_range v) a
  && forallb (fun k => mem_s k (map fst a)) (required v)
  && forallb (fun ke => match lookup_s (fst ke) (normalise v a) with
                        | Some x => sval_same x (snd ke)
                        | None => false
                        end) (disc_values v)
  && match lookup_s "msg_type"%string a with
     | Some x => sval_same x (SInt (type_id v))
     | None => true
     end.

(* ------------------------------------------------------------------------------------------------ *)
(* tolerance of the scaled kinds: |normalise x - x| against the wire step                             *)

(* (num, den, strict): the bound num/den on |y - x|, strict or not.  Truncating kinds: less than one step.  Positions:
   half a step of the wire grid plus half a unit of the sixth decimal the decoder reports. *)
Definition tolerance (k : kind) : option (Z * Z * bool) :=
  match k with
  | KU10 | KI10 => Some (1, 10, true)
  | KF1 => Some (1, 1, true)
  | KLL => Some (1 * 5 + 3 * 1, 6000000, false)            (* 1/1200000 + 1/2000000 = 8/6000000 *)
  | KLL600 => Some (1000 * 5 + 3 * 1, 6000000, false)      (* 1/1200 + 1/2000000 *)
  | _ => None
  end.

(* |yn/yd - xn/xd| <= (or <) tn/td, all denominators positive *)
Definition within (strict : bool) (tn td xn xd yn yd : Z) : bool :=
  let diff := Z.abs (yn * xd - xn * yd) in
  if strict then diff * td <? tn * (xd * yd) else diff * td <=? tn * (xd * yd).

(* ------------------------------------------------------------------------------------------------ *)
(* inputs on which the unchanged implementation is known to violate C02 (guards of C02_partial)       *)

(* (a) binary data shorter than its field although another field follows it (type 26: the communication state
   comes directly after the data actually sent) *)
Definition short_bytes (w : nat) (x : sval) : bool :=
  match x with
  | SBytes bs => negb (List.length bs =? 0)%nat && (List.length bs <? ceil8 w)%nat
  | _ => false
  end.
Definition ends_message (v : variant) (f : sfield) : bool := (s_off f + s_width f =? nominal v)%nat.
Definition c02_short_data26 (v : variant) (a : assignment) : bool :=
  existsb (fun kx => match find_field (fst kx) (spec_layout v) with
                     | Some f => match s_kind f with
                                 | KD => negb (ends_message v f) && short_bytes (s_width f) (snd kx)
                                 | _ => false
                                 end
                     | None => false
                     end) a.

(* (b) types 2, 3, 11, 13 when the caller does not pass msg_type itself *)
Definition c02_inherited_type (v : variant) (a : assignment) : bool :=
  match v with
  | V2 | V3 | V11 | V13 => match lookup_s "msg_type"%string a with None => true | Some _ => false end
  | _ => false
  end.

(* (c) an empty variable-length text (types 12, 14) / (d) empty variable-length binary data *)
Definition empty_varlen_kind (k : kind) (x : sval) : bool :=
  match k, x with
  | KT, SText [] => true
  | KD, SBytes [] => true
  | _, _ => false
  end.
Definition c02_empty_varlen (v : variant) (a : assignment) : bool :=
  existsb (fun kx => match find_field (fst kx) (spec_layout v) with
                     | Some f => var_len v f && empty_varlen_kind (s_kind f) (snd kx)
                                 (* the name extension of type 21 is padded with '@' by the encoder and comes back '' *)
                                 && negb (match v, s_kind f with V21, KT => true | _, _ => false end)
                     | None => false
                     end) a.

Definition c02_guard (v : variant) (a : assignment) : bool :=
  negb (c02_short_data26 v a) && negb (c02_inherited_type v a) && negb (c02_empty_varlen v a).

(* ------------------------------------------------------------------------------------------------ *)
(* C08                                                                                                *)

(* the lengths C08 quantifies over: the variant is determined, and the payload ends on a field boundary or, inside a
   variable-length field, on a character (text) / byte (binary data) boundary *)
Definition ends_field (f : sfield) (v : variant) (n : nat) : bool :=
  let o := s_off f in
  let e := (o + s_width f)%nat in
  (n =? e)%nat
  || (var_len v f && (o <? n)%nat && (n <? e)%nat
      && ((n - o) mod (match s_kind f with KT => 6 | _ => 8 end) =? 0)%nat).
Definition c08_length_ok (v : variant) (n : nat) : bool :=
  (disc_end v <=? n)%nat && existsb (fun f => ends_field f v n) (spec_layout v).

(* "no field was normalised": the raw bits of the field are what its decoded value is sent as *)
Definition all_from_at (cs : list Z) : bool :=      (* once a '@' (code 0) appears only '@' follow *)
  (fix go (cs : list Z) (seen : bool) : bool :=
     match cs with
     | [] => true
     | c :: r => if c =? 0 then go r true else negb seen && go r false
     end) cs false.
Definition raw_text_canonical (b : list bool) : bool :=
  let cs := sixbit_codes b (List.length b) in
  let txt := until_at cs in
  all_from_at cs                                                      (* nothing after the first '@' *)
  && (List.length (trim txt) =? List.length txt)%nat                   (* no blank to trim *)
  && forallb negb (skipn (6 * List.length cs) b).                      (* sub-character padding zero *)

(* A text field is sent in one of two ways.  [exact]: with exactly the characters it has (the text of types 12 and 14, which
   ends the message): any '@' in the received field is cut by the decoder, i.e. a normalisation.  Otherwise padded with
   '@' to its full width: '@' padding after the text is the wire form itself, but a shorter form of the field (the name
   extension of type 21) is re-encoded at full width: its value is unchanged, its bits are not. *)
Definition raw_fix_kind (k : kind) (full exact : bool) (b : list bool) : bool :=
  match k with
  | KROT => let c := sval_ b in
            match spec_turn c with
            | SFrac n d => rot_code n d =? c
            | _ => true
            end
  | KT => raw_text_canonical b
          && (if exact then forallb (fun c => negb (c =? 0)) (sixbit_codes b (List.length b)) else full)
  | KE e => zmem_ (uval b) (senum_defined e)
  | _ => true
  end.

(* [covered]: the part of the field that is inside a payload of n bits *)
Definition covered (f : sfield) (n : nat) : nat := Nat.min (s_width f) (n - s_off f).

Definition exact_text (v : variant) : bool := match v with V12 | V14 => true | _ => false end.

Definition raw_unnormalised (v : variant) (b : list bool) : bool :=
  forallb (fun f => let c := covered f (List.length b) in
                    (c =? 0)%nat
                    || raw_fix_kind (s_kind f) (c =? s_width f)%nat (exact_text v) (sub b (s_off f) c)) (spec_layout v).

(* inputs on which the unchanged implementation is known to violate C08: a variable-length text at the end of the
   message (types 12, 14) that is present but decodes to the empty string *)
Definition c08_empty_text (v : variant) (b : list bool) : bool :=
  existsb (fun f => match s_kind f, v with
                    | KT, (V12 | V14) =>
                      let c := covered f (List.length b) in
                      negb (c =? 0)%nat && (List.length (spec_text (sub b (s_off f) c)) =? 0)%nat
                    | _, _ => false
                    end) (spec_layout v).
(* ... and on which only its bit-for-bit clause is violated: the payload contains sub-character padding bits of a text
   field whose width is not a multiple of six (type 14 at 1007/1008 bits, type 21 beyond 356 bits); they are not re-emitted *)
Definition c08_pad_dropped (v : variant) (b : list bool) : bool :=
  existsb (fun f => match s_kind f with
                    | KT => negb (s_width f mod 6 =? 0)%nat && (6 * (s_width f / 6) <? covered f (List.length b))%nat
                    | _ => false
                    end) (spec_layout v).
Definition c08_guard (v : variant) (b : list bool) : bool := negb (c08_empty_text v b).
Definition c08_guard_bits (v : variant) (b : list bool) : bool := negb (c08_empty_text v b) && negb (c08_pad_dropped v b).
