(* Vocabulary of C16, independent of the model: the XOR checksum, "the value given for a field" (a keyword may be
   given once in Python; in a list the last one wins), separator-free text, the text of a group triple. *)
From Coq Require Import ZArith List Bool String.
Require Import Prim.PyText.
Import ListNotations.
Open Scope Z_scope.

(* XOR of all bytes *)
Definition tbs_xor (b : list Z) : Z := fold_right Z.lxor 0 b.

(* the seven supported fields *)
Definition tbs_text_fields : list string :=
  ["receiver_timestamp"; "destination_station"; "line_count"; "relative_time"; "source_station"; "text"]%string.
Definition tbs_group_field : string := "group"%string.
Definition tbs_supported (name : string) : bool :=
  existsb (String.eqb name) (tbs_group_field :: tbs_text_fields).

(* fields as given to create(): (keyword, None | text of the value) *)
Definition tbs_fields := list (string * option (list Z)).

(* the text given for [name] (None if not given or given as None) *)
Definition tbs_value (fs : tbs_fields) (name : string) : option (list Z) :=
  fold_left (fun acc kv => if String.eqb (fst kv) name
                           then match snd kv with Some v => Some v | None => acc end
                           else acc) fs None.

(* at least one supported field with a value *)
Definition tbs_some_field (fs : tbs_fields) : Prop :=
  exists name v, In (name, Some v) fs /\ tbs_supported name = true.

(* a value: bytes of valid UTF-8 text without the separators ',' and '*' *)
Definition tbs_text_ok (v : list Z) : Prop :=
  Forall (fun c => 0 <= c < 256) v /\ pt_utf8_valid v = true /\ ~ In 44 v /\ ~ In 42 v.

(* text of a group triple: three non-empty runs of ASCII digits (at most 4300 each, the limit of CPython's
   int/str conversion) joined by '-' *)
Definition tbs_dec_val (ds : list Z) : Z := fold_left (fun acc d => acc * 10 + (d - 48)) ds 0.
Definition tbs_digits (ds : list Z) : Prop :=
  ds <> [] /\ Forall (fun c => 48 <= c <= 57) ds /\ (List.length ds <= 4300)%nat.
Definition tbs_group_text (v : list Z) (g : Z * Z * Z) : Prop :=
  exists a b c, v = a ++ 45 :: b ++ 45 :: c /\ tbs_digits a /\ tbs_digits b /\ tbs_digits c
                /\ g = (tbs_dec_val a, tbs_dec_val b, tbs_dec_val c).

Definition tbs_field_ok (kv : string * option (list Z)) : Prop :=
  match snd kv with
  | None => True
  | Some v => tbs_supported (fst kv) = true ->
              tbs_text_ok v /\ (fst kv = tbs_group_field -> exists g, tbs_group_text v g)
  end.

(* two hex digits and their value *)
Definition tbs_is_hex (c : Z) : Prop := 48 <= c <= 57 \/ 65 <= c <= 70 \/ 97 <= c <= 102.
Definition tbs_hex_val (c : Z) : Z := if c <=? 57 then c - 48 else if c <=? 70 then c - 55 else c - 87.

(* ---- fields that are to be ignored (clause 3) ---- *)
(* the seven NMEA 4.10 parameter codes c d n r s t g *)
Definition tbs_known_codes : list (list Z) := [[99]; [100]; [110]; [114]; [115]; [116]; [103]].

Section Extra.
  Variable uni : Z -> list Z -> option Z.     (* int() of non-ASCII text, Prim/PyText.v *)

  (* the text of a group: three parts without '-' that int() accepts, joined by '-' *)
  Definition tbs_wellformed_group (val : list Z) : Prop :=
    exists a b c x y z, val = a ++ 45 :: b ++ 45 :: c /\ ~ In 45 a /\ ~ In 45 b /\ ~ In 45 c /\
                        pt_int uni 10 a = Prim.Exn.Ok x /\ pt_int uni 10 b = Prim.Exn.Ok y /\ pt_int uni 10 c = Prim.Exn.Ok z.

  (* unknown or malformed: not text, no ':', a code that is none of the seven, or a group that is not three integers *)
  Definition tbs_extra_field (f : list Z) : Prop :=
    pt_utf8_valid f = false
    \/ ~ In 58 f
    \/ (exists spec val, f = spec ++ 58 :: val /\ ~ In 58 spec /\ ~ In spec tbs_known_codes)
    \/ (exists val, f = 103 :: 58 :: val /\ ~ tbs_wellformed_group val).
End Extra.
