(* What C17 demands of a tag block queue, stated over the arrival history and independently of how the queue keeps
   its state.  Generic in the sentence type [A]; [grp s] = the (sentence number, sentences in the group, group id)
   of the sentence's tag block, None for a sentence without a group.

   Reading of the property:
   * a sentence without a group, or in a group of one, is delivered at once as [[s]];
   * the *instance* of group id g at some moment = the grouped sentences with id g that arrived since, and including,
     the most recent sentence numbered 1 of that id (a group id may be used again after its group completed);
   * at the arrival that makes the number of sentences of the instance equal to the group's total, the instance is
     delivered, in arrival order, as one list; nothing else is ever delivered.
   [tbqs_wf] = the provisos of the property (duplicate-free, the first sentence before the others, consistent total). *)
From Coq Require Import ZArith List Bool.
Import ListNotations.
Open Scope Z_scope.

Section Spec.
  Context {A : Type}.
  Variable grp : A -> option (Z * Z * Z).

  Definition tbqs_num (s : A) : Z := match grp s with Some (n, _, _) => n | None => 0 end.
  Definition tbqs_tot (s : A) : Z := match grp s with Some (_, t, _) => t | None => 0 end.

  (* s belongs to a (multi-sentence) group with id g *)
  Definition tbqs_member (g : Z) (s : A) : bool :=
    match grp s with Some (_, t, g') => negb (t =? 1) && (g' =? g) | None => false end.

  (* [rl] = the arrivals so far, LATEST FIRST.  The instance of g, latest first; None if g had no first sentence. *)
  Fixpoint tbqs_instance (g : Z) (rl : list A) : option (list A) :=
    match rl with
    | [] => None
    | s :: r =>
        if tbqs_member g s then
          if tbqs_num s =? 1 then Some [s]
          else match tbqs_instance g r with Some i => Some (s :: i) | None => None end
        else tbqs_instance g r
    end.

  (* what must be delivered when s arrives after the arrivals rp (latest first) *)
  Definition tbqs_step (rp : list A) (s : A) : list (list A) :=
    match grp s with
    | None => [[s]]
    | Some (_, t, g) =>
        if t =? 1 then [[s]]
        else match tbqs_instance g (s :: rp) with
             | Some i => if Z.of_nat (length i) =? t then [rev i] else []
             | None => []
             end
    end.

  Fixpoint tbqs_from (rp : list A) (ss : list A) : list (list (list A)) :=
    match ss with
    | [] => []
    | s :: r => tbqs_step rp s :: tbqs_from (s :: rp) r
    end.
  (* one entry per arrival: the lists delivered at that arrival *)
  Definition tbqs_groups (ss : list A) : list (list (list A)) := tbqs_from [] ss.

  (* ---- the provisos ---- *)
  (* an instance is complete when it has as many sentences as its (latest) sentence says the group has *)
  Definition tbqs_complete (i : list A) : bool :=
    match i with s :: _ => Z.of_nat (length i) =? tbqs_tot s | [] => false end.

  Definition tbqs_arrival_ok (rp : list A) (s : A) : bool :=
    match grp s with
    | None => true
    | Some (n, t, g) =>
        if t =? 1 then true
        else if n =? 1 then
          (* a first sentence: no group with this id is still in progress *)
          match tbqs_instance g rp with None => true | Some i => tbqs_complete i end
        else
          match tbqs_instance g rp with
          | None => false                                                   (* its first sentence did not arrive before it *)
          | Some i => (Z.of_nat (length i) <? t)                            (* the group is still incomplete *)
                      && forallb (fun s' => tbqs_tot s' =? t) i             (* same total throughout *)
                      && negb (existsb (fun s' => tbqs_num s' =? n) i)      (* no duplicate *)
          end
    end.

  Fixpoint tbqs_wf_from (rp : list A) (ss : list A) : bool :=
    match ss with
    | [] => true
    | s :: r => tbqs_arrival_ok rp s && tbqs_wf_from (s :: rp) r
    end.
  Definition tbqs_wf (ss : list A) : bool := tbqs_wf_from [] ss.
End Spec.
