(* The family of NMEA carriers of one AIS payload (the quantifier of C04), written from the property text and the
   NMEA 0183 sentence format; depends on nothing generated from pyais and on no model of pyais.

   A carrier of the armored payload [p] with [fill] fill bits is a list of sentences, one per chunk of a cutting of
   [p] into 1..5 non-empty chunks,
        [tag block]  ! t1 t2 V D (M|O) , n , i , seq , chan , chunk_i , fill_i * h1 h2  [trailing white space]
   with any two-letter talker, VDM or VDO in any letter case, n = number of chunks, i = 1..n, one common sequence id
   (a digit, or empty -- empty only allowed when n = 1 ... the property allows it for one part), any channel of
   A/B/1/2/empty, fill_i = fill on the last chunk and 0 elsewhere, ANY two hex digits as checksum (lenient decoding
   does not look at it), and the sentences handed over in ANY order.

   One sentence carries at most [max_chunk] = 200 payload characters.  NMEA 0183 limits a sentence to 82 characters
   (about 60 payload characters) and the longest AIS message (5 slots, 1064 bits) has 178 characters, so 200 admits
   every sentence a receiver can emit, including a complete longest message in one (over-long) sentence; a "sentence"
   with more payload than that is not an NMEA carrier of anything.  The payload as a whole is not bounded
   (up to 5 x 200 characters). *)
From Coq Require Import ZArith List Bool Permutation.
Import ListNotations.
Open Scope Z_scope.

Definition byte := Z.
Definition bytestr := list Z.

Definition COMMA : Z := 44.
Definition STAR : Z := 42.
Definition BANG : Z := 33.
Definition BACKSLASH : Z := 92.

Definition digit (n : nat) : Z := 48 + Z.of_nat n.          (* '0' + n, used for n <= 9 only *)

Definition is_upper (c : Z) : bool := (65 <=? c) && (c <=? 90).
Definition is_hexdigit (c : Z) : bool :=
  ((48 <=? c) && (c <=? 57)) || ((65 <=? c) && (c <=? 70)) || ((97 <=? c) && (c <=? 102)).
(* the 64 characters of the payload armoring alphabet: '0'..'W' and '`'..'w' *)
Definition is_armor (c : Z) : bool := ((48 <=? c) && (c <=? 87)) || ((96 <=? c) && (c <=? 119)).
(* ASCII white space that may trail a sentence: blank, TAB, LF, VT, FF, CR *)
Definition is_space (c : Z) : bool := (c =? 32) || ((9 <=? c) && (c <=? 13)).

(* V D M | V D O in any letter case *)
Definition lower (c : Z) : Z := if is_upper c then c + 32 else c.
Definition is_vdm_vdo (t : bytestr) : bool :=
  match map lower t with
  | [118; 100; 109] | [118; 100; 111] => true
  | _ => false
  end.

Definition channels : list bytestr := [[65]; [66]; [49]; [50]; []].      (* A B 1 2 empty *)

Record carrier_opts := mkOpts {
  o_talker : bytestr;          (* two upper-case letters *)
  o_type : bytestr;            (* VDM / VDO, any case *)
  o_channel : bytestr;
  o_checksum : bytestr;        (* two hex digits, right or wrong *)
  o_tagblock : option bytestr; (* content between the two backslashes: any bytes from 32 up (free text may be UTF-8 or
                                  Latin-1), free of backslashes *)
  o_trailing : bytestr         (* white space *)
}.

Definition opts_ok (o : carrier_opts) : bool :=
  (Nat.eqb (length (o_talker o)) 2) && forallb is_upper (o_talker o) &&
  is_vdm_vdo (o_type o) &&
  existsb (fun c => if list_eq_dec Z.eq_dec c (o_channel o) then true else false) channels &&
  (Nat.eqb (length (o_checksum o)) 2) && forallb is_hexdigit (o_checksum o) &&
  match o_tagblock o with
  | None => true
  | Some tb => negb (Nat.eqb (length tb) 0) && forallb (fun c => negb (c =? BACKSLASH) && (32 <=? c) && (c <=? 255)) tb
  end &&
  forallb is_space (o_trailing o).

Definition max_chunk : nat := 200.

(* one sentence *)
Definition sentence_text (o : carrier_opts) (n i : nat) (seq : option nat) (chunk : bytestr) (fill : nat) : bytestr :=
  (match o_tagblock o with Some tb => BACKSLASH :: tb ++ [BACKSLASH] | None => [] end) ++
  BANG :: o_talker o ++ o_type o ++ COMMA :: digit n :: COMMA :: digit i :: COMMA ::
  (match seq with Some s => [digit s] | None => [] end) ++ COMMA :: o_channel o ++ COMMA :: chunk ++
  COMMA :: digit fill :: STAR :: o_checksum o ++ o_trailing o.

(* the sentences of one carrier, in fragment order: chunks with one option record each *)
Fixpoint sentences_from (n : nat) (i : nat) (seq : option nat) (fill : nat)
         (parts : list (bytestr * carrier_opts)) : list bytestr :=
  match parts with
  | [] => []
  | [(c, o)] => [sentence_text o n i seq c fill]
  | (c, o) :: rest => sentence_text o n i seq c 0 :: sentences_from n (S i) seq fill rest
  end.

(* [is_carrier p fill ss]: ss is a carrier of the armored payload p with the given fill bits *)
Definition is_carrier (p : bytestr) (fill : nat) (ss : list bytestr) : Prop :=
  exists (parts : list (bytestr * carrier_opts)) (seq : option nat),
    concat (map fst parts) = p /\
    (1 <= length parts <= 5)%nat /\
    Forall (fun co => fst co <> [] /\ (length (fst co) <= max_chunk)%nat /\ forallb is_armor (fst co) = true /\
                      opts_ok (snd co) = true) parts /\
    (fill <= 5)%nat /\
    match seq with Some s => (s <= 9)%nat | None => length parts = 1%nat end /\
    Permutation ss (sentences_from (length parts) 1 seq fill parts).

(* the plain carrier every other one is compared with: !AIVDM,1,1,,A,<p>,<fill>*00 *)
Definition plain_opts : carrier_opts := mkOpts [65; 73] [86; 68; 77] [65] [48; 48] None [].
Definition plain_carrier (p : bytestr) (fill : nat) : list bytestr := [sentence_text plain_opts 1 1 None p fill].

Lemma plain_opts_ok : opts_ok plain_opts = true.
Proof. reflexivity. Qed.

(* ------------------------------------------------------------------------------------------------ *)
(* An executable check of a carrier WITNESS: given the cutting, the per-sentence options and the sequence id that a
   generator claims to have used, decide whether [ss] is the carrier they describe.  The harness uses it (extracted)
   to confirm that the sentences it builds are inside the family the theorem quantifies over.  Sound and complete
   w.r.t. [is_carrier] (Proofs/CarrierProofs.v carrier_checkb_sound / carrier_checkb_complete). *)
Definition bytestr_eqb (a b : bytestr) : bool := if list_eq_dec Z.eq_dec a b then true else false.

Fixpoint remove_one (x : bytestr) (l : list bytestr) : option (list bytestr) :=
  match l with
  | [] => None
  | y :: r => if bytestr_eqb x y then Some r
              else match remove_one x r with Some r' => Some (y :: r') | None => None end
  end.

(* multiset equality of two lists of byte strings *)
Fixpoint permb (l1 l2 : list bytestr) : bool :=
  match l1 with
  | [] => match l2 with [] => true | _ => false end
  | x :: r => match remove_one x l2 with Some l2' => permb r l2' | None => false end
  end.

Definition part_okb (co : bytestr * carrier_opts) : bool :=
  negb (Nat.eqb (length (fst co)) 0) && Nat.leb (length (fst co)) max_chunk && forallb is_armor (fst co) &&
  opts_ok (snd co).

Definition carrier_checkb (p : bytestr) (fill : nat) (parts : list (bytestr * carrier_opts)) (seq : option nat)
           (ss : list bytestr) : bool :=
  bytestr_eqb (concat (map fst parts)) p &&
  Nat.leb 1 (length parts) && Nat.leb (length parts) 5 &&
  forallb part_okb parts &&
  Nat.leb fill 5 &&
  match seq with Some s => Nat.leb s 9 | None => Nat.eqb (length parts) 1 end &&
  permb ss (sentences_from (length parts) 1 seq fill parts).
