(* C09 -- what "a well-formed list of NMEA 0183 AIVDM/AIVDO sentences for an armored payload" means.
   Independent of the model: this file imports nothing of Model/, Gen/ or Prim/; it *reads* sentences (finds '!' and
   '*', splits the body at commas, reads decimal and hexadecimal digits) and never builds one.
   Text is a list of character codes.  Each clause of the property is one boolean function, so that the same
   definitions serve as the statement of the theorem (Props/C09.v) and, extracted, as the oracle of the check.

   Clause list (property text):
     ClLength     every sentence has at most 80 characters (82 with CR LF)
     ClShape      every sentence reads  '!' body '*' tail  with the body made of exactly seven comma separated fields
                  (talker+type, fragment count, fragment number, sequence id, channel, payload, fill bits)
     ClStart      every sentence starts with '!' followed by the requested talker/type and a comma
     ClChecksum   the tail is exactly two upper-case hexadecimal digits whose value is the XOR of the body
     ClAlphabet   every payload character belongs to the 64-character armoring alphabet ('0'..'W', '`'..'w')
     ClNumbering  there is at least one sentence; with n sentences, sentence i (from 1) says "i of n"
     ClSeq        all sentences carry the same sequence id, which is empty or one decimal digit -- and not empty when
                  there are several sentences (an absent id is no id the fragments could have in common)
     ClFill       every sentence but the last says 0 fill bits, the last says the requested number
     ClConcat     the payload fields, concatenated in order, are the armored payload
   Two clauses the property text does not demand but the encoder also guarantees (proved, not part of the oracle):
     ClChannel    the channel field is the requested channel
     ClSeqSingle  a single sentence carries no sequence id (with ClSeq: the id is empty exactly when n = 1) *)
From Coq Require Import ZArith List Bool.
Import ListNotations.
Open Scope Z_scope.

Definition fs_text := list Z.

Fixpoint fs_text_eqb (a b : fs_text) : bool :=
  match a, b with
  | [], [] => true
  | x :: a', y :: b' => (x =? y) && fs_text_eqb a' b'
  | _, _ => false
  end.

Fixpoint fs_is_prefix (p s : fs_text) : bool :=
  match p, s with
  | [], _ => true
  | x :: p', y :: s' => (x =? y) && fs_is_prefix p' s'
  | _ :: _, [] => false
  end.

(* (text before the first [sep], text from that [sep] on -- empty if there is none) *)
Fixpoint fs_break_at (sep : Z) (s : fs_text) : fs_text * fs_text :=
  match s with
  | [] => ([], [])
  | c :: r => if c =? sep then ([], s) else let (a, b) := fs_break_at sep r in (c :: a, b)
  end.

(* the fields between separators; a text without separator is one field *)
Fixpoint fs_split_on (sep : Z) (s : fs_text) : list fs_text :=
  match s with
  | [] => [[]]
  | c :: r =>
    if c =? sep then [] :: fs_split_on sep r
    else match fs_split_on sep r with
         | f :: fs => (c :: f) :: fs
         | [] => [[c]]
         end
  end.

Definition fs_xor_all (s : fs_text) : Z := fold_right Z.lxor 0 s.

Definition fs_is_digit (c : Z) : bool := (48 <=? c) && (c <=? 57).

(* value of an upper-case hexadecimal digit *)
Definition fs_hex_val (c : Z) : option Z :=
  if fs_is_digit c then Some (c - 48)
  else if (65 <=? c) && (c <=? 70) then Some (c - 55)
  else None.

(* value of a non-empty string of decimal digits *)
Fixpoint fs_dec_val_acc (acc : Z) (s : fs_text) : option Z :=
  match s with
  | [] => Some acc
  | c :: r => if fs_is_digit c then fs_dec_val_acc (10 * acc + (c - 48)) r else None
  end.
Definition fs_dec_val (s : fs_text) : option Z :=
  match s with [] => None | _ => fs_dec_val_acc 0 s end.
Definition fs_dec_is (s : fs_text) (n : Z) : bool :=
  match fs_dec_val s with Some v => v =? n | None => false end.

(* the payload armoring alphabet: '0'..'W' and '`'..'w' *)
Definition fs_armor_alphabet (c : Z) : bool := ((48 <=? c) && (c <=? 87)) || ((96 <=? c) && (c <=? 119)).

(* a sentence as read *)
Record fs_sview := {
  sv_body : fs_text; sv_tail : fs_text;
  sv_talker : fs_text; sv_cnt : fs_text; sv_num : fs_text; sv_seq : fs_text; sv_chan : fs_text; sv_payload : fs_text; sv_fill : fs_text }.

Definition fs_view (s : fs_text) : option fs_sview :=
  match s with
  | c :: r =>
    if negb (c =? 33) then None else
    let (body, rest) := fs_break_at 42 r in
    match rest with
    | _ :: tail =>                                   (* the '*' found by fs_break_at *)
      match fs_split_on 44 body with
      | [f0; f1; f2; f3; f4; f5; f6] =>
        Some {| sv_body := body; sv_tail := tail; sv_talker := f0; sv_cnt := f1; sv_num := f2; sv_seq := f3;
                sv_chan := f4; sv_payload := f5; sv_fill := f6 |}
      | _ => None
      end
    | [] => None
    end
  | [] => None
  end.

Fixpoint fs_views (ss : list fs_text) : option (list fs_sview) :=
  match ss with
  | [] => Some []
  | s :: r => match fs_view s, fs_views r with
              | Some v, Some vs => Some (v :: vs)
              | _, _ => None
              end
  end.

Definition fs_checksum_ok (v : fs_sview) : bool :=
  match sv_tail v with
  | [h; l] => match fs_hex_val h, fs_hex_val l with
              | Some a, Some b => 16 * a + b =? fs_xor_all (sv_body v)
              | _, _ => false
              end
  | _ => false
  end.

Fixpoint fs_numbered_from (n i : Z) (vs : list fs_sview) : bool :=
  match vs with
  | [] => true
  | v :: r => fs_dec_is (sv_cnt v) n && fs_dec_is (sv_num v) i && fs_numbered_from n (i + 1) r
  end.

Definition fs_seq_text_ok (s : fs_text) : bool :=
  match s with [] => true | [c] => fs_is_digit c | _ => false end.

Fixpoint fs_fill_ok (fill : Z) (vs : list fs_sview) : bool :=
  match vs with
  | [] => true
  | [v] => fs_dec_is (sv_fill v) fill
  | v :: r => fs_dec_is (sv_fill v) 0 && fs_fill_ok fill r
  end.

Inductive fs_clause :=
| ClLength | ClShape | ClStart | ClChecksum | ClAlphabet | ClNumbering | ClSeq | ClFill | ClConcat
| ClChannel | ClSeqSingle.

Definition fs_text_clauses : list fs_clause :=
  [ClLength; ClShape; ClStart; ClChecksum; ClAlphabet; ClNumbering; ClSeq; ClFill; ClConcat].
Definition fs_extra_clauses : list fs_clause := [ClChannel; ClSeqSingle].

Definition fs_on_views (ss : list fs_text) (f : list fs_sview -> bool) : bool :=
  match fs_views ss with Some vs => f vs | None => false end.

Definition fs_clause_holds (talker channel payload : fs_text) (fill : Z) (ss : list fs_text) (c : fs_clause) : bool :=
  match c with
  | ClLength => forallb (fun s => Z.of_nat (length s) <=? 80) ss
  | ClShape => fs_on_views ss (fun _ => true)
  | ClStart => forallb (fs_is_prefix ([33] ++ talker ++ [44])) ss
  | ClChecksum => fs_on_views ss (forallb fs_checksum_ok)
  | ClAlphabet => fs_on_views ss (forallb (fun v => forallb fs_armor_alphabet (sv_payload v)))
  | ClNumbering => fs_on_views ss (fun vs => (1 <=? Z.of_nat (length vs)) && fs_numbered_from (Z.of_nat (length vs)) 1 vs)
  | ClSeq => fs_on_views ss (fun vs => match vs with
                                    | [] => true
                                    | v0 :: _ => fs_seq_text_ok (sv_seq v0)
                                                 && forallb (fun v => fs_text_eqb (sv_seq v) (sv_seq v0)) vs
                                                 && ((Z.of_nat (length vs) <=? 1) || negb (fs_text_eqb (sv_seq v0) []))
                                    end)
  | ClFill => fs_on_views ss (fs_fill_ok fill)
  | ClConcat => fs_on_views ss (fun vs => fs_text_eqb (concat (map sv_payload vs)) payload)
  | ClChannel => fs_on_views ss (forallb (fun v => fs_text_eqb (sv_chan v) channel))
  | ClSeqSingle => fs_on_views ss (forallb (fun v => negb (Z.of_nat (length ss) =? 1) || fs_text_eqb (sv_seq v) []))
  end.

(* the clauses that fail (empty list = well-formed) *)
Definition fs_failed_clauses (talker channel payload : fs_text) (fill : Z) (ss : list fs_text) (cs : list fs_clause) : list fs_clause :=
  filter (fun c => negb (fs_clause_holds talker channel payload fill ss c)) cs.

Definition fs_wellformed (talker channel payload : fs_text) (fill : Z) (ss : list fs_text) : Prop :=
  forall c, fs_clause_holds talker channel payload fill ss c = true.

(* "fill bits equal the padding needed to reach a six-bit boundary" *)
Definition fs_padding_to_six (nbits : Z) : Z := (6 - nbits mod 6) mod 6.

(* the armored text of a bit string, by the book: pad with zero bits to a multiple of six, each group of six bits
   (most significant first) has a value v in 0..63, written as the character v + 48 if v < 40, else v + 56 *)
Definition fs_sixbit_char (v : Z) : Z := if v <? 40 then v + 48 else v + 56.
Definition fs_b2z (b : bool) : Z := if b then 1 else 0.
Definition fs_six_val (b0 b1 b2 b3 b4 b5 : bool) : Z :=
  32 * fs_b2z b0 + 16 * fs_b2z b1 + 8 * fs_b2z b2 + 4 * fs_b2z b3 + 2 * fs_b2z b4 + fs_b2z b5.
Fixpoint fs_spec_armor (b : list bool) : fs_text :=
  match b with
  | [] => []
  | b0 :: b1 :: b2 :: b3 :: b4 :: b5 :: r => fs_sixbit_char (fs_six_val b0 b1 b2 b3 b4 b5) :: fs_spec_armor r
  | [b0; b1; b2; b3; b4] => [fs_sixbit_char (fs_six_val b0 b1 b2 b3 b4 false)]
  | [b0; b1; b2; b3] => [fs_sixbit_char (fs_six_val b0 b1 b2 b3 false false)]
  | [b0; b1; b2] => [fs_sixbit_char (fs_six_val b0 b1 b2 false false false)]
  | [b0; b1] => [fs_sixbit_char (fs_six_val b0 b1 false false false false)]
  | [b0] => [fs_sixbit_char (fs_six_val b0 false false false false false)]
  end.
