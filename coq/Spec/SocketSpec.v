(* What C06 talks about, independent of pyais and of the model:
   - a stream "made of terminated lines (LF or CRLF)", line contents without a bare CR (or LF) inside,
   - "every way of splitting it into successive receive chunks" (a recv() that returns b'' means end of stream, so
     the chunks of a segmentation are non-empty).
   Byte strings are [list Z]; 10 = LF, 13 = CR. *)
From Coq Require Import List ZArith Bool.
Import ListNotations.
Open Scope Z_scope.

Definition spec_plain (b : Z) : Prop := b <> 10 /\ b <> 13.

(* content ++ LF  or  content ++ CR LF,  content free of CR and LF *)
Definition terminated_line (l : list Z) : Prop :=
  exists content, Forall spec_plain content /\ (l = content ++ [10] \/ l = content ++ [13; 10]).

Definition lines_ok (ls : list (list Z)) : Prop := Forall terminated_line ls.

(* cs is a segmentation of s into successive non-empty recv() results *)
Definition chunking (cs : list (list Z)) (s : list Z) : Prop :=
  concat cs = s /\ Forall (fun c => c <> []) cs.

(* ---- executable versions (extracted; used by the harness to decide whether a generated case lies inside the
        property's quantifier).  Proofs/SocketProofs.v shows that they decide the predicates above. ---- *)
Definition spec_plainb (b : Z) : bool := negb (b =? 10) && negb (b =? 13).

(* scan a line from the left: plain bytes, then exactly LF or CR LF, then nothing *)
Fixpoint terminated_lineb (l : list Z) : bool :=
  match l with
  | [] => false
  | c :: r =>
    if c =? 10 then match r with [] => true | _ => false end
    else if c =? 13 then match r with [c2] => c2 =? 10 | _ => false end
    else terminated_lineb r
  end.

Definition lines_okb (ls : list (list Z)) : bool := forallb terminated_lineb ls.

Definition nonemptyb (c : list Z) : bool := match c with [] => false | _ => true end.
Definition chunks_okb (cs : list (list Z)) : bool := forallb nonemptyb cs.
