(* C04: the message decode() returns depends only on the armored payload and its fill bits, not on the NMEA carrier.
     assemble_perm   -- assemble_from_iterable is invariant under permutation of parts with distinct fragment numbers
     carrier_decodes -- decode_api on ANY carrier of (p, fill) (Spec/CarrierSpec.v is_carrier) = decode_bits of the
                        de-armored payload
   No bound on the payload length or content; 1..5 fragments as in the property. *)
From Coq Require Import ZArith List Bool Lia Permutation.
Require Import Prim.Exn Prim.Bits Prim.PyBytes Prim.PyInt Gen.GenConst Model.Sentence Model.AssembleIter Model.FieldTypes
               Gen.GenTables Model.Codec Model.Nmea Model.DecodeApi
               Spec.CarrierSpec Proofs.Dearmor Proofs.CarrierPrim Proofs.CarrierParse.
Import ListNotations.
Open Scope Z_scope.
Open Scope exn_scope.

(* what decode() hands back: the message (class + field values) or the exception *)
Definition message_of (r : M (ais_sentence * (cls * list value))) : M (cls * list value) := mmap snd r.

(* ------------------------------------------------------------------------------------------------ *)
(* sorting by fragment number                                                                          *)
Lemma insert_commute : forall x y l, a_frag_num x <> a_frag_num y ->
  insert_by_frag x (insert_by_frag y l) = insert_by_frag y (insert_by_frag x l).
Proof.
  intros x y l Hxy. induction l as [|h r IH].
  - cbn [insert_by_frag].
    destruct (Z.ltb_spec (a_frag_num x) (a_frag_num y)), (Z.ltb_spec (a_frag_num y) (a_frag_num x)); try reflexivity; lia.
  - cbn [insert_by_frag].
    destruct (Z.ltb_spec (a_frag_num y) (a_frag_num h)) as [Hyh|Hyh];
    destruct (Z.ltb_spec (a_frag_num x) (a_frag_num h)) as [Hxh|Hxh]; cbn [insert_by_frag].
    + destruct (Z.ltb_spec (a_frag_num x) (a_frag_num y)), (Z.ltb_spec (a_frag_num y) (a_frag_num x)); try lia.
      * destruct (Z.ltb_spec (a_frag_num y) (a_frag_num h)); [reflexivity|lia].
      * destruct (Z.ltb_spec (a_frag_num x) (a_frag_num h)); [reflexivity|lia].
    + destruct (Z.ltb_spec (a_frag_num x) (a_frag_num y)); [lia|].
      destruct (Z.ltb_spec (a_frag_num x) (a_frag_num h)); [lia|].
      destruct (Z.ltb_spec (a_frag_num y) (a_frag_num h)); [reflexivity|lia].
    + destruct (Z.ltb_spec (a_frag_num x) (a_frag_num h)); [|lia].
      destruct (Z.ltb_spec (a_frag_num y) (a_frag_num x)); [lia|].
      destruct (Z.ltb_spec (a_frag_num y) (a_frag_num h)); [lia|reflexivity].
    + destruct (Z.ltb_spec (a_frag_num x) (a_frag_num h)); [lia|].
      destruct (Z.ltb_spec (a_frag_num y) (a_frag_num h)); [lia|]. now rewrite IH.
Qed.

(* the sorted sequence of parts does not depend on the order in which they were handed over *)
Lemma sort_perm : forall l1 l2, Permutation l1 l2 -> NoDup (map a_frag_num l1) -> sort_by_frag l1 = sort_by_frag l2.
Proof.
  intros l1 l2 HP. induction HP as [|x l l' HP IH|x y l|l l' l'' HP1 IH1 HP2 IH2]; intros Hnd.
  - reflexivity.
  - unfold sort_by_frag in *. cbn [fold_right]. rewrite IH; [reflexivity|]. cbn [map] in Hnd. now inversion Hnd.
  - unfold sort_by_frag. cbn [fold_right]. apply insert_commute.
    cbn [map] in Hnd. inversion Hnd as [|? ? Hin _]. intro E. apply Hin. left. now symmetry.
  - rewrite IH1 by exact Hnd. apply IH2. eapply Permutation_NoDup; [|exact Hnd]. now apply Permutation_map.
Qed.

(* parts numbered i, i+1, ... in this order are already sorted *)
Lemma sort_sorted : forall l i, map a_frag_num l = map Z.of_nat (seq i (length l)) -> sort_by_frag l = l.
Proof.
  induction l as [|a l IH]; intros i H; [reflexivity|].
  cbn [length seq map] in H. injection H as Ha Hl.
  unfold sort_by_frag in *. cbn [fold_right]. rewrite (IH (S i) Hl).
  destruct l as [|b r]; [reflexivity|].
  cbn [length seq map] in Hl. injection Hl as Hb _. cbn [insert_by_frag].
  destruct (Z.ltb_spec (a_frag_num a) (a_frag_num b)); [reflexivity|lia].
Qed.

(* Theorem 2 of the layer: whatever the order of the parts, the assembled sentence carries the same raw text, payload,
   bits, validity flag and message id *)
Theorem assemble_perm : forall l1 l2, Permutation l1 l2 -> NoDup (map a_frag_num l1) -> l1 <> [] ->
  exists r1 r2, assemble_from_iterable l1 = Ok r1 /\ assemble_from_iterable l2 = Ok r2 /\
    a_payload r1 = a_payload r2 /\ a_bits r1 = a_bits r2 /\ a_ais_id r1 = a_ais_id r2 /\
    c_raw (a_common r1) = c_raw (a_common r2) /\ c_is_valid (a_common r1) = c_is_valid (a_common r2).
Proof.
  intros l1 l2 HP Hnd Hne. unfold assemble_from_iterable. rewrite (sort_perm l1 l2 HP Hnd).
  destruct l1 as [|a1 r1]; [contradiction|].
  destruct l2 as [|a2 r2]; [apply Permutation_sym, Permutation_nil in HP; discriminate|].
  eexists. eexists. split; [reflexivity|]. split; [reflexivity|]. cbn. repeat split; reflexivity.
Qed.

(* ------------------------------------------------------------------------------------------------ *)
(* the bits of the fragments, concatenated                                                             *)
Lemma carrier_bits_nofill : forall c, carrier_bits c 0 = all_sixbits c.
Proof.
  intros c. unfold carrier_bits. rewrite Nat.sub_0_r, <- all_sixbits_length. apply firstn_all.
Qed.

Lemma carrier_bits_app : forall a b f, b <> [] -> (f <= 5)%nat ->
  carrier_bits a 0 ++ carrier_bits b f = carrier_bits (a ++ b) f.
Proof.
  intros a b f Hb Hf. rewrite carrier_bits_nofill. unfold carrier_bits.
  rewrite all_sixbits_app, app_length, firstn_app, all_sixbits_length.
  assert (1 <= length b)%nat by (destruct b; [contradiction|cbn [length]; lia]).
  rewrite (firstn_all2 (all_sixbits a)) by (rewrite all_sixbits_length; lia). f_equal. f_equal. lia.
Qed.

(* ------------------------------------------------------------------------------------------------ *)
(* parsing all sentences of a carrier                                                                  *)
Definition dummy_ais : ais_sentence := mkAis (mkCommon [] [] [] [] 0 0 false [] None) 0 0 None [] [] [] 0 None.
Definition parsed (s : bytes) : ais_sentence := match produce s with Ok (SAis a) => a | _ => dummy_ais end.
Definition parses (s : bytes) : Prop := exists a, produce s = Ok (SAis a).

Lemma parsed_eq : forall s a, produce s = Ok (SAis a) -> parsed s = a.
Proof. intros s a H. unfold parsed. now rewrite H. Qed.
Lemma parses_parsed : forall s, parses s -> produce s = Ok (SAis (parsed s)).
Proof. intros s [a H]. now rewrite (parsed_eq s a H). Qed.

(* the payload-carrying attributes of the parts of a carrier, in fragment order *)
Fixpoint frags_ok (N i fill : nat) (parts : list (bytestr * carrier_opts)) (L : list ais_sentence) : Prop :=
  match parts, L with
  | [], [] => True
  | (c, _) :: rest, a :: L' =>
    a_frag_cnt a = Z.of_nat N /\ a_frag_num a = Z.of_nat i /\ a_payload a = c /\
    a_bits a = carrier_bits c (match rest with [] => fill | _ => 0%nat end) /\
    frags_ok N (S i) fill rest L'
  | _, _ => False
  end.

Definition part_ok (co : bytestr * carrier_opts) : Prop :=
  fst co <> [] /\ (length (fst co) <= max_chunk)%nat /\ forallb is_armor (fst co) = true /\ opts_ok (snd co) = true.

Lemma max_chunk_fits : forall c : bytestr, (length c <= max_chunk)%nat -> Z.of_nat (length c) <= MAX_PAYLOAD_LEN.
Proof. intros c H. unfold max_chunk in H. unfold MAX_PAYLOAD_LEN. lia. Qed.

Lemma sentences_parse : forall parts N i seq fill,
  Forall part_ok parts -> (1 <= N <= 9)%nat -> (1 <= i)%nat -> (i + length parts <= 10)%nat -> seq_ok seq -> (fill <= 5)%nat ->
  Forall parses (sentences_from N i seq fill parts) /\
  frags_ok N i fill parts (map parsed (sentences_from N i seq fill parts)).
Proof.
  induction parts as [|[c o] rest IH]; intros N i seq fill Hall HN Hi Hlen Hseq Hfill.
  - split; [constructor|exact I].
  - inversion Hall as [|? ? [Hne [Hmax [Harm Hopt]]] Hrest]. subst. cbn [fst snd] in *.
    cbn [length] in Hlen.
    destruct rest as [|r rest'].
    + cbn [sentences_from map].
      destruct (parse_carrier o N i seq c fill Hopt HN ltac:(lia) Hseq Hfill Harm Hne (max_chunk_fits c Hmax))
        as [cm [_ Hp]].
      split; [constructor; [eexists; exact Hp|constructor]|].
      rewrite (parsed_eq _ _ Hp). cbn. repeat split; reflexivity.
    + change (sentences_from N i seq fill ((c, o) :: r :: rest'))
        with (sentence_text o N i seq c 0 :: sentences_from N (S i) seq fill (r :: rest')).
      destruct (parse_carrier o N i seq c 0 Hopt HN ltac:(lia) Hseq ltac:(lia) Harm Hne (max_chunk_fits c Hmax))
        as [cm [_ Hp]].
      destruct (IH N (S i) seq fill Hrest HN ltac:(lia) ltac:(lia) Hseq Hfill) as [IH1 IH2].
      split; [constructor; [eexists; exact Hp|exact IH1]|].
      cbn [map]. rewrite (parsed_eq _ _ Hp). cbn [frags_ok a_frag_cnt a_frag_num a_payload a_bits].
      repeat split; try reflexivity. exact IH2.
Qed.

Lemma frags_ok_length : forall parts N i fill L, frags_ok N i fill parts L -> length L = length parts.
Proof.
  induction parts as [|[c o] rest IH]; intros N i fill [|a L] H; cbn [frags_ok] in H; try contradiction; [reflexivity|].
  destruct H as [_ [_ [_ [_ H]]]]. cbn [length]. now rewrite (IH _ _ _ _ H).
Qed.

Lemma frags_ok_nums : forall parts N i fill L, frags_ok N i fill parts L ->
  map a_frag_num L = map Z.of_nat (seq i (length L)).
Proof.
  induction parts as [|[c o] rest IH]; intros N i fill [|a L] H; cbn [frags_ok] in H; try contradiction; [reflexivity|].
  destruct H as [_ [Hn [_ [_ H]]]]. cbn [length seq map]. now rewrite Hn, (IH _ _ _ _ H).
Qed.

Lemma frags_ok_cnt : forall parts N i fill L, frags_ok N i fill parts L -> Forall (fun a => a_frag_cnt a = Z.of_nat N) L.
Proof.
  induction parts as [|[c o] rest IH]; intros N i fill [|a L] H; cbn [frags_ok] in H; try contradiction; [constructor|].
  destruct H as [Hc [_ [_ [_ H]]]]. constructor; [exact Hc|exact (IH _ _ _ _ H)].
Qed.

Lemma frags_ok_payload : forall parts N i fill L, frags_ok N i fill parts L ->
  flat_map a_payload L = concat (map fst parts).
Proof.
  induction parts as [|[c o] rest IH]; intros N i fill [|a L] H; cbn [frags_ok] in H; try contradiction; [reflexivity|].
  destruct H as [_ [_ [Hp [_ H]]]]. cbn [flat_map map concat fst]. now rewrite Hp, (IH _ _ _ _ H).
Qed.

Lemma frags_ok_bits : forall parts N i fill L, parts <> [] -> Forall part_ok parts -> (fill <= 5)%nat ->
  frags_ok N i fill parts L -> flat_map a_bits L = carrier_bits (concat (map fst parts)) fill.
Proof.
  induction parts as [|[c o] rest IH]; intros N i fill [|a L] Hne Hall Hfill H; cbn [frags_ok] in H; try contradiction.
  destruct H as [_ [_ [_ [Hb H]]]]. cbn [flat_map map concat fst]. rewrite Hb.
  inversion Hall as [|? ? _ Hrest]. subst.
  destruct rest as [|r rest'].
  - destruct L; cbn [frags_ok] in H; [|contradiction]. cbn [flat_map map concat]. now rewrite !app_nil_r.
  - rewrite (IH N (S i) fill L ltac:(discriminate) Hrest Hfill H).
    apply carrier_bits_app; [|exact Hfill].
    inversion Hrest as [|? ? [Hrne _] _]. subst. destruct r as [rc ro]. cbn [map fst concat] in *.
    destruct rc; [contradiction|discriminate].
Qed.

(* ------------------------------------------------------------------------------------------------ *)
(* decode._assemble_messages on sentences that all parse as AIS parts of one message                    *)
Lemma nonempty_true : forall (A : Type) (l : list A), l <> [] -> nonempty l = true.
Proof. intros A [|x l] H; [contradiction|reflexivity]. Qed.

Lemma assemble_loop_ais : forall ss N temp frags cnt,
  Forall parses ss -> Forall (fun s => a_frag_cnt (parsed s) = N) ss ->
  assemble_loop false ss temp frags cnt =
  Ok (temp ++ map parsed ss, frags ++ map a_frag_num (map parsed ss), if nonempty ss then N else cnt).
Proof.
  induction ss as [|s ss IH]; intros N temp frags cnt Hp Hc.
  - cbn [assemble_loop map]. now rewrite !app_nil_r.
  - inversion Hp as [|? ? Hs Hp']. inversion Hc as [|? ? Hcs Hc']. subst.
    cbn [assemble_loop]. rewrite (parses_parsed s Hs). cbn [bind andb].
    rewrite (IH (a_frag_cnt (parsed s)) _ _ _ Hp' Hc'). cbn [map]. rewrite <- !app_assoc. cbn [app].
    destruct ss; reflexivity.
Qed.

Lemma zmem_list_in : forall x l, In x l -> zmem_list x l = true.
Proof.
  intros x l. induction l as [|y r IH]; intros H; [contradiction|].
  cbn [zmem_list]. destruct H as [->|H]; [now rewrite Z.eqb_refl|]. rewrite (IH H). apply orb_true_r.
Qed.

Lemma filter_none : forall (A : Type) (f : A -> bool) l, (forall x, In x l -> f x = false) -> filter f l = [].
Proof.
  intros A f l. induction l as [|x r IH]; intros H; [reflexivity|].
  cbn [filter]. rewrite (H x (or_introl eq_refl)). apply IH. intros y Hy. apply H. now right.
Qed.

Lemma no_missing_fragment : forall frags N,
  Permutation frags (map Z.of_nat (seq 1 N)) ->
  filter (fun x => negb (zmem_list x frags)) (zrange 1 (Z.of_nat N + 1)) = [].
Proof.
  intros frags N HP. apply filter_none. intros x Hx.
  unfold zrange in Hx. apply in_map_iff in Hx. destruct Hx as [k [<- Hk]]. apply in_seq in Hk.
  rewrite zmem_list_in; [reflexivity|].
  apply (Permutation_in _ (Permutation_sym HP)). apply in_map_iff. exists (S k). split; [lia|]. apply in_seq. lia.
Qed.

Lemma forall_perm : forall (A : Type) (P : A -> Prop) l l', Permutation l l' -> Forall P l' -> Forall P l.
Proof.
  intros A P l l' HP H. rewrite Forall_forall in *. intros x Hx. apply H. exact (Permutation_in _ HP Hx).
Qed.

Lemma of_nat_seq_nodup : forall i n, NoDup (map Z.of_nat (seq i n)).
Proof.
  intros i n. revert i. induction n as [|n IH]; intros i; cbn [seq map]; constructor; [|apply IH].
  intros H. apply in_map_iff in H. destruct H as [k [E Hk]]. apply in_seq in Hk. lia.
Qed.

Lemma assemble_nonempty : forall l, l <> [] -> exists first,
  assemble_from_iterable l =
  Ok (ais_set_assembled first (join_raw (sort_by_frag l)) (flat_map a_payload (sort_by_frag l))
                        (flat_map a_bits (sort_by_frag l)) (forallb (fun m => c_is_valid (a_common m)) (sort_by_frag l))).
Proof. intros [|a l] H; [contradiction|]. exists a. reflexivity. Qed.

(* ------------------------------------------------------------------------------------------------ *)
(* the main lemma: decode on any carrier = decode_bits of the de-armored payload                        *)
Theorem carrier_decodes : forall p fill ss, p <> [] -> is_carrier p fill ss ->
  message_of (decode_api false ss) = decode_bits (carrier_bits p fill).
Proof.
  intros p fill ss Hpne [parts [seq [Hcat [Hlen [Hall [Hfill [Hseq Hperm]]]]]]].
  set (N := length parts) in *. set (ss0 := sentences_from N 1 seq fill parts) in *.
  assert (Hall' : Forall part_ok parts) by exact Hall.
  assert (Hseq' : seq_ok seq) by (destruct seq; [exact Hseq|exact I]).
  destruct (sentences_parse parts N 1 seq fill Hall' ltac:(lia) ltac:(lia) ltac:(fold N; lia) Hseq' Hfill) as [Hp0 Hf0].
  fold ss0 in Hp0, Hf0. set (L := map parsed ss0) in *.
  pose proof (frags_ok_length _ _ _ _ _ Hf0) as HLlen. fold N in HLlen.
  pose proof (frags_ok_nums _ _ _ _ _ Hf0) as HLnums. rewrite HLlen in HLnums.
  pose proof (frags_ok_cnt _ _ _ _ _ Hf0) as HLcnt.
  pose proof (frags_ok_payload _ _ _ _ _ Hf0) as HLpay. rewrite Hcat in HLpay.
  assert (Hpartsne : parts <> []) by (intro E; subst parts; cbn in Hlen; lia).
  pose proof (frags_ok_bits _ _ _ _ _ Hpartsne Hall' Hfill Hf0) as HLbits. rewrite Hcat in HLbits.
  (* the sentences as handed over *)
  assert (Hp : Forall parses ss) by (exact (forall_perm _ _ _ _ Hperm Hp0)).
  assert (HPL : Permutation (map parsed ss) L) by (now apply Permutation_map).
  assert (Hcnt : Forall (fun s => a_frag_cnt (parsed s) = Z.of_nat N) ss).
  { apply (forall_perm _ _ _ _ Hperm). rewrite Forall_forall in *. intros s Hs. apply HLcnt.
    unfold L. now apply in_map. }
  assert (Hsslen : length ss = N).
  { rewrite (Permutation_length Hperm). rewrite <- HLlen. unfold L. now rewrite map_length. }
  assert (Hssne : ss <> []) by (intro E; subst ss; cbn in Hsslen; lia).
  unfold decode_api, assemble_messages.
  rewrite (assemble_loop_ais ss (Z.of_nat N) [] [] 1 Hp Hcnt). rewrite nonempty_true by exact Hssne. cbn [bind app].
  assert (Hsslen2 : @length bytes ss = N) by exact Hsslen. rewrite map_length, map_length, Hsslen2.
  destruct (Nat.eqb_spec N 0) as [H|_]; [lia|].
  destruct (Z.gtb_spec (Z.of_nat N) (Z.of_nat N)) as [H|_]; [lia|].
  rewrite (no_missing_fragment (map a_frag_num (map parsed ss)) N)
    by (rewrite <- HLnums; now apply Permutation_map).
  cbn [nonempty].
  (* assembly: sorted by fragment number = the parts in fragment order *)
  assert (Hnd : NoDup (map a_frag_num (map parsed ss))).
  { apply (Permutation_NoDup (l := map a_frag_num L)); [apply Permutation_map, Permutation_sym, HPL|].
    rewrite HLnums. apply of_nat_seq_nodup. }
  assert (Hmne : map parsed ss <> []) by (destruct ss; [contradiction|discriminate]).
  destruct (assemble_nonempty _ Hmne) as [first ->].
  rewrite (sort_perm _ _ HPL Hnd).
  rewrite (sort_sorted L 1) by (rewrite HLlen; exact HLnums).
  rewrite HLpay, HLbits. cbn [bind].
  unfold sentence_decode, ais_set_assembled. cbn [a_payload a_bits a_ais_id].
  destruct p as [|p0 p']; [contradiction|]. cbn [nonempty negb].
  unfold decode_bits, message_of.
  destruct (decode_bits_as _ _); reflexivity.
Qed.

(* ------------------------------------------------------------------------------------------------ *)
(* C04 and its corollaries                                                                             *)
Theorem carrier_invariance : forall p fill ss1 ss2,
  p <> [] -> forallb is_armor p = true -> is_carrier p fill ss1 -> is_carrier p fill ss2 ->
  message_of (decode_api false ss1) = message_of (decode_api false ss2).
Proof.
  intros p fill ss1 ss2 Hne _ H1 H2. now rewrite (carrier_decodes p fill ss1 Hne H1), (carrier_decodes p fill ss2 Hne H2).
Qed.

Lemma plain_is_carrier : forall p fill,
  p <> [] -> forallb is_armor p = true -> (length p <= max_chunk)%nat -> (fill <= 5)%nat ->
  is_carrier p fill (plain_carrier p fill).
Proof.
  intros p fill Hne Harm Hlen Hfill. exists [(p, plain_opts)], None.
  cbn [map fst concat length]. rewrite app_nil_r.
  repeat split; try reflexivity; try lia.
  constructor; [|constructor]. cbn [fst snd]. repeat split; assumption.
Qed.

(* every carrier decodes like the plain single-sentence carrier !AIVDM,1,1,,A,<p>,<fill>*00 *)
Theorem carrier_vs_plain : forall p fill ss,
  p <> [] -> forallb is_armor p = true -> (length p <= max_chunk)%nat -> is_carrier p fill ss ->
  message_of (decode_api false ss) = message_of (decode_api false (plain_carrier p fill)).
Proof.
  intros p fill ss Hne Harm Hlen H. apply (carrier_invariance p fill); try assumption.
  apply plain_is_carrier; try assumption.
  destruct H as [? [? [_ [_ [_ [Hf _]]]]]]. exact Hf.
Qed.

(* ... and like the payload decoder applied to the de-armored bits *)
Theorem carrier_vs_bits : forall p fill ss bits,
  p <> [] -> forallb is_armor p = true -> is_carrier p fill ss ->
  decode_into_bit_array p (Z.of_nat fill) = Ok bits ->
  message_of (decode_api false ss) = decode_bits bits.
Proof.
  intros p fill ss bits Hne Harm H Hb. rewrite (carrier_decodes p fill ss Hne H).
  assert (Hf : (fill <= 5)%nat) by (destruct H as [? [? [_ [_ [_ [Hf _]]]]]]; exact Hf).
  rewrite (dearmor_char_list p (Z.of_nat fill) (armor_printable p Harm)) in Hb by (try lia; now right).
  rewrite Nat2Z.id in Hb. injection Hb as <-. reflexivity.
Qed.

(* being a carrier does not depend on the order of the sentences *)
Lemma is_carrier_perm : forall p fill ss ss', Permutation ss' ss -> is_carrier p fill ss -> is_carrier p fill ss'.
Proof.
  intros p fill ss ss' HP [parts [seq [H1 [H2 [H3 [H4 [H5 H6]]]]]]].
  exists parts, seq. repeat split; try assumption; try lia. eapply Permutation_trans; eassumption.
Qed.

(* the property's "in particular": decode(part2, part1) = decode(part1, part2) *)
Theorem two_parts_swapped : forall p fill s1 s2,
  p <> [] -> forallb is_armor p = true -> is_carrier p fill [s1; s2] ->
  message_of (decode_api false [s2; s1]) = message_of (decode_api false [s1; s2]).
Proof.
  intros p fill s1 s2 Hne Harm H. apply (carrier_invariance p fill); try assumption.
  apply (is_carrier_perm p fill [s1; s2]); [apply perm_swap|exact H].
Qed.

(* ------------------------------------------------------------------------------------------------ *)
(* the executable witness check of Spec/CarrierSpec.v decides is_carrier                                *)
Lemma bytestr_eqb_eq : forall a b, bytestr_eqb a b = true <-> a = b.
Proof. intros a b. unfold bytestr_eqb. destruct (list_eq_dec Z.eq_dec a b); split; intros; try discriminate; auto. Qed.

Lemma remove_one_perm : forall x l l', remove_one x l = Some l' -> Permutation l (x :: l').
Proof.
  intros x l. induction l as [|y r IH]; intros l' H; [discriminate|].
  cbn [remove_one] in H. destruct (bytestr_eqb x y) eqn:E.
  - apply bytestr_eqb_eq in E. injection H as <-. subst. apply Permutation_refl.
  - destruct (remove_one x r) as [r'|]; [|discriminate]. injection H as <-.
    eapply Permutation_trans; [apply perm_skip, (IH r' eq_refl)|apply perm_swap].
Qed.

Lemma remove_one_in : forall x l, In x l -> exists l', remove_one x l = Some l'.
Proof.
  intros x l. induction l as [|y r IH]; intros H; [contradiction|].
  cbn [remove_one]. destruct (bytestr_eqb x y) eqn:E; [now eexists|].
  destruct H as [->|H]; [rewrite (proj2 (bytestr_eqb_eq x x) eq_refl) in E; discriminate|].
  destruct (IH H) as [r' ->]. now eexists.
Qed.

Lemma permb_sound : forall l1 l2, permb l1 l2 = true -> Permutation l1 l2.
Proof.
  induction l1 as [|x r IH]; intros l2 H; cbn [permb] in H.
  - destruct l2; [constructor|discriminate].
  - destruct (remove_one x l2) as [l2'|] eqn:E; [|discriminate].
    apply Permutation_sym. eapply Permutation_trans; [apply (remove_one_perm _ _ _ E)|].
    apply perm_skip, Permutation_sym, IH, H.
Qed.

Lemma permb_complete : forall l1 l2, Permutation l1 l2 -> permb l1 l2 = true.
Proof.
  induction l1 as [|x r IH]; intros l2 H; cbn [permb].
  - apply Permutation_nil in H. now subst.
  - destruct (remove_one_in x l2 (Permutation_in _ H (or_introl eq_refl))) as [l2' E]. rewrite E.
    apply IH. apply (Permutation_cons_inv (a := x)).
    eapply Permutation_trans; [exact H|apply (remove_one_perm _ _ _ E)].
Qed.

Lemma part_okb_spec : forall co, part_okb co = true <-> part_ok co.
Proof.
  intros co. unfold part_okb, part_ok. rewrite !andb_true_iff, negb_true_iff, Nat.eqb_neq, Nat.leb_le.
  destruct (fst co); cbn [length]; intuition (try congruence; try lia).
Qed.

Theorem carrier_checkb_sound : forall p fill parts seq ss,
  carrier_checkb p fill parts seq ss = true -> is_carrier p fill ss.
Proof.
  intros p fill parts seq ss H. unfold carrier_checkb in H.
  rewrite !andb_true_iff, bytestr_eqb_eq, !Nat.leb_le, forallb_forall in H.
  destruct H as [[[[[[H1 H2] H3] H4] H5] H6] H7].
  exists parts, seq. repeat split; try assumption.
  - apply Forall_forall. intros co Hco. apply part_okb_spec. now apply H4.
  - destruct seq; [now apply Nat.leb_le|now apply Nat.eqb_eq].
  - now apply permb_sound.
Qed.

Theorem carrier_checkb_complete : forall p fill ss,
  is_carrier p fill ss -> exists parts seq, carrier_checkb p fill parts seq ss = true.
Proof.
  intros p fill ss [parts [seq [H1 [[H2 H3] [H4 [H5 [H6 H7]]]]]]]. exists parts, seq. unfold carrier_checkb.
  rewrite !andb_true_iff, bytestr_eqb_eq, !Nat.leb_le, forallb_forall. repeat split; try assumption.
  - intros co Hco. apply part_okb_spec. rewrite Forall_forall in H4. now apply H4.
  - destruct seq; [now apply Nat.leb_le|now apply Nat.eqb_eq].
  - now apply permb_complete.
Qed.
