(* Stage 1 (unchanged pyais): the model of SocketStream.read as it is refutes C06. *)
From Coq Require Import List ZArith Bool Lia.
Require Import Prim.Splitlines Model.Socket Spec.SocketSpec.
Import ListNotations.
Open Scope Z_scope.

Definition C06_statement : Prop :=
  forall ls cs, lines_ok ls -> chunking cs (concat ls) -> socket_read cs = ls.

Lemma plain_97 : spec_plain 97. Proof. split; discriminate. Qed.
Lemma plain_98 : spec_plain 98. Proof. split; discriminate. Qed.

(* "ab\n" received as "a", "b\n": the newline-free chunk is yielded AND carried *)
Lemma unchanged_newline_free_chunk : socket_read [[97]; [98; 10]] = [[97]; [97; 98; 10]].
Proof. reflexivity. Qed.

(* "a\r\n" received as "a\r", "\n": the line is delivered twice *)
Lemma unchanged_cr_lf_split : socket_read [[97; 13]; [10]] = [[97; 13]; [97; 13; 10]].
Proof. reflexivity. Qed.

Lemma C06_refuted_unchanged : ~ C06_statement.
Proof.
  intros H. specialize (H [[97; 98; 10]] [[97]; [98; 10]]).
  assert (Hl : lines_ok [[97; 98; 10]]).
  { constructor; [|constructor]. exists [97; 98]. split.
    - repeat constructor; discriminate.
    - left. reflexivity. }
  assert (Hc : chunking [[97]; [98; 10]] (concat [[97; 98; 10]])).
  { split; [reflexivity|]. repeat constructor; discriminate. }
  specialize (H Hl Hc). rewrite unchanged_newline_free_chunk in H. discriminate.
Qed.
