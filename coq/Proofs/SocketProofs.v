(* Proofs for the socket line splitter (C06).

   Plan.  bytes.splitlines (Prim/Splitlines.v, a scanner with one byte of look-ahead) is shown equal to a
   byte-at-a-time automaton: state = (content of the current unterminated line, "a CR has been read and an LF may
   still follow"); [run st s] = (lines emitted, final state); [splitlines s = emitted ++ flush state].
   Runs compose over ++ (run_app), the carried-over bytes [held st] replay to the state they came from (run_held),
   and one pass of the loop body computes exactly (emitted, held state) (sc_run).  Hence, for EVERY byte stream and
   EVERY segmentation into non-empty chunks,   socket_read cs = emitted (run init (concat cs))   (socket_read_run):
   the output does not depend on the segmentation at all (bare CRs and unterminated tails included).  Finally a
   stream of terminated lines emits exactly those lines and ends in the initial state (run_lines_ok). *)
From Coq Require Import List ZArith Bool Lia.
Require Import Prim.Splitlines Model.Socket Spec.SocketSpec.
Import ListNotations.
Open Scope Z_scope.

(* ------------------------------------------------------------------------------------------------------------ *)
(* the automaton                                                                                                *)
(* ------------------------------------------------------------------------------------------------------------ *)
Definition astate := (list Z * bool)%type.
Definition ainit : astate := ([], false).

(* the bytes read but not yet emitted *)
Definition held (st : astate) : list Z := let '(cur, p) := st in if p then cur ++ [CR] else cur.

Definition astep (st : astate) (c : Z) : list (list Z) * astate :=
  let '(cur, p) := st in
  if p then
    if c =? LF then ([cur ++ [CR; LF]], ([], false))
    else if c =? CR then ([cur ++ [CR]], ([], true))
    else ([cur ++ [CR]], ([c], false))
  else
    if c =? LF then ([cur ++ [LF]], ([], false))
    else if c =? CR then ([], (cur, true))
    else ([], (cur ++ [c], false)).

Fixpoint run (st : astate) (s : list Z) : list (list Z) * astate :=
  match s with
  | [] => ([], st)
  | c :: r => let '(o, st1) := astep st c in
              let '(o', st2) := run st1 r in (o ++ o', st2)
  end.

Definition flush (st : astate) : list (list Z) := match held st with [] => [] | h => [h] end.

Definition plainb (c : Z) : bool := negb (c =? LF) && negb (c =? CR).
Definition wf (st : astate) : Prop := forallb plainb (fst st) = true.

Lemma plainb_spec c : plainb c = true <-> spec_plain c.
Proof.
  unfold plainb, spec_plain, LF, CR. rewrite andb_true_iff, !negb_true_iff, !Z.eqb_neq. tauto.
Qed.

Lemma plainb_false c : plainb c = true -> (c =? LF) = false /\ (c =? CR) = false.
Proof. unfold plainb. rewrite andb_true_iff, !negb_true_iff. tauto. Qed.

(* ------------------------------------------------------------------------------------------------------------ *)
(* splitlines = automaton                                                                                       *)
(* ------------------------------------------------------------------------------------------------------------ *)
Lemma flush_false (cur : list Z) : flush (cur, false) = match cur with [] => [] | _ => [cur] end.
Proof. unfold flush, held. destruct cur; reflexivity. Qed.

Lemma flush_true (cur : list Z) : flush (cur, true) = [cur ++ [CR]].
Proof. unfold flush, held. destruct cur; reflexivity. Qed.

(* the equations of the scanner *)
Lemma sf_nil (cur : list Z) : splitlines_from cur [] = match cur with [] => [] | _ => [cur] end.
Proof. reflexivity. Qed.
Lemma sf_lf cur r : splitlines_from cur (LF :: r) = (cur ++ [LF]) :: splitlines_from [] r.
Proof. reflexivity. Qed.
Lemma sf_cr_end cur : splitlines_from cur [CR] = [cur ++ [CR]].
Proof. reflexivity. Qed.
Lemma sf_cr_lf cur r : splitlines_from cur (CR :: LF :: r) = (cur ++ [CR; LF]) :: splitlines_from [] r.
Proof. reflexivity. Qed.
Lemma sf_cr_other cur c r : (c =? LF) = false ->
  splitlines_from cur (CR :: c :: r) = (cur ++ [CR]) :: splitlines_from [] (c :: r).
Proof. intros H. cbn [splitlines_from]. change (CR =? LF) with false. change (CR =? CR) with true. rewrite H. reflexivity. Qed.
Lemma sf_plain cur c r : (c =? LF) = false -> (c =? CR) = false ->
  splitlines_from cur (c :: r) = splitlines_from (cur ++ [c]) r.
Proof. intros H1 H2. cbn [splitlines_from]. rewrite H1, H2. reflexivity. Qed.

Lemma splitlines_from_run : forall (r cur : list Z) (p : bool),
  splitlines_from cur ((if p then [CR] else []) ++ r) = fst (run (cur, p) r) ++ flush (snd (run (cur, p) r)).
Proof.
  induction r as [|c r IH]; intros cur p.
  - destruct p; cbn [app run fst snd].
    + rewrite flush_true. apply sf_cr_end.
    + rewrite flush_false. apply sf_nil.
  - destruct p; cbn [app run astep].
    + (* a CR is pending *)
      destruct (c =? LF) eqn:Elf.
      * apply Z.eqb_eq in Elf. subst c. rewrite sf_cr_lf.
        specialize (IH [] false). cbn [app] in IH. rewrite IH.
        destruct (run ([], false) r) as [o' st2]. reflexivity.
      * rewrite (sf_cr_other cur c r Elf). destruct (c =? CR) eqn:Ecr.
        -- apply Z.eqb_eq in Ecr. subst c.
           specialize (IH [] true). cbn [app] in IH. rewrite IH.
           destruct (run ([], true) r) as [o' st2]. reflexivity.
        -- rewrite (sf_plain [] c r Elf Ecr). cbn [app].
           specialize (IH [c] false). cbn [app] in IH. rewrite IH.
           destruct (run ([c], false) r) as [o' st2]. reflexivity.
    + destruct (c =? LF) eqn:Elf.
      * apply Z.eqb_eq in Elf. subst c. rewrite sf_lf.
        specialize (IH [] false). cbn [app] in IH. rewrite IH.
        destruct (run ([], false) r) as [o' st2]. reflexivity.
      * destruct (c =? CR) eqn:Ecr.
        -- apply Z.eqb_eq in Ecr. subst c.
           specialize (IH cur true). cbn [app] in IH. rewrite IH.
           destruct (run (cur, true) r) as [o' st2]. reflexivity.
        -- rewrite (sf_plain cur c r Elf Ecr).
           specialize (IH (cur ++ [c]) false). cbn [app] in IH. rewrite IH.
           destruct (run (cur ++ [c], false) r) as [o' st2]. reflexivity.
Qed.

Lemma splitlines_run s : splitlines s = fst (run ainit s) ++ flush (snd (run ainit s)).
Proof. exact (splitlines_from_run s [] false). Qed.

(* ------------------------------------------------------------------------------------------------------------ *)
(* facts about runs                                                                                             *)
(* ------------------------------------------------------------------------------------------------------------ *)
Lemma run_app : forall a b st,
  run st (a ++ b) = (fst (run st a) ++ fst (run (snd (run st a)) b), snd (run (snd (run st a)) b)).
Proof.
  induction a as [|c a IH]; intros b st.
  - simpl. destruct (run st b); reflexivity.
  - cbn [app run]. destruct (astep st c) as [o st1]. rewrite IH.
    destruct (run st1 a) as [o1 s1]. cbn [fst snd]. rewrite app_assoc. reflexivity.
Qed.

Lemma run_plain : forall l cur, forallb plainb l = true -> run (cur, false) l = ([], (cur ++ l, false)).
Proof.
  induction l as [|c l IH]; intros cur H.
  - simpl. rewrite app_nil_r. reflexivity.
  - simpl in H. apply andb_true_iff in H. destruct H as [Hc Hl].
    apply plainb_false in Hc. destruct Hc as [Elf Ecr].
    cbn [run astep]. rewrite Elf, Ecr. rewrite (IH _ Hl). rewrite <- app_assoc. reflexivity.
Qed.

(* the carried-over bytes replay to the state they came from *)
Lemma run_held st : wf st -> run ainit (held st) = ([], st).
Proof.
  destruct st as [cur p]. unfold wf, ainit. cbn [fst]. intros H. destruct p; cbn [held].
  - rewrite run_app. rewrite (run_plain cur [] H). cbn [fst snd app run astep].
    change (CR =? LF) with false. change (CR =? CR) with true. reflexivity.
  - rewrite (run_plain cur [] H). reflexivity.
Qed.

Lemma astep_wf st c : wf st -> wf (snd (astep st c)).
Proof.
  destruct st as [cur p]. unfold wf. cbn [fst]. intros H. unfold astep.
  destruct p; destruct (c =? LF) eqn:Elf; destruct (c =? CR) eqn:Ecr; cbn [snd fst forallb]; try reflexivity; try assumption.
  - unfold plainb. rewrite Elf, Ecr. reflexivity.
  - rewrite forallb_app, H. cbn [forallb]. unfold plainb. rewrite Elf, Ecr. reflexivity.
Qed.

Lemma run_wf : forall s st, wf st -> wf (snd (run st s)).
Proof.
  induction s as [|c s IH]; intros st H.
  - exact H.
  - cbn [run]. pose proof (astep_wf st c H) as H1. destruct (astep st c) as [o st1]. cbn [snd] in H1.
    specialize (IH st1 H1). destruct (run st1 s) as [o' st2]. exact IH.
Qed.

Lemma wf_init : wf ainit.
Proof. reflexivity. Qed.

Lemma endswith1_snoc l c d : endswith1 (l ++ [c]) d = (c =? d).
Proof. unfold endswith1. rewrite rev_app_distr. reflexivity. Qed.

Lemma endswith1_plain l : forallb plainb l = true -> endswith1 l LF = false.
Proof.
  intros H. induction l as [|c l' _] using rev_ind.
  - reflexivity.
  - rewrite endswith1_snoc. rewrite forallb_app in H. apply andb_true_iff in H. destruct H as [_ H].
    cbn [forallb] in H. rewrite andb_true_r in H. apply plainb_false in H. tauto.
Qed.

(* what is held never ends in LF *)
Lemma held_not_lf st : wf st -> endswith1 (held st) LF = false.
Proof.
  destruct st as [cur p]. unfold wf. cbn [fst held]. intros H. destruct p.
  - rewrite endswith1_snoc. reflexivity.
  - apply endswith1_plain. exact H.
Qed.

(* a step that leaves nothing held has just emitted one line ending in LF *)
Lemma astep_closed st c : held (snd (astep st c)) = [] ->
  exists l, fst (astep st c) = [l] /\ endswith1 l LF = true.
Proof.
  destruct st as [cur p]. unfold astep.
  destruct p; destruct (c =? LF) eqn:Elf; destruct (c =? CR) eqn:Ecr; cbn [snd fst held]; intros H;
    try discriminate.
  - eexists. split; [reflexivity|]. change [CR; LF] with ([CR] ++ [LF]). rewrite app_assoc, endswith1_snoc. reflexivity.
  - eexists. split; [reflexivity|]. change [CR; LF] with ([CR] ++ [LF]). rewrite app_assoc, endswith1_snoc. reflexivity.
  - eexists. split; [reflexivity|]. rewrite endswith1_snoc. reflexivity.
  - eexists. split; [reflexivity|]. rewrite endswith1_snoc. reflexivity.
  - destruct cur; discriminate.
  - destruct cur; discriminate.
Qed.

Lemma run_closed : forall s st, held (snd (run st s)) = [] ->
  s = [] \/ exists o l, fst (run st s) = o ++ [l] /\ endswith1 l LF = true.
Proof.
  induction s as [|c s IH]; intros st H.
  - left. reflexivity.
  - right. cbn [run] in *. pose proof (astep_closed st c) as Hs.
    destruct (astep st c) as [o st1]. cbn [fst snd] in Hs.
    specialize (IH st1). destruct (run st1 s) as [o' st2] eqn:Er. cbn [fst snd] in *.
    destruct (IH H) as [->|[o2 [l [Ho' Hl]]]].
    + simpl in Er. inversion Er; subst. destruct (Hs H) as [l [-> Hl]].
      exists [], l. split; [reflexivity|exact Hl].
    + exists (o ++ o2), l. subst o'. rewrite app_assoc. split; [reflexivity|exact Hl].
Qed.

(* ------------------------------------------------------------------------------------------------------------ *)
(* one pass of the loop body                                                                                    *)
(* ------------------------------------------------------------------------------------------------------------ *)
Definition sc (s : list Z) : list (list Z) * list Z :=
  let lines := splitlines s in
  if negb (endswith1 (last lines []) LF) then (removelast lines, last lines []) else (lines, []).

Lemma sock_iteration_sc partial body : sock_iteration partial body = sc (partial ++ body).
Proof. reflexivity. Qed.

Lemma sc_run s : sc s = (fst (run ainit s), held (snd (run ainit s))).
Proof.
  unfold sc. rewrite splitlines_run.
  pose proof (run_wf s ainit wf_init) as Hwf. pose proof (run_closed s ainit) as Hcl.
  destruct (run ainit s) as [outs st] eqn:Er. cbn [fst snd] in *.
  unfold flush. destruct (held st) as [|h0 ht] eqn:Eh.
  - rewrite app_nil_r. destruct (Hcl eq_refl) as [->|[o [l [Ho Hl]]]].
    + simpl in Er. inversion Er; subst. reflexivity.
    + rewrite Ho. rewrite last_last, Hl. reflexivity.
  - rewrite last_last. rewrite <- Eh. rewrite (held_not_lf st Hwf). cbn [negb].
    rewrite removelast_last. reflexivity.
Qed.

(* the index lines[-1] of the Python code is always in range: body is not empty *)
Lemma splitlines_from_nonempty : forall s cur, s <> [] \/ cur <> [] -> splitlines_from cur s <> [].
Proof.
  induction s as [|c s IH]; intros cur H.
  - destruct H as [H|H]; [congruence|]. simpl. destruct cur; [congruence|discriminate].
  - simpl. destruct (c =? LF); [discriminate|]. destruct (c =? CR).
    + destruct s as [|c2 s2]; [discriminate|]. destruct (c2 =? LF); discriminate.
    + apply IH. right. destruct cur; discriminate.
Qed.

Lemma sock_iteration_nonempty partial body : body <> [] -> splitlines (partial ++ body) <> [].
Proof.
  intros H. apply splitlines_from_nonempty. left. destruct partial; [exact H|discriminate].
Qed.

(* ------------------------------------------------------------------------------------------------------------ *)
(* the loop: for every stream and every segmentation                                                            *)
(* ------------------------------------------------------------------------------------------------------------ *)
Lemma sock_read_loop_run : forall cs st, wf st -> Forall (fun c => c <> []) cs ->
  sock_read_loop (held st) cs = fst (run st (concat cs)).
Proof.
  induction cs as [|b cs IH]; intros st Hwf Hne.
  - reflexivity.
  - inversion Hne as [|? ? Hb Hcs]; subst.
    destruct b as [|b0 bt]; [congruence|]. cbn [sock_read_loop concat].
    remember (b0 :: bt) as b eqn:Eb. clear Eb Hb.
    rewrite sock_iteration_sc, sc_run.
    rewrite (run_app (held st) b ainit). rewrite (run_held st Hwf). cbn [fst snd].
    rewrite (run_app b (concat cs) st).
    pose proof (run_wf b st Hwf) as Hwf1.
    destruct (run st b) as [o1 s1]. cbn [fst snd app] in *.
    rewrite (IH s1 Hwf1 Hcs). reflexivity.
Qed.

Theorem socket_read_run cs : Forall (fun c => c <> []) cs -> socket_read cs = fst (run ainit (concat cs)).
Proof. intros H. exact (sock_read_loop_run cs ainit wf_init H). Qed.

(* the output is a function of the byte stream alone *)
Theorem socket_read_chunking_independent cs1 cs2 :
  Forall (fun c => c <> []) cs1 -> Forall (fun c => c <> []) cs2 -> concat cs1 = concat cs2 ->
  socket_read cs1 = socket_read cs2.
Proof. intros H1 H2 E. rewrite (socket_read_run cs1 H1), (socket_read_run cs2 H2), E. reflexivity. Qed.

(* ------------------------------------------------------------------------------------------------------------ *)
(* streams of terminated lines                                                                                  *)
(* ------------------------------------------------------------------------------------------------------------ *)
Lemma forallb_plain content : Forall spec_plain content -> forallb plainb content = true.
Proof.
  intros H. apply forallb_forall. intros x Hx. apply plainb_spec. rewrite Forall_forall in H. exact (H x Hx).
Qed.

Lemma run_terminated_line l : terminated_line l -> run ainit l = ([l], ainit).
Proof.
  intros [content [Hp [->| ->]]]; apply forallb_plain in Hp; rewrite run_app; unfold ainit;
    rewrite (run_plain content [] Hp); cbn [fst snd app run astep].
  - change (10 =? LF) with true. reflexivity.
  - change (13 =? LF) with false. change (13 =? CR) with true. change (10 =? LF) with true. reflexivity.
Qed.

Lemma run_lines_ok : forall ls, lines_ok ls -> run ainit (concat ls) = (ls, ainit).
Proof.
  induction ls as [|l ls IH]; intros H.
  - reflexivity.
  - inversion H as [|? ? Hl Hls]; subst. cbn [concat]. rewrite run_app.
    rewrite (run_terminated_line l Hl). cbn [fst snd]. rewrite (IH Hls). reflexivity.
Qed.

(* C06 *)
Theorem socket_read_lines : forall ls cs, lines_ok ls -> chunking cs (concat ls) -> socket_read cs = ls.
Proof.
  intros ls cs Hl [Hc Hne]. rewrite (socket_read_run cs Hne), Hc, (run_lines_ok ls Hl). reflexivity.
Qed.

(* ... and the lines handed to the parser (Stream._iter_messages) *)
Theorem sock_iter_messages_lines : forall ls cs, lines_ok ls -> chunking cs (concat ls) ->
  sock_iter_messages cs = filter sock_line_filter ls.
Proof. intros ls cs Hl Hc. unfold sock_iter_messages. rewrite (socket_read_lines ls cs Hl Hc). reflexivity. Qed.

(* whatever is computed from the lines read (sentence parsing, multipart assembly, decoding -- functions of the line
   list, modelled in the assembly layer) is independent of the packet boundaries *)
Theorem delivered_independent : forall (A : Type) (deliver : list sock_bytes -> A) ls cs1 cs2,
  lines_ok ls -> chunking cs1 (concat ls) -> chunking cs2 (concat ls) ->
  deliver (socket_read cs1) = deliver (socket_read cs2) /\ deliver (socket_read cs1) = deliver ls.
Proof.
  intros A deliver ls cs1 cs2 Hl H1 H2.
  rewrite (socket_read_lines ls cs1 Hl H1), (socket_read_lines ls cs2 Hl H2). split; reflexivity.
Qed.

(* a stream whose last line is not terminated: the terminated lines are delivered, the tail is held back
   (dropped when the peer closes), again for every segmentation *)
Theorem socket_read_unterminated_tail : forall ls tail cs,
  lines_ok ls -> Forall spec_plain tail -> chunking cs (concat ls ++ tail) -> socket_read cs = ls.
Proof.
  intros ls tail cs Hl Ht [Hc Hne]. rewrite (socket_read_run cs Hne), Hc, run_app, (run_lines_ok ls Hl).
  cbn [fst snd]. unfold ainit. rewrite (run_plain tail [] (forallb_plain tail Ht)). cbn [fst]. apply app_nil_r.
Qed.

(* ------------------------------------------------------------------------------------------------------------ *)
(* the executable deciders of Spec/SocketSpec.v decide the predicates                                           *)
(* ------------------------------------------------------------------------------------------------------------ *)
Lemma terminated_lineb_spec : forall l, terminated_lineb l = true <-> terminated_line l.
Proof.
  intros l. split.
  - induction l as [|c r IH]; intros H; [discriminate|].
    cbn [terminated_lineb] in H. destruct (c =? 10) eqn:Elf.
    + apply Z.eqb_eq in Elf. subst c. destruct r; [|discriminate].
      exists []. split; [constructor|left; reflexivity].
    + destruct (c =? 13) eqn:Ecr.
      * apply Z.eqb_eq in Ecr. subst c. destruct r as [|c2 [|? ?]]; try discriminate.
        apply Z.eqb_eq in H. subst c2. exists []. split; [constructor|right; reflexivity].
      * destruct (IH H) as [content [Hp Hc]]. exists (c :: content). split.
        -- constructor; [|exact Hp]. apply Z.eqb_neq in Elf. apply Z.eqb_neq in Ecr. split; assumption.
        -- destruct Hc as [->| ->]; [left|right]; reflexivity.
  - intros [content [Hp Hc]]. revert l Hc. induction Hp as [|c content [Hlf Hcr] Hp IH]; intros l Hc.
    + destruct Hc as [->| ->]; reflexivity.
    + apply Z.eqb_neq in Hlf. apply Z.eqb_neq in Hcr.
      destruct Hc as [->| ->]; cbn [app terminated_lineb]; rewrite Hlf, Hcr; apply IH; [left|right]; reflexivity.
Qed.

Lemma lines_okb_spec ls : lines_okb ls = true <-> lines_ok ls.
Proof.
  unfold lines_okb, lines_ok. rewrite forallb_forall, Forall_forall.
  split; intros H x Hx; apply terminated_lineb_spec; exact (H x Hx).
Qed.

Lemma chunks_okb_spec cs : chunks_okb cs = true <-> Forall (fun c => c <> []) cs.
Proof.
  unfold chunks_okb. rewrite forallb_forall, Forall_forall.
  split; intros H x Hx; specialize (H x Hx); destruct x; try congruence; try discriminate; reflexivity.
Qed.

Lemma deciders_spec : forall ls cs,
  (lines_okb ls = true <-> lines_ok ls) /\ (chunks_okb cs = true <-> Forall (fun c => c <> []) cs).
Proof. intros ls cs. exact (conj (lines_okb_spec ls) (chunks_okb_spec cs)). Qed.
