(* Proofs about the sentence parser (Model/Nmea.v) and the one-shot API (Model/DecodeApi.v):
     C05 (decode()/produce half): which exceptions each function can raise, composed bottom-up;
     C10: the checksum flag.
   All statements are unbounded (every byte string, every argument list). *)
From Coq Require Import ZArith List Bool Lia.
Require Import Prim.Exn Prim.Bits Prim.PyBytes Prim.PyInt Gen.GenConst Model.Sentence Model.AssembleIter Model.FieldTypes
               Gen.GenTables Model.Codec Model.Nmea Model.DecodeApi Spec.ChecksumSpec Proofs.ExnLemmas Proofs.CodecNoEscape.
Import ListNotations.
Open Scope Z_scope.

(* ================================================================================================ *)
(* 1. primitives: what each can raise                                                                *)

Definition only (x : exn) : exn -> Prop := fun e => e = x.

Lemma modelled_value_error : modelled (Py ValueError). Proof. discriminate. Qed.
Lemma modelled_index_error : modelled (Py IndexError). Proof. discriminate. Qed.
Lemma modelled_unicode_error : modelled (Py UnicodeDecodeError). Proof. discriminate. Qed.
Lemma modelled_overflow_error : modelled (Py OverflowError). Proof. discriminate. Qed.
Lemma modelled_lib : forall l, modelled (Lib l). Proof. discriminate. Qed.
Global Hint Resolve modelled_value_error modelled_index_error modelled_unicode_error modelled_overflow_error
  modelled_lib : nmea.

Lemma py_index_raises : forall A (l : list A) i, raises_only (py_index l i) (only (Py IndexError)).
Proof.
  intros. unfold py_index.
  destruct (_ || _); [reflexivity|]. destruct (nth_error _ _); [exact I | reflexivity].
Qed.

Lemma py_index_0 : forall A (x : A) l, py_index (x :: l) 0 = Ok x.
Proof.
  intros. unfold py_index. simpl (0 <? 0). cbv iota.
  replace (0 <? 0) with false by reflexivity. simpl orb.
  destruct (Z.of_nat (List.length (x :: l)) <=? 0) eqn:E.
  - apply Z.leb_le in E. simpl List.length in E. lia.
  - reflexivity.
Qed.

Lemma py_index_last : forall A (l : list A) d, l <> [] -> py_index l (-1) = Ok (last l d).
Proof.
  intros A l d Hne. unfold py_index.
  replace (-1 <? 0) with true by reflexivity.
  assert (Hlen : (1 <= List.length l)%nat) by (destruct l; [congruence | simpl; lia]).
  destruct ((-1 + Z.of_nat (List.length l) <? 0) || (Z.of_nat (List.length l) <=? -1 + Z.of_nat (List.length l))) eqn:E.
  - apply orb_true_iff in E as [E|E]; [apply Z.ltb_lt in E | apply Z.leb_le in E]; lia.
  - replace (Z.to_nat (-1 + Z.of_nat (List.length l))) with (List.length l - 1)%nat by lia.
    clear E. induction l as [|x l IH]; [congruence|].
    destruct l as [|y l'].
    + reflexivity.
    + simpl List.length. replace (S (S (List.length l')) - 1)%nat with (S (List.length l')) by lia.
      simpl nth_error. simpl last.
      assert (IH' := IH ltac:(discriminate) ltac:(simpl; lia)).
      simpl List.length in IH'. replace (S (List.length l') - 1)%nat with (List.length l') in IH' by lia.
      exact IH'.
Qed.

Lemma decode_ascii_raises : forall b, raises_only (decode_ascii b) (only (Py UnicodeDecodeError)).
Proof. intros. unfold decode_ascii. destruct (forallb _ _); [exact I | reflexivity]. Qed.

Lemma unpack2_raises : forall A (l : list A), raises_only (unpack2 l) (only (Py ValueError)).
Proof. intros A [|a [|b [|c l]]]; simpl; try reflexivity; exact I. Qed.
Lemma unpack5_raises : forall A (l : list A), raises_only (unpack5 l) (only (Py ValueError)).
Proof. intros A [|a [|b [|c [|d [|e [|f l]]]]]]; simpl; try reflexivity; exact I. Qed.
Lemma unpack7_raises : forall A (l : list A), raises_only (unpack7 l) (only (Py ValueError)).
Proof. intros A [|a [|b [|c [|d [|e [|f [|g [|h l]]]]]]]]; simpl; try reflexivity; exact I. Qed.

Lemma py_int_bytes_raises : forall base b, raises_only (py_int_bytes base b) (only (Py ValueError)).
Proof.
  intros. unfold py_int_bytes.
  repeat match goal with
         | |- raises_only (let '(_, _) := ?x in _) _ => destruct x
         | |- raises_only (match ?x with _ => _ end) _ => destruct x
         | |- raises_only (if ?x then _ else _) _ => destruct x
         end; try reflexivity; try exact I.
Qed.

Lemma py_datetime_check_raises : forall y mo d h mi s us,
  raises_only (py_datetime_check y mo d h mi s us) modelled.
Proof.
  intros. unfold py_datetime_check.
  repeat match goal with |- raises_only (if ?x then _ else _) _ => destruct x end; try exact I; discriminate.
Qed.

Lemma only_modelled : forall x, modelled x -> forall e, only x e -> modelled e.
Proof. intros x H e ->. exact H. Qed.

(* bsplit never returns the empty list *)
Lemma bsplit_nonempty : forall sep b, bsplit sep b <> [].
Proof.
  intros sep b. destruct b as [|c r]; simpl; [discriminate|].
  destruct (c =? sep); [discriminate|]. destruct (bsplit sep r); discriminate.
Qed.

Lemma bsplit_max_nonempty : forall sep b n, bsplit_max sep b n <> [].
Proof.
  intros sep b n. destruct n; destruct b as [|c r]; simpl; try discriminate.
  destruct (c =? sep); [discriminate|]. destruct (bsplit_max sep r (S n)); discriminate.
Qed.

Lemma py_index_0_nonempty : forall A (l : list A), l <> [] -> total (py_index l 0).
Proof. intros A [|x l] H; [congruence|]. rewrite py_index_0. eexists; reflexivity. Qed.

(* ================================================================================================ *)
(* 2. util.py: chk_to_int and compute_checksum never raise                                           *)

Lemma try_value_error_total : forall A (m : M A) hs (d : A),
  raises_only m (only (Py ValueError)) -> catches hs (Py ValueError) = true ->
  total (try_except m hs (fun _ => Ok d)).
Proof.
  intros A [a|e] hs d H Hc; simpl in *.
  - eexists; reflexivity.
  - rewrite H, Hc. eexists; reflexivity.
Qed.

Lemma chk_to_int_total : forall s, total (chk_to_int s).
Proof.
  intros s. unfold chk_to_int.
  destruct (Nat.eqb (List.length s) 0); [eexists; reflexivity|].
  destruct (try_value_error_total _ (mmap Some (unpack2 (bsplit ASTERISK s))) [HPy ValueError] None) as [ab Hab].
  { apply raises_only_mmap, unpack2_raises. }
  { reflexivity. }
  rewrite Hab. simpl. destruct ab as [[a b]|]; [|eexists; reflexivity].
  destruct (try_value_error_total _ (py_int_bytes 10 a) [HPy ValueError] 0
              (py_int_bytes_raises 10 a) eq_refl) as [f ->].
  destruct (try_value_error_total _ (py_int_bytes 16 b) [HPy IndexError; HPy ValueError] (-1)
              (py_int_bytes_raises 16 b) eq_refl) as [c ->].
  eexists; reflexivity.
Qed.

Lemma compute_checksum_total : forall msg, total (compute_checksum msg).
Proof.
  intros. unfold compute_checksum.
  destruct (py_index_0_nonempty _ (bsplit_max ASTERISK (py_slice msg (Some 1) None) 1)
              (bsplit_max_nonempty _ _ _)) as [body ->].
  eexists; reflexivity.
Qed.

(* ================================================================================================ *)
(* 3. the constructors                                                                               *)

Definition invalid_only : exn -> Prop := only (Lib InvalidNMEAMessageException).

Lemma nmea_init_raises : forall raw, raises_only (nmea_init raw) invalid_only.
Proof.
  intros raw. unfold nmea_init.
  destruct (py_index_0_nonempty _ (bsplit COMMA raw) (bsplit_nonempty _ _)) as [ff ->]. simpl bind at 1.
  apply raises_only_bind.
  - apply raises_only_try with (P0 := only (Py UnicodeDecodeError)).
    + apply raises_only_bind; [apply decode_ascii_raises|]. intros t _.
      apply raises_only_bind; [apply decode_ascii_raises|]. intros y _. exact I.
    + intros e -> _. reflexivity.
    + intros e -> H. discriminate H.
  - intros [t y] _.
    rewrite (py_index_last _ (bsplit COMMA raw) [] (bsplit_nonempty _ _)). simpl bind at 1.
    destruct (chk_to_int_total (last (bsplit COMMA raw) [])) as [[fill check] ->]. simpl bind at 1.
    destruct (compute_checksum_total raw) as [cc ->]. exact I.
Qed.

(* the attributes NMEASentence.__init__ sets, for later use *)
Lemma nmea_init_raw : forall raw c, nmea_init raw = Ok c -> c_raw c = raw /\ c_tag_block c = None.
Proof.
  intros raw c H. unfold nmea_init in H.
  apply bind_ok in H as [ff [_ H]].
  apply bind_ok in H as [[t y] [_ H]]. cbv beta iota in H.
  apply bind_ok in H as [ck [_ H]].
  apply bind_ok in H as [[fill check] [_ H]]. cbv beta iota in H.
  apply bind_ok in H as [cc [_ H]].
  inversion H; subst; simpl; auto.
Qed.

(* decode_into_bit_array with a fill-bit count in 0..5 can only complain about a non-printable character *)
Lemma decode_into_bit_array_raises : forall data fill, 0 <= fill <= 5 ->
  raises_only (decode_into_bit_array data fill) (only (Lib NonPrintableCharacterException)).
Proof.
  intros data fill Hf. induction data as [|c rest IH]; cbn [decode_into_bit_array]; [exact I|].
  destruct (negb _); [reflexivity|].
  destruct rest as [|c' rest'].
  - destruct (fill =? 0); [exact I|].
    destruct (fill <? 0) eqn:E1; [apply Z.ltb_lt in E1; lia|].
    destruct (6 - fill <? SSIZE_MIN) eqn:E2; [|exact I].
    apply Z.ltb_lt in E2. unfold SSIZE_MIN in E2. assert (0 < 2 ^ 63) by (apply Z.pow_pos_nonneg; lia). lia.
  - apply raises_only_bind; [exact IH|]. intros; exact I.
Qed.

Definition ais_exn (e : exn) : Prop :=
  e = Lib InvalidNMEAMessageException \/ e = Lib NonPrintableCharacterException.

Lemma invalid_nmea_ais : forall A, raises_only (@invalid_nmea A) ais_exn.
Proof. intros; left; reflexivity. Qed.

Lemma ais_try_block_modelled : forall (fields : list bytes),
  raises_only
    (bind (unpack5 (py_slice fields None (Some 5)))
       (fun x => let '(message_fragments, fragment_number, message_id, channel, payload) := x in
          bind (py_int_bytes 10 message_fragments) (fun frag_cnt =>
          bind (py_int_bytes 10 fragment_number) (fun frag_num =>
          bind (if nonempty message_id then mmap Some (py_int_bytes 10 message_id) else Ok None) (fun seq_id =>
          bind (decode_ascii channel) (fun channel =>
          Ok (frag_cnt, frag_num, seq_id, channel, payload)))))))
    modelled.
Proof.
  intros. apply raises_only_bind.
  - eapply raises_only_weaken; [apply unpack5_raises | apply only_modelled; auto with nmea].
  - intros [[[[mf fn] mid] ch] pl] _.
    apply raises_only_bind; [eapply raises_only_weaken; [apply py_int_bytes_raises | apply only_modelled; auto with nmea]|].
    intros fc _.
    apply raises_only_bind; [eapply raises_only_weaken; [apply py_int_bytes_raises | apply only_modelled; auto with nmea]|].
    intros fnum _.
    apply raises_only_bind.
    { destruct (nonempty mid); [|exact I].
      apply raises_only_mmap. eapply raises_only_weaken; [apply py_int_bytes_raises | apply only_modelled; auto with nmea]. }
    intros sid _.
    apply raises_only_bind; [eapply raises_only_weaken; [apply decode_ascii_raises | apply only_modelled; auto with nmea]|].
    intros; exact I.
Qed.

Lemma ais_init_raises : forall raw, raises_only (ais_init raw) ais_exn.
Proof.
  intros raw. unfold ais_init.
  apply raises_only_bind.
  { eapply raises_only_weaken; [apply nmea_init_raises|]. intros e ->; left; reflexivity. }
  intros c _. apply raises_only_bind.
  { apply raises_only_try_exception; [apply ais_try_block_modelled | left; reflexivity]. }
  intros [[[[frag_cnt frag_num] seq_id] channel] payload] _.
  destruct (_ >? MAX_PAYLOAD_LEN); [apply invalid_nmea_ais|].
  destruct (_ || _); [apply invalid_nmea_ais|].
  destruct (_ || _); [apply invalid_nmea_ais|].
  destruct ((0 <=? c_fill_bits c) && (c_fill_bits c <=? 5)) eqn:E; simpl negb; cbv iota; [|apply invalid_nmea_ais].
  apply andb_true_iff in E as [E1 E2]. apply Z.leb_le in E1. apply Z.leb_le in E2.
  apply raises_only_bind.
  - eapply raises_only_weaken; [apply decode_into_bit_array_raises; lia|]. intros e ->; right; reflexivity.
  - intros; exact I.
Qed.

Lemma gatehouse_init_raises : forall raw, raises_only (gatehouse_init raw) invalid_only.
Proof.
  intros raw. unfold gatehouse_init.
  apply raises_only_bind; [apply nmea_init_raises|].
  intros c _. apply raises_only_try_exception; [|reflexivity].
  pose proof (fun b => raises_only_weaken _ _ _ _ (py_int_bytes_raises 10 b) (only_modelled _ modelled_value_error)) as Hint.
  pose proof (fun b => raises_only_weaken _ _ _ _ (decode_ascii_raises b) (only_modelled _ modelled_unicode_error)) as Hasc.
  pose proof (fun (l : list bytes) i => raises_only_weaken _ _ _ _ (py_index_raises _ l i) (only_modelled _ modelled_index_error)) as Hidx.
  apply raises_only_bind.
  { eapply raises_only_weaken; [apply unpack7_raises | apply only_modelled; auto with nmea]. }
  intros [[[[[[year month] day] hour] minute] second] ms] _.
  repeat (apply raises_only_bind; [first [apply Hint | apply Hasc | apply Hidx | apply py_datetime_check_raises] | intros ? _]).
  exact I.
Qed.

(* what a successfully constructed AISSentence satisfies *)
Lemma ais_init_ok : forall raw a, ais_init raw = Ok a ->
  nmea_init raw = Ok (a_common a) /\
  1 <= a_frag_cnt a <= MAX_FRAG_CNT /\ 1 <= a_frag_num a <= MAX_FRAG_CNT /\
  0 <= c_fill_bits (a_common a) <= 5 /\
  Z.of_nat (List.length (a_payload a)) <= MAX_PAYLOAD_LEN /\
  decode_into_bit_array (a_payload a) (c_fill_bits (a_common a)) = Ok (a_bits a) /\
  a_ais_id a = get_int (a_bits a) 0 6 false /\ a_wrapper a = None.
Proof.
  intros raw a H. unfold ais_init in H.
  apply bind_ok in H as [c [Hc H]].
  apply bind_ok in H as [[[[[frag_cnt frag_num] seq_id] channel] payload] [_ H]]. cbv beta iota in H.
  destruct (Z.of_nat (List.length payload) >? MAX_PAYLOAD_LEN) eqn:E0; [discriminate|].
  destruct ((frag_cnt >? MAX_FRAG_CNT) || (frag_num >? MAX_FRAG_CNT)) eqn:E1; [discriminate|].
  destruct ((frag_cnt <? 1) || (frag_num <? 1)) eqn:E2; [discriminate|].
  destruct ((0 <=? c_fill_bits c) && (c_fill_bits c <=? 5)) eqn:E3; [|discriminate]. simpl negb in H. cbv iota in H.
  apply bind_ok in H as [bit_array [Hb H]]. inversion H; subst; clear H. simpl.
  apply orb_false_iff in E1 as [E1a E1b]. apply orb_false_iff in E2 as [E2a E2b].
  apply andb_true_iff in E3 as [E3a E3b].
  rewrite Z.gtb_ltb in E0, E1a, E1b.
  apply Z.ltb_ge in E0, E1a, E1b, E2a, E2b. apply Z.leb_le in E3a, E3b.
  repeat split; auto; lia.
Qed.

Lemma gatehouse_init_ok : forall raw g, gatehouse_init raw = Ok g -> nmea_init raw = Ok (g_common g).
Proof.
  intros raw g H. unfold gatehouse_init in H.
  apply bind_ok in H as [c [Hc H]].
  unfold try_except in H.
  match type of H with match ?m with _ => _ end = _ => destruct m as [g'|e] eqn:E end.
  - inversion H; subst; clear H.
    apply bind_ok in E as [[[[[[[year month] day] hour] minute] second] ms] [_ E]]. cbv beta iota in E.
    repeat (apply bind_ok in E as [? [_ E]]).
    inversion E; subst; simpl. exact Hc.
  - destruct (catches _ _); discriminate.
Qed.

(* ================================================================================================ *)
(* 4. the factory                                                                                    *)

(* exactly the classes both reader loops catch around produce() *)
Definition reader_set (e : exn) : Prop :=
  e = Lib InvalidNMEAMessageException \/ e = Lib NonPrintableCharacterException \/ e = Lib UnknownMessageException.

Lemma pre_process_total : forall raw, strip raw <> [] -> total (pre_process raw).
Proof.
  intros raw H. unfold pre_process. destruct (strip raw) as [|x l] eqn:E; [congruence|].
  rewrite py_index_0. simpl bind. destruct (x =? TAG_BLOCK_START); eexists; reflexivity.
Qed.

Lemma produce_inner_raises : forall raw, raises_only (produce_inner raw) reader_set.
Proof.
  intros raw. unfold produce_inner.
  destruct (py_index_0_nonempty _ (bsplit COMMA raw) (bsplit_nonempty _ _)) as [ff ->]. simpl bind.
  destruct (_ || _).
  - apply raises_only_mmap. eapply raises_only_weaken; [apply ais_init_raises|].
    intros e [-> | ->]; [left | right; left]; reflexivity.
  - destruct (_ && _).
    + apply raises_only_mmap. eapply raises_only_weaken; [apply gatehouse_init_raises|].
      intros e ->; left; reflexivity.
    + right; right; reflexivity.
Qed.

Theorem produce_raises : forall raw, raises_only (produce raw) reader_set.
Proof.
  intros raw. unfold produce.
  destruct (Nat.eqb (List.length (strip raw)) 0) eqn:E; [left; reflexivity|].
  assert (Hne : strip raw <> []) by (intro H0; rewrite H0 in E; discriminate).
  destruct (pre_process_total raw Hne) as [[rs tb] ->]. simpl bind at 1.
  apply raises_only_bind; [apply produce_inner_raises|].
  intros s _. destruct tb as [t|]; [destruct (nonempty t)|]; exact I.
Qed.

Corollary produce_raises_only_reader_set : forall raw e, produce raw = Raise e ->
  e = Lib InvalidNMEAMessageException \/ e = Lib NonPrintableCharacterException \/ e = Lib UnknownMessageException.
Proof. intros raw e H. pose proof (produce_raises raw) as R. rewrite H in R. exact R. Qed.

Corollary produce_no_escape : forall raw, no_escape (produce raw).
Proof.
  intros. apply no_escape_iff. eapply raises_only_weaken; [apply produce_raises|].
  intros e [-> | [-> | ->]]; exact I.
Qed.

(* inversion of a successful produce *)
Lemma produce_ok : forall raw s, produce raw = Ok s ->
  exists rs s0, produce_inner rs = Ok s0 /\
    (s = s0 \/ exists t, s = sentence_set_tag_block s0 (Some t)).
Proof.
  intros raw s H. unfold produce in H.
  destruct (Nat.eqb _ _); [discriminate|].
  apply bind_ok in H as [[rs tb] [_ H]]. cbv beta iota in H.
  apply bind_ok in H as [s0 [Hs0 H]].
  exists rs, s0. split; [exact Hs0|].
  destruct tb as [t|]; [destruct (nonempty t)|]; inversion H; subst; eauto.
Qed.

Lemma produce_inner_ok : forall raw s, produce_inner raw = Ok s ->
  (exists a, s = SAis a /\ ais_init raw = Ok a) \/ (exists g, s = SGatehouse g /\ gatehouse_init raw = Ok g).
Proof.
  intros raw s H. unfold produce_inner in H.
  apply bind_ok in H as [ff [_ H]].
  destruct (_ || _).
  - apply mmap_ok in H as [a [Ha ->]]. left; eauto.
  - destruct (_ && _); [|discriminate]. apply mmap_ok in H as [g [Hg ->]]. right; eauto.
Qed.

Theorem produce_ais_ranges : forall raw a, produce raw = Ok (SAis a) ->
  1 <= a_frag_cnt a <= MAX_FRAG_CNT /\ 1 <= a_frag_num a <= MAX_FRAG_CNT.
Proof.
  intros raw a H. apply produce_ok in H as [rs [s0 [Hs0 Hs]]].
  apply produce_inner_ok in Hs0 as [[a0 [-> Ha0]] | [g [-> _]]].
  - apply ais_init_ok in Ha0 as [_ [R1 [R2 _]]].
    destruct Hs as [Hs | [t Hs]]; inversion Hs; subst; simpl; auto.
  - destruct Hs as [Hs | [t Hs]]; inversion Hs.
Qed.

(* the fill-bit count and payload length a parsed AIS sentence can have *)
Theorem produce_ais_fill_payload : forall raw a, produce raw = Ok (SAis a) ->
  0 <= c_fill_bits (a_common a) <= 5 /\ Z.of_nat (List.length (a_payload a)) <= MAX_PAYLOAD_LEN.
Proof.
  intros raw a H. apply produce_ok in H as [rs [s0 [Hs0 Hs]]].
  apply produce_inner_ok in Hs0 as [[a0 [-> Ha0]] | [g [-> _]]].
  - apply ais_init_ok in Ha0 as [_ [_ [_ [R3 [R4 _]]]]].
    destruct Hs as [Hs | [t Hs]]; inversion Hs; subst; simpl; auto.
  - destruct Hs as [Hs | [t Hs]]; inversion Hs.
Qed.

(* ================================================================================================ *)
(* 5. decode._assemble_messages / decode                                                             *)

(* the documented exceptions of decode(); InvalidNMEAChecksum only in strict mode *)
Definition decode_exn (strict : bool) (e : exn) : Prop :=
  reader_set e \/ e = Lib MissingMultipartMessageException \/ e = Lib TooManyMessagesException \/
  e = Lib MissingPayloadException \/ e = Lib UnknownPartNoException \/
  (strict = true /\ e = Lib InvalidNMEAChecksum).

Lemma assemble_loop_raises : forall strict args temp frags frag_cnt,
  raises_only (assemble_loop strict args temp frags frag_cnt) (decode_exn strict).
Proof.
  intros strict args. induction args as [|msg rest IH]; intros temp frags frag_cnt; simpl; [exact I|].
  apply raises_only_bind.
  - eapply raises_only_weaken; [apply produce_raises|]. intros e H; left; exact H.
  - intros s _. destruct strict; simpl andb.
    + destruct (negb _); [right; right; right; right; right; split; reflexivity|].
      destruct s; apply IH.
    + destruct s; apply IH.
Qed.

(* temp and frags grow together *)
Lemma assemble_loop_lengths : forall strict args temp frags frag_cnt temp' frags' c',
  List.length temp = List.length frags ->
  assemble_loop strict args temp frags frag_cnt = Ok (temp', frags', c') ->
  List.length temp' = List.length frags'.
Proof.
  intros strict args. induction args as [|msg rest IH]; intros temp frags frag_cnt temp' frags' c' Hl H; simpl in H.
  - inversion H; subst; exact Hl.
  - apply bind_ok in H as [s [_ H]].
    destruct (strict && negb _); [discriminate|].
    destruct s as [a|g].
    + eapply IH; [|exact H]. rewrite !app_length. simpl. lia.
    + eapply IH; [|exact H]. exact Hl.
Qed.

Lemma assemble_from_iterable_total : forall l, l <> [] -> total (assemble_from_iterable l).
Proof. intros [|x l] H; [congruence|]. eexists; reflexivity. Qed.

Lemma assemble_messages_raises : forall strict args, raises_only (assemble_messages strict args) (decode_exn strict).
Proof.
  intros strict args. unfold assemble_messages.
  apply raises_only_bind; [apply assemble_loop_raises|].
  intros [[temp frags] frag_cnt] Hloop. cbv beta iota.
  destruct (Nat.eqb (List.length frags) 0) eqn:E0; [right; left; reflexivity|].
  destruct (_ >? frag_cnt); [right; right; left; reflexivity|].
  destruct (nonempty _); [right; left; reflexivity|].
  apply total_raises_only, assemble_from_iterable_total.
  apply assemble_loop_lengths in Hloop; [|reflexivity].
  intro Ht. rewrite Ht in Hloop. simpl in Hloop. rewrite <- Hloop in E0. discriminate.
Qed.

Lemma sentence_decode_raises : forall strict s, raises_only (sentence_decode s) (decode_exn strict).
Proof.
  intros strict s. unfold sentence_decode.
  destruct (negb _); [right; right; right; left; reflexivity|].
  eapply raises_only_weaken; [apply decode_bits_as_raises|].
  intros e [-> | ->]; [left; right; right; reflexivity | right; right; right; right; left; reflexivity].
Qed.

Theorem decode_api_raises : forall strict args, raises_only (decode_api strict args) (decode_exn strict).
Proof.
  intros. unfold decode_api.
  apply raises_only_bind; [apply assemble_messages_raises|]. intros nmea _.
  apply raises_only_bind; [apply sentence_decode_raises|]. intros; exact I.
Qed.

Corollary decode_api_no_escape : forall strict args, no_escape (decode_api strict args).
Proof.
  intros. apply no_escape_iff. eapply raises_only_weaken; [apply decode_api_raises|].
  intros e [[-> | [-> | ->]] | [-> | [-> | [-> | [-> | [_ ->]]]]]]; exact I.
Qed.

(* every exception of decode() is an AISBaseException (TagBlockNotInitializedException, the one library class outside
   the hierarchy, cannot come out) *)
Corollary decode_api_ais_base : forall strict args e, decode_api strict args = Raise e -> is_ais_base e = true.
Proof.
  intros strict args e H. pose proof (decode_api_raises strict args) as R. rewrite H in R.
  destruct R as [[-> | [-> | ->]] | [-> | [-> | [-> | [-> | [_ ->]]]]]]; reflexivity.
Qed.

(* ================================================================================================ *)
(* 6. C10: the checksum flag                                                                         *)

(* ---- XOR ---- *)
Lemma xor_bytes_app : forall a b, xor_bytes (a ++ b) = Z.lxor (xor_bytes a) (xor_bytes b).
Proof.
  induction a as [|x a IH]; intros b; simpl.
  - reflexivity.
  - rewrite IH, Z.lxor_assoc. reflexivity.
Qed.

Lemma lxor_cancel_l : forall a x y, Z.lxor a x = Z.lxor a y -> x = y.
Proof.
  intros a x y H.
  assert (Hx : Z.lxor a (Z.lxor a x) = x) by (rewrite <- Z.lxor_assoc, Z.lxor_nilpotent, Z.lxor_0_l; reflexivity).
  assert (Hy : Z.lxor a (Z.lxor a y) = y) by (rewrite <- Z.lxor_assoc, Z.lxor_nilpotent, Z.lxor_0_l; reflexivity).
  rewrite <- Hx, <- Hy, H. reflexivity.
Qed.

Lemma lxor_cancel_r : forall a x y, Z.lxor x a = Z.lxor y a -> x = y.
Proof. intros a x y H. rewrite (Z.lxor_comm x a), (Z.lxor_comm y a) in H. eapply lxor_cancel_l; eauto. Qed.

(* substituting one byte by a different one always changes the XOR (any position, any context, any values) *)
Theorem xor_subst : forall l1 b b' l2, b <> b' -> xor_bytes (l1 ++ b :: l2) <> xor_bytes (l1 ++ b' :: l2).
Proof.
  intros l1 b b' l2 Hne H. rewrite !xor_bytes_app in H. simpl in H.
  apply lxor_cancel_l in H. apply lxor_cancel_r in H. contradiction.
Qed.

Lemma fold_lxor : forall l a, fold_left Z.lxor l a = Z.lxor a (xor_bytes l).
Proof.
  induction l as [|x l IH]; intros a; simpl.
  - rewrite Z.lxor_0_r. reflexivity.
  - rewrite IH, Z.lxor_assoc. reflexivity.
Qed.

Lemma reduce_xor_init_spec : forall l, reduce_xor_init l 0 = xor_bytes l.
Proof. intros. unfold reduce_xor_init. rewrite fold_lxor, Z.lxor_0_l. reflexivity. Qed.

(* ---- split ---- *)
Definition sep_free (sep : Z) (l : list Z) : Prop := forallb (fun c => negb (c =? sep)) l = true.

Lemma bsplit_sep_free : forall sep l, sep_free sep l -> bsplit sep l = [l].
Proof.
  unfold sep_free. induction l as [|c r IH]; intros H; simpl in *; [reflexivity|].
  apply andb_true_iff in H as [Hc Hr]. apply negb_true_iff in Hc. rewrite Hc, (IH Hr). reflexivity.
Qed.

Lemma bsplit_app_sep : forall sep a b, sep_free sep a -> bsplit sep (a ++ sep :: b) = a :: bsplit sep b.
Proof.
  unfold sep_free. induction a as [|c r IH]; intros b H; simpl in *.
  - rewrite Z.eqb_refl. reflexivity.
  - apply andb_true_iff in H as [Hc Hr]. apply negb_true_iff in Hc. rewrite Hc, (IH b Hr). reflexivity.
Qed.

Lemma bsplit_max1_app_sep : forall sep a b, sep_free sep a -> bsplit_max sep (a ++ sep :: b) 1 = [a; b].
Proof.
  unfold sep_free. induction a as [|c r IH]; intros b H; simpl in *.
  - rewrite Z.eqb_refl. destruct b; reflexivity.
  - apply andb_true_iff in H as [Hc Hr]. apply negb_true_iff in Hc. rewrite Hc.
    specialize (IH b Hr). simpl in IH. rewrite IH. reflexivity.
Qed.

(* the fields of l, and of l followed by separator-free text: only the last field grows *)
Lemma bsplit_decomp : forall sep l suf, sep_free sep suf ->
  exists pre lf, bsplit sep l = pre ++ [lf] /\ bsplit sep (l ++ suf) = pre ++ [lf ++ suf] /\ incl lf l.
Proof.
  intros sep l suf Hs. induction l as [|c r IH].
  - exists [], []. simpl. rewrite (bsplit_sep_free sep suf Hs). repeat split. apply incl_refl.
  - destruct IH as [pre [lf [E1 [E2 Hin]]]]. simpl. rewrite E1, E2.
    destruct (c =? sep).
    + exists ([] :: pre), lf. repeat split. apply incl_tl; exact Hin.
    + destruct pre as [|h t]; simpl.
      * exists [], (c :: lf). repeat split. apply incl_cons; [left; reflexivity | apply incl_tl; exact Hin].
      * exists ((c :: h) :: t), lf. repeat split. apply incl_tl; exact Hin.
Qed.

Lemma sep_free_incl : forall sep a b, incl a b -> sep_free sep b -> sep_free sep a.
Proof.
  unfold sep_free. intros sep a b Hi Hb. rewrite forallb_forall in *. intros x Hx. apply Hb, Hi, Hx.
Qed.

(* ---- slicing and stripping ---- *)
Lemma py_slice_tail : forall A (x : A) l, py_slice (x :: l) (Some 1) None = l.
Proof.
  intros. unfold py_slice, norm_index. replace (1 <? 0) with false by reflexivity.
  set (len := Z.of_nat (List.length (x :: l))).
  assert (Hlen : len = Z.of_nat (List.length l) + 1) by (unfold len; simpl List.length; lia).
  rewrite Z.min_l by lia. replace (Z.to_nat 1) with 1%nat by reflexivity. simpl skipn.
  replace (Z.to_nat (len - 1)) with (List.length l) by lia. apply firstn_all.
Qed.

Lemma lstrip_nonspace : forall d l, is_space d = false -> lstrip (d :: l) = d :: l.
Proof. intros d l H. simpl. rewrite H. reflexivity. Qed.

Lemma rstrip_nonspace_last : forall l x, is_space x = false -> rstrip (l ++ [x]) = l ++ [x].
Proof.
  induction l as [|c r IH]; intros x H; simpl.
  - rewrite H. reflexivity.
  - rewrite (IH x H). destruct (r ++ [x]) eqn:E; [destruct r; discriminate | reflexivity].
Qed.

(* ---- two hex digits ---- *)
Definition hex_table : list (Z * Z) :=
  [(48, 0); (49, 1); (50, 2); (51, 3); (52, 4); (53, 5); (54, 6); (55, 7); (56, 8); (57, 9);
   (65, 10); (66, 11); (67, 12); (68, 13); (69, 14); (70, 15);
   (97, 10); (98, 11); (99, 12); (100, 13); (101, 14); (102, 15)].

Lemma hexdigit_table : forall c a, hexdigit c = Some a -> In (c, a) hex_table.
Proof.
  intros c a H. unfold hexdigit in H.
  destruct ((48 <=? c) && (c <=? 57)) eqn:E1.
  - apply andb_true_iff in E1 as [A B]. apply Z.leb_le in A, B. inversion H; subst a.
    assert (c = 48 \/ c = 49 \/ c = 50 \/ c = 51 \/ c = 52 \/ c = 53 \/ c = 54 \/ c = 55 \/ c = 56 \/ c = 57) by lia.
    unfold hex_table. repeat (destruct H0 as [-> | H0]; [simpl; tauto|]). subst; simpl; tauto.
  - destruct ((65 <=? c) && (c <=? 70)) eqn:E2.
    + apply andb_true_iff in E2 as [A B]. apply Z.leb_le in A, B. inversion H; subst a.
      assert (c = 65 \/ c = 66 \/ c = 67 \/ c = 68 \/ c = 69 \/ c = 70) by lia.
      unfold hex_table. repeat (destruct H0 as [-> | H0]; [simpl; tauto|]). subst; simpl; tauto.
    + destruct ((97 <=? c) && (c <=? 102)) eqn:E3; [|discriminate].
      apply andb_true_iff in E3 as [A B]. apply Z.leb_le in A, B. inversion H; subst a.
      assert (c = 97 \/ c = 98 \/ c = 99 \/ c = 100 \/ c = 101 \/ c = 102) by lia.
      unfold hex_table. repeat (destruct H0 as [-> | H0]; [simpl; tauto|]). subst; simpl; tauto.
Qed.

Lemma hex2_table_check :
  forallb (fun p1 => forallb (fun p2 =>
      match py_int_bytes 16 [fst p1; fst p2] with
      | Ok v => (v =? 16 * snd p1 + snd p2) && negb (is_space (fst p2)) && negb (fst p1 =? 42) && negb (fst p2 =? 42)
                && negb (fst p1 =? 44) && negb (fst p2 =? 44)
      | Raise _ => false
      end) hex_table) hex_table = true.
Proof. vm_compute. reflexivity. Qed.

(* int(b"h1h2", 16) of two hex digits (either case) is their value; and they are neither blank, '*' nor ',' *)
Lemma hex2_int : forall h1 h2 v, hexval h1 h2 = Some v ->
  py_int_bytes 16 [h1; h2] = Ok v /\ is_space h2 = false /\ sep_free 42 [h1; h2] /\ sep_free 44 [42; h1; h2].
Proof.
  intros h1 h2 v H. unfold hexval in H.
  destruct (hexdigit h1) as [a|] eqn:E1; [|discriminate]. destruct (hexdigit h2) as [b|] eqn:E2; [|discriminate].
  inversion H; subst v; clear H.
  pose proof hex2_table_check as T. rewrite forallb_forall in T.
  specialize (T _ (hexdigit_table _ _ E1)). rewrite forallb_forall in T.
  specialize (T _ (hexdigit_table _ _ E2)). simpl fst in T. simpl snd in T.
  destruct (py_int_bytes 16 [h1; h2]) as [v|e]; [|discriminate].
  rewrite !andb_true_iff in T. destruct T as [[[[[T1 T2] T3] T4] T5] T6].
  apply Z.eqb_eq in T1. subst v. apply negb_true_iff in T2.
  unfold sep_free. simpl. rewrite T3, T4, T5, T6. auto.
Qed.

(* ---- chk_to_int on "<fill>*h1h2" ---- *)
Lemma chk_to_int_hex2 : forall lf h1 h2 v, sep_free 42 lf -> hexval h1 h2 = Some v ->
  exists fill, chk_to_int (lf ++ [42; h1; h2]) = Ok (fill, v).
Proof.
  intros lf h1 h2 v Hlf Hv. destruct (hex2_int _ _ _ Hv) as [Hint [_ [Hsf _]]].
  unfold chk_to_int.
  assert (Nat.eqb (List.length (lf ++ [42; h1; h2])) 0 = false) as ->.
  { rewrite app_length. simpl. destruct (List.length lf); reflexivity. }
  change (lf ++ [42; h1; h2]) with (lf ++ ASTERISK :: [h1; h2]).
  rewrite (bsplit_app_sep ASTERISK lf [h1; h2] Hlf), (bsplit_sep_free ASTERISK [h1; h2] Hsf).
  simpl unpack2. simpl mmap. simpl try_except at 1. simpl bind at 1.
  destruct (try_value_error_total _ (py_int_bytes 10 lf) [HPy ValueError] 0
              (py_int_bytes_raises 10 lf) eq_refl) as [f ->].
  rewrite Hint. simpl. eexists; reflexivity.
Qed.

Lemma compute_checksum_body : forall d body h1 h2, sep_free 42 body ->
  compute_checksum (d :: body ++ [42; h1; h2]) = Ok (xor_bytes body).
Proof.
  intros d body h1 h2 Hb. unfold compute_checksum.
  rewrite py_slice_tail.
  change (body ++ [42; h1; h2]) with (body ++ ASTERISK :: [h1; h2]).
  rewrite (bsplit_max1_app_sep ASTERISK body [h1; h2] Hb), py_index_0. simpl bind.
  rewrite reduce_xor_init_spec. reflexivity.
Qed.

(* NMEASentence.__init__ : the flag *)
Lemma nmea_init_valid : forall d body h1 h2 v c,
  d <> 42 -> star_free body = true -> hexval h1 h2 = Some v ->
  nmea_init (sentence_text d body h1 h2) = Ok c ->
  c_is_valid c = (v =? xor_bytes body).
Proof.
  intros d body h1 h2 v c Hd Hb Hv H. unfold sentence_text, STAR in *.
  assert (Hb' : sep_free 42 body) by exact Hb.
  destruct (hex2_int _ _ _ Hv) as [_ [_ [_ Hcomma]]].
  destruct (bsplit_decomp COMMA (d :: body) [42; h1; h2] Hcomma) as [pre [lf [_ [E2 Hin]]]].
  assert (Hlf : sep_free 42 lf).
  { eapply sep_free_incl; [exact Hin|]. unfold sep_free. simpl.
    apply Z.eqb_neq in Hd. rewrite Hd. exact Hb'. }
  destruct (chk_to_int_hex2 lf h1 h2 v Hlf Hv) as [fill Hchk].
  pose proof (compute_checksum_body d body h1 h2 Hb') as Hcc.
  change ((d :: body) ++ [42; h1; h2]) with (d :: body ++ [42; h1; h2]) in E2.
  remember (d :: body ++ [42; h1; h2]) as raw eqn:Eraw. clear Eraw.
  unfold nmea_init in H.
  apply bind_ok in H as [ff [_ H]].
  apply bind_ok in H as [[t y] [_ H]]. cbv beta iota in H.
  rewrite (py_index_last _ _ [] (bsplit_nonempty _ _)), E2, last_last in H. simpl bind at 1 in H.
  rewrite Hchk in H. simpl bind at 1 in H.
  rewrite Hcc in H. simpl bind at 1 in H.
  inversion H; subst c; reflexivity.
Qed.

Lemma set_tag_block_valid : forall s t,
  c_is_valid (sentence_common (sentence_set_tag_block s t)) = c_is_valid (sentence_common s).
Proof. intros [a|g] t; reflexivity. Qed.

Lemma produce_inner_valid : forall d body h1 h2 v s,
  d <> 42 -> star_free body = true -> hexval h1 h2 = Some v ->
  produce_inner (sentence_text d body h1 h2) = Ok s ->
  c_is_valid (sentence_common s) = (v =? xor_bytes body).
Proof.
  intros d body h1 h2 v s Hd Hb Hv H.
  apply produce_inner_ok in H as [[a [-> Ha]] | [g [-> Hg]]]; simpl.
  - apply ais_init_ok in Ha as [Hn _]. eapply nmea_init_valid; eauto.
  - apply gatehouse_init_ok in Hg. eapply nmea_init_valid; eauto.
Qed.

Lemma strip_sentence_text : forall pre body h1 h2 v, (forall x l, pre = x :: l -> is_space x = false) ->
  (pre = [] -> False) -> hexval h1 h2 = Some v ->
  strip (pre ++ body ++ [42; h1; h2]) = pre ++ body ++ [42; h1; h2].
Proof.
  intros pre body h1 h2 v Hpre Hne Hv. destruct (hex2_int _ _ _ Hv) as [_ [Hsp _]].
  destruct pre as [|x l]; [contradiction Hne; reflexivity|].
  unfold strip. simpl app. rewrite lstrip_nonspace by (eapply Hpre; reflexivity).
  replace (x :: l ++ body ++ [42; h1; h2]) with ((x :: l ++ body ++ [42; h1]) ++ [h2]).
  - apply rstrip_nonspace_last; exact Hsp.
  - simpl. rewrite <- !app_assoc. reflexivity.
Qed.

(* C10, first clause: a parsed sentence is flagged valid iff the two hex digits equal the XOR of the body *)
Theorem valid_iff : forall d body h1 h2 v s,
  is_space d = false -> d <> 92 -> d <> 42 ->
  star_free body = true -> hexval h1 h2 = Some v ->
  produce (sentence_text d body h1 h2) = Ok s ->
  c_is_valid (sentence_common s) = (v =? xor_bytes body).
Proof.
  intros d body h1 h2 v s Hsp Hbs Hd Hb Hv H.
  assert (Hstrip : strip (sentence_text d body h1 h2) = sentence_text d body h1 h2).
  { apply (strip_sentence_text [d] body h1 h2 v); auto; [|discriminate].
    intros x l E; inversion E; subst; exact Hsp. }
  unfold produce in H. rewrite Hstrip in H.
  destruct (Nat.eqb _ _); [discriminate|].
  unfold pre_process in H. rewrite Hstrip in H. unfold sentence_text at 1 in H. rewrite py_index_0 in H.
  simpl bind at 2 in H.
  assert (d =? TAG_BLOCK_START = false) as E by (apply Z.eqb_neq; exact Hbs). rewrite E in H.
  simpl bind at 1 in H. cbv beta iota in H.
  apply bind_ok in H as [s0 [Hs0 H]]. inversion H; subst s0.
  eapply produce_inner_valid; eauto.
Qed.

(* ---- the same behind a tag block ---- *)
Lemma bfind_from_app : forall needle a r i, sep_free needle a ->
  bfind_from needle (a ++ needle :: r) i = i + Z.of_nat (List.length a).
Proof.
  unfold sep_free. induction a as [|c a IH]; intros r i H; simpl in *.
  - rewrite Z.eqb_refl. lia.
  - apply andb_true_iff in H as [Hc Ha]. apply negb_true_iff in Hc. rewrite Hc, (IH r (i + 1) Ha). lia.
Qed.

Lemma py_slice_from : forall A (a b : list A), py_slice (a ++ b) (Some (Z.of_nat (List.length a))) None = b.
Proof.
  intros. unfold py_slice, norm_index. rewrite app_length.
  destruct (Z.of_nat (List.length a) <? 0) eqn:E; [apply Z.ltb_lt in E; lia|].
  rewrite Z.min_l by lia. rewrite Nat2Z.id, skipn_app, skipn_all, Nat.sub_diag. simpl.
  replace (Z.to_nat (Z.of_nat (List.length a + List.length b) - Z.of_nat (List.length a))) with (List.length b) by lia.
  apply firstn_all.
Qed.

Theorem valid_iff_tag_block : forall tb d body h1 h2 v s,
  sep_free 92 tb -> d <> 42 -> star_free body = true -> hexval h1 h2 = Some v ->
  produce (92 :: tb ++ 92 :: sentence_text d body h1 h2) = Ok s ->
  c_is_valid (sentence_common s) = (v =? xor_bytes body).
Proof.
  intros tb d body h1 h2 v s Htb Hd Hb Hv H.
  set (text := sentence_text d body h1 h2) in *.
  assert (Hstrip : strip (92 :: tb ++ 92 :: text) = 92 :: tb ++ 92 :: text).
  { replace (92 :: tb ++ 92 :: text) with ((92 :: tb ++ [92; d]) ++ body ++ [42; h1; h2]).
    - apply (strip_sentence_text _ body h1 h2 v); auto; [|discriminate].
      intros x l E; inversion E; subst; reflexivity.
    - unfold text, sentence_text, STAR. simpl. rewrite <- app_assoc. reflexivity. }
  unfold produce in H. rewrite Hstrip in H.
  destruct (Nat.eqb _ _); [discriminate|].
  unfold pre_process in H. rewrite Hstrip, py_index_0 in H. simpl bind at 2 in H.
  unfold TAG_BLOCK_START in H. replace (92 =? 92) with true in H by reflexivity.
  rewrite py_slice_tail in H. unfold bfind in H. rewrite (bfind_from_app 92 tb text 0 Htb) in H.
  simpl bind at 1 in H. cbv beta iota in H.
  replace (py_slice (92 :: tb ++ 92 :: text) (Some (Z.of_nat (List.length tb) + 1 + 1)) None) with text in H.
  - apply bind_ok in H as [s0 [Hs0 H]].
    assert (Hflag : c_is_valid (sentence_common s0) = (v =? xor_bytes body))
      by exact (produce_inner_valid d body h1 h2 v s0 Hd Hb Hv Hs0).
    destruct (nonempty _); inversion H; subst s; [rewrite set_tag_block_valid|]; exact Hflag.
  - replace (92 :: tb ++ 92 :: text) with ((92 :: tb ++ [92]) ++ text) by (simpl; rewrite <- app_assoc; reflexivity).
    replace (Z.of_nat (List.length tb) + 1 + 1) with (Z.of_nat (List.length (92 :: tb ++ [92])))
      by (simpl List.length; rewrite app_length; simpl; lia).
    symmetry. apply py_slice_from.
Qed.

(* ---- assembly: the flag of an assembled message is the conjunction of the flags of its parts ---- *)
Definition ais_valid (m : ais_sentence) : bool := c_is_valid (a_common m).

Lemma forallb_insert_by_frag : forall f m l, forallb f (insert_by_frag m l) = f m && forallb f l.
Proof.
  induction l as [|x l IH]; simpl; [reflexivity|].
  destruct (a_frag_num m <? a_frag_num x); simpl.
  - reflexivity.
  - rewrite IH. destruct (f m), (f x); reflexivity.
Qed.

Lemma forallb_sort_by_frag : forall f l, forallb f (sort_by_frag l) = forallb f l.
Proof.
  unfold sort_by_frag. induction l as [|x l IH]; simpl; [reflexivity|].
  rewrite forallb_insert_by_frag, IH. reflexivity.
Qed.

Theorem assembled_valid : forall parts s, assemble_from_iterable parts = Ok s ->
  c_is_valid (a_common s) = forallb ais_valid parts.
Proof.
  intros parts s H. unfold assemble_from_iterable in H. destruct parts as [|first rest]; [discriminate|].
  inversion H; subst s; clear H.
  change (forallb ais_valid (sort_by_frag (first :: rest)) = forallb ais_valid (first :: rest)).
  apply forallb_sort_by_frag.
Qed.

(* ---- decode(): which sentences were parsed, and the flag of the result ---- *)
Fixpoint parse_all (parts : list bytes) : M (list sentence) :=
  match parts with
  | [] => Ok []
  | p :: rest => bind (produce p) (fun s => bind (parse_all rest) (fun ss => Ok (s :: ss)))
  end.

Definition sentence_valid (s : sentence) : bool := c_is_valid (sentence_common s).
Definition ais_of (ss : list sentence) : list ais_sentence :=
  flat_map (fun s => match s with SAis a => [a] | SGatehouse _ => [] end) ss.

Lemma assemble_loop_collects : forall strict args temp frags frag_cnt temp' frags' c',
  assemble_loop strict args temp frags frag_cnt = Ok (temp', frags', c') ->
  exists ss, parse_all args = Ok ss /\ temp' = temp ++ ais_of ss /\
             (strict = true -> forallb sentence_valid ss = true).
Proof.
  intros strict args. induction args as [|msg rest IH]; intros temp frags frag_cnt temp' frags' c' H; simpl in H.
  - inversion H; subst. exists []. simpl. rewrite app_nil_r. auto.
  - apply bind_ok in H as [s [Hs H]].
    destruct (strict && negb (c_is_valid (sentence_common s))) eqn:E; [discriminate|].
    assert (Hv : strict = true -> sentence_valid s = true).
    { intros ->. simpl in E. apply negb_false_iff in E. exact E. }
    destruct s as [a|g]; apply IH in H as [ss [Hp [Ht Hval]]].
    + exists (SAis a :: ss). simpl. rewrite Hs, Hp. simpl. split; [reflexivity|]. split.
      * rewrite Ht, <- app_assoc. reflexivity.
      * intros Hst. rewrite (Hv Hst), (Hval Hst). reflexivity.
    + exists (SGatehouse g :: ss). simpl. rewrite Hs, Hp. simpl. split; [reflexivity|]. split.
      * exact Ht.
      * intros Hst. rewrite (Hv Hst), (Hval Hst). reflexivity.
Qed.

(* the sentence decode() returns next to the message is flagged valid iff every AIS part is *)
Theorem decode_flag : forall strict parts s msg, decode_api strict parts = Ok (s, msg) ->
  exists ss, parse_all parts = Ok ss /\ c_is_valid (a_common s) = forallb ais_valid (ais_of ss).
Proof.
  intros strict parts s msg H. unfold decode_api in H.
  apply bind_ok in H as [nmea [Hn H]]. apply bind_ok in H as [m [_ H]]. inversion H; subst; clear H.
  unfold assemble_messages in Hn.
  apply bind_ok in Hn as [[[temp frags] c] [Hloop Hn]]. cbv beta iota in Hn.
  destruct (Nat.eqb _ _); [discriminate|]. destruct (_ >? c); [discriminate|]. destruct (nonempty _); [discriminate|].
  apply assemble_loop_collects in Hloop as [ss [Hp [Ht _]]]. simpl in Ht. subst temp.
  exists ss. split; [exact Hp|]. apply assembled_valid; exact Hn.
Qed.

(* ---- strict mode ---- *)
Lemma assemble_loop_strict : forall args ss temp frags frag_cnt, parse_all args = Ok ss ->
  (forallb sentence_valid ss = true ->
     assemble_loop true args temp frags frag_cnt = assemble_loop false args temp frags frag_cnt) /\
  (forallb sentence_valid ss = false ->
     assemble_loop true args temp frags frag_cnt = Raise (Lib InvalidNMEAChecksum)).
Proof.
  induction args as [|msg rest IH]; intros ss temp frags frag_cnt Hp; simpl in Hp.
  - inversion Hp; subst. simpl. split; [reflexivity | discriminate].
  - apply bind_ok in Hp as [s [Hs Hp]]. apply bind_ok in Hp as [ss' [Hss Hp]]. inversion Hp; subst ss; clear Hp.
    simpl. rewrite Hs. simpl. unfold sentence_valid at 1 3.
    destruct (c_is_valid (sentence_common s)) eqn:Ev; simpl.
    + destruct s as [a|g]; apply IH; exact Hss.
    + split; [discriminate | reflexivity].
Qed.

(* C10, strict clause: if all parts parse, strict decode() raises InvalidNMEAChecksum iff some part is invalid,
   and otherwise returns exactly what lenient decode() returns *)
Theorem strict_iff : forall parts ss, parse_all parts = Ok ss ->
  (decode_api true parts = Raise (Lib InvalidNMEAChecksum) <-> forallb sentence_valid ss = false) /\
  (forallb sentence_valid ss = true -> decode_api true parts = decode_api false parts).
Proof.
  intros parts ss Hp.
  assert (Heq : forallb sentence_valid ss = true -> decode_api true parts = decode_api false parts).
  { intros Hv. unfold decode_api, assemble_messages.
    rewrite (proj1 (assemble_loop_strict parts ss [] [] 1 Hp) Hv). reflexivity. }
  split; [split|exact Heq].
  - intros Hr. destruct (forallb sentence_valid ss) eqn:Ev; [|reflexivity].
    rewrite (Heq eq_refl) in Hr. pose proof (decode_api_raises false parts) as R. rewrite Hr in R.
    destruct R as [[R | [R | R]] | [R | [R | [R | [R | [R _]]]]]]; discriminate.
  - intros Hv. unfold decode_api, assemble_messages.
    rewrite (proj2 (assemble_loop_strict parts ss [] [] 1 Hp) Hv). reflexivity.
Qed.

(* ---- the corollary: single-byte corruption of the body ---- *)
Lemma star_free_subst : forall l1 b b' l2, star_free (l1 ++ b :: l2) = true -> b' <> 42 ->
  star_free (l1 ++ b' :: l2) = true.
Proof.
  unfold star_free. intros l1 b b' l2 H Hb. rewrite forallb_app in *. simpl in *.
  apply andb_true_iff in H as [H1 H2]. apply andb_true_iff in H2 as [_ H2].
  rewrite H1, H2. unfold STAR. apply Z.eqb_neq in Hb. rewrite Hb. reflexivity.
Qed.

(* a sentence with a correct checksum in which one body byte is replaced by a different byte other than '*'
   is either rejected by the parser or parsed and flagged invalid ... *)
Theorem substitution_detected : forall d l1 b b' l2 h1 h2,
  is_space d = false -> d <> 92 -> d <> 42 ->
  star_free (l1 ++ b :: l2) = true -> hexval h1 h2 = Some (xor_bytes (l1 ++ b :: l2)) ->
  b' <> b -> b' <> 42 ->
  match produce (sentence_text d (l1 ++ b' :: l2) h1 h2) with
  | Ok s => c_is_valid (sentence_common s) = false
  | Raise _ => True
  end.
Proof.
  intros d l1 b b' l2 h1 h2 Hsp Hbs Hd Hsf Hv Hne Hst.
  destruct (produce _) as [s|e] eqn:E; [|exact I].
  rewrite (valid_iff d (l1 ++ b' :: l2) h1 h2 _ s Hsp Hbs Hd (star_free_subst _ _ _ _ Hsf Hst) Hv E).
  apply Z.eqb_neq. apply xor_subst. congruence.
Qed.

(* ... and strict decode() never returns a message for it *)
Theorem substitution_rejected_strict : forall d l1 b b' l2 h1 h2,
  is_space d = false -> d <> 92 -> d <> 42 ->
  star_free (l1 ++ b :: l2) = true -> hexval h1 h2 = Some (xor_bytes (l1 ++ b :: l2)) ->
  b' <> b -> b' <> 42 ->
  is_ok (decode_api true [sentence_text d (l1 ++ b' :: l2) h1 h2]) = false.
Proof.
  intros d l1 b b' l2 h1 h2 Hsp Hbs Hd Hsf Hv Hne Hst.
  pose proof (substitution_detected d l1 b b' l2 h1 h2 Hsp Hbs Hd Hsf Hv Hne Hst) as H.
  unfold decode_api, assemble_messages. simpl assemble_loop.
  destruct (produce _) as [s|e]; [|reflexivity].
  simpl. rewrite H. reflexivity.
Qed.

(* ================================================================================================ *)
(* 7. surrounding whitespace (line terminators) is irrelevant: produce looks at strip(raw) only       *)

Lemma produce_depends_on_strip : forall a b, strip a = strip b -> produce a = produce b.
Proof. intros a b H. unfold produce, pre_process. rewrite H. reflexivity. Qed.

Lemma rstrip_idempotent : forall x, rstrip (rstrip x) = rstrip x.
Proof.
  induction x as [|c r IH]; [reflexivity|]. simpl.
  destruct (rstrip r) as [|y r'] eqn:E.
  - destruct (is_space c) eqn:Ec; [reflexivity|]. simpl. rewrite Ec. reflexivity.
  - simpl. simpl in IH. rewrite IH. reflexivity.
Qed.

Lemma lstrip_head : forall b, lstrip b = [] \/ exists c r, lstrip b = c :: r /\ is_space c = false.
Proof.
  induction b as [|c r IH]; simpl; [left; reflexivity|].
  destruct (is_space c) eqn:E; [exact IH|]. right. exists c, r. auto.
Qed.

Lemma lstrip_rstrip_nonspace_head : forall c r, is_space c = false -> lstrip (rstrip (c :: r)) = rstrip (c :: r).
Proof.
  intros c r H. simpl rstrip. destruct (rstrip r); [rewrite H|]; simpl; rewrite H; reflexivity.
Qed.

Lemma strip_idempotent : forall b, strip (strip b) = strip b.
Proof.
  intros b. unfold strip.
  destruct (lstrip_head b) as [E | [c [r [E Hc]]]]; rewrite E.
  - reflexivity.
  - rewrite (lstrip_rstrip_nonspace_head c r Hc). apply rstrip_idempotent.
Qed.

Theorem produce_strip : forall raw, produce (strip raw) = produce raw.
Proof. intros. apply produce_depends_on_strip, strip_idempotent. Qed.

Lemma rstrip_all_spaces : forall ws, forallb is_space ws = true -> rstrip ws = [].
Proof.
  induction ws as [|c r IH]; intros H; [reflexivity|]. simpl in *.
  apply andb_true_iff in H as [Hc Hr]. rewrite (IH Hr), Hc. reflexivity.
Qed.

Lemma rstrip_app_spaces : forall l ws, forallb is_space ws = true -> rstrip (l ++ ws) = rstrip l.
Proof.
  induction l as [|c r IH]; intros ws H; simpl.
  - apply rstrip_all_spaces; exact H.
  - rewrite (IH ws H). reflexivity.
Qed.

Lemma lstrip_all_spaces : forall ws, forallb is_space ws = true -> lstrip ws = [].
Proof.
  induction ws as [|c r IH]; intros H; [reflexivity|]. simpl in *.
  apply andb_true_iff in H as [Hc Hr]. rewrite Hc. exact (IH Hr).
Qed.

Lemma lstrip_spaces_app : forall ws l, forallb is_space ws = true -> lstrip (ws ++ l) = lstrip l.
Proof.
  induction ws as [|c r IH]; intros l H; [reflexivity|]. simpl in *.
  apply andb_true_iff in H as [Hc Hr]. rewrite Hc. exact (IH l Hr).
Qed.

Lemma lstrip_app_spaces : forall l ws, forallb is_space ws = true ->
  lstrip (l ++ ws) = match lstrip l with [] => [] | x => x ++ ws end.
Proof.
  induction l as [|c r IH]; intros ws H; simpl.
  - apply lstrip_all_spaces; exact H.
  - destruct (is_space c); [exact (IH ws H) | reflexivity].
Qed.

(* blanks, CR, LF, TAB ... before and after a line do not change what it parses to *)
Theorem produce_surrounding_whitespace : forall ws1 raw ws2,
  forallb is_space ws1 = true -> forallb is_space ws2 = true ->
  produce (ws1 ++ raw ++ ws2) = produce raw.
Proof.
  intros ws1 raw ws2 H1 H2. apply produce_depends_on_strip. unfold strip.
  rewrite (lstrip_spaces_app ws1 _ H1), (lstrip_app_spaces raw ws2 H2).
  destruct (lstrip raw) as [|x l] eqn:E; [reflexivity|].
  apply rstrip_app_spaces; exact H2.
Qed.
