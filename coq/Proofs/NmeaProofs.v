(* Proofs about the sentence parser (Model/Nmea.v) and the one-shot API (Model/DecodeApi.v):
     C05 (decode()/produce half): which exceptions each function can raise, composed bottom-up;
     C10: the checksum flag.
   All statements are unbounded (every byte string, every argument list). *)
From Coq Require Import ZArith List Bool Lia.
Require Import Prim.Exn Prim.Bits Prim.PyBytes Prim.PyInt Gen.GenConst Model.Sentence Model.AssembleIter Model.FieldTypes
               Gen.GenTables Model.Codec Model.Nmea Model.DecodeApi Spec.ChecksumSpec Proofs.ExnLemmas Proofs.CodecNoEscape.
Import ListNotations.
Open Scope Z_scope.

(* ================================================================================================ *)
(* 1. primitives: what each can raise                                                                *)

Definition only (x : exn) : exn -> Prop := fun e => e = x.

Lemma modelled_value_error : modelled (Py ValueError). Proof. discriminate. Qed.
Lemma modelled_index_error : modelled (Py IndexError). Proof. discriminate. Qed.
Lemma modelled_unicode_error : modelled (Py UnicodeDecodeError). Proof. discriminate. Qed.
Lemma modelled_overflow_error : modelled (Py OverflowError). Proof. discriminate. Qed.
Lemma modelled_lib : forall l, modelled (Lib l). Proof. discriminate. Qed.
Global Hint Resolve modelled_value_error modelled_index_error modelled_unicode_error modelled_overflow_error
  modelled_lib : nmea.

Lemma py_index_raises : forall A (l : list A) i, raises_only (py_index l i) (only (Py IndexError)).
Proof.
  intros. unfold py_index.
  destruct (_ || _); [reflexivity|]. destruct (nth_error _ _); [exact I | reflexivity].
Qed.

Lemma py_index_0 : forall A (x : A) l, py_index (x :: l) 0 = Ok x.
Proof.
  intros. unfold py_index. simpl (0 <? 0). cbv iota.
  replace (0 <? 0) with false by reflexivity. simpl orb.
  destruct (Z.of_nat (List.length (x :: l)) <=? 0) eqn:E.
  - apply Z.leb_le in E. simpl List.length in E. lia.
  - reflexivity.
Qed.

Lemma py_index_last : forall A (l : list A) d, l <> [] -> py_index l (-1) = Ok (last l d).
Proof.
  intros A l d Hne. unfold py_index.
  replace (-1 <? 0) with true by reflexivity.
  assert (Hlen : (1 <= List.length l)%nat) by (destruct l; [congruence | simpl; lia]).
  destruct ((-1 + Z.of_nat (List.length l) <? 0) || (Z.of_nat (List.length l) <=? -1 + Z.of_nat (List.length l))) eqn:E.
  - apply orb_true_iff in E as [E|E]; [apply Z.ltb_lt in E | apply Z.leb_le in E]; lia.
  - replace (Z.to_nat (-1 + Z.of_nat (List.length l))) with (List.length l - 1)%nat by lia.
    clear E. induction l as [|x l IH]; [congruence|].
    destruct l as [|y l'].
    + reflexivity.
    + simpl List.length. replace (S (S (List.length l')) - 1)%nat with (S (List.length l')) by lia.
      simpl nth_error. simpl last.
      assert (IH' := IH ltac:(discriminate) ltac:(simpl; lia)).
      simpl List.length in IH'. replace (S (List.length l') - 1)%nat with (List.length l') in IH' by lia.
      exact IH'.
Qed.

Lemma decode_ascii_raises : forall b, raises_only (decode_ascii b) (only (Py UnicodeDecodeError)).
Proof. intros. unfold decode_ascii. destruct (forallb _ _); [exact I | reflexivity]. Qed.

Lemma unpack2_raises : forall A (l : list A), raises_only (unpack2 l) (only (Py ValueError)).
Proof. intros A [|a [|b [|c l]]]; simpl; try reflexivity; exact I. Qed.
Lemma unpack5_raises : forall A (l : list A), raises_only (unpack5 l) (only (Py ValueError)).
Proof. intros A [|a [|b [|c [|d [|e [|f l]]]]]]; simpl; try reflexivity; exact I. Qed.
Lemma unpack7_raises : forall A (l : list A), raises_only (unpack7 l) (only (Py ValueError)).
Proof. intros A [|a [|b [|c [|d [|e [|f [|g [|h l]]]]]]]]; simpl; try reflexivity; exact I. Qed.

Lemma py_int_bytes_raises : forall base b, raises_only (py_int_bytes base b) (only (Py ValueError)).
Proof.
  intros. unfold py_int_bytes.
  repeat match goal with
         | |- raises_only (let '(_, _) := ?x in _) _ => destruct x
         | |- raises_only (match ?x with _ => _ end) _ => destruct x
         | |- raises_only (if ?x then _ else _) _ => destruct x
         end; try reflexivity; try exact I.
Qed.

Lemma py_datetime_check_raises : forall y mo d h mi s us,
  raises_only (py_datetime_check y mo d h mi s us) modelled.
Proof.
  intros. unfold py_datetime_check.
  repeat match goal with |- raises_only (if ?x then _ else _) _ => destruct x end; try exact I; discriminate.
Qed.

Lemma only_modelled : forall x, modelled x -> forall e, only x e -> modelled e.
Proof. intros x H e ->. exact H. Qed.

(* bsplit never returns the empty list *)
Lemma bsplit_nonempty : forall sep b, bsplit sep b <> [].
Proof.
  intros sep b. destruct b as [|c r]; simpl; [discriminate|].
  destruct (c =? sep); [discriminate|]. destruct (bsplit sep r); discriminate.
Qed.

Lemma bsplit_max_nonempty : forall sep b n, bsplit_max sep b n <> [].
Proof.
  intros sep b n. destruct n; destruct b as [|c r]; simpl; try discriminate.
  destruct (c =? sep); [discriminate|]. destruct (bsplit_max sep r (S n)); discriminate.
Qed.

Lemma py_index_0_nonempty : forall A (l : list A), l <> [] -> total (py_index l 0).
Proof. intros A [|x l] H; [congruence|]. rewrite py_index_0. eexists; reflexivity. Qed.

(* ================================================================================================ *)
(* 2. util.py: chk_to_int and compute_checksum never raise                                           *)

Lemma try_value_error_total : forall A (m : M A) hs (d : A),
  raises_only m (only (Py ValueError)) -> catches hs (Py ValueError) = true ->
  total (try_except m hs (fun _ => Ok d)).
Proof.
  intros A [a|e] hs d H Hc; simpl in *.
  - eexists; reflexivity.
  - rewrite H, Hc. eexists; reflexivity.
Qed.

Lemma chk_to_int_total : forall s, total (chk_to_int s).
Proof.
  intros s. unfold chk_to_int.
  destruct (Nat.eqb (List.length s) 0); [eexists; reflexivity|].
  destruct (try_value_error_total _ (mmap Some (unpack2 (bsplit ASTERISK s))) [HPy ValueError] None) as [ab Hab].
  { apply raises_only_mmap, unpack2_raises. }
  { reflexivity. }
  rewrite Hab. simpl. destruct ab as [[a b]|]; [|eexists; reflexivity].
  destruct (try_value_error_total _ (py_int_bytes 10 a) [HPy ValueError] 0
              (py_int_bytes_raises 10 a) eq_refl) as [f ->].
  destruct (try_value_error_total _ (py_int_bytes 16 b) [HPy IndexError; HPy ValueError] (-1)
              (py_int_bytes_raises 16 b) eq_refl) as [c ->].
  eexists; reflexivity.
Qed.

Lemma compute_checksum_total : forall msg, total (compute_checksum msg).
Proof.
  intros. unfold compute_checksum.
  destruct (py_index_0_nonempty _ (bsplit_max ASTERISK (py_slice msg (Some 1) None) 1)
              (bsplit_max_nonempty _ _ _)) as [body ->].
  eexists; reflexivity.
Qed.

(* ================================================================================================ *)
(* 3. the constructors                                                                               *)

Definition invalid_only : exn -> Prop := only (Lib InvalidNMEAMessageException).

Lemma nmea_init_raises : forall raw, raises_only (nmea_init raw) invalid_only.
Proof.
  intros raw. unfold nmea_init.
  destruct (py_index_0_nonempty _ (bsplit COMMA raw) (bsplit_nonempty _ _)) as [ff ->]. simpl bind at 1.
  apply raises_only_bind.
  - apply raises_only_try with (P0 := only (Py UnicodeDecodeError)).
    + apply raises_only_bind; [apply decode_ascii_raises|]. intros t _.
      apply raises_only_bind; [apply decode_ascii_raises|]. intros y _. exact I.
    + intros e -> _. reflexivity.
    + intros e -> H. discriminate H.
  - intros [t y] _.
    rewrite (py_index_last _ (bsplit COMMA raw) [] (bsplit_nonempty _ _)). simpl bind at 1.
    destruct (chk_to_int_total (last (bsplit COMMA raw) [])) as [[fill check] ->]. simpl bind at 1.
    destruct (compute_checksum_total raw) as [cc ->]. exact I.
Qed.

(* the attributes NMEASentence.__init__ sets, for later use *)
Lemma nmea_init_raw : forall raw c, nmea_init raw = Ok c -> c_raw c = raw /\ c_tag_block c = None.
Proof.
  intros raw c H. unfold nmea_init in H.
  apply bind_ok in H as [ff [_ H]].
  apply bind_ok in H as [[t y] [_ H]]. cbv beta iota in H.
  apply bind_ok in H as [ck [_ H]].
  apply bind_ok in H as [[fill check] [_ H]]. cbv beta iota in H.
  apply bind_ok in H as [cc [_ H]].
  inversion H; subst; simpl; auto.
Qed.

(* decode_into_bit_array with a fill-bit count in 0..5 can only complain about a non-printable character *)
Lemma decode_into_bit_array_raises : forall data fill, 0 <= fill <= 5 ->
  raises_only (decode_into_bit_array data fill) (only (Lib NonPrintableCharacterException)).
Proof.
  intros data fill Hf. induction data as [|c rest IH]; cbn [decode_into_bit_array]; [exact I|].
  destruct (negb _); [reflexivity|].
  destruct rest as [|c' rest'].
  - destruct (fill =? 0); [exact I|].
    destruct (fill <? 0) eqn:E1; [apply Z.ltb_lt in E1; lia|].
    destruct (6 - fill <? SSIZE_MIN) eqn:E2; [|exact I].
    apply Z.ltb_lt in E2. unfold SSIZE_MIN in E2. assert (0 < 2 ^ 63) by (apply Z.pow_pos_nonneg; lia). lia.
  - apply raises_only_bind; [exact IH|]. intros; exact I.
Qed.

Definition ais_exn (e : exn) : Prop :=
  e = Lib InvalidNMEAMessageException \/ e = Lib NonPrintableCharacterException.

Lemma invalid_nmea_ais : forall A, raises_only (@invalid_nmea A) ais_exn.
Proof. intros; left; reflexivity. Qed.

Lemma ais_try_block_modelled : forall (fields : list bytes),
  raises_only
    (bind (unpack5 (py_slice fields None (Some 5)))
       (fun x => let '(message_fragments, fragment_number, message_id, channel, payload) := x in
          bind (py_int_bytes 10 message_fragments) (fun frag_cnt =>
          bind (py_int_bytes 10 fragment_number) (fun frag_num =>
          bind (if nonempty message_id then mmap Some (py_int_bytes 10 message_id) else Ok None) (fun seq_id =>
          bind (decode_ascii channel) (fun channel =>
          Ok (frag_cnt, frag_num, seq_id, channel, payload)))))))
    modelled.
Proof.
  intros. apply raises_only_bind.
  - eapply raises_only_weaken; [apply unpack5_raises | apply only_modelled; auto with nmea].
  - intros [[[[mf fn] mid] ch] pl] _.
    apply raises_only_bind; [eapply raises_only_weaken; [apply py_int_bytes_raises | apply only_modelled; auto with nmea]|].
    intros fc _.
    apply raises_only_bind; [eapply raises_only_weaken; [apply py_int_bytes_raises | apply only_modelled; auto with nmea]|].
    intros fnum _.
    apply raises_only_bind.
    { destruct (nonempty mid); [|exact I].
      apply raises_only_mmap. eapply raises_only_weaken; [apply py_int_bytes_raises | apply only_modelled; auto with nmea]. }
    intros sid _.
    apply raises_only_bind; [eapply raises_only_weaken; [apply decode_ascii_raises | apply only_modelled; auto with nmea]|].
    intros; exact I.
Qed.

Lemma ais_init_raises : forall raw, raises_only (ais_init raw) ais_exn.
Proof.
  intros raw. unfold ais_init.
  apply raises_only_bind.
  { eapply raises_only_weaken; [apply nmea_init_raises|]. intros e ->; left; reflexivity. }
  intros c _. apply raises_only_bind.
  { apply raises_only_try_exception; [apply ais_try_block_modelled | left; reflexivity]. }
  intros [[[[frag_cnt frag_num] seq_id] channel] payload] _.
  destruct (_ >? MAX_PAYLOAD_LEN); [apply invalid_nmea_ais|].
  destruct (_ || _); [apply invalid_nmea_ais|].
  destruct (_ || _); [apply invalid_nmea_ais|].
  destruct ((0 <=? c_fill_bits c) && (c_fill_bits c <=? 5)) eqn:E; simpl negb; cbv iota; [|apply invalid_nmea_ais].
  apply andb_true_iff in E as [E1 E2]. apply Z.leb_le in E1. apply Z.leb_le in E2.
  apply raises_only_bind.
  - eapply raises_only_weaken; [apply decode_into_bit_array_raises; lia|]. intros e ->; right; reflexivity.
  - intros; exact I.
Qed.

Lemma gatehouse_init_raises : forall raw, raises_only (gatehouse_init raw) invalid_only.
Proof.
  intros raw. unfold gatehouse_init.
  apply raises_only_bind; [apply nmea_init_raises|].
  intros c _. apply raises_only_try_exception; [|reflexivity].
  pose proof (fun b => raises_only_weaken _ _ _ _ (py_int_bytes_raises 10 b) (only_modelled _ modelled_value_error)) as Hint.
  pose proof (fun b => raises_only_weaken _ _ _ _ (decode_ascii_raises b) (only_modelled _ modelled_unicode_error)) as Hasc.
  pose proof (fun (l : list bytes) i => raises_only_weaken _ _ _ _ (py_index_raises _ l i) (only_modelled _ modelled_index_error)) as Hidx.
  apply raises_only_bind.
  { eapply raises_only_weaken; [apply unpack7_raises | apply only_modelled; auto with nmea]. }
  intros [[[[[[year month] day] hour] minute] second] ms] _.
  repeat (apply raises_only_bind; [first [apply Hint | apply Hasc | apply Hidx | apply py_datetime_check_raises] | intros ? _]).
  exact I.
Qed.

(* what a successfully constructed AISSentence satisfies *)
Lemma ais_init_ok : forall raw a, ais_init raw = Ok a ->
  nmea_init raw = Ok (a_common a) /\
  1 <= a_frag_cnt a <= MAX_FRAG_CNT /\ 1 <= a_frag_num a <= MAX_FRAG_CNT /\
  0 <= c_fill_bits (a_common a) <= 5 /\
  Z.of_nat (List.length (a_payload a)) <= MAX_PAYLOAD_LEN /\
  decode_into_bit_array (a_payload a) (c_fill_bits (a_common a)) = Ok (a_bits a) /\
  a_ais_id a = get_int (a_bits a) 0 6 false /\ a_wrapper a = None.
Proof.
  intros raw a H. unfold ais_init in H.
  apply bind_ok in H as [c [Hc H]].
  apply bind_ok in H as [[[[[frag_cnt frag_num] seq_id] channel] payload] [_ H]]. cbv beta iota in H.
  destruct (Z.of_nat (List.length payload) >? MAX_PAYLOAD_LEN) eqn:E0; [discriminate|].
  destruct ((frag_cnt >? MAX_FRAG_CNT) || (frag_num >? MAX_FRAG_CNT)) eqn:E1; [discriminate|].
  destruct ((frag_cnt <? 1) || (frag_num <? 1)) eqn:E2; [discriminate|].
  destruct ((0 <=? c_fill_bits c) && (c_fill_bits c <=? 5)) eqn:E3; [|discriminate]. simpl negb in H. cbv iota in H.
  apply bind_ok in H as [bit_array [Hb H]]. inversion H; subst; clear H. simpl.
  apply orb_false_iff in E1 as [E1a E1b]. apply orb_false_iff in E2 as [E2a E2b].
  apply andb_true_iff in E3 as [E3a E3b].
  rewrite Z.gtb_ltb in E0, E1a, E1b.
  apply Z.ltb_ge in E0, E1a, E1b, E2a, E2b. apply Z.leb_le in E3a, E3b.
  repeat split; auto; lia.
Qed.

Lemma gatehouse_init_ok : forall raw g, gatehouse_init raw = Ok g -> nmea_init raw = Ok (g_common g).
Proof.
  intros raw g H. unfold gatehouse_init in H.
  apply bind_ok in H as [c [Hc H]].
  unfold try_except in H.
  match type of H with match ?m with _ => _ end = _ => destruct m as [g'|e] eqn:E end.
  - inversion H; subst; clear H.
    apply bind_ok in E as [[[[[[[year month] day] hour] minute] second] ms] [_ E]]. cbv beta iota in E.
    repeat (apply bind_ok in E as [? [_ E]]).
    inversion E; subst; simpl. exact Hc.
  - destruct (catches _ _); discriminate.
Qed.

(* ================================================================================================ *)
(* 4. the factory                                                                                    *)

(* exactly the classes both reader loops catch around produce() *)
Definition reader_set (e : exn) : Prop :=
  e = Lib InvalidNMEAMessageException \/ e = Lib NonPrintableCharacterException \/ e = Lib UnknownMessageException.

Lemma pre_process_total : forall raw, strip raw <> [] -> total (pre_process raw).
Proof.
  intros raw H. unfold pre_process. destruct (strip raw) as [|x l] eqn:E; [congruence|].
  rewrite py_index_0. simpl bind. destruct (x =? TAG_BLOCK_START); eexists; reflexivity.
Qed.

Lemma produce_inner_raises : forall raw, raises_only (produce_inner raw) reader_set.
Proof.
  intros raw. unfold produce_inner.
  destruct (py_index_0_nonempty _ (bsplit COMMA raw) (bsplit_nonempty _ _)) as [ff ->]. simpl bind.
  destruct (_ || _).
  - apply raises_only_mmap. eapply raises_only_weaken; [apply ais_init_raises|].
    intros e [-> | ->]; [left | right; left]; reflexivity.
  - destruct (_ && _).
    + apply raises_only_mmap. eapply raises_only_weaken; [apply gatehouse_init_raises|].
      intros e ->; left; reflexivity.
    + right; right; reflexivity.
Qed.

Theorem produce_raises : forall raw, raises_only (produce raw) reader_set.
Proof.
  intros raw. unfold produce.
  destruct (Nat.eqb (List.length (strip raw)) 0) eqn:E; [left; reflexivity|].
  assert (Hne : strip raw <> []) by (intro H0; rewrite H0 in E; discriminate).
  destruct (pre_process_total raw Hne) as [[rs tb] ->]. simpl bind at 1.
  apply raises_only_bind; [apply produce_inner_raises|].
  intros s _. destruct tb as [t|]; [destruct (nonempty t)|]; exact I.
Qed.

Corollary produce_raises_only_reader_set : forall raw e, produce raw = Raise e ->
  e = Lib InvalidNMEAMessageException \/ e = Lib NonPrintableCharacterException \/ e = Lib UnknownMessageException.
Proof. intros raw e H. pose proof (produce_raises raw) as R. rewrite H in R. exact R. Qed.

Corollary produce_no_escape : forall raw, no_escape (produce raw).
Proof.
  intros. apply no_escape_iff. eapply raises_only_weaken; [apply produce_raises|].
  intros e [-> | [-> | ->]]; exact I.
Qed.

(* inversion of a successful produce *)
Lemma produce_ok : forall raw s, produce raw = Ok s ->
  exists rs s0, produce_inner rs = Ok s0 /\
    (s = s0 \/ exists t, s = sentence_set_tag_block s0 (Some t)).
Proof.
  intros raw s H. unfold produce in H.
  destruct (Nat.eqb _ _); [discriminate|].
  apply bind_ok in H as [[rs tb] [_ H]]. cbv beta iota in H.
  apply bind_ok in H as [s0 [Hs0 H]].
  exists rs, s0. split; [exact Hs0|].
  destruct tb as [t|]; [destruct (nonempty t)|]; inversion H; subst; eauto.
Qed.

Lemma produce_inner_ok : forall raw s, produce_inner raw = Ok s ->
  (exists a, s = SAis a /\ ais_init raw = Ok a) \/ (exists g, s = SGatehouse g /\ gatehouse_init raw = Ok g).
Proof.
  intros raw s H. unfold produce_inner in H.
  apply bind_ok in H as [ff [_ H]].
  destruct (_ || _).
  - apply mmap_ok in H as [a [Ha ->]]. left; eauto.
  - destruct (_ && _); [|discriminate]. apply mmap_ok in H as [g [Hg ->]]. right; eauto.
Qed.

Theorem produce_ais_ranges : forall raw a, produce raw = Ok (SAis a) ->
  1 <= a_frag_cnt a <= MAX_FRAG_CNT /\ 1 <= a_frag_num a <= MAX_FRAG_CNT.
Proof.
  intros raw a H. apply produce_ok in H as [rs [s0 [Hs0 Hs]]].
  apply produce_inner_ok in Hs0 as [[a0 [-> Ha0]] | [g [-> _]]].
  - apply ais_init_ok in Ha0 as [_ [R1 [R2 _]]].
    destruct Hs as [Hs | [t Hs]]; inversion Hs; subst; simpl; auto.
  - destruct Hs as [Hs | [t Hs]]; inversion Hs.
Qed.

(* the fill-bit count and payload length a parsed AIS sentence can have *)
Theorem produce_ais_fill_payload : forall raw a, produce raw = Ok (SAis a) ->
  0 <= c_fill_bits (a_common a) <= 5 /\ Z.of_nat (List.length (a_payload a)) <= MAX_PAYLOAD_LEN.
Proof.
  intros raw a H. apply produce_ok in H as [rs [s0 [Hs0 Hs]]].
  apply produce_inner_ok in Hs0 as [[a0 [-> Ha0]] | [g [-> _]]].
  - apply ais_init_ok in Ha0 as [_ [_ [_ [R3 [R4 _]]]]].
    destruct Hs as [Hs | [t Hs]]; inversion Hs; subst; simpl; auto.
  - destruct Hs as [Hs | [t Hs]]; inversion Hs.
Qed.

(* ================================================================================================ *)
(* 5. decode._assemble_messages / decode                                                             *)

(* the documented exceptions of decode(); InvalidNMEAChecksum only in strict mode *)
Definition decode_exn (strict : bool) (e : exn) : Prop :=
  reader_set e \/ e = Lib MissingMultipartMessageException \/ e = Lib TooManyMessagesException \/
  e = Lib MissingPayloadException \/ e = Lib UnknownPartNoException \/
  (strict = true /\ e = Lib InvalidNMEAChecksum).

Lemma assemble_loop_raises : forall strict args temp frags frag_cnt,
  raises_only (assemble_loop strict args temp frags frag_cnt) (decode_exn strict).
Proof.
  intros strict args. induction args as [|msg rest IH]; intros temp frags frag_cnt; simpl; [exact I|].
  apply raises_only_bind.
  - eapply raises_only_weaken; [apply produce_raises|]. intros e H; left; exact H.
  - intros s _. destruct strict; simpl andb.
    + destruct (negb _); [right; right; right; right; right; split; reflexivity|].
      destruct s; apply IH.
    + destruct s; apply IH.
Qed.

(* temp and frags grow together *)
Lemma assemble_loop_lengths : forall strict args temp frags frag_cnt temp' frags' c',
  List.length temp = List.length frags ->
  assemble_loop strict args temp frags frag_cnt = Ok (temp', frags', c') ->
  List.length temp' = List.length frags'.
Proof.
  intros strict args. induction args as [|msg rest IH]; intros temp frags frag_cnt temp' frags' c' Hl H; simpl in H.
  - inversion H; subst; exact Hl.
  - apply bind_ok in H as [s [_ H]].
    destruct (strict && negb _); [discriminate|].
    destruct s as [a|g].
    + eapply IH; [|exact H]. rewrite !app_length. simpl. lia.
    + eapply IH; [|exact H]. exact Hl.
Qed.

Lemma assemble_from_iterable_total : forall l, l <> [] -> total (assemble_from_iterable l).
Proof. intros [|x l] H; [congruence|]. eexists; reflexivity. Qed.

Lemma assemble_messages_raises : forall strict args, raises_only (assemble_messages strict args) (decode_exn strict).
Proof.
  intros strict args. unfold assemble_messages.
  apply raises_only_bind; [apply assemble_loop_raises|].
  intros [[temp frags] frag_cnt] Hloop. cbv beta iota.
  destruct (Nat.eqb (List.length frags) 0) eqn:E0; [right; left; reflexivity|].
  destruct (_ >? frag_cnt); [right; right; left; reflexivity|].
  destruct (nonempty _); [right; left; reflexivity|].
  apply total_raises_only, assemble_from_iterable_total.
  apply assemble_loop_lengths in Hloop; [|reflexivity].
  intro Ht. rewrite Ht in Hloop. simpl in Hloop. rewrite <- Hloop in E0. discriminate.
Qed.

Lemma sentence_decode_raises : forall strict s, raises_only (sentence_decode s) (decode_exn strict).
Proof.
  intros strict s. unfold sentence_decode.
  destruct (negb _); [right; right; right; left; reflexivity|].
  eapply raises_only_weaken; [apply decode_bits_as_raises|].
  intros e [-> | ->]; [left; right; right; reflexivity | right; right; right; right; left; reflexivity].
Qed.

Theorem decode_api_raises : forall strict args, raises_only (decode_api strict args) (decode_exn strict).
Proof.
  intros. unfold decode_api.
  apply raises_only_bind; [apply assemble_messages_raises|]. intros nmea _.
  apply raises_only_bind; [apply sentence_decode_raises|]. intros; exact I.
Qed.

Corollary decode_api_no_escape : forall strict args, no_escape (decode_api strict args).
Proof.
  intros. apply no_escape_iff. eapply raises_only_weaken; [apply decode_api_raises|].
  intros e [[-> | [-> | ->]] | [-> | [-> | [-> | [-> | [_ ->]]]]]]; exact I.
Qed.

(* every exception of decode() is an AISBaseException (TagBlockNotInitializedException, the one library class outside
   the hierarchy, cannot come out) *)
Corollary decode_api_ais_base : forall strict args e, decode_api strict args = Raise e -> is_ais_base e = true.
Proof.
  intros strict args e H. pose proof (decode_api_raises strict args) as R. rewrite H in R.
  destruct R as [[-> | [-> | ->]] | [-> | [-> | [-> | [-> | [_ ->]]]]]]; reflexivity.
Qed.
