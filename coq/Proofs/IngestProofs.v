(* C07, the composition: decode() of a message's parts agrees with decoding the sentence the readers deliver.

   Layers composed here (nothing new is modelled):
     Model/Nmea.v       produce                 one LINE -> parsed sentence             (Proofs/NmeaProofs.v)
     Model/DecodeApi.v  decode_api              decode( *parts )                         (Proofs/CarrierProofs.v)
     Model/Reader.v     rd_run                  lines -> produce -> tag block queue -> one loop iteration per line
     Model/Assemble.v   stream_step/queue_step  the two reassembly loops                (Proofs/AssembleProofs.v: C03)
     Proofs/ReaderIsolation.v                   what a reader delivers from one slot depends on that slot's lines only

   Everything is stated over LINES (byte strings): the parts of the message are lines that parse (produce) to AIS
   sentences forming one complete message; the reader is fed an arbitrary line sequence in which the lines that store
   into the message's (sequence id, channel) slot are exactly the parts, in any order, interleaved with any other lines
   (fragments and whole messages of other slots, single-sentence messages, Gatehouse wrappers, foreign sentences,
   malformed lines, lines rejected by the tag block queue). *)
From Coq Require Import ZArith List Bool Lia Permutation.
Require Import Prim.Exn Prim.Bits Prim.PyBytes Prim.PyList Gen.GenConst Model.Sentence Model.AssembleIter
               Model.FieldTypes Gen.GenTables Model.Codec Model.Nmea Model.TagBlock Model.Tbq Model.Assemble Model.Reader
               Model.DecodeApi Spec.AssembleSpec.
Require Import Proofs.ExnLemmas Proofs.NmeaProofs Proofs.TbqProofs Proofs.AssembleProofs Proofs.ReaderProofs
               Proofs.ReaderIsolation Proofs.CarrierProofs.
Import ListNotations.
Open Scope Z_scope.

(* ================================================================ what is a complete message, over lines *)

(* line l parses to the AIS sentence a (tag block, if any, already split off and recorded in a by produce) *)
Definition line_ais (l : bytes) (a : ais_sentence) : Prop := produce l = Ok (SAis a).

(* fs (in any order) are the fragments of ONE complete message: common sequence id and channel, fragment count = the
   number of fragments, fragment numbers a permutation of 1..n *)
Record complete_message (sq : option Z) (ch : list Z) (fs : list ais_sentence) : Prop := mkCM {
  cm_seq : Forall (fun f => a_seq_id f = sq) fs;
  cm_chan : Forall (fun f => a_channel f = ch) fs;
  cm_cnt : Forall (fun f => a_frag_cnt f = Z.of_nat (length fs)) fs;
  cm_nums : Permutation (map a_frag_num fs) (map Z.of_nat (seq 1 (length fs)));
  cm_nonempty : fs <> []
}.

(* what the property observes of a delivered / assembled sentence, plus the message id decode() dispatches on *)
Definition view (a : ais_sentence) : bytes * bytes * bits * bool * Z :=
  (c_raw (a_common a), a_payload a, a_bits a, c_is_valid (a_common a), a_ais_id a).

(* what it has to be for the message made of fs: raw text joined by LF, payload and bits concatenated, validity
   conjoined -- all in fragment-number order --, message id = the first six bits of the assembled bits *)
Definition msg_view (fs : list ais_sentence) : bytes * bytes * bits * bool * Z :=
  let so := sort_by_frag fs in
  (join_raw so, flat_map a_payload so, flat_map a_bits so, forallb (fun m => c_is_valid (a_common m)) so,
   get_int (flat_map a_bits so) 0 6 false).

(* AISSentence.decode() looks at the payload, the bits and the message id only *)
Lemma sentence_decode_view : forall a b, view a = view b -> sentence_decode a = sentence_decode b.
Proof.
  intros a b H. unfold view in H. injection H as _ Hp Hb _ Hi. unfold sentence_decode. now rewrite Hp, Hb, Hi.
Qed.

(* what AISSentence.decode() returns, as a function of payload and bits alone (message id = their first six bits) *)
Definition decode_content (payload : bytes) (b : bits) : M (cls * list value) :=
  if negb (nonempty payload) then Raise (Lib MissingPayloadException) else decode_bits_as (get_int b 0 6 false) b.

Lemma msg_view_perm : forall fs fs', Permutation fs fs' -> NoDup (map a_frag_num fs) -> msg_view fs = msg_view fs'.
Proof. intros fs fs' P N. unfold msg_view. now rewrite (sort_perm fs fs' P N). Qed.

Lemma cm_nodup : forall sq ch fs, complete_message sq ch fs -> NoDup (map a_frag_num fs).
Proof.
  intros sq ch fs C. apply (Permutation_NoDup (Permutation_sym (cm_nums _ _ _ C))). apply of_nat_seq_nodup.
Qed.

Lemma cm_perm : forall sq ch fs fs', complete_message sq ch fs -> Permutation fs fs' -> complete_message sq ch fs'.
Proof.
  intros sq ch fs fs' [C1 C2 C3 C4 C5] P. pose proof (Permutation_length P) as L.
  constructor.
  - exact (Permutation_Forall P C1).
  - exact (Permutation_Forall P C2).
  - rewrite <- L. exact (Permutation_Forall P C3).
  - rewrite <- L. apply perm_trans with (map a_frag_num fs); [apply Permutation_map, Permutation_sym, P|exact C4].
  - intro E. subst fs'. apply Permutation_sym, Permutation_nil in P. contradiction.
Qed.

Lemma cm_range : forall sq ch fs f, complete_message sq ch fs -> In f fs -> 1 <= a_frag_num f <= Z.of_nat (length fs).
Proof.
  intros sq ch fs f C H. pose proof (Permutation_in _ (cm_nums _ _ _ C) (in_map a_frag_num _ _ H)) as K.
  apply in_map_iff in K. destruct K as [k [E Hk]]. apply in_seq in Hk. lia.
Qed.

(* ================================================================ the lines as parsed sentences *)

Lemma line_ais_parsed : forall parts fs, Forall2 line_ais parts fs -> Forall parses parts /\ map parsed parts = fs.
Proof.
  intros parts fs H. induction H as [|p f parts fs Hp _ [IH1 IH2]]; [split; [constructor|reflexivity]|].
  split; [constructor; [exists f; exact Hp|exact IH1]|]. cbn [map]. rewrite (parsed_eq p f Hp), IH2. reflexivity.
Qed.

Lemma parses_line_ais : forall parts, Forall parses parts -> Forall2 line_ais parts (map parsed parts).
Proof.
  intros parts H. induction H as [|p parts Hp _ IH]; [constructor|]. cbn [map]. constructor; [|exact IH].
  exact (parses_parsed p Hp).
Qed.

(* any rearrangement of the part lines parses to the same rearrangement of the fragments *)
Lemma line_ais_perm : forall parts fs parts', Forall2 line_ais parts fs -> Permutation parts parts' ->
  exists fs', Forall2 line_ais parts' fs' /\ Permutation fs fs'.
Proof.
  intros parts fs parts' H P. destruct (line_ais_parsed parts fs H) as [Hp Hm].
  exists (map parsed parts'). split.
  - apply parses_line_ais. exact (forall_perm _ _ _ _ (Permutation_sym P) Hp).
  - rewrite <- Hm. apply Permutation_map. exact P.
Qed.

(* the message id of a parsed sentence is the first six bits of its own bits (AISSentence.__init__) *)
Lemma produce_ais_id : forall raw a, produce raw = Ok (SAis a) -> a_ais_id a = get_int (a_bits a) 0 6 false /\ a_wrapper a = None.
Proof.
  intros raw a H. apply produce_ok in H as [rs [s0 [Hs0 Hs]]].
  apply produce_inner_ok in Hs0 as [[a0 [-> Ha0]] | [g [-> _]]].
  - apply ais_init_ok in Ha0 as [_ [_ [_ [_ [_ [_ [R1 R2]]]]]]].
    destruct Hs as [Hs | [t Hs]]; inversion Hs; subst; simpl; auto.
  - destruct Hs as [Hs | [t Hs]]; inversion Hs.
Qed.

(* ================================================================ decode( *parts ) on a complete message, any order *)

Theorem decode_api_complete : forall parts fs sq ch, Forall2 line_ais parts fs -> complete_message sq ch fs ->
  exists nmea, assemble_messages false parts = Ok nmea /\ view nmea = msg_view fs /\
               a_seq_id nmea = sq /\ a_channel nmea = ch /\
               message_of (decode_api false parts) = sentence_decode nmea.
Proof.
  intros parts fs sq ch H C. destruct (line_ais_parsed parts fs H) as [Hp Hm].
  assert (Hlen : length parts = length fs) by (rewrite <- Hm; now rewrite map_length). set (N := length fs) in *.
  assert (HN : (N <> 0)%nat) by (unfold N; destruct fs; [exfalso; apply (cm_nonempty _ _ _ C); reflexivity|discriminate]).
  assert (Hne : parts <> []) by (intro E; subst parts; cbn in Hlen; lia).
  assert (Hcnt : Forall (fun s => a_frag_cnt (parsed s) = Z.of_nat N) parts).
  { apply Forall_forall. intros s Hs. pose proof (cm_cnt _ _ _ C) as Hc. rewrite Forall_forall in Hc. apply Hc.
    rewrite <- Hm. now apply in_map. }
  unfold decode_api, assemble_messages.
  rewrite (assemble_loop_ais parts (Z.of_nat N) [] [] 1 Hp Hcnt). rewrite nonempty_true by exact Hne. cbn [bind app].
  rewrite Hm. rewrite map_length. fold N.
  destruct (Nat.eqb_spec N 0) as [E|_]; [contradiction|].
  destruct (Z.gtb_spec (Z.of_nat N) (Z.of_nat N)) as [E|_]; [lia|].
  rewrite (no_missing_fragment (map a_frag_num fs) N (cm_nums _ _ _ C)). cbn [nonempty].
  assert (Hfne : fs <> []) by exact (cm_nonempty _ _ _ C).
  destruct fs as [|first rest]; [contradiction|].
  unfold assemble_from_iterable. eexists. split; [reflexivity|].
  split; [reflexivity|].
  split; [exact (Forall_inv (cm_seq _ _ _ C))|]. split; [exact (Forall_inv (cm_chan _ _ _ C))|].
  cbn [bind]. unfold message_of. destruct (sentence_decode _); reflexivity.
Qed.

(* decode( *parts ) of the lines of a complete message, in any order, is the decoding of its payload and bits
   concatenated in fragment-number order *)
Theorem decode_api_content : forall parts fs sq ch, Forall2 line_ais parts fs -> complete_message sq ch fs ->
  mmap snd (decode_api false parts) =
  decode_content (flat_map a_payload (sort_by_frag fs)) (flat_map a_bits (sort_by_frag fs)).
Proof.
  intros parts fs sq ch H C. destruct (decode_api_complete parts fs sq ch H C) as [nmea [_ [Hv [_ [_ Hd]]]]].
  unfold message_of in Hd. rewrite Hd. unfold msg_view, view in Hv. injection Hv as _ Hp Hb _ Hi.
  unfold sentence_decode, decode_content. now rewrite Hp, Hb, Hi.
Qed.

(* ================================================================ list helpers *)

(* the deliveries made at the selected lines *)
Fixpoint pick {A} (mask : list bool) (outs : list (list A)) : list A :=
  match mask, outs with
  | b :: m, o :: r => (if b then o else []) ++ pick m r
  | _, _ => []
  end.

Lemma pick_in : forall A (mask : list bool) (outs : list (list A)) x, In x (pick mask outs) -> exists o, In o outs /\ In x o.
Proof.
  intros A mask. induction mask as [|b m IH]; intros [|o r] x H; try destruct H.
  cbn [pick] in H. apply in_app_or in H. destruct H as [H|H].
  - destruct b; [|destruct H]. exists o. split; [left; reflexivity|exact H].
  - destruct (IH r x H) as [o' [H1 H2]]. exists o'. split; [right; exact H1|exact H2].
Qed.

Lemma slot_outs_pick : forall s ins outs, slot_outs s ins outs = map delivery_of (pick (map (touches s) ins) outs).
Proof.
  intros s ins. induction ins as [|i ir IH]; intros [|o or]; try reflexivity.
  cbn [slot_outs map pick]. rewrite map_app, IH. destruct (touches s i); reflexivity.
Qed.

Lemma slot_outs_all : forall s ins outs, Forall (fun i => touches s i = true) ins -> length outs = length ins ->
  slot_outs s ins outs = concat (map (map delivery_of) outs).
Proof.
  intros s ins. induction ins as [|i ir IH]; intros [|o or] H L; try discriminate L; try reflexivity.
  inversion H as [|x y Hi Hr]; subst. cbn [slot_outs map concat]. rewrite Hi. f_equal. apply IH; [exact Hr|].
  cbn [length] in L. lia.
Qed.

Lemma map_singleton : forall A B (f : A -> B) l y, map f l = [y] -> exists x, l = [x] /\ f x = y.
Proof. intros A B f [|x [|x2 r]] y H; try discriminate. inversion H. exists x. split; reflexivity. Qed.

Lemma Forall2_in_l : forall A B (R : A -> B -> Prop) l1 l2 x, Forall2 R l1 l2 -> In x l1 -> exists y, In y l2 /\ R x y.
Proof.
  intros A B R l1 l2 x H. induction H as [|a b l1 l2 Hab _ IH]; intro Hx; [destruct Hx|].
  destruct Hx as [->|Hx]; [exists b; split; [left; reflexivity|exact Hab]|].
  destruct (IH Hx) as [y [H1 H2]]. exists y. split; [right; exact H1|exact H2].
Qed.

Lemma NoDup_map_filter : forall A B (g : A -> B) (p : A -> bool) l, NoDup (map g l) -> NoDup (map g (filter p l)).
Proof.
  intros A B g p l. induction l as [|a l IH]; intro N; [constructor|].
  cbn [map] in N. inversion N as [|x y N1 N2]; subst. cbn [filter]. destruct (p a); [|apply IH; exact N2].
  cbn [map]. constructor; [|apply IH; exact N2]. intro H. apply N1. apply in_map_iff in H. destruct H as [z [E Hz]].
  apply filter_In in Hz. rewrite <- E. apply in_map. apply Hz.
Qed.

(* ================================================================ the fragments of one message as a C03 schedule *)

Definition frag0 (f : ais_sentence) : sfrag := mkSF 0 f.
Definition msg_schedule (fs : list ais_sentence) : asm_schedule := map (fun f => IFrag (frag0 f)) fs.

Lemma msg_schedule_frags : forall fs, asm_frags (msg_schedule fs) = map frag0 fs.
Proof. induction fs as [|f fs IH]; [reflexivity|]. unfold msg_schedule in *. cbn [map asm_frags]. now rewrite IH. Qed.

Lemma frags_of_all : forall F, (forall f, In f F -> sf_msg f = 0%nat) -> frags_of 0 F = F.
Proof.
  induction F as [|a F IH]; intro H; [reflexivity|]. unfold frags_of in *. cbn [filter].
  rewrite (H a (or_introl eq_refl)). cbn [Nat.eqb]. f_equal. apply IH. intros f Hf. apply H. right. exact Hf.
Qed.

Lemma in_frag0 : forall fs x, In x (map frag0 fs) -> exists f, x = frag0 f /\ In f fs.
Proof. intros fs x H. apply in_map_iff in H. destruct H as [f [E Hf]]. exists f. split; [now symmetry|exact Hf]. Qed.

Lemma msg_schedule_WF : forall sq ch fs, complete_message sq ch fs -> WF (msg_schedule fs).
Proof.
  intros sq ch fs C. split.
  - rewrite msg_schedule_frags. constructor.
    + intros x Hx. destruct (in_frag0 _ _ Hx) as [f [-> Hf]]. unfold f_num, f_cnt. cbn [frag0 sf_sent].
      pose proof (cm_range _ _ _ _ C Hf) as R. pose proof (cm_cnt _ _ _ C) as Hc. rewrite Forall_forall in Hc.
      rewrite (Hc f Hf). exact R.
    + intros x y Hx Hy _. destruct (in_frag0 _ _ Hx) as [f [-> Hf]]. destruct (in_frag0 _ _ Hy) as [g [-> Hg]].
      unfold f_seq, f_chan, f_cnt. cbn [frag0 sf_sent].
      pose proof (cm_seq _ _ _ C) as H1. pose proof (cm_chan _ _ _ C) as H2. pose proof (cm_cnt _ _ _ C) as H3.
      rewrite Forall_forall in H1, H2, H3.
      rewrite (H1 f Hf), (H1 g Hg), (H2 f Hf), (H2 g Hg), (H3 f Hf), (H3 g Hg). repeat split.
    + intro m. unfold frags_of. apply NoDup_map_filter. unfold f_num. rewrite map_map. cbn [frag0 sf_sent].
      exact (cm_nodup _ _ _ C).
    + intros p f r E _ g Hg _ _ Hm. exfalso. apply Hm.
      assert (Hf : In f (map frag0 fs)) by (rewrite E; apply in_or_app; right; left; reflexivity).
      assert (Hg' : In g (map frag0 fs)) by (rewrite E; apply in_or_app; left; exact Hg).
      destruct (in_frag0 _ _ Hf) as [f0 [-> _]]. destruct (in_frag0 _ _ Hg') as [g0 [-> _]]. reflexivity.
  - intros e H. unfold msg_schedule in H. apply in_map_iff in H. destruct H as [f [E _]]. discriminate E.
Qed.

Lemma spec_deliveries_length : forall s bef, length (spec_deliveries_from bef s) = length s.
Proof.
  induction s as [|i s IH]; intro bef; [reflexivity|]. destruct i; cbn [spec_deliveries_from length]; now rewrite IH.
Qed.

(* what the specification prescribes for the one message whose fragments `arrived` are *)
Definition msg_delivery (n : nat) (sq : option Z) (ch : list Z) (arrived : list sfrag) : asm_delivery :=
  let parts := map sf_sent (parts_in_order 0 (Z.of_nat n) arrived) in
  mkDelivery (asm_join_lf (map (fun p => c_raw (a_common p)) parts)) (concat (map a_payload parts))
             (concat (map a_bits parts)) (forallb (fun p => c_is_valid (a_common p)) parts) sq ch.

(* one message alone: nothing is delivered ahead of its last fragment, and there the whole message is *)
Lemma spec_one_message : forall n sq ch rest bef,
  (forall f, In f (bef ++ rest) -> sf_msg f = 0%nat /\ f_cnt f = Z.of_nat n /\ f_seq f = sq /\ f_chan f = ch) ->
  length (bef ++ rest) = n -> rest <> [] ->
  concat (spec_deliveries_from bef (map IFrag rest)) = [msg_delivery n sq ch (bef ++ rest)].
Proof.
  intros n sq ch rest. induction rest as [|f rest IH]; intros bef H L Hne; [contradiction|].
  cbn [map spec_deliveries_from concat].
  assert (Hall : forall x, In x (bef ++ [f]) -> sf_msg x = 0%nat).
  { intros x Hx. apply H. apply in_app_or in Hx. apply in_or_app. destruct Hx as [Hx|[Hx|[]]]; [left; exact Hx|right; left; exact Hx]. }
  destruct (H f ltac:(apply in_or_app; right; left; reflexivity)) as [Hm [Hc [Hs Hch]]].
  unfold completes. rewrite Hm, (frags_of_all _ Hall), Hc.
  destruct rest as [|g rest].
  - rewrite L. rewrite Z.eqb_refl. cbn [map spec_deliveries_from concat]. rewrite app_nil_r.
    unfold spec_assemble, msg_delivery. rewrite Hm, Hc, Hs, Hch. reflexivity.
  - assert (Hlt : Z.of_nat (length (bef ++ [f])) <> Z.of_nat n).
    { rewrite <- L. rewrite !app_length. cbn [length]. lia. }
    apply Z.eqb_neq in Hlt. rewrite Hlt. cbn [app].
    replace (bef ++ f :: g :: rest) with ((bef ++ [f]) ++ g :: rest) by (rewrite <- app_assoc; reflexivity).
    apply IH.
    + intros x Hx. apply H. rewrite <- app_assoc in Hx. exact Hx.
    + rewrite <- app_assoc. exact L.
    + discriminate.
Qed.

(* ---------------------------------------------------------------- the fragments in fragment-number order = sorted *)

Lemma flat_map_ext_in : forall A B (f g : A -> list B) l, (forall x, In x l -> f x = g x) -> flat_map f l = flat_map g l.
Proof.
  intros A B f g l. induction l as [|a l IH]; intro H; [reflexivity|]. cbn [flat_map].
  rewrite (H a (or_introl eq_refl)), IH; [reflexivity|]. intros x Hx. apply H. right. exact Hx.
Qed.

Lemma flat_map_filter_cons_perm : forall ks (a : sfrag) F, NoDup ks -> In (f_num a) ks ->
  Permutation (flat_map (fun k => filter (fun f => f_num f =? k) (a :: F)) ks)
              (a :: flat_map (fun k => filter (fun f => f_num f =? k) F) ks).
Proof.
  induction ks as [|k ks IH]; intros a F N H; [destruct H|].
  inversion N as [|x y N1 N2]; subst.
  assert (Ec : forall (g : Z -> list sfrag), flat_map g (k :: ks) = g k ++ flat_map g ks) by reflexivity.
  rewrite !Ec.
  change (filter (fun f => f_num f =? k) (a :: F))
    with (if f_num a =? k then a :: filter (fun f => f_num f =? k) F else filter (fun f => f_num f =? k) F).
  destruct (f_num a =? k) eqn:E.
  - apply Z.eqb_eq in E. subst k.
    rewrite (flat_map_ext_in _ _ (fun k => filter (fun f => f_num f =? k) (a :: F))
                                 (fun k => filter (fun f => f_num f =? k) F) ks); [apply Permutation_refl|].
    intros x Hx. cbn [filter]. destruct (f_num a =? x) eqn:E2; [|reflexivity].
    apply Z.eqb_eq in E2. subst x. contradiction.
  - destruct H as [H|H]; [subst k; rewrite Z.eqb_refl in E; discriminate|].
    apply perm_trans with (filter (fun f => f_num f =? k) F ++ a :: flat_map (fun k0 => filter (fun f => f_num f =? k0) F) ks).
    + apply Permutation_app_head. apply IH; assumption.
    + apply Permutation_sym, Permutation_middle.
Qed.

Lemma perm_flat_map_filter : forall (F : list sfrag) ks, NoDup ks -> (forall f, In f F -> In (f_num f) ks) ->
  Permutation (flat_map (fun k => filter (fun f => f_num f =? k) F) ks) F.
Proof.
  induction F as [|a F IH]; intros ks N H.
  - clear. induction ks as [|k ks IHk]; [constructor|exact IHk].
  - apply perm_trans with (a :: flat_map (fun k => filter (fun f => f_num f =? k) F) ks).
    + apply flat_map_filter_cons_perm; [exact N|]. apply H. left. reflexivity.
    + apply perm_skip. apply IH; [exact N|]. intros f Hf. apply H. right. exact Hf.
Qed.

Lemma in_order_sorted : forall (F : list sfrag) n lo, NoDup (map f_num F) ->
  sorted_gt (lo - 1) (map sf_sent (flat_map (fun k => filter (fun f => f_num f =? k) F) (asm_zrange lo n))).
Proof.
  intros F n. induction n as [|n IH]; intros lo N; [exact I|].
  cbn [asm_zrange flat_map]. rewrite map_app.
  specialize (IH (lo + 1) N). replace (lo + 1 - 1) with lo in IH by lia.
  destruct (filter (fun f => f_num f =? lo) F) as [|x r] eqn:E.
  - cbn [map app]. apply sorted_gt_weaken with lo; [lia|exact IH].
  - assert (Hx : In x (filter (fun f => f_num f =? lo) F)) by (rewrite E; left; reflexivity).
    apply filter_In in Hx. destruct Hx as [Hx1 Hx2]. apply Z.eqb_eq in Hx2.
    pose proof (filter_unique F x N Hx1) as U. rewrite Hx2, E in U. inversion U; subst r.
    cbn [map app sorted_gt]. unfold f_num in Hx2. rewrite Hx2. split; [lia|exact IH].
Qed.

Lemma parts_in_order_sorted : forall sq ch fs, complete_message sq ch fs ->
  map sf_sent (parts_in_order 0 (Z.of_nat (length fs)) (map frag0 fs)) = sort_by_frag fs.
Proof.
  intros sq ch fs C. unfold parts_in_order. rewrite Nat2Z.id.
  rewrite frags_of_all by (intros x Hx; destruct (in_frag0 _ _ Hx) as [f [-> _]]; reflexivity).
  set (F := map frag0 fs).
  assert (HF : map sf_sent F = fs) by (unfold F; rewrite map_map; cbn [frag0 sf_sent]; apply map_id).
  assert (N : NoDup (map f_num F)) by (unfold f_num; rewrite <- map_map, HF; exact (cm_nodup _ _ _ C)).
  set (P := map sf_sent (flat_map (fun k => filter (fun f => f_num f =? k) F) (asm_zrange 1 (length fs)))).
  assert (HP : Permutation P fs).
  { unfold P. rewrite <- HF at 2. apply Permutation_map. apply perm_flat_map_filter; [apply zrange_NoDup|].
    intros x Hx. destruct (in_frag0 _ _ Hx) as [f [-> Hf]]. apply zrange_In. unfold f_num. cbn [frag0 sf_sent].
    pose proof (cm_range _ _ _ _ C Hf). lia. }
  assert (NP : NoDup (map a_frag_num P)).
  { apply (Permutation_NoDup (Permutation_map a_frag_num (Permutation_sym HP))). exact (cm_nodup _ _ _ C). }
  rewrite <- (sort_perm P fs HP NP). symmetry. apply sort_by_frag_sorted with (1 - 1). apply in_order_sorted. exact N.
Qed.

(* ================================================================ one message inside an arbitrary C03 schedule *)

(* the fragments F of one message, picked by fragment number 1..n: the sorted fragments *)
Lemma in_order_is_sorted : forall sq ch (F : list sfrag), complete_message sq ch (map sf_sent F) ->
  map sf_sent (flat_map (fun k => filter (fun f => f_num f =? k) F) (asm_zrange 1 (length F))) = sort_by_frag (map sf_sent F).
Proof.
  intros sq ch F C. set (fs := map sf_sent F) in *.
  assert (N : NoDup (map f_num F)) by (unfold f_num; rewrite <- map_map; exact (cm_nodup _ _ _ C)).
  set (P := map sf_sent (flat_map (fun k => filter (fun f => f_num f =? k) F) (asm_zrange 1 (length F)))).
  assert (HP : Permutation P fs).
  { unfold P, fs. apply Permutation_map. apply perm_flat_map_filter; [apply zrange_NoDup|].
    intros x Hx. apply zrange_In. pose proof (cm_range _ _ _ (sf_sent x) C (in_map sf_sent _ _ Hx)) as R.
    unfold fs in R. rewrite map_length in R. unfold f_num. lia. }
  assert (NP : NoDup (map a_frag_num P)).
  { apply (Permutation_NoDup (Permutation_map a_frag_num (Permutation_sym HP))). exact (cm_nodup _ _ _ C). }
  rewrite <- (sort_perm P fs HP NP). symmetry. apply sort_by_frag_sorted with (1 - 1). apply in_order_sorted. exact N.
Qed.

(* what the specification prescribes for the message whose fragments are F (n of them) *)
Definition msg_delivery_of (n : nat) (sq : option Z) (ch : list Z) (F : list sfrag) : asm_delivery :=
  let parts := map sf_sent (flat_map (fun k => filter (fun f => f_num f =? k) F) (asm_zrange 1 n)) in
  mkDelivery (asm_join_lf (map (fun p => c_raw (a_common p)) parts)) (concat (map a_payload parts))
             (concat (map a_bits parts)) (forallb (fun p => c_is_valid (a_common p)) parts) sq ch.

Lemma spec_assemble_msg : forall f arrived,
  spec_assemble f arrived = msg_delivery_of (Z.to_nat (f_cnt f)) (f_seq f) (f_chan f) (frags_of (sf_msg f) arrived).
Proof. reflexivity. Qed.

(* is this line of the schedule a fragment of message m? *)
Definition item_of_msg (m : nat) (i : asm_item) : bool :=
  match i with IFrag f => Nat.eqb (sf_msg f) m | _ => false end.

Lemma pick_map : forall A B (g : A -> B) mask (outs : list (list A)),
  pick mask (map (map g) outs) = map g (pick mask outs).
Proof.
  intros A B g mask. induction mask as [|b mk IH]; intros [|o r]; try reflexivity.
  cbn [map pick]. rewrite map_app, IH. destruct b; reflexivity.
Qed.

Lemma pick_no_msg : forall m sch bef, frags_of m (asm_frags sch) = [] ->
  pick (map (item_of_msg m) sch) (spec_deliveries_from bef sch) = [].
Proof.
  intros m sch. induction sch as [|i sch IH]; intros bef H; [reflexivity|].
  destruct i as [f|g|e]; cbn [map item_of_msg spec_deliveries_from pick asm_frags] in *.
  - unfold frags_of in H. cbn [filter] in H. destruct (Nat.eqb (sf_msg f) m); [discriminate|]. cbn [app]. apply IH. exact H.
  - apply IH. exact H.
  - apply IH. exact H.
Qed.

(* In any schedule in which message m is complete (n fragments, all carrying count n, sequence id sq, channel ch): the
   specification delivers, at the lines of m, exactly one message -- at its last fragment, made of all its fragments.
   Other messages, in the same slot or not, wrappers and skipped lines may stand anywhere. *)
Lemma spec_message : forall m n sq ch sch bef,
  (forall f, In f (bef ++ asm_frags sch) -> sf_msg f = m -> f_cnt f = Z.of_nat n /\ f_seq f = sq /\ f_chan f = ch) ->
  length (frags_of m (bef ++ asm_frags sch)) = n -> frags_of m (asm_frags sch) <> [] ->
  pick (map (item_of_msg m) sch) (spec_deliveries_from bef sch) =
  [msg_delivery_of n sq ch (frags_of m (bef ++ asm_frags sch))].
Proof.
  intros m n sq ch sch. induction sch as [|i sch IH]; intros bef H L Hne; [contradiction|].
  destruct i as [f|g|e]; cbn [map item_of_msg spec_deliveries_from pick asm_frags] in *.
  - assert (Eapp : bef ++ f :: asm_frags sch = (bef ++ [f]) ++ asm_frags sch) by (rewrite <- app_assoc; reflexivity).
    destruct (Nat.eqb (sf_msg f) m) eqn:Em.
    + apply Nat.eqb_eq in Em.
      destruct (H f ltac:(apply in_or_app; right; left; reflexivity) Em) as [Hc [Hs Hch]].
      rewrite Eapp, frags_of_app in L. rewrite app_length in L.
      destruct (frags_of m (asm_frags sch)) as [|x r] eqn:Erest.
      * (* f is the last fragment of m *)
        cbn [length] in L. rewrite Nat.add_0_r in L. unfold completes. rewrite Em, L, Hc, Z.eqb_refl.
        rewrite (pick_no_msg m sch (bef ++ [f]) Erest), app_nil_r.
        rewrite spec_assemble_msg, Hc, Hs, Hch, Nat2Z.id, Em.
        rewrite Eapp, (frags_of_app m (bef ++ [f]) (asm_frags sch)), Erest, app_nil_r. reflexivity.
      * (* more fragments of m follow *)
        assert (Hlt : Z.of_nat (length (frags_of m (bef ++ [f]))) <> Z.of_nat n) by (cbn [length] in L; lia).
        unfold completes. rewrite Em, Hc. apply Z.eqb_neq in Hlt. rewrite Hlt. cbn [app].
        rewrite Eapp. apply IH.
        -- intros y Hy. apply H. rewrite Eapp. exact Hy.
        -- rewrite frags_of_app, app_length, Erest. exact L.
        -- discriminate.
    + cbn [app]. rewrite Eapp. apply IH.
      * intros y Hy. apply H. rewrite Eapp. exact Hy.
      * rewrite <- Eapp. exact L.
      * unfold frags_of in Hne |- *. cbn [filter] in Hne. rewrite Em in Hne. exact Hne.
  - cbn [app]. apply IH; assumption.
  - cbn [app]. apply IH; assumption.
Qed.

(* ================================================================ every delivered sentence carries its own message id *)

Definition id_ok (a : ais_sentence) : Prop := a_ais_id a = get_int (a_bits a) 0 6 false.

Lemma id_ok_attach : forall w a, id_ok a -> id_ok (attach w a).
Proof. intros [g|] a H; exact H. Qed.

Lemma sentence_decode_content : forall a, id_ok a -> sentence_decode a = decode_content (a_payload a) (a_bits a).
Proof. intros a H. unfold sentence_decode, decode_content. now rewrite H. Qed.

Lemma buffer_step_id_ok : forall b msg b' full, buffer_step b msg = Ok (b', Some full) -> id_ok full.
Proof.
  intros b msg b' full H. unfold buffer_step in H.
  destruct (buf_get _ _) as [arr|]; [|discriminate].
  destruct (pyl_setitem arr (a_frag_num msg - 1) (Some msg)) as [arr'|e]; [|discriminate].
  destruct (pyl_len _ =? a_frag_cnt msg); [|discriminate].
  destruct (not_none _) as [|first rest]; [discriminate|].
  unfold assemble_from_iterable in H. inversion H; subst. reflexivity.
Qed.

Lemma generic_step_id_ok : forall hs st p t st' out, generic_step hs st p t = Ok (st', out) ->
  (forall a, p = Ok (SAis a) -> id_ok a) -> Forall id_ok out.
Proof.
  intros hs [b w] p t st' out H Hp. unfold generic_step in H.
  destruct p as [x|e]; [|destruct (catches hs e); inversion H; constructor].
  destruct t as [e|]; [destruct (catches hs e); inversion H; constructor|].
  destruct x as [msg|g]; [|inversion H; constructor].
  unfold ais_step in H. destruct (is_single msg).
  - inversion H; subst. constructor; [|constructor]. apply id_ok_attach. apply Hp. reflexivity.
  - destruct (buffer_step b msg) as [[b2 [full|]]|e] eqn:E; inversion H; subst; [|constructor].
    constructor; [|constructor]. apply id_ok_attach. exact (buffer_step_id_ok _ _ _ _ E).
Qed.

(* ================================================================ the readers *)

Section Ingest.
  Variable uni : Z -> list Z -> option Z.

  (* does this LINE store a fragment into slot s (in a reader whose tag block queue, if any, accepts it)? *)
  Definition line_touches (s : asm_slot) (l : bytes) : bool :=
    match produce l with
    | Ok (SAis a) => negb (is_single a) && slot_eqb (slot_of a) s
    | _ => false
    end.

  (* TagBlockQueue.put_sentence does not reject the sentence: it has no tag block, or tb.init() succeeds on it *)
  Definition tbq_accepts (a : ais_sentence) : Prop :=
    match c_tag_block (a_common a) with None => True | Some raw => exists tb, tb_init uni raw = Ok tb end.

  Lemma tbq_accepts_put : forall a tq, tbq_accepts a -> exists r, tbq_put uni tq (SAis a) = Ok r.
  Proof.
    intros a tq H. unfold tbq_accepts in H. unfold tbq_put. cbn [sentence_common].
    destruct (c_tag_block (a_common a)) as [raw|]; [|eexists; reflexivity].
    destruct H as [tb ->]. cbn [bind]. destruct (tb_group tb) as [[[n t] g]|]; [|eexists; reflexivity].
    destruct (t =? 1); [eexists; reflexivity|]. destruct (n =? 1); [eexists; reflexivity|].
    destruct (tbq_get tq g) as [[tot0 ss]|]; [|eexists; reflexivity].
    destruct (negb _); eexists; reflexivity.
  Qed.

  Lemma rd_feed_touches : forall use_tbq s tq l p t tq' touts,
    rd_feed uni use_tbq tq l = (p, t, tq', touts) ->
    (forall a, line_touches s l = true -> produce l = Ok (SAis a) -> use_tbq = true -> tbq_accepts a) ->
    touches s (p, t) = line_touches s l /\ (touches s (p, t) = true -> (p, t) = (produce l, None)).
  Proof.
    intros use_tbq s tq l p t tq' touts H Hacc. unfold rd_feed in H. unfold line_touches in *.
    destruct (produce l) as [sn|e] eqn:E.
    - destruct use_tbq.
      + destruct (tbq_put uni tq sn) as [[tq2 outs]|e] eqn:Et.
        * inversion H; subst. split; [reflexivity|]. intros _. reflexivity.
        * assert (Hlt : match sn with SAis a => negb (is_single a) && slot_eqb (slot_of a) s | SGatehouse _ => false end = false).
          { destruct sn as [a|g]; [|reflexivity].
            destruct (negb (is_single a) && slot_eqb (slot_of a) s) eqn:Etch; [|reflexivity].
            exfalso. destruct (tbq_accepts_put a tq (Hacc a eq_refl eq_refl eq_refl)) as [r Hr]. rewrite Hr in Et. discriminate. }
          inversion H; subst. rewrite Hlt. destruct sn; split; solve [reflexivity|discriminate].
      + inversion H; subst. split; [reflexivity|]. intros _. reflexivity.
    - inversion H; subst. split; [reflexivity|discriminate].
  Qed.

  Lemma rd_inputs_touches : forall use_tbq s ls tq,
    (forall l a, In l ls -> line_touches s l = true -> produce l = Ok (SAis a) -> use_tbq = true -> tbq_accepts a) ->
    map (touches s) (rd_inputs uni use_tbq tq ls) = map (line_touches s) ls /\
    filter (touches s) (rd_inputs uni use_tbq tq ls) = map (fun l => (produce l, None)) (filter (line_touches s) ls).
  Proof.
    intros use_tbq s ls. induction ls as [|l rest IH]; intros tq Hacc; [split; reflexivity|].
    cbn [rd_inputs]. destruct (rd_feed uni use_tbq tq l) as [[[p t] tq'] touts] eqn:Ef.
    destruct (rd_feed_touches use_tbq s tq l p t tq' touts Ef (fun a => Hacc l a (or_introl eq_refl))) as [H1 H2].
    destruct (IH tq' (fun l0 a H => Hacc l0 a (or_intror H))) as [I1 I2].
    cbn [map filter]. rewrite H1, I1. split; [reflexivity|].
    rewrite <- H1. destruct (touches s (p, t)) eqn:Et; [|exact I2]. rewrite (H2 eq_refl). cbn [map]. now rewrite I2.
  Qed.

  (* every sentence a reader delivers carries the message id of its own bits *)
  Lemma rd_run_id_ok : forall step use_tbq, is_reader_loop step -> forall lines st,
    Forall (fun o => Forall id_ok (fst o)) (fst (rd_run uni step use_tbq st lines)).
  Proof.
    intros step use_tbq [hs [Hc Hs]] lines. induction lines as [|l rest IH]; intros [ast tq]; [constructor|].
    cbn [rd_run]. unfold rd_step. destruct (rd_feed uni use_tbq tq l) as [[[p t] tq'] touts] eqn:Ef.
    destruct (rd_feed_ok uni _ _ _ _ _ _ _ Ef) as [Hp _].
    destruct (step ast p t) as [[ast' outs]|e] eqn:Es; [|constructor].
    specialize (IH (ast', tq')). destruct (rd_run uni step use_tbq (ast', tq') rest) as [r fin]. cbn [fst] in *.
    constructor; [|exact IH]. cbn [fst]. rewrite Hs in Es. apply (generic_step_id_ok hs ast p t ast' outs Es).
    intros a Ha. subst p. exact (proj1 (produce_ais_id l a Ha)).
  Qed.

  (* whatever a reader delivers, from ANY line sequence: its decode() is the decoding of its own payload and bits *)
  Theorem delivered_decode_content : forall step use_tbq, is_reader_loop step -> forall lines st o d,
    In o (fst (rd_run uni step use_tbq st lines)) -> In d (fst o) ->
    sentence_decode d = decode_content (a_payload d) (a_bits d).
  Proof.
    intros step use_tbq Hl lines st o d Ho Hd. apply sentence_decode_content.
    pose proof (rd_run_id_ok step use_tbq Hl lines st) as Hall. rewrite Forall_forall in Hall. specialize (Hall o Ho).
    rewrite Forall_forall in Hall. exact (Hall d Hd).
  Qed.

  (* lines that parse to a well-formed C03 schedule (any number of messages, any interleaving and arrival order, slots
     reused after completion, incomplete sets, wrappers, skipped lines): the reader delivers, line by line, what the C03
     specification prescribes -- payload and bits of every delivery are the fragment-ordered concatenations --, and every
     delivery decodes by that content *)
  Theorem wf_schedule_decode : forall step use_tbq ls sch, is_reader_loop step -> WF sch ->
    rd_inputs uni use_tbq [] ls = schedule_lines sch ->
    exists outs st,
      rd_run uni step use_tbq rd_init ls = (outs, Ok st) /\
      map (map delivery_of) (map fst outs) = spec_deliveries sch /\
      Forall (Forall (fun d => sentence_decode d = decode_content (a_payload d) (a_bits d))) (map fst outs).
  Proof.
    intros step use_tbq ls sch Hl [W Sk] Hin.
    destruct (rd_run_total uni step use_tbq ls rd_init Hl rd_inv_init) as [outs [st [Er [_ _]]]].
    exists outs, st. split; [exact Er|]. split.
    - pose proof (rd_run_asm_run uni step use_tbq ls asm_init []) as R.
      change (rd_run uni step use_tbq (asm_init, []) ls) with (rd_run uni step use_tbq rd_init ls) in R. rewrite Er, Hin in R.
      cbn [fst] in R. rewrite R. destruct Hl as [hs [Hc Hs]]. rewrite (asm_run_ext step (generic_step hs) Hs).
      assert (Hsk : skips hs).
      { intros e He. apply Hc. destruct e; try discriminate He; [left|right; right|right; left]; reflexivity. }
      destruct (run_schedule hs Hsk sch [] [] None W Sk Inv_init) as [outs2 [b2 [w2 [E1 [E2 _]]]]].
      unfold asm_init. unfold asm_buffer in E1. rewrite E1. exact E2.
    - apply Forall_forall. intros o Ho. apply in_map_iff in Ho. destruct Ho as [oo [<- Hoo]].
      apply Forall_forall. intros d Hd. apply (delivered_decode_content step use_tbq Hl ls rd_init oo d); [|exact Hd].
      rewrite Er. exact Hoo.
  Qed.

  (* a message that the loops treat as a single-sentence message: one fragment and no (or zero) sequence id *)
  Definition msg_single (sq : option Z) (fs : list ais_sentence) : bool := negb (seq_truthy sq) && (length fs =? 1)%nat.

  Lemma msg_single_false : forall sq ch fs f, complete_message sq ch fs -> msg_single sq fs = false -> In f fs ->
    is_single f = false.
  Proof.
    intros sq ch fs f C H Hf. unfold is_single. pose proof (cm_seq _ _ _ C) as H1. pose proof (cm_cnt _ _ _ C) as H3.
    rewrite Forall_forall in H1, H3. rewrite (H1 f Hf), (H3 f Hf). unfold msg_single in H.
    destruct (seq_truthy sq); [reflexivity|]. cbn [negb andb] in *. apply Nat.eqb_neq in H.
    replace (Z.of_nat (length fs) =? 1) with false by (symmetry; apply Z.eqb_neq; lia). apply andb_false_r.
  Qed.

  Definition msg_slot (sq : option Z) (ch : list Z) : asm_slot := (match sq with None => -1 | Some v => v end, ch).

  Lemma msg_slot_of : forall sq ch fs f, complete_message sq ch fs -> In f fs -> slot_of f = msg_slot sq ch.
  Proof.
    intros sq ch fs f C Hf. pose proof (cm_seq _ _ _ C) as H1. pose proof (cm_chan _ _ _ C) as H2.
    rewrite Forall_forall in H1, H2. unfold slot_of, msg_slot. now rewrite (H1 f Hf), (H2 f Hf).
  Qed.

  (* ---------------------------------------------------------------- a multi-sentence message, read by a reader *)

  (* parts: the lines of one complete message that is not a single-sentence message.  ls: what the reader is fed -- ANY
     line sequence in which the lines that store into the message's slot are exactly the parts, in any order.  Then the
     reader (either loop, with or without a tag block queue) consumes every line, delivers at the lines of the message
     exactly one sentence d, and d carries the message: raw text, payload, bits, validity flag, message id, sequence id
     and channel. *)
  Theorem reader_delivers_message : forall step use_tbq parts fs sq ch ls,
    is_reader_loop step ->
    Forall2 line_ais parts fs -> complete_message sq ch fs -> msg_single sq fs = false ->
    (use_tbq = true -> Forall tbq_accepts fs) ->
    Permutation parts (filter (line_touches (msg_slot sq ch)) ls) ->
    exists outs st d,
      rd_run uni step use_tbq rd_init ls = (outs, Ok st) /\ length outs = length ls /\
      pick (map (line_touches (msg_slot sq ch)) ls) (map fst outs) = [d] /\
      view d = msg_view fs /\ a_seq_id d = sq /\ a_channel d = ch.
  Proof.
    intros step use_tbq parts fs sq ch ls Hloop Hparts C Hns Htb Hperm.
    set (s := msg_slot sq ch) in *. set (parts' := filter (line_touches s) ls) in *.
    destruct (rd_run_total uni step use_tbq ls rd_init Hloop rd_inv_init) as [outs [st [Er [Hlen _]]]].
    destruct (line_ais_perm parts fs parts' Hparts Hperm) as [fs' [Hparts' Pfs]].
    pose proof (cm_perm _ _ _ _ C Pfs) as C'.
    assert (Hns' : msg_single sq fs' = false) by (unfold msg_single in *; rewrite <- (Permutation_length Pfs); exact Hns).
    (* the tag block queue accepts every line that touches the slot *)
    assert (Hacc : forall l a, In l ls -> line_touches s l = true -> produce l = Ok (SAis a) -> use_tbq = true ->
                               tbq_accepts a).
    { intros l a Hl Ht Ha Hu. assert (Hin : In l parts') by (unfold parts'; apply filter_In; split; assumption).
      destruct (Forall2_in_l _ _ _ _ _ l Hparts' Hin) as [a' [Ha' Hla]]. unfold line_ais in Hla. rewrite Ha in Hla.
      inversion Hla; subst a'. specialize (Htb Hu). rewrite Forall_forall in Htb. apply Htb.
      exact (Permutation_in _ (Permutation_sym Pfs) Ha'). }
    destruct (rd_inputs_touches use_tbq s ls [] Hacc) as [Hmap Hfil].
    (* only the slot's lines matter *)
    pose proof Hloop as [hs [Hc Hs]].
    pose proof (rd_slot_isolation uni hs step use_tbq ls s Hc Hs) as Hiso. cbv zeta in Hiso.
    rewrite Er in Hiso. cbn [fst] in Hiso. rewrite Hfil in Hiso. fold parts' in Hiso.
    assert (Hsched : map (fun l => (produce l, @None exn)) parts' = schedule_lines (msg_schedule fs')).
    { clear -Hparts'. induction Hparts' as [|p f ps fs0 Hp _ IH]; [reflexivity|].
      cbn [map msg_schedule schedule_lines] in *. rewrite Hp. f_equal. exact IH. }
    rewrite Hsched in Hiso.
    (* C03 on the message's own schedule *)
    assert (Hsk : skips hs).
    { intros e He. apply Hc. destruct e; try discriminate He; [left|right; right|right; left]; reflexivity. }
    destruct (msg_schedule_WF _ _ _ C') as [W Sk].
    destruct (run_schedule hs Hsk (msg_schedule fs') [] [] None W Sk Inv_init) as [outs2 [b2 [w2 [E1 [E2 _]]]]].
    rewrite (asm_run_ext step (generic_step hs) Hs) in Hiso. unfold asm_init in Hiso. unfold asm_buffer in E1. rewrite E1 in Hiso. cbn [fst] in Hiso.
    assert (Hfs'ne : fs' <> []) by exact (cm_nonempty _ _ _ C').
    assert (Htouch : Forall (fun i => touches s i = true) (schedule_lines (msg_schedule fs'))).
    { apply Forall_forall. intros i Hi. unfold schedule_lines, msg_schedule in Hi. rewrite map_map in Hi.
      apply in_map_iff in Hi. destruct Hi as [f [<- Hf]]. cbn [item_line touches frag0 sf_sent].
      rewrite (msg_single_false _ _ _ f C' Hns' Hf).
      rewrite (msg_slot_of _ _ _ f C' Hf). fold s. rewrite slot_eqb_refl. reflexivity. }
    assert (Hlen2 : length outs2 = length (schedule_lines (msg_schedule fs'))).
    { rewrite <- (map_length (map delivery_of) outs2), E2, spec_deliveries_length. unfold schedule_lines.
      now rewrite map_length. }
    rewrite (slot_outs_all s _ outs2 Htouch Hlen2), E2 in Hiso.
    unfold msg_schedule in Hiso. rewrite <- (map_map frag0 IFrag) in Hiso.
    rewrite (spec_one_message (length fs') sq ch (map frag0 fs') []) in Hiso.
    2:{ intros x Hx. cbn [app] in Hx. destruct (in_frag0 _ _ Hx) as [f [-> Hf]]. unfold f_cnt, f_seq, f_chan.
        cbn [frag0 sf_sent sf_msg]. pose proof (cm_seq _ _ _ C') as H1. pose proof (cm_chan _ _ _ C') as H2.
        pose proof (cm_cnt _ _ _ C') as H3. rewrite Forall_forall in H1, H2, H3. now rewrite (H1 f Hf), (H2 f Hf), (H3 f Hf). }
    2:{ cbn [app]. now rewrite map_length. }
    2:{ destruct fs'; [contradiction|discriminate]. }
    (* exactly one sentence *)
    rewrite slot_outs_pick, Hmap in Hiso. apply map_singleton in Hiso. destruct Hiso as [d [Hd Hdl]].
    exists outs, st, d. split; [exact Er|]. split; [exact Hlen|]. split; [exact Hd|].
    (* its content *)
    assert (Hid : id_ok d).
    { pose proof (rd_run_id_ok step use_tbq Hloop ls rd_init) as Hall. rewrite Er in Hall. cbn [fst] in Hall.
      assert (Hin : In d (pick (map (line_touches s) ls) (map fst outs))) by (rewrite Hd; left; reflexivity).
      apply pick_in in Hin. destruct Hin as [o [Ho Hdo]]. apply in_map_iff in Ho. destruct Ho as [oo [<- Hoo]].
      rewrite Forall_forall in Hall. specialize (Hall oo Hoo). rewrite Forall_forall in Hall. exact (Hall d Hdo). }
    unfold msg_delivery in Hdl. cbn [app] in Hdl. rewrite (parts_in_order_sorted _ _ _ C') in Hdl.
    rewrite <- (sort_perm fs fs' Pfs (cm_nodup _ _ _ C)) in Hdl.
    unfold delivery_of in Hdl. injection Hdl as R1 R2 R3 R4 R5 R6.
    split; [|split; assumption].
    unfold view, msg_view. rewrite Hid, R1, R2, R3, R4. rewrite join_raw_join_lf, !flat_map_concat_map. reflexivity.
  Qed.

  (* ---------------------------------------------------------------- a single-sentence message, read by a reader *)

  Lemma view_attach : forall w a, view (attach w a) = view a.
  Proof. intros [g|] a; reflexivity. Qed.

  Lemma view_single : forall p f, line_ais p f -> view f = msg_view [f].
  Proof.
    intros p f H. unfold view, msg_view, sort_by_frag. cbn [fold_right insert_by_frag join_raw flat_map forallb].
    rewrite !app_nil_r, andb_true_r. rewrite (proj1 (produce_ais_id p f H)). reflexivity.
  Qed.

  (* the line p of a single-sentence message, anywhere in any line sequence: every line is consumed and the sentence is
     delivered at that line, as parsed, with the wrapper pending there (w; which one it is, is C18) *)
  Theorem reader_delivers_single : forall step use_tbq p f pre post,
    is_reader_loop step -> line_ais p f -> is_single f = true -> (use_tbq = true -> tbq_accepts f) ->
    exists outs1 outs2 st touts w,
      rd_run uni step use_tbq rd_init (pre ++ p :: post) = (outs1 ++ ([attach w f], touts) :: outs2, Ok st) /\
      length outs1 = length pre /\ length outs2 = length post.
  Proof.
    intros step use_tbq p f pre post Hloop Hp Hsingle Htb. rewrite rd_run_app.
    destruct (rd_run_total uni step use_tbq pre rd_init Hloop rd_inv_init) as [o1 [[[b w] tq] [E1 [L1 I1]]]]. rewrite E1.
    cbn [rd_run]. unfold rd_step.
    assert (Hfeed : exists tq' touts, rd_feed uni use_tbq tq p = (Ok (SAis f), None, tq', touts)).
    { unfold rd_feed. unfold line_ais in Hp. rewrite Hp. destruct use_tbq; [|eexists _, _; reflexivity].
      destruct (tbq_accepts_put f tq (Htb eq_refl)) as [[tq' touts] Hr]. rewrite Hr. eexists _, _; reflexivity. }
    destruct Hfeed as [tq' [touts ->]].
    destruct Hloop as [hs [Hc Hs]]. rewrite Hs. cbn [generic_step]. unfold ais_step. rewrite Hsingle.
    match goal with |- context [rd_run uni step use_tbq ?s1 post] =>
      destruct (rd_run_total uni step use_tbq post s1 (ex_intro _ hs (conj Hc Hs)) I1) as [o2 [st2 [E2 [L2 _]]]]; rewrite E2
    end.
    exists o1, o2, st2, touts, w. split; [reflexivity|]. split; assumption.
  Qed.

  (* ================================================================ C07, last clause: decode() agrees with the readers *)

  (* multi-sentence messages (and one-fragment messages that carry a sequence id) *)
  Theorem decode_agrees_message : forall step use_tbq parts fs sq ch ls,
    is_reader_loop step ->
    Forall2 line_ais parts fs -> complete_message sq ch fs -> msg_single sq fs = false ->
    (use_tbq = true -> Forall tbq_accepts fs) ->
    Permutation parts (filter (line_touches (msg_slot sq ch)) ls) ->
    exists outs st d,
      rd_run uni step use_tbq rd_init ls = (outs, Ok st) /\ length outs = length ls /\
      pick (map (line_touches (msg_slot sq ch)) ls) (map fst outs) = [d] /\
      view d = msg_view fs /\ a_seq_id d = sq /\ a_channel d = ch /\
      forall parts', Permutation parts parts' ->
        exists nmea, assemble_messages false parts' = Ok nmea /\ view nmea = view d /\
                     sentence_decode d = mmap snd (decode_api false parts').
  Proof.
    intros step use_tbq parts fs sq ch ls Hloop Hparts C Hns Htb Hperm.
    destruct (reader_delivers_message step use_tbq parts fs sq ch ls Hloop Hparts C Hns Htb Hperm)
      as [outs [st [d [Er [Hlen [Hd [Hv [Hsq Hch]]]]]]]].
    exists outs, st, d. repeat (split; [assumption|]).
    intros parts' P. destruct (line_ais_perm parts fs parts' Hparts P) as [fs' [Hparts' Pfs]].
    destruct (decode_api_complete parts' fs' sq ch Hparts' (cm_perm _ _ _ _ C Pfs)) as [nmea [Ha [Hvn [_ [_ Hdec]]]]].
    rewrite <- (msg_view_perm fs fs' Pfs (cm_nodup _ _ _ C)) in Hvn.
    exists nmea. split; [exact Ha|]. split; [now rewrite Hvn, Hv|].
    unfold message_of in Hdec. rewrite Hdec. apply sentence_decode_view. now rewrite Hvn, Hv.
  Qed.

  (* single-sentence messages *)
  Theorem decode_agrees_single : forall step use_tbq p f pre post,
    is_reader_loop step -> line_ais p f -> is_single f = true -> (use_tbq = true -> tbq_accepts f) ->
    exists outs1 outs2 st touts d,
      rd_run uni step use_tbq rd_init (pre ++ p :: post) = (outs1 ++ ([d], touts) :: outs2, Ok st) /\
      length outs1 = length pre /\ length outs2 = length post /\
      view d = view f /\ a_seq_id d = a_seq_id f /\ a_channel d = a_channel f /\
      exists nmea, assemble_messages false [p] = Ok nmea /\ view nmea = view d /\
                   sentence_decode d = mmap snd (decode_api false [p]).
  Proof.
    intros step use_tbq p f pre post Hloop Hp Hsingle Htb.
    destruct (reader_delivers_single step use_tbq p f pre post Hloop Hp Hsingle Htb)
      as [o1 [o2 [st [touts [w [Er [L1 L2]]]]]]].
    exists o1, o2, st, touts, (attach w f). split; [exact Er|]. split; [exact L1|]. split; [exact L2|].
    split; [apply view_attach|]. split; [destruct w; reflexivity|]. split; [destruct w; reflexivity|].
    assert (C : complete_message (a_seq_id f) (a_channel f) [f]).
    { unfold is_single in Hsingle. apply andb_prop in Hsingle. destruct Hsingle as [_ H2].
      apply andb_prop in H2. destruct H2 as [Hn Hc]. apply Z.eqb_eq in Hn, Hc.
      constructor; try (constructor; [reflexivity|constructor]).
      - constructor; [exact Hc|constructor].
      - cbn. rewrite Hn, Hc. apply Permutation_refl.
      - discriminate. }
    destruct (decode_api_complete [p] [f] _ _ (Forall2_cons _ _ Hp (Forall2_nil _)) C) as [nmea [Ha [Hvn [_ [_ Hdec]]]]].
    rewrite <- (view_single p f Hp) in Hvn.
    exists nmea. split; [exact Ha|]. split; [now rewrite Hvn, view_attach|].
    unfold message_of in Hdec. rewrite Hdec. apply sentence_decode_view. now rewrite Hvn, view_attach.
  Qed.
  (* ---------------------------------------------------------------- lines that parse to a schedule *)

  Definition tbq_accepts_sentence (s : sentence) : Prop :=
    match c_tag_block (sentence_common s) with None => True | Some raw => exists tb, tb_init uni raw = Ok tb end.

  Lemma tbq_accepts_sentence_put : forall s tq, tbq_accepts_sentence s -> exists r, tbq_put uni tq s = Ok r.
  Proof.
    intros s tq H. unfold tbq_accepts_sentence in H. unfold tbq_put.
    destruct (c_tag_block (sentence_common s)) as [raw|]; [|eexists; reflexivity].
    destruct H as [tb ->]. cbn [bind]. destruct (tb_group tb) as [[[n t] g]|]; [|eexists; reflexivity].
    destruct (t =? 1); [eexists; reflexivity|]. destruct (n =? 1); [eexists; reflexivity|].
    destruct (tbq_get tq g) as [[tot0 ss]|]; [|eexists; reflexivity].
    destruct (negb _); eexists; reflexivity.
  Qed.

  (* line l is the schedule item i: it parses to that fragment / that wrapper (and the tag block queue, if there is one,
     does not reject it), or produce raises that library exception on it *)
  Definition line_item (use_tbq : bool) (l : bytes) (i : asm_item) : Prop :=
    match i with
    | IFrag f => produce l = Ok (SAis (sf_sent f)) /\ (use_tbq = true -> tbq_accepts (sf_sent f))
    | IWrapper g => produce l = Ok (SGatehouse g) /\ (use_tbq = true -> tbq_accepts_sentence (SGatehouse g))
    | ISkipped e => produce l = Raise (Lib e)
    end.

  Lemma rd_inputs_schedule : forall use_tbq ls sch, Forall2 (line_item use_tbq) ls sch ->
    forall tq, rd_inputs uni use_tbq tq ls = schedule_lines sch.
  Proof.
    intros use_tbq ls sch H. induction H as [|l i ls sch Hli _ IH]; intro tq; [reflexivity|].
    cbn [rd_inputs schedule_lines map]. unfold rd_feed. destruct i as [f|g|e]; cbn [line_item] in Hli.
    - destruct Hli as [-> Hacc]. destruct use_tbq.
      + destruct (tbq_accepts_put (sf_sent f) tq (Hacc eq_refl)) as [[tq' o] ->]. cbn [item_line]. f_equal. apply IH.
      + cbn [item_line]. f_equal. apply IH.
    - destruct Hli as [-> Hacc]. destruct use_tbq.
      + destruct (tbq_accepts_sentence_put (SGatehouse g) tq (Hacc eq_refl)) as [[tq' o] ->]. cbn [item_line]. f_equal. apply IH.
      + cbn [item_line]. f_equal. apply IH.
    - rewrite Hli. cbn [item_line]. f_equal. apply IH.
  Qed.

  (* ---------------------------------------------------------------- any message of any well-formed line schedule *)

  (* ls: lines that parse (produce + tag block queue) to a C03 well-formed schedule sch -- any number of messages, any
     interleaving and per-message arrival order, slots reused after completion, incomplete sets, single-sentence messages,
     wrappers and skipped lines.  m: a message of sch whose fragments are (a rearrangement of) fs = what the lines `parts`
     parse to, complete.  Then the reader delivers, at the lines of m, exactly one sentence d; d carries the message; and
     decode( *parts' ) agrees with d.decode() for every order parts' of the parts.  Multi- and single-sentence messages alike. *)
  Theorem decode_agrees_in_schedule : forall step use_tbq ls sch m parts fs sq ch,
    is_reader_loop step -> WF sch -> rd_inputs uni use_tbq [] ls = schedule_lines sch ->
    Forall2 line_ais parts fs -> complete_message sq ch fs ->
    Permutation fs (map sf_sent (frags_of m (asm_frags sch))) ->
    exists outs st d,
      rd_run uni step use_tbq rd_init ls = (outs, Ok st) /\ length outs = length ls /\
      pick (map (item_of_msg m) sch) (map fst outs) = [d] /\
      view d = msg_view fs /\ a_seq_id d = sq /\ a_channel d = ch /\
      forall parts', Permutation parts parts' ->
        exists nmea, assemble_messages false parts' = Ok nmea /\ view nmea = view d /\
                     sentence_decode d = mmap snd (decode_api false parts').
  Proof.
    intros step use_tbq ls sch m parts fs sq ch Hloop HW Hin Hparts C Pm.
    destruct (rd_run_total uni step use_tbq ls rd_init Hloop rd_inv_init) as [outs [st [Er [Hlen _]]]].
    destruct (wf_schedule_decode step use_tbq ls sch Hloop HW Hin) as [outs' [st' [Er' [Hspec _]]]].
    rewrite Er in Er'. inversion Er'; subst outs' st'. clear Er'.
    set (F := frags_of m (asm_frags sch)) in *.
    pose proof (cm_perm _ _ _ _ C Pm) as CF.
    assert (HlenF : length F = length fs) by (rewrite (Permutation_length Pm); now rewrite map_length).
    (* the specification at the lines of m *)
    assert (Hpick : pick (map (item_of_msg m) sch) (spec_deliveries sch) = [msg_delivery_of (length F) sq ch F]).
    { unfold spec_deliveries. apply (spec_message m (length F) sq ch sch []).
      - cbn [app]. intros f Hf Hm.
        assert (HfF : In f F) by (unfold F; apply frags_of_In; split; assumption).
        pose proof (in_map sf_sent _ _ HfF) as Hs.
        pose proof (cm_seq _ _ _ CF) as H1. pose proof (cm_chan _ _ _ CF) as H2. pose proof (cm_cnt _ _ _ CF) as H3.
        rewrite Forall_forall in H1, H2, H3. unfold f_cnt, f_seq, f_chan.
        rewrite (H1 _ Hs), (H2 _ Hs), (H3 _ Hs), map_length. repeat split.
      - reflexivity.
      - fold F. intro E. apply (cm_nonempty _ _ _ CF). rewrite E. reflexivity. }
    rewrite <- Hspec, pick_map in Hpick. apply map_singleton in Hpick. destruct Hpick as [d [Hd Hdl]].
    exists outs, st, d. split; [exact Er|]. split; [exact Hlen|]. split; [exact Hd|].
    assert (Hid : id_ok d).
    { pose proof (rd_run_id_ok step use_tbq Hloop ls rd_init) as Hall. rewrite Er in Hall. cbn [fst] in Hall.
      assert (Hin' : In d (pick (map (item_of_msg m) sch) (map fst outs))) by (rewrite Hd; left; reflexivity).
      apply pick_in in Hin'. destruct Hin' as [o [Ho Hdo]]. apply in_map_iff in Ho. destruct Ho as [oo [<- Hoo]].
      rewrite Forall_forall in Hall. specialize (Hall oo Hoo). rewrite Forall_forall in Hall. exact (Hall d Hdo). }
    unfold msg_delivery_of in Hdl. rewrite (in_order_is_sorted sq ch F CF) in Hdl.
    rewrite <- (sort_perm fs (map sf_sent F) Pm (cm_nodup _ _ _ C)) in Hdl.
    unfold delivery_of in Hdl. injection Hdl as R1 R2 R3 R4 R5 R6.
    assert (Hv : view d = msg_view fs).
    { unfold view, msg_view. rewrite Hid, R1, R2, R3, R4. rewrite join_raw_join_lf, !flat_map_concat_map. reflexivity. }
    split; [exact Hv|]. split; [exact R5|]. split; [exact R6|].
    intros parts' P. destruct (line_ais_perm parts fs parts' Hparts P) as [fs' [Hparts' Pfs]].
    destruct (decode_api_complete parts' fs' sq ch Hparts' (cm_perm _ _ _ _ C Pfs)) as [nmea [Ha [Hvn [_ [_ Hdec]]]]].
    rewrite <- (msg_view_perm fs fs' Pfs (cm_nodup _ _ _ C)) in Hvn.
    exists nmea. split; [exact Ha|]. split; [now rewrite Hvn, Hv|].
    unfold message_of in Hdec. rewrite Hdec. apply sentence_decode_view. now rewrite Hvn, Hv.
  Qed.
End Ingest.

(* ================================================================ both loops, one statement *)

Definition reader_loop (step : asm_stepfn) : Prop := step = stream_step \/ step = queue_step.

Lemma reader_loop_is_reader_loop : forall step, reader_loop step -> is_reader_loop step.
Proof. intros step [-> | ->]; [exact stream_is_reader_loop|exact queue_is_reader_loop]. Qed.

(* C07, last clause.  For the generator of AssembleMessages (IterMessages, ByteStream, BinaryIOStream, FileReaderStream,
   SocketStream) and for NMEAQueue.put_line, with or without a tag block queue:
   (1) parts = the lines of one complete message (not a single-sentence message), ls = any line sequence in which the
       lines storing into the message's slot are exactly the parts in some order: the reader consumes all of ls, delivers
       at the message's lines exactly one sentence d, d carries the message (view = msg_view: raw text joined by LF in
       fragment order, payload, bits, validity, message id; sequence id, channel), and for EVERY order parts' of the parts
       decode( *parts' ) assembles a sentence with the same view and returns what d.decode() returns (same message or same
       exception);
   (2) p = the line of a single-sentence message, anywhere in any line sequence: delivered at that line, same agreement
       with decode(p). *)
Theorem decode_agrees : forall uni step use_tbq, reader_loop step ->
  (forall parts fs sq ch ls,
     Forall2 line_ais parts fs -> complete_message sq ch fs -> msg_single sq fs = false ->
     (use_tbq = true -> Forall (tbq_accepts uni) fs) ->
     Permutation parts (filter (line_touches (msg_slot sq ch)) ls) ->
     exists outs st d,
       rd_run uni step use_tbq rd_init ls = (outs, Ok st) /\ length outs = length ls /\
       pick (map (line_touches (msg_slot sq ch)) ls) (map fst outs) = [d] /\
       view d = msg_view fs /\ a_seq_id d = sq /\ a_channel d = ch /\
       forall parts', Permutation parts parts' ->
         exists nmea, assemble_messages false parts' = Ok nmea /\ view nmea = view d /\
                      sentence_decode d = mmap snd (decode_api false parts')) /\
  (forall p f pre post,
     line_ais p f -> is_single f = true -> (use_tbq = true -> tbq_accepts uni f) ->
     exists outs1 outs2 st touts d,
       rd_run uni step use_tbq rd_init (pre ++ p :: post) = (outs1 ++ ([d], touts) :: outs2, Ok st) /\
       length outs1 = length pre /\ length outs2 = length post /\
       view d = view f /\ a_seq_id d = a_seq_id f /\ a_channel d = a_channel f /\
       exists nmea, assemble_messages false [p] = Ok nmea /\ view nmea = view d /\
                    sentence_decode d = mmap snd (decode_api false [p])).
Proof.
  intros uni step use_tbq Hl. apply reader_loop_is_reader_loop in Hl. split.
  - intros parts fs sq ch ls. exact (decode_agrees_message uni step use_tbq parts fs sq ch ls Hl).
  - intros p f pre post. exact (decode_agrees_single uni step use_tbq p f pre post Hl).
Qed.

(* the same, for every message of every well-formed line schedule (slots reused, other messages of the same slot before
   and after, incomplete sets, singles, wrappers, skipped lines).  line_item: the line parses to that schedule item. *)
Theorem decode_agrees_schedule : forall uni step use_tbq, reader_loop step ->
  forall ls sch m parts fs sq ch,
    WF sch -> Forall2 (line_item uni use_tbq) ls sch ->
    Forall2 line_ais parts fs -> complete_message sq ch fs ->
    Permutation fs (map sf_sent (frags_of m (asm_frags sch))) ->
    exists outs st d,
      rd_run uni step use_tbq rd_init ls = (outs, Ok st) /\ length outs = length ls /\
      pick (map (item_of_msg m) sch) (map fst outs) = [d] /\
      view d = msg_view fs /\ a_seq_id d = sq /\ a_channel d = ch /\
      forall parts', Permutation parts parts' ->
        exists nmea, assemble_messages false parts' = Ok nmea /\ view nmea = view d /\
                     sentence_decode d = mmap snd (decode_api false parts').
Proof.
  intros uni step use_tbq Hl ls sch m parts fs sq ch HW Hli. apply reader_loop_is_reader_loop in Hl.
  exact (decode_agrees_in_schedule uni step use_tbq ls sch m parts fs sq ch Hl HW (rd_inputs_schedule uni use_tbq ls sch Hli [])).
Qed.
