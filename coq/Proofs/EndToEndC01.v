(* Composition layer, C01 part: the layout theorem (Proofs/CodecDecode.v: decode_bits of a nominal-length payload is the
   ITU layout) stated for the public entry point decode( *sentences ) on EVERY carrier of the armored bits
   (Spec/CarrierSpec.v: any cutting into 1..5 sentences, any talker, VDM/VDO in any case, any channel, sequence id,
   checksum digits, tag block, trailing white space, any order), through Proofs/CarrierProofs.v (C04) and the armoring
   round trip of Proofs/FrameArmorProofs.v. *)
From Coq Require Import String ZArith List Bool Lia.
Require Import Prim.Exn Prim.Bits Model.FieldTypes Gen.GenTables Model.Codec Model.Sentence Model.DecodeApi
               Spec.Layout Spec.LayoutRel Spec.CarrierSpec.
Require Import Proofs.CodecDecode Proofs.FrameArmorProofs Proofs.CarrierProofs Proofs.EndToEnd.
Import ListNotations.
Open Scope list_scope.
Open Scope Z_scope.
Local Notation length := List.length (only parsing).

Lemma nominal_positive : forall v, (1 <= nominal v)%nat.
Proof. destruct v; apply Nat.leb_le; vm_compute; reflexivity. Qed.

(* decode() on any carrier of an armored payload = the payload decoder on the de-armored bits, with the assembled
   sentence it also returns *)
Lemma carrier_decodes_to : forall bits p fill ss x,
  bits <> [] -> encode_ascii_6 bits = Ok (p, fill) -> is_carrier p fill ss -> decode_bits bits = Ok x ->
  exists nmea, decode_api false ss = Ok (nmea, x).
Proof.
  intros bits p fill ss x Hne He Hcar Hd.
  destruct (FrameArmorProofs.armor_roundtrip bits) as (p' & fill' & He' & _ & _ & Harm & Hplen & Hdec).
  rewrite He in He'. injection He' as <- <-.
  assert (Hp : p <> []).
  { intros ->. cbn [List.length] in Hplen. destruct bits as [|b0 bits]; [congruence|].
    assert (1 <= (Z.of_nat (length (b0 :: bits)) + 5) / 6) by (apply Z.div_le_lower_bound; cbn [List.length]; lia). lia. }
  pose proof (carrier_vs_bits p fill ss bits Hp (armored_is_armor p Harm) Hcar Hdec) as H.
  unfold message_of in H. rewrite Hd in H. apply mmap_snd_ok in H. exact H.
Qed.

Theorem c01_through_carrier : forall v bits p fill ss,
  length bits = nominal v -> spec_variant bits = Some v -> text_pad_zero v bits = true ->
  encode_ascii_6 bits = Ok (p, fill) -> is_carrier p fill ss ->
  exists nmea vals,
    decode_api false ss = Ok (nmea, (cls_of v, vals)) /\
    Forall2 val_matches vals (map snd (spec_decode v bits)) /\
    map f_name (fields_of (cls_of v)) = map fst (spec_decode v bits) /\
    class_name (cls_of v) = variant_class v.
Proof.
  intros v bits p fill ss Hlen Hv Hpad He Hcar.
  destruct (C01_decode v bits Hlen Hv Hpad) as (vals & Hd & Hm & Hn & Hc).
  assert (Hne : bits <> []).
  { intros ->. pose proof (nominal_positive v). cbn [List.length] in Hlen. lia. }
  destruct (carrier_decodes_to bits p fill ss _ Hne He Hcar Hd) as (nmea & H).
  exists nmea, vals. repeat split; assumption.
Qed.
