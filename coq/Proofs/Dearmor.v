(* Characterisation of util.decode_into_bit_array (Model/Codec.v) used by C04: de-armoring is a per-character map,
   so cutting the armored payload into fragments and concatenating the fragments' bits gives the bits of the
   whole payload. *)
From Coq Require Import ZArith List Bool Lia.
Require Import Prim.Exn Prim.Bits Model.Codec.
Import ListNotations.
Open Scope Z_scope.

Definition printable (c : Z) : bool := (32 <=? c) && (c <=? 126).
Definition sixbits (c : Z) : bits := z_to_bits 6 (dearmor_char c).
Definition all_sixbits (p : list Z) : bits := flat_map sixbits p.

Lemma z_to_bits_length : forall w z, length (z_to_bits w z) = w.
Proof. induction w as [|w IH]; intros z; cbn [z_to_bits length]; [reflexivity|]. now rewrite IH. Qed.

Lemma sixbits_length : forall c, length (sixbits c) = 6%nat.
Proof. intros c. apply z_to_bits_length. Qed.

Lemma all_sixbits_length : forall p, length (all_sixbits p) = (6 * length p)%nat.
Proof.
  induction p as [|c p IH]; [reflexivity|].
  unfold all_sixbits in *. cbn [flat_map length]. rewrite app_length, sixbits_length, IH. lia.
Qed.

Lemma all_sixbits_app : forall p q, all_sixbits (p ++ q) = all_sixbits p ++ all_sixbits q.
Proof. intros p q. unfold all_sixbits. now rewrite flat_map_app. Qed.

(* without fill bits: every character contributes its six bits *)
Lemma dearmor_nofill : forall p, forallb printable p = true -> decode_into_bit_array p 0 = Ok (all_sixbits p).
Proof.
  induction p as [|c p IH]; intros H; [reflexivity|].
  cbn [forallb] in H. apply andb_prop in H. destruct H as [Hc Hp].
  cbn [decode_into_bit_array]. unfold printable in Hc. rewrite Hc. cbn [negb].
  destruct p as [|d p'].
  - cbn [all_sixbits flat_map]. rewrite app_nil_r. reflexivity.
  - rewrite (IH Hp). cbn [bind]. reflexivity.
Qed.

(* the last character loses its [f] low bits: finite check over the 64 six-bit values and f = 1..5 *)
Lemma last_char_fill_ok :
  forallb (fun v => forallb (fun f => if list_eq_dec bool_dec (zfill (6 - f) (bin_digits (Z.shiftr v f)))
                                                      (firstn (Z.to_nat (6 - f)) (z_to_bits 6 v)) then true else false)
                            [1; 2; 3; 4; 5]) (map Z.of_nat (seq 0 64)) = true.
Proof. vm_compute. reflexivity. Qed.

Lemma dearmor_char_range : forall c, 0 <= dearmor_char c < 64.
Proof.
  intros c. unfold dearmor_char. change 63 with (Z.ones 6). rewrite Z.land_ones by lia.
  apply Z.mod_pos_bound. lia.
Qed.

Lemma last_char_fill : forall c f, 1 <= f <= 5 ->
  zfill (6 - f) (bin_digits (Z.shiftr (dearmor_char c) f)) = firstn (Z.to_nat (6 - f)) (sixbits c).
Proof.
  intros c f Hf. unfold sixbits.
  pose proof (dearmor_char_range c) as Hr. set (v := dearmor_char c) in *.
  pose proof last_char_fill_ok as H. rewrite forallb_forall in H.
  assert (Hin : In v (map Z.of_nat (seq 0 64))).
  { apply in_map_iff. exists (Z.to_nat v). split; [lia|]. apply in_seq. lia. }
  specialize (H v Hin). rewrite forallb_forall in H.
  assert (Hf' : In f [1; 2; 3; 4; 5]) by (cbn; lia).
  specialize (H f Hf'). destruct (list_eq_dec _ _ _) as [E|]; [exact E|discriminate].
Qed.

(* the general characterisation: the bits of all characters, minus the [f] fill bits at the end *)
Lemma dearmor_char_list : forall p f, forallb printable p = true -> 0 <= f <= 5 -> (f = 0 \/ p <> []) ->
  decode_into_bit_array p f = Ok (firstn (6 * length p - Z.to_nat f) (all_sixbits p)).
Proof.
  intros p f Hp Hf Hne.
  destruct (Z.eq_dec f 0) as [->|Hf0].
  - rewrite dearmor_nofill by exact Hp. f_equal. cbn [Z.to_nat]. rewrite Nat.sub_0_r.
    rewrite <- all_sixbits_length. now rewrite firstn_all.
  - assert (Hp' : p <> []) by (destruct Hne; [contradiction|assumption]). clear Hne.
    revert Hp Hp'. induction p as [|c p IH]; intros Hp Hp'; [contradiction|].
    cbn [forallb] in Hp. apply andb_prop in Hp. destruct Hp as [Hc Hp].
    cbn [decode_into_bit_array]. unfold printable in Hc. rewrite Hc. cbn [negb].
    destruct p as [|d p'].
    + destruct (f =? 0) eqn:E0; [apply Z.eqb_eq in E0; contradiction|].
      destruct (f <? 0) eqn:E1; [apply Z.ltb_lt in E1; lia|].
      destruct (6 - f <? SSIZE_MIN) eqn:E2; [apply Z.ltb_lt in E2; unfold SSIZE_MIN in E2; lia|].
      rewrite last_char_fill by lia. f_equal.
      cbn [all_sixbits flat_map length]. rewrite app_nil_r. f_equal. lia.
    + rewrite IH by (try exact Hp; discriminate). cbn [bind]. f_equal.
      change (all_sixbits (c :: d :: p')) with (sixbits c ++ all_sixbits (d :: p')).
      set (tl_ := d :: p') in *.
      assert (Hl : (1 <= length tl_)%nat) by (subst tl_; cbn [length]; lia).
      replace (length (c :: tl_)) with (S (length tl_)) by reflexivity.
      rewrite firstn_app. rewrite (sixbits_length c).
      rewrite (firstn_all2 (sixbits c)) by (rewrite sixbits_length; lia).
      f_equal. f_equal. lia.
Qed.

(* cutting the payload: all fragments but the last carry no fill bits *)
Theorem dearmor_app : forall p1 p2 f,
  forallb printable p1 = true -> forallb printable p2 = true -> 0 <= f <= 5 -> p2 <> [] ->
  decode_into_bit_array (p1 ++ p2) f =
  (b1 <- decode_into_bit_array p1 0 ;; b2 <- decode_into_bit_array p2 f ;; Ok (b1 ++ b2))%exn.
Proof.
  intros p1 p2 f H1 H2 Hf Hne.
  rewrite (dearmor_char_list (p1 ++ p2) f); [| rewrite forallb_app, H1, H2; reflexivity | exact Hf
                                             | right; destruct p1; [exact Hne|discriminate]].
  rewrite dearmor_nofill by exact H1. rewrite (dearmor_char_list p2 f) by (try assumption; now right).
  cbn [bind]. f_equal.
  rewrite all_sixbits_app, app_length. rewrite firstn_app, all_sixbits_length.
  rewrite firstn_all2 by (rewrite all_sixbits_length; destruct p2; [contradiction|cbn [length]; lia]).
  f_equal. f_equal. lia.
Qed.
