(* Proofs about Model/TagBlock.v: which exceptions TagBlock.init can raise (C05), and the four clauses of C16. *)
From Coq Require Import String ZArith List Bool Lia.
Require Import Prim.Exn Prim.Dict Prim.PyText Model.Sentence Model.TagBlock Spec.TagBlockSpec.
Import ListNotations.
Open Scope Z_scope.

(* ================================================================ exceptions *)
Section Raises.
  Variable uni : Z -> list Z -> option Z.

  Lemma pt_int_raises : forall base s e, pt_int uni base s = Raise e -> e = Py ValueError.
  Proof.
    intros base s e. unfold pt_int.
    destruct (if pt_is_ascii s then pt_int_ascii base s else uni base s); intro H; inversion H; reflexivity.
  Qed.

  Lemma tb_group_from_str_raises : forall raw e, tb_group_from_str uni raw = Raise e -> e = Py ValueError.
  Proof.
    intros raw e. unfold tb_group_from_str.
    destruct (pt_split_max 45 3 raw) as [|a [|b [|c [|d l]]]]; try solve [intro H; inversion H; reflexivity].
    destruct (pt_int uni 10 a) eqn:Ea; simpl; [|intro H; inversion H; subst; eapply pt_int_raises; eauto].
    destruct (pt_int uni 10 b) eqn:Eb; simpl; [|intro H; inversion H; subst; eapply pt_int_raises; eauto].
    destruct (pt_int uni 10 c) eqn:Ec; simpl; [|intro H; inversion H; subst; eapply pt_int_raises; eauto].
    discriminate.
  Qed.

  Lemma tb_parse_field_raises : forall t f e,
    tb_parse_field uni t f = Raise e -> e = Py ValueError \/ e = Py UnicodeDecodeError.
  Proof.
    intros t f e. unfold tb_parse_field.
    destruct (pt_utf8_valid f); simpl; [|intro H; inversion H; auto].
    destruct (pt_split_max 58 1 f) as [|spec [|val [|x l]]]; try solve [intro H; inversion H; auto].
    destruct (pt_list_eqb spec [103]).
    - destruct (tb_group_from_str uni val) eqn:Eg; simpl; [discriminate|].
      intro H. inversion H; subst. left. eapply tb_group_from_str_raises; eauto.
    - destruct (tb_field_name spec); discriminate.
  Qed.

  (* _parse_payload never raises: everything its loop body can raise is caught *)
  Lemma tb_parse_fields_total : forall fs t, exists t', tb_parse_fields uni t fs = Ok t'.
  Proof.
    induction fs as [|f r IH]; intro t; simpl; [eauto|].
    destruct (tb_parse_field uni t f) as [t1|e] eqn:E; simpl; [apply IH|].
    apply tb_parse_field_raises in E. destruct E; subst; simpl; apply IH.
  Qed.

  Lemma tb_init_head_raises : forall raw e,
    tb_init_head uni raw = Raise e -> e = Py ValueError \/ e = Py TypeError \/ e = Py UnicodeDecodeError.
  Proof.
    intros raw e. unfold tb_init_head.
    destruct (pt_split 42 raw) as [|payload [|check [|x l]]]; try solve [intro H; inversion H; auto].
    destruct payload as [|p0 pr]; simpl; [intro H; inversion H; auto|].
    destruct (pt_utf8_valid check); simpl; [|intro H; inversion H; auto].
    destruct (pt_int uni 16 check) eqn:Ei; simpl; [discriminate|].
    intro H. inversion H; subst. left. eapply pt_int_raises; eauto.
  Qed.

  (* the repaired init(): only InvalidNMEAMessageException *)
  Lemma tb_init_raises_only_lib : forall raw e, tb_init uni raw = Raise e -> e = Lib InvalidNMEAMessageException.
  Proof.
    intros raw e. unfold tb_init.
    destruct (tb_init_head uni raw) as [[[payload a] x]|e0] eqn:Eh; simpl.
    - unfold tb_parse_payload.
      destruct (tb_parse_fields_total (pt_split 44 payload) (mkTb a x (a =? x) [] None)) as [t' Ht].
      rewrite Ht. discriminate.
    - apply tb_init_head_raises in Eh. destruct Eh as [He|[He|He]]; subst e0; simpl; intro H; inversion H; reflexivity.
  Qed.

  (* what the code before the repair did with the inputs C05 found (no asterisk / empty content / non-hex checksum) *)
  Example unrepaired_no_asterisk : tb_init_unrepaired uni [115; 58; 120] = Raise (Py ValueError).
  Proof. reflexivity. Qed.
  Example unrepaired_two_asterisks : tb_init_unrepaired uni [97; 42; 98; 42; 99] = Raise (Py ValueError).
  Proof. reflexivity. Qed.
  Example unrepaired_empty_content : tb_init_unrepaired uni [42; 48; 48] = Raise (Py TypeError).
  Proof. reflexivity. Qed.
  Example unrepaired_non_hex : tb_init_unrepaired uni [115; 58; 120; 42; 122; 122] = Raise (Py ValueError).
  Proof. reflexivity. Qed.
  Example unrepaired_non_utf8 : tb_init_unrepaired uni [115; 58; 120; 42; 255] = Raise (Py UnicodeDecodeError).
  Proof. reflexivity. Qed.
End Raises.

(* ================================================================ text primitives *)
Lemma pt_split_app : forall sep a b, ~ In sep a -> pt_split sep (a ++ sep :: b) = a :: pt_split sep b.
Proof.
  intros sep a b. induction a as [|x a IH]; intro H; simpl.
  - now rewrite Z.eqb_refl.
  - destruct (x =? sep) eqn:E.
    + apply Z.eqb_eq in E. exfalso. apply H. now left.
    + rewrite IH; [reflexivity|]. intro HI. apply H. now right.
Qed.

Lemma pt_split_nosep : forall sep a, ~ In sep a -> pt_split sep a = [a].
Proof.
  intros sep a. induction a as [|x a IH]; intro H; simpl; [reflexivity|].
  destruct (x =? sep) eqn:E.
  - apply Z.eqb_eq in E. exfalso. apply H. now left.
  - rewrite IH; [reflexivity|]. intro HI. apply H. now right.
Qed.

Lemma pt_split_join : forall sep fs, fs <> [] -> Forall (fun f => ~ In sep f) fs -> pt_split sep (pt_join sep fs) = fs.
Proof.
  intros sep fs. induction fs as [|f r IH]; intros Hne H; [congruence|].
  inversion H; subst. simpl. destruct r as [|g r'].
  - now apply pt_split_nosep.
  - rewrite pt_split_app by assumption. f_equal. apply IH; [discriminate|assumption].
Qed.

Lemma pt_split_max_0 : forall sep b, pt_split_max sep 0 b = [b].
Proof. intros sep b. destruct b; reflexivity. Qed.

Lemma pt_split_max_app : forall sep m a b, ~ In sep a ->
  pt_split_max sep (S m) (a ++ sep :: b) = a :: pt_split_max sep m b.
Proof.
  intros sep m a b. induction a as [|x a IH]; intro H; simpl.
  - now rewrite Z.eqb_refl.
  - destruct (x =? sep) eqn:E.
    + apply Z.eqb_eq in E. exfalso. apply H. now left.
    + rewrite IH; [reflexivity|]. intro HI. apply H. now right.
Qed.

Lemma pt_split_max_nosep : forall sep m a, ~ In sep a -> pt_split_max sep m a = [a].
Proof.
  intros sep m a. destruct m as [|m]; [intros _; apply pt_split_max_0|].
  induction a as [|x a IH]; intro H; simpl; [reflexivity|].
  destruct (x =? sep) eqn:E.
  - apply Z.eqb_eq in E. exfalso. apply H. now left.
  - rewrite IH; [reflexivity|]. intro HI. apply H. now right.
Qed.

(* what a split with at least one cut looked like *)
Lemma pt_split_max_inv : forall sep m v a rest, pt_split_max sep (S m) v = a :: rest ->
  ~ In sep a /\ ((rest = [] /\ v = a) \/ (exists v', v = a ++ sep :: v' /\ rest = pt_split_max sep m v')).
Proof.
  intros sep m v. induction v as [|x v IH]; intros a rest H; simpl in H.
  - inversion H; subst. split; [intros []|]. left; auto.
  - destruct (x =? sep) eqn:E.
    + inversion H; subst. apply Z.eqb_eq in E. subst. split; [intros []|]. right. exists v. auto.
    + destruct (pt_split_max sep (S m) v) as [|h t] eqn:Es.
      * inversion H; subst. exfalso.
        destruct v; simpl in Es; [discriminate|]. destruct (z =? sep); [discriminate|].
        destruct (pt_split_max sep (S m) v); discriminate.
      * inversion H; subst. destruct (IH h rest eq_refl) as [Hn Hc]. split.
        -- intros [Hx|Hx]; [apply Z.eqb_neq in E; congruence|auto].
        -- destruct Hc as [[-> ->]|[v' [-> ->]]]; [left; auto|right; exists v'; auto].
Qed.

Lemma pt_join_in_sep : forall sep a b r, In sep (pt_join sep (a :: b :: r)).
Proof. intros. simpl. apply in_or_app. right. now left. Qed.

Lemma pt_join_notin : forall c sep fs, c <> sep -> Forall (fun f => ~ In c f) fs -> ~ In c (pt_join sep fs).
Proof.
  intros c sep fs Hc. induction fs as [|f r IH]; intro H; [intros []|].
  inversion H; subst. simpl. destruct r as [|g r']; [assumption|].
  intro HI. apply in_app_or in HI. destruct HI as [HI|[HI|HI]]; [auto|congruence|].
  apply IH in HI; auto.
Qed.

Lemma pt_join_range : forall sep fs, 0 <= sep < 256 -> Forall (Forall (fun c => 0 <= c < 256)) fs ->
  Forall (fun c => 0 <= c < 256) (pt_join sep fs).
Proof.
  intros sep fs Hs. induction fs as [|f r IH]; intro H; [constructor|].
  inversion H; subst. simpl. destruct r as [|g r']; [assumption|].
  apply Forall_app. split; [assumption|]. constructor; [assumption|]. apply IH. assumption.
Qed.

(* strip *)
Lemma pt_lstrip_nonspace : forall c r, pt_is_space c = false -> pt_lstrip (c :: r) = c :: r.
Proof. intros c r H. simpl. now rewrite H. Qed.

Lemma pt_lstrip_app : forall x y, pt_lstrip x <> [] -> pt_lstrip (x ++ y) = pt_lstrip x ++ y.
Proof.
  induction x as [|c x IH]; intros y H; simpl in *; [congruence|].
  destruct (pt_is_space c); [now apply IH|reflexivity].
Qed.

Lemma pt_lstrip_has_nonspace : forall l c, In c l -> pt_is_space c = false -> pt_lstrip l <> [].
Proof.
  induction l as [|x l IH]; intros c Hin Hc; [destruct Hin|]. simpl.
  destruct (pt_is_space x) eqn:E; [|discriminate].
  destruct Hin as [->|Hin]; [congruence|]. eapply IH; eauto.
Qed.

Lemma pt_rstrip_app : forall a b c, In c b -> pt_is_space c = false -> pt_rstrip (a ++ b) = a ++ pt_rstrip b.
Proof.
  intros a b c Hin Hc. unfold pt_rstrip. rewrite rev_app_distr.
  rewrite pt_lstrip_app by (apply pt_lstrip_has_nonspace with c; [now apply in_rev in Hin|assumption]).
  rewrite rev_app_distr, rev_involutive. reflexivity.
Qed.

Lemma pt_strip_all_nonspace : forall l, l <> [] -> Forall (fun c => pt_is_space c = false) l -> pt_strip l = l.
Proof.
  intros l Hne H. unfold pt_strip. destruct l as [|c r]; [congruence|].
  inversion H; subst. rewrite pt_lstrip_nonspace by assumption.
  unfold pt_rstrip. destruct (rev (c :: r)) as [|d r'] eqn:Er.
  - apply (f_equal (@rev Z)) in Er. rewrite rev_involutive in Er. discriminate.
  - assert (Hd : pt_is_space d = false).
    { rewrite Forall_forall in H. apply H. apply in_rev. rewrite Er. now left. }
    rewrite pt_lstrip_nonspace by assumption. rewrite <- Er. apply rev_involutive.
Qed.

(* find / slices *)
Lemma pt_find_app : forall c a b, ~ In c a -> pt_find c (a ++ c :: b) = Z.of_nat (length a).
Proof.
  intros c a b. induction a as [|x a IH]; intro H.
  - simpl. now rewrite Z.eqb_refl.
  - simpl pt_find. destruct (x =? c) eqn:E.
    + apply Z.eqb_eq in E. exfalso. apply H. now left.
    + rewrite IH by (intro HI; apply H; now right).
      destruct (Z.of_nat (length a) <? 0) eqn:El; [apply Z.ltb_lt in El; lia|].
      simpl length. lia.
Qed.

Lemma firstn_app_exact : forall (a b : list Z), firstn (length a) (a ++ b) = a.
Proof. induction a as [|x a IH]; intro b; simpl; [reflexivity|now rewrite IH]. Qed.

Lemma skipn_app_exact : forall (a b : list Z), skipn (length a) (a ++ b) = b.
Proof. induction a as [|x a IH]; intro b; simpl; auto. Qed.

(* UTF-8: ASCII bytes are single characters *)
Lemma pt_utf8_cons_ascii : forall c r, c < 128 -> pt_utf8_valid (c :: r) = pt_utf8_valid r.
Proof. intros c r H. simpl. apply Z.ltb_lt in H. now rewrite H. Qed.

Lemma pt_utf8_app_ascii : forall a b, Forall (fun c => c < 128) a -> pt_utf8_valid (a ++ b) = pt_utf8_valid b.
Proof.
  induction a as [|c a IH]; intros b H; [reflexivity|]. inversion H; subst.
  rewrite <- app_comm_cons, pt_utf8_cons_ascii by assumption. now apply IH.
Qed.

Lemma pt_list_eqb_eq : forall a b, pt_list_eqb a b = true <-> a = b.
Proof.
  induction a as [|x a IH]; destruct b as [|y b]; simpl; split; intro H; try congruence; try discriminate.
  - apply andb_true_iff in H. destruct H as [H1 H2]. apply Z.eqb_eq in H1. apply IH in H2. congruence.
  - inversion H; subst. rewrite Z.eqb_refl. simpl. now apply IH.
Qed.

(* XOR *)
Lemma fold_left_lxor : forall r x, fold_left Z.lxor r x = Z.lxor x (tbs_xor r).
Proof.
  induction r as [|y r IH]; intro x; simpl.
  - now rewrite Z.lxor_0_r.
  - rewrite IH. now rewrite Z.lxor_assoc.
Qed.

Lemma pt_reduce_xor_spec : forall b, b <> [] -> pt_reduce_xor b = Ok (tbs_xor b).
Proof. intros [|x r] H; [congruence|]. simpl. now rewrite fold_left_lxor. Qed.

Lemma lxor_byte : forall a b, 0 <= a < 256 -> 0 <= b < 256 -> 0 <= Z.lxor a b < 256.
Proof.
  intros a b Ha Hb.
  assert (H0 : 0 <= Z.lxor a b) by (apply Z.lxor_nonneg; lia).
  split; [assumption|].
  destruct (Z.eq_dec (Z.lxor a b) 0) as [->|Hz]; [lia|].
  change 256 with (2 ^ 8). apply Z.log2_lt_pow2; [lia|].
  pose proof (Z.log2_lxor a b ltac:(lia) ltac:(lia)) as Hl.
  assert (Z.log2 a < 8).
  { destruct (Z.eq_dec a 0) as [->|Hn]; [simpl; lia|]. apply Z.log2_lt_pow2; lia. }
  assert (Z.log2 b < 8).
  { destruct (Z.eq_dec b 0) as [->|Hn]; [simpl; lia|]. apply Z.log2_lt_pow2; lia. }
  lia.
Qed.

Lemma tbs_xor_byte : forall b, Forall (fun c => 0 <= c < 256) b -> 0 <= tbs_xor b < 256.
Proof.
  induction b as [|x r IH]; intro H; simpl; [lia|]. inversion H; subst. apply lxor_byte; auto.
Qed.

(* hex(x)[2:].upper() reads back as x with int(.., 16); its characters are plain ASCII hex digits *)
Definition hex_check (x : Z) : bool :=
  let h := pt_hex_upper x in
  match pt_int_ascii 16 h with Some v => v =? x | None => false end
  && pt_is_ascii h && pt_utf8_valid h && negb (existsb (Z.eqb 42) h).

Lemma hex_roundtrip_all : forallb (fun n => hex_check (Z.of_nat n)) (seq 0 256) = true.
Proof. vm_compute. reflexivity. Qed.

Lemma hex_roundtrip : forall x, 0 <= x < 256 -> hex_check x = true.
Proof.
  intros x H. pose proof hex_roundtrip_all as Ha. rewrite forallb_forall in Ha.
  specialize (Ha (Z.to_nat x)). rewrite Z2Nat.id in Ha by lia. apply Ha. apply in_seq. lia.
Qed.

(* ================================================================ int() of a run of ASCII digits *)
Definition is_dec_digit (c : Z) : Prop := 48 <= c <= 57.

Lemma digit_facts : forall c, is_dec_digit c ->
  pt_is_space c = false /\ (c =? 43) = false /\ (c =? 45) = false /\ (c =? 95) = false /\ (c <? 128) = true /\
  pt_digit_val c = c - 48 /\ (pt_digit_val c <? 10) = true.
Proof.
  intros c H. unfold is_dec_digit in H. unfold pt_is_space, pt_digit_val.
  assert (E1 : (48 <=? c) = true) by (apply Z.leb_le; lia).
  assert (E2 : (c <=? 57) = true) by (apply Z.leb_le; lia).
  rewrite E1, E2. simpl.
  repeat split; try (apply Z.eqb_neq; lia); try (apply Z.ltb_lt; lia).
  assert ((c =? 32) = false) by (apply Z.eqb_neq; lia).
  assert ((c <=? 13) = false) by (apply Z.leb_gt; lia).
  rewrite H0, H1. now rewrite andb_false_r.
Qed.

Lemma pt_int_body_digits : forall r acc cnt, Forall is_dec_digit r ->
  pt_int_body 10 acc cnt r = Some (fold_left (fun a d => a * 10 + (d - 48)) r acc, cnt + Z.of_nat (length r)).
Proof.
  induction r as [|c r IH]; intros acc cnt H.
  - simpl. f_equal. f_equal. lia.
  - inversion H; subst. destruct (digit_facts c H2) as (_ & _ & _ & Hu & _ & Hv & Hlt).
    simpl pt_int_body. rewrite Hu, Hlt, Hv. rewrite IH by assumption.
    f_equal. f_equal. simpl length. lia.
Qed.

Section Ints.
  Variable uni : Z -> list Z -> option Z.

  Lemma pt_int_digits : forall ds, tbs_digits ds -> pt_int uni 10 ds = Ok (tbs_dec_val ds).
  Proof.
    intros ds (Hne & Hd & Hlen).
    assert (Hd' : Forall is_dec_digit ds) by exact Hd.
    unfold pt_int.
    assert (Hasc : pt_is_ascii ds = true).
    { unfold pt_is_ascii. apply forallb_forall. intros c Hc. rewrite Forall_forall in Hd'.
      now destruct (digit_facts c (Hd' c Hc)) as (_ & _ & _ & _ & ? & _). }
    rewrite Hasc. unfold pt_int_ascii.
    rewrite pt_strip_all_nonspace; [|assumption|].
    2:{ rewrite Forall_forall in *. intros c Hc. now destruct (digit_facts c (Hd' c Hc)). }
    destruct ds as [|c r]; [congruence|]. inversion Hd'; subst.
    destruct (digit_facts c H1) as (_ & Hp & Hm & _ & _ & Hv & Hlt).
    rewrite Hp, Hm. simpl snd. simpl fst.
    change (10 =? 16) with false. cbv iota.
    rewrite Hlt, Hv. rewrite pt_int_body_digits by assumption.
    change (10 =? 10) with true. cbn [andb].
    assert (Hc : (pt_max_str_digits <? 1 + Z.of_nat (length r)) = false).
    { apply Z.ltb_ge. unfold pt_max_str_digits. simpl in Hlen. lia. }
    rewrite Hc. unfold tbs_dec_val. simpl fold_left. reflexivity.
  Qed.

  Lemma digits_no_dash : forall ds, Forall is_dec_digit ds -> ~ In 45 ds.
  Proof. intros ds H HI. rewrite Forall_forall in H. apply H in HI. unfold is_dec_digit in HI. lia. Qed.

  Lemma tb_group_from_str_text : forall v g, tbs_group_text v g -> tb_group_from_str uni v = Ok g.
  Proof.
    intros v g (a & b & c & -> & Ha & Hb & Hc & ->).
    unfold tb_group_from_str.
    assert (Na : ~ In 45 a) by (apply digits_no_dash; apply Ha).
    assert (Nb : ~ In 45 b) by (apply digits_no_dash; apply Hb).
    assert (Nc : ~ In 45 c) by (apply digits_no_dash; apply Hc).
    rewrite pt_split_max_app by assumption. rewrite pt_split_max_app by assumption.
    rewrite pt_split_max_nosep by assumption.
    rewrite (pt_int_digits a Ha), (pt_int_digits b Hb), (pt_int_digits c Hc). reflexivity.
  Qed.
End Ints.

(* ================================================================ the field-code table *)
Definition code_entry_ok (nc : string * list Z) : bool :=
  let '(name, code) := nc in
  forallb (fun c => (0 <=? c) && (c <? 128) && negb (c =? 58) && negb (c =? 44) && negb (c =? 42)) code
  && Bool.eqb (pt_list_eqb code [103]) (String.eqb name "group")
  && match tb_field_name code with Some n => String.eqb n name | None => false end
  && tbs_supported name
  && match dict_get tb_field_codes name with Some c => pt_list_eqb c code | None => false end.

Lemma table_ok : forallb code_entry_ok tb_field_codes = true.
Proof. vm_compute. reflexivity. Qed.

Lemma dict_get_in : forall (V : Type) (d : list (string * V)) k v, dict_get d k = Some v -> In (k, v) d.
Proof.
  intros V d. induction d as [|[k0 v0] r IH]; intros k v H; simpl in H; [discriminate|].
  destruct (String.eqb k k0) eqn:E.
  - apply String.eqb_eq in E. inversion H; subst. now left.
  - right. now apply IH.
Qed.

Lemma code_facts : forall name code, dict_get tb_field_codes name = Some code ->
  Forall (fun c => 0 <= c < 128) code /\ ~ In 58 code /\ ~ In 44 code /\ ~ In 42 code /\
  pt_list_eqb code [103] = String.eqb name "group" /\ tb_field_name code = Some name /\ tbs_supported name = true.
Proof.
  intros name code H. apply dict_get_in in H.
  pose proof table_ok as T. rewrite forallb_forall in T. specialize (T _ H). unfold code_entry_ok in T.
  repeat (apply andb_true_iff in T; destruct T as [T ?]).
  rewrite forallb_forall in T.
  assert (Hc : forall c, In c code -> 0 <= c < 128 /\ c <> 58 /\ c <> 44 /\ c <> 42).
  { intros c Hc. specialize (T c Hc). repeat (apply andb_true_iff in T; destruct T as [T ?]).
    apply Z.leb_le in T. apply Z.ltb_lt in H7.
    apply negb_true_iff in H6, H5, H4. apply Z.eqb_neq in H6, H5, H4. lia. }
  repeat split.
  - apply Forall_forall. intros c Hi. apply Hc in Hi. lia.
  - intro Hi. apply Hc in Hi. lia.
  - intro Hi. apply Hc in Hi. lia.
  - intro Hi. apply Hc in Hi. lia.
  - now apply Bool.eqb_prop.
  - destruct (tb_field_name code); [|discriminate]. apply String.eqb_eq in H2. now subst.
  - assumption.
Qed.

Lemma supported_has_code : forall name, tbs_supported name = true -> exists code, dict_get tb_field_codes name = Some code.
Proof.
  intros name H. unfold tbs_supported in H. apply existsb_exists in H. destruct H as (n & Hin & He).
  apply String.eqb_eq in He. subst n. simpl in Hin.
  repeat (destruct Hin as [<-|Hin]; [vm_compute; eauto|]). destruct Hin.
Qed.

(* tb_field_name only answers for the seven codes *)
Lemma field_name_known : forall spec name, tb_field_name spec = Some name -> In spec tbs_known_codes.
Proof.
  intros spec name H. unfold tb_field_name in H.
  destruct (find (fun nc => pt_list_eqb (snd nc) spec) (rev tb_field_codes)) as [nc|] eqn:F; [|discriminate].
  apply find_some in F. destruct F as [Hin He]. apply pt_list_eqb_eq in He. subst spec.
  simpl in Hin. repeat (destruct Hin as [<-|Hin]; [vm_compute; tauto|]). destruct Hin.
Qed.

(* ================================================================ dictionaries *)
Lemma dict_get_set_same : forall (V : Type) (d : list (string * V)) k v, dict_get (dict_set d k v) k = Some v.
Proof.
  intros V d. induction d as [|[k0 v0] r IH]; intros k v; simpl.
  - now rewrite String.eqb_refl.
  - destruct (String.eqb k k0) eqn:E; simpl; rewrite E; auto.
Qed.

Lemma dict_get_set_other : forall (V : Type) (d : list (string * V)) k v k', k' <> k ->
  dict_get (dict_set d k v) k' = dict_get d k'.
Proof.
  intros V d. induction d as [|[k0 v0] r IH]; intros k v k' H; simpl.
  - destruct (String.eqb k' k) eqn:E; auto. apply String.eqb_eq in E. congruence.
  - destruct (String.eqb k k0) eqn:E; simpl.
    + apply String.eqb_eq in E. subst. destruct (String.eqb k' k0) eqn:E'; auto. apply String.eqb_eq in E'. congruence.
    + destruct (String.eqb k' k0); auto.
Qed.

(* ================================================================ the parse loop *)
Section Parse.
  Variable uni : Z -> list Z -> option Z.
  Open Scope exn_scope.

  (* one iteration of _parse_payload's loop, with its try/except *)
  Definition parse_one (t : tagblock) (f : list Z) : M tagblock :=
    try_except (tb_parse_field uni t f) [HPy ValueError; HPy UnicodeDecodeError] (fun _ => Ok t).

  Lemma parse_one_total : forall t f, exists t', parse_one t f = Ok t'.
  Proof.
    intros t f. unfold parse_one. destruct (tb_parse_field uni t f) as [t1|e] eqn:E; simpl; [eauto|].
    apply tb_parse_field_raises in E. destruct E; subst; simpl; eauto.
  Qed.

  Lemma tb_parse_fields_app : forall l1 l2 t,
    tb_parse_fields uni t (l1 ++ l2) = bind (tb_parse_fields uni t l1) (fun t' => tb_parse_fields uni t' l2).
  Proof.
    induction l1 as [|f r IH]; intros l2 t; simpl; [reflexivity|].
    fold (parse_one t f). destruct (parse_one t f); simpl; [apply IH|reflexivity].
  Qed.

  Lemma tb_parse_fields_one : forall t f, tb_parse_fields uni t [f] = parse_one t f.
  Proof. intros t f. simpl. fold (parse_one t f). destruct (parse_one t f); reflexivity. Qed.

  (* the parts of a tag block that the loop never touches *)
  Definition same_head (t t' : tagblock) : Prop :=
    tb_actual t' = tb_actual t /\ tb_expected t' = tb_expected t /\ tb_valid t' = tb_valid t.

  Lemma parse_one_head : forall t f t', parse_one t f = Ok t' -> same_head t t'.
  Proof.
    intros t f t'. unfold parse_one, tb_parse_field.
    destruct (pt_utf8_valid f); simpl; [|intro H; inversion H; subst; repeat split].
    destruct (pt_split_max 58 1 f) as [|spec [|val [|x l]]]; simpl;
      try solve [intro H; inversion H; subst; repeat split].
    destruct (pt_list_eqb spec [103]).
    - destruct (tb_group_from_str uni val) as [g|e] eqn:Eg; simpl.
      + intro H; inversion H; subst; repeat split.
      + apply tb_group_from_str_raises in Eg. subst. simpl. intro H; inversion H; subst; repeat split.
    - destruct (tb_field_name spec); simpl; intro H; inversion H; subst; repeat split.
  Qed.

  Lemma tb_parse_fields_head : forall fs t t', tb_parse_fields uni t fs = Ok t' -> same_head t t'.
  Proof.
    induction fs as [|f r IH]; intros t t' H; simpl in H.
    - inversion H; subst. repeat split.
    - fold (parse_one t f) in H. destruct (parse_one t f) as [t1|e] eqn:E; simpl in H; [|discriminate].
      apply parse_one_head in E. apply IH in H. unfold same_head in *. intuition congruence.
  Qed.

  (* the loop looks at the attributes and the group only *)
  Definition same_fields (t t' : tagblock) : Prop := tb_attrs t = tb_attrs t' /\ tb_group t = tb_group t'.

  Lemma parse_one_fields : forall t u f, same_fields t u ->
    exists t' u', parse_one t f = Ok t' /\ parse_one u f = Ok u' /\ same_fields t' u'.
  Proof.
    intros t u f [Ha Hg]. unfold parse_one, tb_parse_field.
    destruct (pt_utf8_valid f); simpl; [|exists t, u; repeat split; assumption].
    destruct (pt_split_max 58 1 f) as [|spec [|val [|x l]]]; simpl;
      try solve [exists t, u; repeat split; assumption].
    destruct (pt_list_eqb spec [103]).
    - destruct (tb_group_from_str uni val) as [g|e] eqn:Eg; simpl.
      + eexists _, _. repeat split; simpl; assumption.
      + apply tb_group_from_str_raises in Eg. subst. simpl. exists t, u; repeat split; assumption.
    - destruct (tb_field_name spec); simpl.
      + eexists _, _. repeat split; simpl; [now rewrite Ha|assumption].
      + exists t, u; repeat split; assumption.
  Qed.

  Lemma tb_parse_fields_fields : forall fs t u, same_fields t u ->
    exists t' u', tb_parse_fields uni t fs = Ok t' /\ tb_parse_fields uni u fs = Ok u' /\ same_fields t' u'.
  Proof.
    induction fs as [|f r IH]; intros t u H; simpl.
    - exists t, u. auto.
    - fold (parse_one t f). fold (parse_one u f).
      destruct (parse_one_fields t u f H) as (t1 & u1 & -> & -> & H1). simpl. now apply IH.
  Qed.

  (* ---- a field made by create() ---- *)
  Lemma parse_created_text : forall t name code v,
    dict_get tb_field_codes name = Some code -> name <> "group"%string -> pt_utf8_valid v = true ->
    parse_one t (code ++ 58 :: v) = Ok (tb_set_attr t name v).
  Proof.
    intros t name code v Hc Hn Hv.
    destruct (code_facts name code Hc) as (Hasc & H58 & _ & _ & Hg & Hname & _).
    unfold parse_one, tb_parse_field.
    rewrite pt_utf8_app_ascii by (eapply Forall_impl; [|exact Hasc]; simpl; intros; lia).
    rewrite pt_utf8_cons_ascii by lia. rewrite Hv. simpl negb. cbv iota.
    rewrite pt_split_max_app by assumption. rewrite pt_split_max_0.
    rewrite Hg. assert (E : String.eqb name "group" = false) by (now apply String.eqb_neq). rewrite E.
    rewrite Hname. reflexivity.
  Qed.

  Lemma parse_created_group : forall t code v g,
    dict_get tb_field_codes "group"%string = Some code -> pt_utf8_valid v = true -> tbs_group_text v g ->
    parse_one t (code ++ 58 :: v) = Ok (tb_set_group t g).
  Proof.
    intros t code v g Hc Hv Hgt.
    destruct (code_facts _ code Hc) as (Hasc & H58 & _ & _ & Hg & _ & _).
    unfold parse_one, tb_parse_field.
    rewrite pt_utf8_app_ascii by (eapply Forall_impl; [|exact Hasc]; simpl; intros; lia).
    rewrite pt_utf8_cons_ascii by lia. rewrite Hv. simpl negb. cbv iota.
    rewrite pt_split_max_app by assumption. rewrite pt_split_max_0.
    rewrite Hg. change (String.eqb "group" "group") with true. cbv iota.
    rewrite (tb_group_from_str_text uni v g Hgt). reflexivity.
  Qed.
End Parse.

(* ================================================================ init() of a well-formed tag block *)
Section Init.
  Variable uni : Z -> list Z -> option Z.
  Local Opaque tb_field_codes.

  Lemma tb_init_wellformed : forall content check e,
    content <> [] -> ~ In 42 content -> ~ In 42 check -> pt_utf8_valid check = true -> pt_int uni 16 check = Ok e ->
    tb_init uni (content ++ 42 :: check) =
    tb_parse_fields uni (mkTb (tbs_xor content) e (tbs_xor content =? e) [] None) (pt_split 44 content).
  Proof.
    intros content check e Hne Hc Hk Hu Hi. unfold tb_init, tb_init_head.
    rewrite pt_split_app by assumption. rewrite pt_split_nosep by assumption.
    rewrite pt_reduce_xor_spec by assumption. simpl bind. rewrite Hu, Hi. reflexivity.
  Qed.

  (* ---- clause 1: create then init ---- *)
  Definition pair_ok (p : list Z) : Prop :=
    Forall (fun c => 0 <= c < 256) p /\ ~ In 44 p /\ ~ In 42 p /\ p <> [].

  Lemma created_pair_ok : forall name code v, dict_get tb_field_codes name = Some code -> tbs_text_ok v ->
    pair_ok (code ++ 58 :: v).
  Proof.
    intros name code v Hc (Hr & _ & H44 & H42).
    destruct (code_facts name code Hc) as (Hasc & _ & C44 & C42 & _).
    repeat split.
    - apply Forall_app. split; [eapply Forall_impl; [|exact Hasc]; simpl; intros; lia|].
      constructor; [lia|assumption].
    - intro Hi. apply in_app_or in Hi. destruct Hi as [Hi|[Hi|Hi]]; [auto|discriminate|auto].
    - intro Hi. apply in_app_or in Hi. destruct Hi as [Hi|[Hi|Hi]]; [auto|discriminate|auto].
    - destruct code; discriminate.
  Qed.

  Lemma create_pairs_cons : forall kv r, tb_create_pairs (kv :: r) = tb_create_pairs [kv] ++ tb_create_pairs r.
  Proof. intros. unfold tb_create_pairs. simpl. now rewrite app_nil_r. Qed.

  Lemma create_pairs_app : forall a b, tb_create_pairs (a ++ b) = tb_create_pairs a ++ tb_create_pairs b.
  Proof. intros. unfold tb_create_pairs. apply flat_map_app. Qed.

  Lemma create_pairs_ok : forall fs, Forall tbs_field_ok fs -> Forall pair_ok (tb_create_pairs fs).
  Proof.
    induction fs as [|[k ov] r IH]; intro H; [constructor|].
    inversion H; subst. rewrite create_pairs_cons. apply Forall_app. split; [|auto].
    unfold tb_create_pairs. simpl.
    destruct ov as [v|]; [|constructor].
    destruct (dict_get tb_field_codes k) as [code|] eqn:Ec; [|constructor].
    constructor; [|constructor].
    destruct (code_facts k code Ec) as (_ & _ & _ & _ & _ & _ & Hs).
    unfold tbs_field_ok in H2. simpl in H2. destruct (H2 Hs) as [Ht _].
    eapply created_pair_ok; eauto.
  Qed.

  Lemma some_field_pairs : forall fs, tbs_some_field fs -> tb_create_pairs fs <> [].
  Proof.
    intros fs (name & v & Hin & Hs) He.
    destruct (supported_has_code name Hs) as [code Hc].
    assert (Hi : In (code ++ 58 :: v) (tb_create_pairs fs)).
    { unfold tb_create_pairs. apply in_flat_map. exists (name, Some v). split; [assumption|].
      simpl. rewrite Hc. now left. }
    rewrite He in Hi. destruct Hi.
  Qed.

  Lemma join_pairs_nonempty : forall ps, ps <> [] -> Forall pair_ok ps -> pt_join 44 ps <> [].
  Proof.
    intros [|p r] Hne H; [congruence|]. inversion H; subst. destruct H2 as (_ & _ & _ & Hp).
    simpl. destruct r; [assumption|]. destruct p; [congruence|discriminate].
  Qed.

  Lemma tbs_value_snoc : forall fs kv name,
    tbs_value (fs ++ [kv]) name =
    if String.eqb (fst kv) name then match snd kv with Some v => Some v | None => tbs_value fs name end
    else tbs_value fs name.
  Proof. intros. unfold tbs_value. now rewrite fold_left_app. Qed.

  Definition roundtrip_post (fs : tbs_fields) (t : tagblock) : Prop :=
    (forall name, In name tbs_text_fields -> tb_attr t name = tbs_value fs name) /\
    (forall v, tbs_value fs tbs_group_field = Some v -> forall g, tbs_group_text v g -> tb_group t = Some g) /\
    (tbs_value fs tbs_group_field = None -> tb_group t = None).

  Lemma text_field_not_group : forall name, In name tbs_text_fields -> name <> "group"%string.
  Proof. intros name H. simpl in H. repeat (destruct H as [<-|H]; [discriminate|]). destruct H. Qed.

  Lemma text_field_supported : forall name, In name tbs_text_fields -> tbs_supported name = true.
  Proof. intros name H. simpl in H. repeat (destruct H as [<-|H]; [reflexivity|]). destruct H. Qed.

  Lemma parse_created : forall fs t0, tb_attrs t0 = [] -> tb_group t0 = None -> Forall tbs_field_ok fs ->
    exists t, tb_parse_fields uni t0 (tb_create_pairs fs) = Ok t /\ roundtrip_post fs t.
  Proof.
    intros fs t0 Ha0 Hg0. induction fs as [|[k ov] fs IH] using rev_ind; intro Hok.
    - exists t0. split; [reflexivity|]. repeat split.
      + intros name _. unfold tb_attr. now rewrite Ha0.
      + discriminate.
      + intros _. assumption.
    - apply Forall_app in Hok. destruct Hok as [Hfs Hkv]. inversion Hkv; subst. clear Hkv H2.
      destruct (IH Hfs) as (t1 & Hp1 & Hattr & Hgrp & Hnog).
      rewrite create_pairs_app, tb_parse_fields_app, Hp1. cbn [bind].
      unfold tbs_field_ok in H1. simpl in H1.
      destruct ov as [v|].
      2:{ (* value None: skipped by create *)
          exists t1. split; [reflexivity|]. unfold roundtrip_post. setoid_rewrite tbs_value_snoc. simpl.
          repeat split.
          - intros name Hn. destruct (String.eqb k name); auto.
          - destruct (String.eqb k tbs_group_field); auto.
          - destruct (String.eqb k tbs_group_field); auto. }
      destruct (dict_get tb_field_codes k) as [code|] eqn:Ec.
      2:{ (* unsupported keyword: skipped by create *)
          assert (Hpairs : tb_create_pairs [(k, Some v)] = []) by (unfold tb_create_pairs; simpl; now rewrite Ec).
          rewrite Hpairs. exists t1. split; [reflexivity|].
          assert (Hk : forall name, tbs_supported name = true -> String.eqb k name = false).
          { intros name Hs. apply String.eqb_neq. intros ->. destruct (supported_has_code name Hs). congruence. }
          unfold roundtrip_post. setoid_rewrite tbs_value_snoc. simpl.
          repeat split.
          - intros name Hn. rewrite (Hk name (text_field_supported name Hn)). auto.
          - rewrite (Hk tbs_group_field eq_refl). auto.
          - rewrite (Hk tbs_group_field eq_refl). auto. }
      assert (Hpairs : tb_create_pairs [(k, Some v)] = [code ++ 58 :: v]) by (unfold tb_create_pairs; simpl; now rewrite Ec).
      rewrite Hpairs, tb_parse_fields_one.
      destruct (code_facts k code Ec) as (_ & _ & _ & _ & _ & _ & Hs).
      destruct (H1 Hs) as [(Hr & Hu & H44 & H42) Hgt].
      destruct (String.eqb k "group") eqn:Ek.
      + (* the group *)
        apply String.eqb_eq in Ek. subst k. destruct (Hgt eq_refl) as [g0 Hg0t].
        rewrite (parse_created_group uni t1 code v g0 Ec Hu Hg0t).
        eexists. split; [reflexivity|]. unfold roundtrip_post. setoid_rewrite tbs_value_snoc. simpl fst. simpl snd.
        repeat split.
        * intros name Hn. assert (E : String.eqb "group" name = false).
          { apply String.eqb_neq. intro. subst. now apply text_field_not_group in Hn. }
          rewrite E. apply Hattr. assumption.
        * change (String.eqb "group" tbs_group_field) with true. cbv iota.
          intros v' Hv' g Hg. inversion Hv'; subst v'.
          pose proof (tb_group_from_str_text uni v g Hg) as E1.
          pose proof (tb_group_from_str_text uni v g0 Hg0t) as E2. rewrite E1 in E2. inversion E2. reflexivity.
        * change (String.eqb "group" tbs_group_field) with true. cbv iota. discriminate.
      + (* a text field *)
        assert (Hne : k <> "group"%string) by (now apply String.eqb_neq).
        rewrite (parse_created_text uni t1 k code v Ec Hne Hu).
        eexists. split; [reflexivity|]. unfold roundtrip_post. setoid_rewrite tbs_value_snoc. simpl fst. simpl snd.
        repeat split.
        * intros name Hn. unfold tb_attr, tb_set_attr. simpl tb_attrs.
          destruct (String.eqb k name) eqn:E.
          -- apply String.eqb_eq in E. subst. apply dict_get_set_same.
          -- rewrite dict_get_set_other by (apply String.eqb_neq in E; congruence). now apply Hattr.
        * change tbs_group_field with "group"%string. rewrite Ek. apply Hgrp.
        * change tbs_group_field with "group"%string. rewrite Ek. apply Hnog.
  Qed.

  Theorem create_init_roundtrip : forall fs,
    tbs_some_field fs -> Forall tbs_field_ok fs ->
    exists raw t,
      tb_create fs = Ok raw /\ tb_init uni raw = Ok t /\
      tb_valid t = true /\ tb_actual t = tb_expected t /\
      (forall name, In name tbs_text_fields -> tb_attr t name = tbs_value fs name) /\
      (forall v, tbs_value fs tbs_group_field = Some v -> forall g, tbs_group_text v g -> tb_group t = Some g) /\
      (tbs_value fs tbs_group_field = None -> tb_group t = None).
  Proof.
    intros fs Hsome Hok.
    pose proof (create_pairs_ok fs Hok) as Hp. pose proof (some_field_pairs fs Hsome) as Hne.
    set (content := pt_join 44 (tb_create_pairs fs)).
    assert (Hcne : content <> []) by (apply join_pairs_nonempty; assumption).
    assert (Hrange : Forall (fun c => 0 <= c < 256) content).
    { apply pt_join_range; [lia|]. eapply Forall_impl; [|exact Hp]. intros p H. apply H. }
    assert (H42 : ~ In 42 content).
    { apply pt_join_notin; [lia|]. eapply Forall_impl; [|exact Hp]. intros p H. apply H. }
    pose proof (tbs_xor_byte content Hrange) as Hx.
    pose proof (hex_roundtrip _ Hx) as Hh. unfold hex_check in Hh.
    repeat (apply andb_true_iff in Hh; destruct Hh as [Hh ?]).
    set (h := pt_hex_upper (tbs_xor content)) in *.
    assert (Hint : pt_int uni 16 h = Ok (tbs_xor content)).
    { unfold pt_int. rewrite H1. destruct (pt_int_ascii 16 h) as [v|]; [|discriminate].
      apply Z.eqb_eq in Hh. now subst. }
    assert (Hk : ~ In 42 h).
    { intro Hi. apply negb_true_iff in H. assert (existsb (Z.eqb 42) h = true); [|congruence].
      apply existsb_exists. exists 42. split; [assumption|apply Z.eqb_refl]. }
    exists (content ++ 42 :: h).
    assert (Hcreate : tb_create fs = Ok (content ++ 42 :: h)).
    { unfold tb_create. fold content. rewrite pt_reduce_xor_spec by assumption. reflexivity. }
    rewrite (tb_init_wellformed content h _ Hcne H42 Hk H0 Hint).
    assert (Hsplit : pt_split 44 content = tb_create_pairs fs).
    { unfold content. apply pt_split_join; [assumption|].
      eapply Forall_impl; [|exact Hp]. intros p Hq. apply Hq. }
    rewrite Hsplit.
    destruct (parse_created fs (mkTb (tbs_xor content) (tbs_xor content) (tbs_xor content =? tbs_xor content) [] None)
                eq_refl eq_refl Hok) as (t & Ht & Hpost).
    exists t. split; [assumption|]. split; [assumption|].
    destruct (tb_parse_fields_head uni _ _ _ Ht) as (Ea & Ee & Ev). simpl in Ea, Ee, Ev.
    split; [rewrite Ev; apply Z.eqb_refl|]. split; [congruence|]. exact Hpost.
  Qed.
End Init.

(* ================================================================ clause 2: valid iff checksum = XOR *)
Definition hex_digit_list : list Z :=
  [48; 49; 50; 51; 52; 53; 54; 55; 56; 57; 65; 66; 67; 68; 69; 70; 97; 98; 99; 100; 101; 102].

Lemma is_hex_in : forall h, tbs_is_hex h -> In h hex_digit_list.
Proof. intros h H. unfold tbs_is_hex in H. simpl. lia. Qed.

Definition hex2_check (h1 h2 : Z) : bool :=
  match pt_int_ascii 16 [h1; h2] with Some v => v =? 16 * tbs_hex_val h1 + tbs_hex_val h2 | None => false end
  && pt_is_ascii [h1; h2] && pt_utf8_valid [h1; h2] && negb (h1 =? 42) && negb (h2 =? 42).

Lemma hex2_all : forallb (fun h1 => forallb (fun h2 => hex2_check h1 h2) hex_digit_list) hex_digit_list = true.
Proof. vm_compute. reflexivity. Qed.

Lemma hex2_ok : forall h1 h2, tbs_is_hex h1 -> tbs_is_hex h2 -> hex2_check h1 h2 = true.
Proof.
  intros h1 h2 H1 H2. pose proof hex2_all as A. rewrite forallb_forall in A.
  specialize (A h1 (is_hex_in h1 H1)). rewrite forallb_forall in A. exact (A h2 (is_hex_in h2 H2)).
Qed.

Section Clauses.
  Variable uni : Z -> list Z -> option Z.

  Lemma hex2_facts : forall h1 h2, tbs_is_hex h1 -> tbs_is_hex h2 ->
    pt_int uni 16 [h1; h2] = Ok (16 * tbs_hex_val h1 + tbs_hex_val h2) /\
    pt_utf8_valid [h1; h2] = true /\ ~ In 42 [h1; h2].
  Proof.
    intros h1 h2 H1 H2. pose proof (hex2_ok h1 h2 H1 H2) as C. unfold hex2_check in C.
    repeat (apply andb_true_iff in C; destruct C as [C ?]).
    repeat split.
    - unfold pt_int. rewrite H4. destruct (pt_int_ascii 16 [h1; h2]); [|discriminate].
      apply Z.eqb_eq in C. now subst.
    - assumption.
    - apply negb_true_iff in H, H0. apply Z.eqb_neq in H, H0. intros [Hi|[Hi|[]]]; congruence.
  Qed.

  Theorem valid_iff_checksum : forall payload h1 h2,
    payload <> [] -> ~ In 42 payload -> tbs_is_hex h1 -> tbs_is_hex h2 ->
    exists t, tb_init uni (payload ++ [42; h1; h2]) = Ok t /\
      tb_actual t = tbs_xor payload /\
      tb_expected t = 16 * tbs_hex_val h1 + tbs_hex_val h2 /\
      tb_valid t = (tbs_xor payload =? 16 * tbs_hex_val h1 + tbs_hex_val h2).
  Proof.
    intros payload h1 h2 Hne H42 H1 H2.
    destruct (hex2_facts h1 h2 H1 H2) as (Hi & Hu & Hk).
    change (payload ++ [42; h1; h2]) with (payload ++ 42 :: [h1; h2]).
    rewrite (tb_init_wellformed uni payload [h1; h2] _ Hne H42 Hk Hu Hi).
    destruct (tb_parse_fields_total uni (pt_split 44 payload)
                (mkTb (tbs_xor payload) (16 * tbs_hex_val h1 + tbs_hex_val h2)
                      (tbs_xor payload =? 16 * tbs_hex_val h1 + tbs_hex_val h2) [] None)) as [t Ht].
    exists t. split; [assumption|].
    destruct (tb_parse_fields_head uni _ _ _ Ht) as (Ea & Ee & Ev). simpl in Ea, Ee, Ev. auto.
  Qed.

  (* ================================================================ clause 3: unknown / malformed fields *)
  Lemma tb_group_from_str_inv : forall val g, tb_group_from_str uni val = Ok g -> tbs_wellformed_group uni val.
  Proof.
    intros val g. unfold tb_group_from_str.
    destruct (pt_split_max 45 3 val) as [|a [|b [|c [|d l]]]] eqn:Es; try discriminate.
    destruct (pt_int uni 10 a) as [x|] eqn:Ea; simpl; [|discriminate].
    destruct (pt_int uni 10 b) as [y|] eqn:Eb; simpl; [|discriminate].
    destruct (pt_int uni 10 c) as [z|] eqn:Ec; simpl; [|discriminate].
    intros _.
    apply pt_split_max_inv in Es. destruct Es as [Na [[Hr _]|(v1 & -> & E1)]]; [discriminate|].
    symmetry in E1. apply pt_split_max_inv in E1. destruct E1 as [Nb [[Hr _]|(v2 & -> & E2)]]; [discriminate|].
    symmetry in E2. apply pt_split_max_inv in E2. destruct E2 as [Nc [[_ ->]|(v3 & _ & E3)]].
    - exists a, b, c, x, y, z. repeat split; assumption.
    - rewrite pt_split_max_0 in E3. discriminate.
  Qed.

  Lemma parse_one_extra : forall t f, tbs_extra_field uni f -> parse_one uni t f = Ok t.
  Proof.
    intros t f H. unfold parse_one, tb_parse_field.
    destruct (pt_utf8_valid f) eqn:Eu; simpl; [|reflexivity].
    destruct H as [H|[H|[(spec & val & -> & Hs & Hk)|(val & -> & Hb)]]].
    - congruence.
    - rewrite pt_split_max_nosep by assumption. reflexivity.
    - rewrite pt_split_max_app by assumption. rewrite pt_split_max_0.
      destruct (pt_list_eqb spec [103]) eqn:Eg.
      + apply pt_list_eqb_eq in Eg. subst. exfalso. apply Hk. vm_compute. tauto.
      + destruct (tb_field_name spec) as [name|] eqn:En; [|reflexivity].
        exfalso. apply Hk. eapply field_name_known; eauto.
    - change (103 :: 58 :: val) with ([103] ++ 58 :: val).
      rewrite pt_split_max_app by (intros [Hi|[]]; discriminate). rewrite pt_split_max_0.
      change (pt_list_eqb [103] [103]) with true. cbv iota.
      destruct (tb_group_from_str uni val) as [g|e] eqn:Eg; simpl.
      + exfalso. apply Hb. eapply tb_group_from_str_inv; eauto.
      + apply tb_group_from_str_raises in Eg. subst. reflexivity.
  Qed.

  Lemma parse_fields_skip : forall t fs1 junk fs2, tbs_extra_field uni junk ->
    tb_parse_fields uni t (fs1 ++ junk :: fs2) = tb_parse_fields uni t (fs1 ++ fs2).
  Proof.
    intros t fs1 junk fs2 H. rewrite !tb_parse_fields_app.
    destruct (tb_parse_fields uni t fs1) as [t1|e]; simpl; [|reflexivity].
    fold (parse_one uni t1 junk). rewrite parse_one_extra by assumption. reflexivity.
  Qed.

  Theorem extras_ignored : forall fs1 junk fs2 h1 h2 h1' h2',
    Forall (fun f => ~ In 44 f /\ ~ In 42 f) (fs1 ++ junk :: fs2) ->
    tbs_extra_field uni junk ->
    pt_join 44 (fs1 ++ fs2) <> [] ->
    tbs_is_hex h1 -> tbs_is_hex h2 -> tbs_is_hex h1' -> tbs_is_hex h2' ->
    exists t t',
      tb_init uni (pt_join 44 (fs1 ++ fs2) ++ [42; h1; h2]) = Ok t /\
      tb_init uni (pt_join 44 (fs1 ++ junk :: fs2) ++ [42; h1'; h2']) = Ok t' /\
      (forall name, tb_attr t' name = tb_attr t name) /\ tb_group t' = tb_group t.
  Proof.
    intros fs1 junk fs2 h1 h2 h1' h2' Hsep Hx Hne H1 H2 H1' H2'.
    assert (Hsep' : Forall (fun f => ~ In 44 f /\ ~ In 42 f) (fs1 ++ fs2)).
    { apply Forall_app in Hsep. destruct Hsep as [Ha Hb]. inversion Hb; subst. apply Forall_app. auto. }
    assert (Hl : fs1 ++ fs2 <> []) by (intro E; rewrite E in Hne; apply Hne; reflexivity).
    assert (Hne' : pt_join 44 (fs1 ++ junk :: fs2) <> []).
    { assert (exists a b r, fs1 ++ junk :: fs2 = a :: b :: r) as (a & b & r & E).
      { destruct fs1 as [|a [|b r]]; simpl in *.
        - destruct fs2 as [|b r]; [congruence|]. eauto.
        - eauto.
        - eauto. }
      rewrite E. intro E0. pose proof (pt_join_in_sep 44 a b r) as Hi. rewrite E0 in Hi. destruct Hi. }
    assert (N1 : ~ In 42 (pt_join 44 (fs1 ++ fs2))).
    { apply pt_join_notin; [lia|]. eapply Forall_impl; [|exact Hsep']. simpl. tauto. }
    assert (N2 : ~ In 42 (pt_join 44 (fs1 ++ junk :: fs2))).
    { apply pt_join_notin; [lia|]. eapply Forall_impl; [|exact Hsep]. simpl. tauto. }
    destruct (hex2_facts h1 h2 H1 H2) as (Hi & Hu & Hk).
    destruct (hex2_facts h1' h2' H1' H2') as (Hi' & Hu' & Hk').
    change (?c ++ [42; h1; h2]) with (c ++ 42 :: [h1; h2]).
    change (?c ++ [42; h1'; h2']) with (c ++ 42 :: [h1'; h2']).
    rewrite (tb_init_wellformed uni _ [h1; h2] _ Hne N1 Hk Hu Hi).
    rewrite (tb_init_wellformed uni _ [h1'; h2'] _ Hne' N2 Hk' Hu' Hi').
    rewrite pt_split_join; [|assumption|eapply Forall_impl; [|exact Hsep']; simpl; tauto].
    rewrite pt_split_join; [|destruct fs1; discriminate|eapply Forall_impl; [|exact Hsep]; simpl; tauto].
    rewrite parse_fields_skip by assumption.
    match goal with |- exists t t', tb_parse_fields uni ?a _ = _ /\ tb_parse_fields uni ?b _ = _ /\ _ =>
      destruct (tb_parse_fields_fields uni (fs1 ++ fs2) a b) as (t & t' & Ht & Ht' & Ha & Hg); [split; reflexivity|] end.
    exists t, t'. repeat split; try assumption.
    - intro name. unfold tb_attr. now rewrite Ha.
    - congruence.
  Qed.
End Clauses.

Lemma pt_lstrip_snoc_nonspace : forall l c, pt_is_space c = false -> exists l', pt_lstrip (l ++ [c]) = l' ++ [c].
Proof.
  induction l as [|y l IH]; intros c Hc; simpl.
  - rewrite Hc. now exists [].
  - destruct (pt_is_space y); [now apply IH|]. now exists (y :: l).
Qed.

Lemma pt_rstrip_cons_nonspace : forall c s, pt_is_space c = false -> exists r, pt_rstrip (c :: s) = c :: r.
Proof.
  intros c s Hc. unfold pt_rstrip. simpl rev.
  destruct (pt_lstrip_snoc_nonspace (rev s) c Hc) as [l' E]. rewrite E.
  rewrite rev_app_distr. simpl. eauto.
Qed.

(* ================================================================ clause 4: the sentence behind a tag block *)
Lemma pre_process_tag_block : forall tb c s',
  ~ In 92 tb -> pt_is_space c = false -> c <> 92 ->
  tb_pre_process (92 :: tb ++ 92 :: c :: s') = Ok (pt_strip (c :: s'), Some tb) /\
  tb_pre_process (c :: s') = Ok (pt_strip (c :: s'), None).
Proof.
  intros tb c s' Htb Hc H92.
  assert (Hs : pt_strip (c :: s') = pt_rstrip (c :: s')).
  { unfold pt_strip. now rewrite pt_lstrip_nonspace. }
  assert (Hr : exists r, pt_rstrip (c :: s') = c :: r) by (now apply pt_rstrip_cons_nonspace).
  destruct Hr as [r Hr].
  split.
  - unfold tb_pre_process.
    assert (E : pt_strip (92 :: tb ++ 92 :: c :: s') = 92 :: tb ++ 92 :: pt_rstrip (c :: s')).
    { unfold pt_strip. rewrite pt_lstrip_nonspace by reflexivity.
      replace (92 :: tb ++ 92 :: c :: s') with ((92 :: tb ++ [92]) ++ c :: s')
        by (simpl; now rewrite <- app_assoc).
      rewrite (pt_rstrip_app _ (c :: s') c (or_introl eq_refl) Hc).
      simpl. now rewrite <- app_assoc. }
    rewrite E. rewrite Z.eqb_refl.
    unfold pt_slice_from, pt_slice. change (Z.to_nat 1) with 1%nat. change (Z.to_nat (0 + 1)) with 1%nat.
    cbn [skipn]. rewrite pt_find_app by assumption.
    replace (Z.to_nat (Z.of_nat (length tb) + 1 - (0 + 1))) with (length tb) by lia.
    replace (Z.to_nat (Z.of_nat (length tb) + 1 + 1)) with (S (S (length tb))) by lia.
    rewrite skipn_cons, firstn_app_exact.
    replace (skipn (S (length tb)) (tb ++ 92 :: pt_rstrip (c :: s'))) with (pt_rstrip (c :: s')).
    + now rewrite Hs.
    + replace (S (length tb)) with (length (tb ++ [92])) by (rewrite app_length; simpl; lia).
      replace (tb ++ 92 :: pt_rstrip (c :: s')) with ((tb ++ [92]) ++ pt_rstrip (c :: s'))
        by (now rewrite <- app_assoc).
      now rewrite skipn_app_exact.
  - unfold tb_pre_process. rewrite Hs, Hr.
    destruct (c =? 92) eqn:E; [apply Z.eqb_eq in E; congruence|reflexivity].
Qed.

(* produce(): with any parser of the bare sentence, the tag block only sets .tag_block *)
Theorem produce_behind_tag_block : forall (parse : list Z -> M sentence) tb c s',
  ~ In 92 tb -> pt_is_space c = false -> c <> 92 ->
  tb_produce_with parse (92 :: tb ++ 92 :: c :: s') =
  match tb with
  | [] => tb_produce_with parse (c :: s')
  | _ :: _ => mmap (fun x => sentence_set_tag_block x (Some tb)) (tb_produce_with parse (c :: s'))
  end.
Proof.
  intros parse tb c s' Htb Hc H92.
  destruct (pre_process_tag_block tb c s' Htb Hc H92) as [E1 E2].
  unfold tb_produce_with. rewrite E1, E2. simpl.
  destruct (parse (pt_strip (c :: s'))); destruct tb; reflexivity.
Qed.

(* hex(x)[2:].upper() -- one digit below 0x10 -- reads back with int(.., 16) *)
Lemma hex_int_roundtrip : forall (uni : Z -> list Z -> option Z) x, 0 <= x < 256 ->
  pt_int uni 16 (pt_hex_upper x) = Ok x /\ (x < 16 -> length (pt_hex_upper x) = 1%nat).
Proof.
  intros uni x H. pose proof (hex_roundtrip x H) as C. unfold hex_check in C.
  repeat (apply andb_true_iff in C; destruct C as [C ?]). split.
  - unfold pt_int. rewrite H2. destruct (pt_int_ascii 16 (pt_hex_upper x)); [|discriminate].
    apply Z.eqb_eq in C. now subst.
  - intro Hl. unfold pt_hex_upper.
    assert (E : x / 16 = 0) by (apply Z.div_small; lia).
    destruct (S (Z.to_nat (Z.log2 x))) eqn:En; [discriminate|]. simpl. rewrite E. reflexivity.
Qed.

(* concrete fields for the non-vacuity example: source_station="ST", text="a:b", group="1-2-3", foo="x", text=None *)
Definition ex_fields : tbs_fields :=
  [ ("source_station"%string, Some [83; 84]); ("foo"%string, Some [120]); ("text"%string, Some [97; 58; 98]);
    ("group"%string, Some [49; 45; 50; 45; 51]); ("line_count"%string, None) ].

Lemma ex_text_ok : forall v, forallb (fun c => (0 <=? c) && (c <? 256) && negb (c =? 44) && negb (c =? 42)) v = true ->
  pt_utf8_valid v = true -> tbs_text_ok v.
Proof.
  intros v H Hu. rewrite forallb_forall in H.
  assert (F : forall c, In c v -> 0 <= c < 256 /\ c <> 44 /\ c <> 42).
  { intros c Hc. specialize (H c Hc). repeat (apply andb_true_iff in H; destruct H as [H ?]).
    apply Z.leb_le in H. apply Z.ltb_lt in H2. apply negb_true_iff in H1, H0. apply Z.eqb_neq in H1, H0. lia. }
  repeat split; try assumption.
  - apply Forall_forall. intros c Hc. apply F in Hc. lia.
  - intro Hc. apply F in Hc. lia.
  - intro Hc. apply F in Hc. lia.
Qed.

Lemma ex_fields_ok : tbs_some_field ex_fields /\ Forall tbs_field_ok ex_fields.
Proof.
  split.
  - exists "source_station"%string, [83; 84]. split; [now left|reflexivity].
  - unfold ex_fields.
    constructor; [|constructor; [|constructor; [|constructor; [|constructor; [|constructor]]]]];
      unfold tbs_field_ok; cbn [fst snd].
    + intros _. split; [now apply ex_text_ok|discriminate].
    + discriminate.
    + intros _. split; [now apply ex_text_ok|discriminate].
    + intros _. split; [now apply ex_text_ok|]. intros _. exists (1, 2, 3). exists [49], [50], [51].
      unfold tbs_digits. repeat split; try discriminate; try (repeat constructor; lia); simpl; lia.
    + exact I.
Qed.
