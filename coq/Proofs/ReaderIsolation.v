(* C05d, trace level: the messages a reader delivers from one reassembly slot are exactly those it would deliver if
   only that slot's lines had been fed -- no other line (malformed or not, parseable or not, wrapper, single, fragment
   of another slot, sentence rejected by the tag block queue) can change, delay, duplicate or suppress them.
   Stated for the shape both loops share (generic_step), then for the composed readers. *)
From Coq Require Import ZArith List Bool Lia.
Require Import Prim.Exn Prim.PyList Gen.GenConst Model.Sentence Model.AssembleIter Model.Nmea Model.Tbq Model.Assemble
               Model.Reader Spec.AssembleSpec.
Require Import Proofs.ExnLemmas Proofs.NmeaProofs Proofs.TbqProofs Proofs.AssembleProofs Proofs.ReaderProofs.
Import ListNotations.
Open Scope Z_scope.

(* does this input line store a fragment into slot s? *)
Definition touches (s : asm_slot) (i : asm_input) : bool :=
  match i with
  | (Ok (SAis a), None) => negb (is_single a) && slot_eqb (slot_of a) s
  | _ => false
  end.

(* what the properties observe of the sentences delivered by the lines that touch s *)
Fixpoint slot_outs (s : asm_slot) (ins : list asm_input) (outs : list (list ais_sentence)) : list asm_delivery :=
  match ins, outs with
  | i :: ir, o :: or => (if touches s i then map delivery_of o else []) ++ slot_outs s ir or
  | _, _ => []
  end.

Definition buf_ok (b : asm_buffer) : Prop := buf_len255 b /\ buf_wf b.
Definition input_ok (i : asm_input) : Prop := parsed_ok (fst i) /\ tbq_ok (snd i).

(* ---------------------------------------------------------------- buffer_step is local to its slot *)

Lemma buf_mem_get : forall b s, buf_mem b s = match buf_get b s with Some _ => true | None => false end.
Proof. reflexivity. Qed.

Lemma buffer_step_wf : forall b msg b' o, buf_wf b -> buffer_step b msg = Ok (b', o) -> buf_wf b'.
Proof.
  intros b msg b' o W H. unfold buffer_step in H. set (slot := slot_of msg) in *.
  set (buffer1 := if negb (buf_mem b slot) then buf_set b slot (pyl_repeat None (Z.max (a_frag_cnt msg) 255)) else b) in *.
  assert (W1 : buf_wf buffer1) by (unfold buffer1; destruct (negb (buf_mem b slot)); [apply buf_wf_set|]; exact W).
  destruct (buf_get buffer1 slot) as [arr|]; [|discriminate].
  destruct (pyl_setitem arr (a_frag_num msg - 1) (Some msg)) as [arr'|e]; [|discriminate].
  destruct (pyl_len (not_none (pyl_slice arr' 0 (a_frag_cnt msg))) =? a_frag_cnt msg).
  - destruct (assemble_from_iterable _); [|discriminate]. inversion H; subst. apply buf_wf_del, buf_wf_set, W1.
  - inversion H; subst. apply buf_wf_set, W1.
Qed.

(* the outcome for the arriving fragment and the new content of its slot depend on the old content of that slot only *)
Lemma buffer_step_local : forall b1 b2 msg, buf_wf b1 -> buf_wf b2 ->
  buf_get b1 (slot_of msg) = buf_get b2 (slot_of msg) ->
  match buffer_step b1 msg, buffer_step b2 msg with
  | Ok (b1', o1), Ok (b2', o2) => o1 = o2 /\ buf_get b1' (slot_of msg) = buf_get b2' (slot_of msg)
  | Raise e1, Raise e2 => e1 = e2
  | _, _ => False
  end.
Proof.
  intros b1 b2 msg W1 W2 Hg. unfold buffer_step. set (slot := slot_of msg) in *.
  set (fresh := pyl_repeat (@None ais_sentence) (Z.max (a_frag_cnt msg) 255)).
  rewrite !buf_mem_get, <- Hg.
  set (c1 := if negb match buf_get b1 slot with Some _ => true | None => false end then buf_set b1 slot fresh else b1).
  set (c2 := if negb match buf_get b1 slot with Some _ => true | None => false end then buf_set b2 slot fresh else b2).
  assert (Hc : buf_get c1 slot = buf_get c2 slot).
  { unfold c1, c2. destruct (buf_get b1 slot) eqn:E; cbn [negb]; [rewrite E; exact Hg|]. now rewrite !buf_get_set_same. }
  assert (Wc1 : buf_wf c1) by (unfold c1; destruct (negb _); [apply buf_wf_set|]; exact W1).
  assert (Wc2 : buf_wf c2) by (unfold c2; destruct (negb _); [apply buf_wf_set|]; exact W2).
  rewrite <- Hc. destruct (buf_get c1 slot) as [arr|]; [|reflexivity].
  destruct (pyl_setitem arr (a_frag_num msg - 1) (Some msg)) as [arr'|e]; [|reflexivity].
  destruct (pyl_len (not_none (pyl_slice arr' 0 (a_frag_cnt msg))) =? a_frag_cnt msg).
  - destruct (assemble_from_iterable _) as [full|e]; [|reflexivity].
    split; [reflexivity|]. rewrite !buf_get_del_same by (apply buf_wf_set; assumption). reflexivity.
  - split; [reflexivity|]. now rewrite !buf_get_set_same.
Qed.

(* ---------------------------------------------------------------- steps that do not touch s leave s alone *)

Lemma generic_step_nontouching : forall hs b w p t b' w' out s,
  touches s (p, t) = false -> generic_step hs (b, w) p t = Ok ((b', w'), out) -> buf_get b' s = buf_get b s.
Proof.
  intros hs b w p t b' w' out s Ht H. unfold generic_step in H.
  destruct p as [x|e]; [|destruct (catches hs e); inversion H; reflexivity].
  destruct t as [e|]; [destruct (catches hs e); inversion H; reflexivity|].
  destruct x as [msg|g]; [|inversion H; reflexivity].
  unfold ais_step in H. cbn [touches] in Ht.
  destruct (is_single msg) eqn:Es; [inversion H; reflexivity|]. cbn [negb andb] in Ht.
  destruct (buffer_step b msg) as [[b2 o]|e] eqn:E; [|discriminate].
  assert (K : buf_get b2 s = buf_get b s).
  { apply (buffer_step_other_slots _ _ _ _ s E). intro Heq. subst s. rewrite slot_eqb_refl in Ht. discriminate. }
  destruct o; inversion H; subst; exact K.
Qed.

Lemma generic_step_ok_inv : forall hs b w p t b' w' out, catches_reader_set hs ->
  buf_ok b -> input_ok (p, t) -> generic_step hs (b, w) p t = Ok ((b', w'), out) -> buf_ok b'.
Proof.
  intros hs b w p t b' w' out Hc [Hl Hw] [Hp Ht] H. cbn [fst snd] in Hp, Ht.
  destruct (generic_step_total hs b w p t Hc Hl Hp Ht) as [b2 [w2 [o2 [E Hl2]]]].
  rewrite E in H. inversion H; subst. split; [exact Hl2|].
  unfold generic_step in E.
  destruct p as [x|e]; [|destruct (catches hs e); inversion E; subst; exact Hw].
  destruct t as [e|]; [destruct (catches hs e); inversion E; subst; exact Hw|].
  destruct x as [msg|g]; [|inversion E; subst; exact Hw].
  unfold ais_step in E. destruct (is_single msg); [inversion E; subst; exact Hw|].
  destruct (buffer_step b msg) as [[b3 o]|e] eqn:Eb; [|discriminate].
  pose proof (buffer_step_wf _ _ _ _ Hw Eb) as W3. destruct o; inversion E; subst; exact W3.
Qed.

(* ---------------------------------------------------------------- the projection theorem *)

Theorem slot_projection : forall hs s ins b w b2 w2, catches_reader_set hs ->
  buf_ok b -> buf_ok b2 -> Forall input_ok ins -> buf_get b s = buf_get b2 s ->
  slot_outs s ins (fst (asm_run (generic_step hs) (b, w) ins)) =
  slot_outs s (filter (touches s) ins) (fst (asm_run (generic_step hs) (b2, w2) (filter (touches s) ins))).
Proof.
  intros hs s ins. induction ins as [|[p t] rest IH]; intros b w b2 w2 Hc Hb Hb2 Hin Hg; [reflexivity|].
  inversion Hin as [|x y Hi Hr]; subst.
  destruct Hb as [Hl Hw]. destruct Hi as [Hp Ht]. cbn [fst snd] in Hp, Ht.
  destruct (generic_step_total hs b w p t Hc Hl Hp Ht) as [b' [w' [out [E Hl']]]].
  pose proof (generic_step_ok_inv hs b w p t b' w' out Hc (conj Hl Hw) (conj Hp Ht) E) as Hb'.
  cbn [asm_run filter]. rewrite E.
  destruct (asm_run (generic_step hs) (b', w') rest) as [outs fin] eqn:Er. cbn [fst slot_outs].
  destruct (touches s (p, t)) eqn:Et.
  - (* the line stores a fragment into s: both runs take the same step on that slot *)
    cbn [touches] in Et. destruct p as [[msg|g]|e]; try discriminate. destruct t as [e|]; [discriminate|].
    apply andb_prop in Et. destruct Et as [Es Eslot]. apply negb_true_iff in Es. apply slot_eqb_eq in Eslot. subst s.
    destruct Hb2 as [Hl2 Hw2].
    destruct (generic_step_total hs b2 w2 (Ok (SAis msg)) None Hc Hl2 Hp Ht) as [b2' [w2' [out2 [E2 Hl2']]]].
    pose proof (generic_step_ok_inv hs b2 w2 _ _ b2' w2' out2 Hc (conj Hl2 Hw2) (conj Hp Ht) E2) as Hb2'.
    cbn [asm_run]. rewrite E2.
    destruct (asm_run (generic_step hs) (b2', w2') (filter (touches (slot_of msg)) rest)) as [outs2 fin2] eqn:Er2.
    cbn [fst slot_outs touches]. rewrite Es, slot_eqb_refl. cbn [negb andb].
    (* the two steps agree on the output and on the slot's new content *)
    unfold generic_step, ais_step in E, E2. rewrite Es in E, E2.
    pose proof (buffer_step_local b b2 msg Hw Hw2 Hg) as L.
    destruct (buffer_step b msg) as [[c1 o1]|e1]; [|discriminate].
    destruct (buffer_step b2 msg) as [[c2 o2]|e2]; [|contradiction].
    destruct L as [Lo Lg]. subst o2.
    assert (Hout : map delivery_of out = map delivery_of out2 /\ buf_get b' (slot_of msg) = buf_get b2' (slot_of msg)).
    { destruct o1; inversion E; inversion E2; subst; (split; [|exact Lg]); [|reflexivity].
      cbn [map]. now rewrite !delivery_of_attach. }
    destruct Hout as [Ho Hg']. rewrite Ho. f_equal.
    specialize (IH b' w' b2' w2' Hc Hb' Hb2' Hr Hg'). rewrite Er, Er2 in IH. exact IH.
  - (* the line does not touch s: the full run moves on, the projected run does not see the line *)
    cbn [app]. pose proof (generic_step_nontouching hs b w p t b' w' out s Et E) as K.
    specialize (IH b' w' b2 w2 Hc Hb' Hb2 Hr (eq_trans K Hg)). rewrite Er in IH. exact IH.
Qed.

(* ---------------------------------------------------------------- the composed readers *)

Section Readers.
  Variable uni : Z -> list Z -> option Z.

  (* the (parse outcome, tbq outcome) pairs a reader derives from its lines *)
  Fixpoint rd_inputs (use_tbq : bool) (tq : tbq_state) (lines : list bytes) : list asm_input :=
    match lines with
    | [] => []
    | l :: rest => let '(p, t, tq', _) := rd_feed uni use_tbq tq l in (p, t) :: rd_inputs use_tbq tq' rest
    end.

  Lemma rd_inputs_ok : forall use_tbq lines tq, Forall input_ok (rd_inputs use_tbq tq lines).
  Proof.
    intros use_tbq lines. induction lines as [|l rest IH]; intros tq; [constructor|].
    cbn [rd_inputs]. destruct (rd_feed uni use_tbq tq l) as [[[p t] tq'] touts] eqn:E.
    destruct (rd_feed_ok uni _ _ _ _ _ _ _ E) as [_ [Hp Ht]]. constructor; [split; assumption|apply IH].
  Qed.

  Lemma fst_let_pair : forall (A B C : Type) (x : A * B) (f : A -> C),
    fst (let '(a, b) := x in (f a, b)) = f (fst x).
  Proof. intros A B C [a b] f. reflexivity. Qed.

  (* the AIS deliveries of a reader are those of its loop run on these inputs *)
  Lemma rd_run_asm_run : forall step use_tbq lines (st : asm_state) tq,
    map fst (fst (rd_run uni step use_tbq (st, tq) lines)) =
    fst (asm_run step st (rd_inputs use_tbq tq lines)).
  Proof.
    intros step use_tbq lines. induction lines as [|l rest IH]; intros st tq; [reflexivity|].
    cbn [rd_run rd_inputs]. unfold rd_step.
    destruct (rd_feed uni use_tbq tq l) as [[[p t] tq'] touts]. cbn [asm_run].
    destruct (step st p t) as [[st' outs]|e]; [|reflexivity]. cbn beta iota.
    specialize (IH st' tq').
    destruct (rd_run uni step use_tbq (st', tq') rest) as [r fin].
    destruct (asm_run step st' (rd_inputs use_tbq tq' rest)) as [r2 fin2].
    cbn [map fst] in *. f_equal. exact IH.
  Qed.

  (* C05d for a reader started on an empty buffer: what it delivers from slot s is what the same loop delivers when fed
     only with the lines that store a fragment into s *)
  Theorem rd_slot_isolation : forall hs step use_tbq lines s, catches_reader_set hs ->
    (forall st p t, step st p t = generic_step hs st p t) ->
    let ins := rd_inputs use_tbq [] lines in
    slot_outs s ins (map fst (fst (rd_run uni step use_tbq rd_init lines))) =
    slot_outs s (filter (touches s) ins) (fst (asm_run step asm_init (filter (touches s) ins))).
  Proof.
    intros hs step use_tbq lines s Hc Hs ins. unfold rd_init, asm_init. rewrite rd_run_asm_run. fold ins.
    rewrite !(asm_run_ext step (generic_step hs) Hs).
    apply slot_projection; try exact Hc; try (split; constructor); try reflexivity.
    apply rd_inputs_ok.
  Qed.
End Readers.
