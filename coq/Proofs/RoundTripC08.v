(* C08 at the message level: a payload that ends where the property says it may end is the concatenation of the bits
   of its covered fields; each covered field is stable under decode -> encode -> decode (RoundTripStable); the
   re-encoded fields again have an admissible shape and the discriminator fields are re-emitted bit for bit, so the
   second decode selects the same class and reads the same values. *)
From Coq Require Import ZArith List Bool String Lia.
Require Import Prim.Exn Prim.Bits Gen.GenEnums Model.FieldTypes Gen.GenTables Gen.GenDispatch Gen.GenConv Gen.GenAlpha Model.Codec.
Require Import Spec.Layout Spec.RoundTripSpec.
Require Import Proofs.RoundTripBits Proofs.RoundTripLoops Proofs.RoundTripKinds Proofs.RoundTripField
               Proofs.RoundTripDispatch Proofs.RoundTrip Proofs.RoundTripTol Proofs.RoundTripStable.
Import ListNotations.
Open Scope Z_scope.
Open Scope exn_scope.

Local Notation len := (@List.length bool).
Local Notation concat := (@List.concat bool).

(* ------------------------------------------------------------------------------------------------ *)
(* the tables, for C08                                                                                *)

Definition identity_kind (k : kind) : bool :=
  match k with KU | KB | KU10 | KI10 | KF1 | KLL | KLL600 | KD | KX => true | _ => false end.

Definition stable_pair_ok (v : variant) (sf : sfield) (f : field) : bool :=
  match s_kind sf with
  | KB => (f_width f =? 1)%nat
  | KE e => enum_field_ok (enum_of_senum e) (f_width f)
  | KT => Bool.eqb (f_varlen f) (exact_text v)
  | _ => true
  end
  && ((disc_end v <=? s_off sf)%nat || (identity_kind (s_kind sf) && (s_off sf + s_width sf <=? disc_end v)%nat)).

Definition stable_variant_ok (v : variant) : bool :=
  forallb (fun p => stable_pair_ok v (fst p) (snd p)) (combine (spec_layout v) (fields_of (cls_of v)))
  && (nominal v =? width_sum (fields_of (cls_of v)))%nat
  && contiguous (spec_layout v) 0 && forallb (fun sf => (0 <? s_width sf)%nat) (spec_layout v).

Lemma stable_variants_checked : forallb stable_variant_ok all_variants = true.
Proof. vm_compute. reflexivity. Qed.

Lemma stable_variant_checked v : stable_variant_ok v = true.
Proof. pose proof stable_variants_checked as K. rewrite forallb_forall in K. apply K. apply in_all_variants. Qed.

(* ------------------------------------------------------------------------------------------------ *)
(* a payload as the concatenation of its fields' slices                                               *)

Lemma firstn_add_skipn {A} (l : list A) a b : firstn a l ++ firstn b (skipn a l) = firstn (a + b) l.
Proof.
  revert l. induction a as [|a IH]; intros l; [reflexivity|].
  destruct l as [|x r]; [cbn; rewrite ?firstn_nil; reflexivity|].
  cbn [plus firstn skipn app]. f_equal. apply IH.
Qed.

Lemma sub_length (b : bits) off w : len (sub b off w) = Nat.min w (len b - off).
Proof. unfold sub. rewrite firstn_length, skipn_length. reflexivity. Qed.

Section Slices.
  Variable v : variant.
  Variable bits : list bool.

  (* the received bits of the field with a given name *)
  Definition hb (f : field) : list bool :=
    match find_field (f_name f) (spec_layout v) with
    | Some sf => sub bits (s_off sf) (s_width sf)
    | None => []
    end.

  Lemma hb_pair sf f : In (sf, f) (combine (spec_layout v) (fields_of (cls_of v))) ->
    hb f = sub bits (s_off sf) (s_width sf) /\ s_width sf = f_width f /\ (0 < f_width f)%nat /\
    exists fs1 fs2 il, fields_of (cls_of v) = fs1 ++ f :: fs2 /\ width_sum fs1 = s_off sf /\
                       il = (match fs2 with [] => true | _ => false end) /\ pair_ok v il sf f = true.
  Proof.
    intros Hin. destruct (pairs_split v _ _ 0 (Hpairs v)) as (_ & Hs).
    destruct (Hs sf f Hin) as (fs1 & fs2 & E & Ho & Hp).
    pose proof Hp as Hp'. unfold pair_ok in Hp'. repeat (apply andb_prop in Hp' as [Hp' ?]).
    repeat match goal with
           | H : String.eqb _ _ = true |- _ => apply String.eqb_eq in H
           | H : (_ =? _)%nat = true |- _ => apply Nat.eqb_eq in H
           | H : (_ <? _)%nat = true |- _ => apply Nat.ltb_lt in H
           end.
    unfold hb. match goal with H : s_name sf = f_name f |- _ => rewrite <- H end.
    rewrite (find_field_unique _ _ (Hnodup v) (in_combine_l _ _ _ _ Hin)).
    split; [reflexivity|]. split; [assumption|]. split; [assumption|].
    exists fs1, fs2. eexists. repeat split; try eassumption; try lia.
  Qed.

  Lemma concat_slices : forall l gs off, pairs_ok v off l gs = true ->
    (forall sf f, In (sf, f) (combine l gs) -> hb f = sub bits (s_off sf) (s_width sf)) ->
    concat (map hb gs) = firstn (width_sum gs) (skipn off bits).
  Proof.
    induction l as [|s l IH]; intros [|g gs] off H Hf; try discriminate; [reflexivity|].
    cbn [pairs_ok] in H. apply andb_prop in H as [H Hr]. apply andb_prop in H as [Ho Hp]. apply Nat.eqb_eq in Ho.
    assert (s_width s = f_width g) as Hw.
    { unfold pair_ok in Hp. repeat (apply andb_prop in Hp as [Hp ?]).
      match goal with H : (s_width s =? f_width g)%nat = true |- _ => apply Nat.eqb_eq in H; exact H end. }
    cbn [map List.concat width_sum]. rewrite (Hf s g (or_introl eq_refl)), Ho, Hw.
    rewrite (IH gs _ Hr) by (intros sf f Hin; apply Hf; right; exact Hin).
    unfold sub. rewrite <- firstn_add_skipn. f_equal. f_equal. rewrite skipn_skipn_. reflexivity.
  Qed.

  Lemma shape_slices : forall l gs off, pairs_ok v off l gs = true ->
    (forall sf f, In (sf, f) (combine l gs) -> hb f = sub bits (s_off sf) (s_width sf)) ->
    shape gs (map hb gs).
  Proof.
    induction l as [|s l IH]; intros [|g gs] off H Hf; try discriminate; [exact I|].
    pose proof H as H0.
    cbn [pairs_ok] in H. apply andb_prop in H as [H Hr]. apply andb_prop in H as [Ho Hp]. apply Nat.eqb_eq in Ho.
    assert (s_width s = f_width g /\ (0 < f_width g)%nat) as (Hw & Hpos).
    { unfold pair_ok in Hp. repeat (apply andb_prop in Hp as [Hp ?]).
      repeat match goal with
             | H : (_ =? _)%nat = true |- _ => apply Nat.eqb_eq in H
             | H : (_ <? _)%nat = true |- _ => apply Nat.ltb_lt in H
             end. auto. }
    cbn [map shape]. pose proof (Hf s g (or_introl eq_refl)) as Eg.
    assert (forall sf f, In (sf, f) (combine l gs) -> hb f = sub bits (s_off sf) (s_width sf)) as Hf'
      by (intros sf f Hin; apply Hf; right; exact Hin).
    destruct (Nat.le_gt_cases (off + f_width g) (len bits)) as [Hfull|Hshort].
    - left. rewrite Eg, sub_length, Ho, Hw. split; [lia|]. split.
      + apply pos_len_ne. rewrite sub_length. lia.
      + apply (IH gs _ Hr Hf').
    - right. rewrite Eg, sub_length, Hw. split; [lia|]. split; [|destruct (pairs_split v l gs _ Hr) as (Hl & _); rewrite map_length; lia].
      (* every later field starts beyond the end of the payload *)
      pose proof (concat_slices l gs _ Hr Hf') as Ec.
      rewrite skipn_all2, firstn_nil in Ec by lia.
      clear - Ec. induction gs as [|x r IHr]; [constructor|]. cbn [map List.concat] in Ec.
      apply app_eq_nil in Ec as [A B]. constructor; [exact A|apply IHr; exact B].
  Qed.
End Slices.

(* ------------------------------------------------------------------------------------------------ *)
(* where a payload of an admissible length ends                                                       *)

Lemma contiguous_lower : forall L o, contiguous L o = true -> forall g, In g L -> (o <= s_off g)%nat.
Proof.
  induction L as [|f r IH]; intros o H g Hin; [destruct Hin|].
  cbn [contiguous] in H. apply andb_prop in H as [Ho Hr]. apply Nat.eqb_eq in Ho.
  destruct Hin as [->|Hin]; [lia|]. pose proof (IH _ Hr g Hin). lia.
Qed.

Lemma partial_is_varlen v n : forall L o, contiguous L o = true -> forallb (fun sf => (0 <? s_width sf)%nat) L = true ->
  existsb (fun f' => ends_field f' v n) L = true ->
  forall sf, In sf L -> (s_off sf < n)%nat -> (n < s_off sf + s_width sf)%nat ->
  var_len v sf = true /\ ((n - s_off sf) mod (match s_kind sf with KT => 6 | _ => 8 end) = 0)%nat.
Proof.
  induction L as [|g r IH]; intros o Hc Hw He sf Hin Hlo Hhi; [destruct Hin|].
  cbn [contiguous] in Hc. apply andb_prop in Hc as [Ho Hc]. apply Nat.eqb_eq in Ho.
  cbn [forallb] in Hw. apply andb_prop in Hw as [Hwg Hw]. apply Nat.ltb_lt in Hwg.
  cbn [existsb] in He. apply orb_prop in He as [He|He].
  - unfold ends_field in He. apply orb_prop in He as [He|He].
    + apply Nat.eqb_eq in He. destruct Hin as [->|Hin]; [lia|].
      pose proof (contiguous_lower _ _ Hc sf Hin). lia.
    + apply andb_prop in He as [He H4]. apply andb_prop in He as [He H3]. apply andb_prop in He as [H1 H2].
      apply Nat.ltb_lt in H2, H3. apply Nat.eqb_eq in H4.
      destruct Hin as [->|Hin]; [auto|]. pose proof (contiguous_lower _ _ Hc sf Hin). lia.
  - destruct Hin as [->|Hin]; [|apply (IH _ Hc Hw He sf Hin Hlo Hhi)].
    exfalso. apply existsb_exists in He as (f' & Hf' & E). pose proof (contiguous_lower _ _ Hc f' Hf') as Lo.
    rewrite forallb_forall in Hw. specialize (Hw f' Hf'). apply Nat.ltb_lt in Hw.
    unfold ends_field in E. apply orb_prop in E as [E|E].
    + apply Nat.eqb_eq in E. lia.
    + apply andb_prop in E as [E _]. apply andb_prop in E as [E _]. apply andb_prop in E as [_ E]. apply Nat.ltb_lt in E. lia.
Qed.
