(* C08 at the message level: a payload that ends where the property says it may end is the concatenation of the bits
   of its covered fields; each covered field is stable under decode -> encode -> decode (RoundTripStable); the
   re-encoded fields again have an admissible shape and the discriminator fields are re-emitted bit for bit, so the
   second decode selects the same class and reads the same values. *)
From Coq Require Import ZArith List Bool String Lia.
Require Import Prim.Exn Prim.Bits Gen.GenEnums Model.FieldTypes Gen.GenTables Gen.GenDispatch Gen.GenConv Gen.GenAlpha Model.Codec.
Require Import Spec.Layout Spec.RoundTripSpec.
Require Import Proofs.RoundTripBits Proofs.RoundTripLoops Proofs.RoundTripKinds Proofs.RoundTripField
               Proofs.RoundTripDispatch Proofs.RoundTrip Proofs.RoundTripTol Proofs.RoundTripStable.
Import ListNotations.
Open Scope Z_scope.
Open Scope exn_scope.

Local Notation len := (@List.length bool).
Local Notation concat := (@List.concat bool).

(* ------------------------------------------------------------------------------------------------ *)
(* the tables, for C08                                                                                *)

Definition identity_kind (k : kind) : bool :=
  match k with KU | KB | KU10 | KI10 | KF1 | KLL | KLL600 | KD | KX => true | _ => false end.

Definition stable_pair_ok (v : variant) (sf : sfield) (f : field) : bool :=
  match s_kind sf with
  | KB => (f_width f =? 1)%nat
  | KE e => enum_field_ok (enum_of_senum e) (f_width f)
  | KT => Bool.eqb (f_varlen f) (exact_text v)
  | _ => true
  end
  && ((disc_end v <=? s_off sf)%nat || (identity_kind (s_kind sf) && (s_off sf + s_width sf <=? disc_end v)%nat)).

Definition stable_variant_ok (v : variant) : bool :=
  forallb (fun p => stable_pair_ok v (fst p) (snd p)) (combine (spec_layout v) (fields_of (cls_of v)))
  && (nominal v =? width_sum (fields_of (cls_of v)))%nat
  && contiguous (spec_layout v) 0 && forallb (fun sf => (0 <? s_width sf)%nat) (spec_layout v).

Lemma stable_variants_checked : forallb stable_variant_ok all_variants = true.
Proof. vm_compute. reflexivity. Qed.

Lemma stable_variant_checked v : stable_variant_ok v = true.
Proof. pose proof stable_variants_checked as K. rewrite forallb_forall in K. apply K. apply in_all_variants. Qed.

(* ------------------------------------------------------------------------------------------------ *)
(* a payload as the concatenation of its fields' slices                                               *)

Lemma firstn_add_skipn {A} (l : list A) a b : firstn a l ++ firstn b (skipn a l) = firstn (a + b) l.
Proof.
  revert l. induction a as [|a IH]; intros l; [reflexivity|].
  destruct l as [|x r]; [cbn; rewrite ?firstn_nil; reflexivity|].
  cbn [plus firstn skipn app]. f_equal. apply IH.
Qed.

Lemma sub_length (b : bits) off w : len (sub b off w) = Nat.min w (len b - off).
Proof. unfold sub. rewrite firstn_length, skipn_length. reflexivity. Qed.

Section Slices.
  Variable v : variant.
  Variable bits : list bool.

  (* the received bits of the field with a given name *)
  Definition hb (f : field) : list bool :=
    match find_field (f_name f) (spec_layout v) with
    | Some sf => sub bits (s_off sf) (s_width sf)
    | None => []
    end.

  Lemma hb_pair sf f : In (sf, f) (combine (spec_layout v) (fields_of (cls_of v))) ->
    hb f = sub bits (s_off sf) (s_width sf) /\ s_width sf = f_width f /\ (0 < f_width f)%nat /\
    exists fs1 fs2 il, fields_of (cls_of v) = fs1 ++ f :: fs2 /\ width_sum fs1 = s_off sf /\
                       il = (match fs2 with [] => true | _ => false end) /\ pair_ok v il sf f = true.
  Proof.
    intros Hin. destruct (pairs_split v _ _ 0 (Hpairs v)) as (_ & Hs).
    destruct (Hs sf f Hin) as (fs1 & fs2 & E & Ho & Hp).
    pose proof Hp as Hp'. unfold pair_ok in Hp'. repeat (apply andb_prop in Hp' as [Hp' ?]).
    repeat match goal with
           | H : String.eqb _ _ = true |- _ => apply String.eqb_eq in H
           | H : (_ =? _)%nat = true |- _ => apply Nat.eqb_eq in H
           | H : (_ <? _)%nat = true |- _ => apply Nat.ltb_lt in H
           end.
    unfold hb. match goal with H : s_name sf = f_name f |- _ => rewrite <- H end.
    rewrite (find_field_unique _ _ (Hnodup v) (in_combine_l _ _ _ _ Hin)).
    split; [reflexivity|]. split; [assumption|]. split; [assumption|].
    exists fs1, fs2. eexists. repeat split; try eassumption; try lia.
  Qed.

  Lemma concat_slices : forall l gs off, pairs_ok v off l gs = true ->
    (forall sf f, In (sf, f) (combine l gs) -> hb f = sub bits (s_off sf) (s_width sf)) ->
    concat (map hb gs) = firstn (width_sum gs) (skipn off bits).
  Proof.
    induction l as [|s l IH]; intros [|g gs] off H Hf; try discriminate; [reflexivity|].
    cbn [pairs_ok] in H. apply andb_prop in H as [H Hr]. apply andb_prop in H as [Ho Hp]. apply Nat.eqb_eq in Ho.
    assert (s_width s = f_width g) as Hw.
    { unfold pair_ok in Hp. repeat (apply andb_prop in Hp as [Hp ?]).
      match goal with H : (s_width s =? f_width g)%nat = true |- _ => apply Nat.eqb_eq in H; exact H end. }
    cbn [map List.concat width_sum]. rewrite (Hf s g (or_introl eq_refl)), Ho, Hw.
    rewrite (IH gs _ Hr) by (intros sf f Hin; apply Hf; right; exact Hin).
    unfold sub. rewrite <- firstn_add_skipn. f_equal. f_equal. rewrite skipn_skipn_. reflexivity.
  Qed.

  Lemma shape_slices : forall l gs off, pairs_ok v off l gs = true ->
    (forall sf f, In (sf, f) (combine l gs) -> hb f = sub bits (s_off sf) (s_width sf)) ->
    shape gs (map hb gs).
  Proof.
    induction l as [|s l IH]; intros [|g gs] off H Hf; try discriminate; [exact I|].
    pose proof H as H0.
    cbn [pairs_ok] in H. apply andb_prop in H as [H Hr]. apply andb_prop in H as [Ho Hp]. apply Nat.eqb_eq in Ho.
    assert (s_width s = f_width g /\ (0 < f_width g)%nat) as (Hw & Hpos).
    { unfold pair_ok in Hp. repeat (apply andb_prop in Hp as [Hp ?]).
      repeat match goal with
             | H : (_ =? _)%nat = true |- _ => apply Nat.eqb_eq in H
             | H : (_ <? _)%nat = true |- _ => apply Nat.ltb_lt in H
             end. auto. }
    cbn [map shape]. pose proof (Hf s g (or_introl eq_refl)) as Eg.
    assert (forall sf f, In (sf, f) (combine l gs) -> hb f = sub bits (s_off sf) (s_width sf)) as Hf'
      by (intros sf f Hin; apply Hf; right; exact Hin).
    destruct (Nat.le_gt_cases (off + f_width g) (len bits)) as [Hfull|Hshort].
    - left. rewrite Eg, sub_length, Ho, Hw. split; [lia|]. split.
      + apply pos_len_ne. rewrite sub_length. lia.
      + apply (IH gs _ Hr Hf').
    - right. rewrite Eg, sub_length, Hw. split; [lia|]. split; [|destruct (pairs_split v l gs _ Hr) as (Hl & _); rewrite map_length; lia].
      (* every later field starts beyond the end of the payload *)
      pose proof (concat_slices l gs _ Hr Hf') as Ec.
      rewrite skipn_all2, firstn_nil in Ec by lia.
      clear - Ec. induction gs as [|x r IHr]; [constructor|]. cbn [map List.concat] in Ec.
      apply app_eq_nil in Ec as [A B]. constructor; [exact A|apply IHr; exact B].
  Qed.
End Slices.

(* ------------------------------------------------------------------------------------------------ *)
(* where a payload of an admissible length ends                                                       *)

Lemma contiguous_lower : forall L o, contiguous L o = true -> forall g, In g L -> (o <= s_off g)%nat.
Proof.
  induction L as [|f r IH]; intros o H g Hin; [destruct Hin|].
  cbn [contiguous] in H. apply andb_prop in H as [Ho Hr]. apply Nat.eqb_eq in Ho.
  destruct Hin as [->|Hin]; [lia|]. pose proof (IH _ Hr g Hin). lia.
Qed.

Lemma partial_is_varlen v n : forall L o, contiguous L o = true -> forallb (fun sf => (0 <? s_width sf)%nat) L = true ->
  existsb (fun f' => ends_field f' v n) L = true ->
  forall sf, In sf L -> (s_off sf < n)%nat -> (n < s_off sf + s_width sf)%nat ->
  var_len v sf = true /\ ((n - s_off sf) mod (match s_kind sf with KT => 6 | _ => 8 end) = 0)%nat.
Proof.
  induction L as [|g r IH]; intros o Hc Hw He sf Hin Hlo Hhi; [destruct Hin|].
  cbn [contiguous] in Hc. apply andb_prop in Hc as [Ho Hc]. apply Nat.eqb_eq in Ho.
  cbn [forallb] in Hw. apply andb_prop in Hw as [Hwg Hw]. apply Nat.ltb_lt in Hwg.
  cbn [existsb] in He. apply orb_prop in He as [He|He].
  - unfold ends_field in He. apply orb_prop in He as [He|He].
    + apply Nat.eqb_eq in He. destruct Hin as [->|Hin]; [lia|].
      pose proof (contiguous_lower _ _ Hc sf Hin). lia.
    + apply andb_prop in He as [He H4]. apply andb_prop in He as [He H3]. apply andb_prop in He as [H1 H2].
      apply Nat.ltb_lt in H2, H3. apply Nat.eqb_eq in H4.
      destruct Hin as [->|Hin]; [auto|]. pose proof (contiguous_lower _ _ Hc sf Hin). lia.
  - destruct Hin as [->|Hin]; [|apply (IH _ Hc Hw He sf Hin Hlo Hhi)].
    exfalso. apply existsb_exists in He as (f' & Hf' & E). pose proof (contiguous_lower _ _ Hc f' Hf') as Lo.
    rewrite forallb_forall in Hw. specialize (Hw f' Hf'). apply Nat.ltb_lt in Hw.
    unfold ends_field in E. apply orb_prop in E as [E|E].
    + apply Nat.eqb_eq in E. lia.
    + apply andb_prop in E as [E _]. apply andb_prop in E as [E _]. apply andb_prop in E as [_ E]. apply Nat.ltb_lt in E. lia.
Qed.

(* ------------------------------------------------------------------------------------------------ *)
(* one covered field                                                                                  *)

Lemma impl_of_pair_ v il sf f : pair_ok v il sf f = true ->
  field_impl (s_kind sf) (f_varlen f) f = true /\ s_width sf = f_width f /\ (0 < f_width f)%nat /\
  (il = false -> match s_kind sf with KT => f_varlen f = false /\ (f_width f mod 6 = 0)%nat | _ => True end) /\
  (match s_kind sf with KT => (6 <= f_width f)%nat | _ => True end).
Proof.
  intros Hp. unfold pair_ok in Hp. repeat (apply andb_prop in Hp as [Hp ?]).
  repeat match goal with
         | H : (_ =? _)%nat = true |- _ => apply Nat.eqb_eq in H
         | H : (_ <? _)%nat = true |- _ => apply Nat.ltb_lt in H
         end.
  split; [assumption|]. split; [assumption|]. split; [assumption|]. split.
  - intros ->. match goal with H : false || _ = true |- _ => cbn [orb] in H; destruct (s_kind sf); try exact I;
      apply andb_prop in H as [A B]; apply negb_true_iff in A; apply Nat.eqb_eq in B; auto end.
  - destruct (s_kind sf); try exact I.
    match goal with H : (6 <=? _)%nat && _ = true |- _ => apply andb_prop in H as [A _]; apply Nat.leb_le in A; exact A end.
Qed.

Definition fix_unit (k : kind) : nat := match k with KT => 6 | _ => 8 end.

Lemma kind_stable v il sf f b :
  pair_ok v il sf f = true -> stable_pair_ok v sf f = true -> b <> [] -> (len b <= f_width f)%nat ->
  (len b = f_width f \/ (var_len v sf = true /\ (len b mod fix_unit (s_kind sf) = 0)%nat)) ->
  (s_kind sf = KT -> pad_ok b = true) ->
  exists r b', field_stable f b r b' /\
    (len b = f_width f -> il = false -> len b' = f_width f /\ b' <> []) /\
    (identity_kind (s_kind sf) = true -> b' = b) /\
    (b' = [] -> s_kind sf = KT /\ exact_text v = true /\ decode_bin_as_ascii6 b = []) /\
    (raw_fix_kind (s_kind sf) (len b =? f_width f)%nat (exact_text v) b = true ->
     (s_kind sf = KT -> (len b mod 6 = 0)%nat) -> b' = b).
Proof.
  intros Hp Hsp Hne Hle Hcov Hpad.
  destruct (impl_of_pair_ v il sf f Hp) as (Himpl & Hw & Hpos & Hnl & H6).
  unfold stable_pair_ok in Hsp. apply andb_prop in Hsp as [Hsp _].
  assert (var_len v sf = true -> s_kind sf = KD \/ s_kind sf = KT) as Hvl.
  { unfold var_len. destruct (s_kind sf); try discriminate; auto. }
  assert (forall k', s_kind sf = k' -> k' <> KD -> k' <> KT -> len b = f_width f) as Hfull.
  { intros k' E N1 N2. destruct Hcov as [|(Hv & _)]; [assumption|]. destruct (Hvl Hv); congruence. }
  destruct (s_kind sf) eqn:Ek.
  - (* KU *) destruct (stable_U _ f b Himpl Hne (Hfull _ eq_refl ltac:(discriminate) ltac:(discriminate))) as (r & S).
    exists r, b. split; [exact S|]. repeat split; auto; try congruence; try lia.
  - (* KB *) apply Nat.eqb_eq in Hsp.
    pose proof (Hfull _ eq_refl ltac:(discriminate) ltac:(discriminate)) as Hl.
    destruct (stable_B _ f b Himpl ltac:(lia) Hsp) as (r & S).
    exists r, b. split; [exact S|]. repeat split; auto; try congruence; try lia.
  - (* KU10 *) destruct (stable_trunc10 KU10 _ f b (or_introl eq_refl) Himpl Hne (Hfull _ eq_refl ltac:(discriminate) ltac:(discriminate))) as (r & S).
    exists r, b. split; [exact S|]. repeat split; auto; try congruence; try lia.
  - (* KI10 *) destruct (stable_trunc10 KI10 _ f b (or_intror eq_refl) Himpl Hne (Hfull _ eq_refl ltac:(discriminate) ltac:(discriminate))) as (r & S).
    exists r, b. split; [exact S|]. repeat split; auto; try congruence; try lia.
  - (* KF1 *) destruct (stable_F1 _ f b Himpl Hne (Hfull _ eq_refl ltac:(discriminate) ltac:(discriminate))) as (r & S).
    exists r, b. split; [exact S|]. repeat split; auto; try congruence; try lia.
  - (* KLL *) destruct (stable_LL KLL 600000 _ f b (or_introl (conj eq_refl eq_refl)) Himpl Hne (Hfull _ eq_refl ltac:(discriminate) ltac:(discriminate))) as (r & S).
    exists r, b. split; [exact S|]. repeat split; auto; try congruence; try lia.
  - (* KLL600 *) destruct (stable_LL KLL600 600 _ f b (or_intror (conj eq_refl eq_refl)) Himpl Hne (Hfull _ eq_refl ltac:(discriminate) ltac:(discriminate))) as (r & S).
    exists r, b. split; [exact S|]. repeat split; auto; try congruence; try lia.
  - (* KROT *) pose proof (Hfull _ eq_refl ltac:(discriminate) ltac:(discriminate)) as Hl.
    destruct (stable_ROT _ f b Himpl Hl) as (r & b' & S & L' & N' & Fx).
    exists r, b'. split; [exact S|]. split; [auto|]. split; [discriminate|]. split; [congruence|].
    intros Hfx _. apply Fx. cbn [raw_fix_kind] in Hfx. rewrite sval_sbits in Hfx. exact Hfx.
  - (* KT *) apply eqb_prop in Hsp.
    destruct (stable_T (f_varlen f) f b Himpl Hne Hle (Hpad eq_refl)) as (r & b' & S & Er & L' & Le').
    exists r, b'. split; [exact S|]. split.
    { intros Hl ->. destruct (Hnl eq_refl) as (Hvf & Hm6). rewrite Hvf in L'.
      pose proof (Nat.div_mod (f_width f) 6 ltac:(lia)). split; [lia|]. apply pos_len_ne. lia. }
    split; [discriminate|]. split.
    { intros ->. cbn [List.length] in L'. split; [reflexivity|]. rewrite <- Hsp.
      destruct (f_varlen f).
      - split; [reflexivity|]. apply length_zero_iff_nil. lia.
      - pose proof (Nat.div_mod (f_width f) 6 ltac:(lia)).
        pose proof (Nat.div_le_lower_bound (f_width f) 6 1 ltac:(lia) ltac:(lia)). lia. }
    intros Hfx Hm6. cbn [raw_fix_kind] in Hfx. apply andb_prop in Hfx as [Hcan Hside].
    destruct S as (r0 & _ & _ & _ & Hb' & _). rewrite Er in Hb'.
    rewrite (text_fix (f_varlen f) f b Himpl Hne Hle (Hm6 eq_refl) Hcan) in Hb'; [congruence|].
    rewrite Hsp. destruct (exact_text v); [exact Hside|]. apply Nat.eqb_eq in Hside. exact Hside.
  - (* KD *)
    assert (len b = f_width f \/ (len b mod 8 = 0)%nat) as Hal by (destruct Hcov as [|(_ & A)]; auto).
    destruct (stable_bytes KD _ f b (or_introl eq_refl) Himpl Hne Hle Hal) as (r & S).
    exists r, b. split; [exact S|]. repeat split; auto; try congruence; try lia.
  - (* KX *)
    destruct (stable_bytes KX _ f b (or_intror eq_refl) Himpl Hne Hle (or_introl (Hfull _ eq_refl ltac:(discriminate) ltac:(discriminate)))) as (r & S).
    exists r, b. split; [exact S|]. repeat split; auto; try congruence; try lia.
  - (* KE *) pose proof (Hfull _ eq_refl ltac:(discriminate) ltac:(discriminate)) as Hl.
    destruct (stable_E e _ f b Himpl Hsp Hne Hl) as (r & b' & S & L' & N' & Fx).
    exists r, b'. split; [exact S|]. split; [auto|]. split; [discriminate|]. split; [congruence|].
    intros Hfx _. apply Fx. cbn [raw_fix_kind] in Hfx. rewrite uval_ubits in Hfx. exact Hfx.
Qed.

(* ------------------------------------------------------------------------------------------------ *)
(* the whole payload                                                                                  *)

Lemma attrs_of_none k ex f : field_impl k ex f = true -> apply_opt_conv (f_attrs_conv f) VNone = Ok VNone.
Proof.
  intros H.
  assert (f_attrs_conv f = None \/ exists e, f_attrs_conv f = Some (CEnumFromValue e)) as [-> | (e & ->)]; try reflexivity.
  destruct k; cbn [field_impl] in H; repeat (apply andb_prop in H as [H ?]);
    try (left; match goal with
               | A : conv_none (f_attrs_conv f) = true |- _ => apply conv_none_inv in A; exact A
               | A : plain f = true |- _ => apply plain_inv in A; tauto
               | A : conv_pair f _ _ = true |- _ => apply conv_pair_inv in A; tauto
               | A : conv_pair f _ _ || conv_pair f _ _ = true |- _ =>
                 apply orb_prop in A as [A|A]; apply conv_pair_inv in A; tauto
               end).
  match goal with A : enum_style f _ = true |- _ => unfold enum_style in A;
    destruct (f_from f) as [[?|?|?]|]; destruct (f_to f) as [[?|?|?]|]; destruct (f_attrs_conv f) as [[?|a|?]|];
      try discriminate; try (left; reflexivity); right; exists a; reflexivity end.
Qed.

Lemma sub_covered (b : bits) sf : sub b (s_off sf) (covered sf (len b)) = sub b (s_off sf) (s_width sf).
Proof.
  unfold sub, covered. destruct (Nat.le_gt_cases (s_width sf) (len b - s_off sf)) as [H|H].
  - rewrite Nat.min_l by assumption. reflexivity.
  - rewrite Nat.min_r by lia. rewrite !firstn_all2; [reflexivity| |]; rewrite skipn_length; lia.
Qed.

Section Payload.
  Variable v : variant.
  Variable bits : list bool.
  Hypothesis Hv : spec_variant bits = Some v.
  Hypothesis Hlen : c08_length_ok v (len bits) = true.
  Hypothesis Hpad : text_pad_zero v bits = true.

  Let c := cls_of v.
  Let fs := fields_of c.
  Let L := spec_layout v.
  Let hb1 := hb v bits.

  Definition r0s (f : field) : value := get_ok VNone (decode_one f (hb1 f)).
  Definition rs (f : field) : value := get_ok VNone (apply_opt_conv (f_attrs_conv f) (r0s f)).
  Definition hb2 (f : field) : list bool := get_ok [] (bits_of_field f (rs f)).

  Lemma Hstable_pair sf f : In (sf, f) (combine L fs) -> stable_pair_ok v sf f = true.
  Proof.
    intros Hin. pose proof (stable_variant_checked v) as K. unfold stable_variant_ok in K.
    do 3 (apply andb_prop in K as [K _]). rewrite forallb_forall in K. apply (K (sf, f) Hin).
  Qed.
  Lemma Hcontig : contiguous L 0 = true /\ forallb (fun sf => (0 <? s_width sf)%nat) L = true /\
                  nominal v = width_sum fs.
  Proof.
    pose proof (stable_variant_checked v) as K. unfold stable_variant_ok in K.
    apply andb_prop in K as [K K4]. apply andb_prop in K as [K K3]. apply andb_prop in K as [_ K2].
    apply Nat.eqb_eq in K2. auto.
  Qed.

  (* the facts about one (layout field, table field) pair *)
  Definition pair_stable_facts (sf : sfield) (f : field) (il : bool) : Prop :=
    decode_one f (hb1 f) = Ok (r0s f) /\ apply_opt_conv (f_attrs_conv f) (r0s f) = Ok (rs f) /\
    bits_of_field f (rs f) = Ok (hb2 f) /\ (len (hb2 f) <= f_width f)%nat /\
    (hb1 f = [] -> hb2 f = []) /\
    (len (hb1 f) = f_width f -> il = false -> len (hb2 f) = f_width f /\ hb2 f <> []) /\
    (identity_kind (s_kind sf) = true -> hb2 f = hb1 f) /\
    (hb2 f <> [] -> exists r0', decode_field f (hb2 f) = Ok r0' /\ apply_opt_conv (f_attrs_conv f) r0' = Ok (rs f)) /\
    (hb1 f <> [] -> hb2 f = [] -> s_kind sf = KT /\ exact_text v = true /\ decode_bin_as_ascii6 (hb1 f) = []) /\
    (hb1 f <> [] -> raw_fix_kind (s_kind sf) (len (hb1 f) =? f_width f)%nat (exact_text v) (hb1 f) = true ->
     (s_kind sf = KT -> (len (hb1 f) mod 6 = 0)%nat) -> hb2 f = hb1 f) /\
    (hb1 f <> [] -> s_kind sf = KT ->
     pad_ok (hb1 f) = true /\ (len (hb1 f) = f_width f \/ (len (hb1 f) mod 6 = 0)%nat)).

  Lemma pair_stable sf f : In (sf, f) (combine L fs) ->
    exists il fs1 fs2, fs = fs1 ++ f :: fs2 /\ width_sum fs1 = s_off sf /\
                       il = (match fs2 with [] => true | _ => false end) /\ pair_ok v il sf f = true /\
                       hb1 f = sub bits (s_off sf) (s_width sf) /\ s_width sf = f_width f /\
                       pair_stable_facts sf f il.
  Proof.
    intros Hin. destruct (hb_pair v bits sf f Hin) as (Eh & Hw & Hpos & fs1 & fs2 & il & E & Ho & Hil & Hp).
    exists il, fs1, fs2. split; [exact E|]. split; [exact Ho|]. split; [exact Hil|]. split; [exact Hp|].
    split; [exact Eh|]. split; [exact Hw|]. fold hb1 in Eh.
    destruct (impl_of_pair_ v il sf f Hp) as (Himpl & _).
    unfold pair_stable_facts.
    destruct (hb1 f) as [|x xs] eqn:Eb.
    - (* not covered *)
      assert (r0s f = VNone) as E0 by (unfold r0s; rewrite Eb; reflexivity).
      assert (rs f = VNone) as E1 by (unfold rs; rewrite E0, (attrs_of_none _ _ _ Himpl); reflexivity).
      assert (hb2 f = []) as E2 by (unfold hb2; rewrite E1; reflexivity).
      rewrite E0, E1, E2. cbn [decode_one List.length].
      split; [reflexivity|]. split; [apply (attrs_of_none _ _ _ Himpl)|]. split; [reflexivity|].
      split; [lia|]. split; [reflexivity|]. split; [intros; lia|]. split; [reflexivity|].
      split; [congruence|]. split; [congruence|]. split; congruence.
    - rewrite <- Eb in *. assert (hb1 f <> []) as Hne by (rewrite Eb; discriminate).
      (* how much of the field is covered *)
      assert (len (hb1 f) <= f_width f)%nat as Hle by (rewrite Eh, sub_length; lia).
      assert (s_off sf < len bits)%nat as Hlo.
      { destruct (Nat.le_gt_cases (len bits) (s_off sf)) as [H|H]; [|exact H].
        exfalso. apply Hne. rewrite Eh. apply length_zero_iff_nil. rewrite sub_length. lia. }
      destruct Hcontig as (Hc & Hws & _).
      assert (len (hb1 f) = f_width f \/ (var_len v sf = true /\ (len (hb1 f) mod fix_unit (s_kind sf) = 0)%nat)) as Hcov.
      { rewrite Eh, sub_length, Hw.
        destruct (Nat.le_gt_cases (s_off sf + s_width sf) (len bits)) as [Hfull|Hpart]; [left; lia|right].
        unfold c08_length_ok in Hlen. apply andb_prop in Hlen as [_ He].
        destruct (partial_is_varlen v (len bits) L 0 Hc Hws He sf (in_combine_l _ _ _ _ Hin) Hlo Hpart) as (A & B).
        split; [exact A|]. rewrite Nat.min_r by lia. unfold fix_unit. exact B. }
      assert (s_kind sf = KT -> pad_ok (hb1 f) = true) as Hpk.
      { intros Ek. destruct Hcov as [Hfull|(_ & Hal)].
        - unfold text_pad_zero in Hpad. rewrite forallb_forall in Hpad.
          specialize (Hpad sf (in_combine_l _ _ _ _ Hin)). rewrite Ek in Hpad.
          assert (s_off sf + s_width sf <= len bits)%nat as Hin2.
          { pose proof Hfull as Hf2. rewrite Eh, sub_length in Hf2. lia. }
          unfold pad_ok. rewrite Hfull, Eh, <- Hw. unfold sub in *.
          rewrite skipn_firstn_comm, skipn_skipn_.
          replace (s_width sf - 6 * (s_width sf / 6))%nat with (s_width sf mod 6)%nat
            by (pose proof (Nat.div_mod (s_width sf) 6 ltac:(lia)); lia).
          replace (6 * (s_width sf / 6))%nat with (s_width sf / 6 * 6)%nat by lia. exact Hpad.
        - unfold fix_unit in Hal. rewrite Ek in Hal. unfold pad_ok.
          replace (6 * (len (hb1 f) / 6))%nat with (len (hb1 f)) by (pose proof (Nat.div_mod (len (hb1 f)) 6 ltac:(lia)); lia).
          rewrite skipn_all. reflexivity. }
      destruct (kind_stable v il sf f (hb1 f) Hp (Hstable_pair sf f Hin) Hne Hle Hcov Hpk)
        as (r & b' & S & Hfullw & Hid & Hemp & Hfx).
      destruct S as (r0 & D0 & A0 & Nr & B0 & Lb & D1).
      assert (r0s f = r0) as E0 by (unfold r0s; rewrite Eb; cbn [decode_one]; rewrite <- Eb, D0; reflexivity).
      assert (rs f = r) as E1 by (unfold rs; rewrite E0, A0; reflexivity).
      assert (hb2 f = b') as E2 by (unfold hb2; rewrite E1, B0; reflexivity).
      rewrite E0, E1, E2.
      split; [rewrite Eb; cbn [decode_one]; rewrite <- Eb; exact D0|]. split; [exact A0|]. split; [exact B0|].
      split; [exact Lb|]. split; [congruence|]. split; [exact Hfullw|]. split; [exact Hid|]. split; [exact D1|].
      split; [intros _; exact Hemp|]. split; [intros _; exact Hfx|].
      intros _ Ek. split; [apply Hpk; exact Ek|].
      destruct Hcov as [A|(_ & A)]; [left; exact A|right]. unfold fix_unit in A. rewrite Ek in A. exact A.
  Qed.
End Payload.

(* ------------------------------------------------------------------------------------------------ *)
(* C08                                                                                                *)

Lemma width_sum_app a b : width_sum (a ++ b) = (width_sum a + width_sum b)%nat.
Proof. induction a as [|x r IH]; [reflexivity|]. cbn [app width_sum]. rewrite IH. lia. Qed.

Lemma exact_text_cases v : exact_text v = true -> v = V12 \/ v = V14.
Proof. destruct v; cbn; try discriminate; auto. Qed.

Lemma exact_text_match v {A} (x y : A) : exact_text v = true -> match v with V12 | V14 => x | _ => y end = x.
Proof. destruct v; cbn; try discriminate; reflexivity. Qed.

Definition c08_holds_for (v : variant) (bits : list bool) (bit_for_bit : bool) : Prop :=
  exists vs b2,
    decode_bits bits = Ok (cls_of v, vs) /\ to_bitarray (cls_of v) vs = Ok b2 /\
    decode_bits b2 = Ok (cls_of v, vs) /\ (bit_for_bit = true -> b2 = bits).

Section Final.
  Variable v : variant.
  Variable bits : list bool.
  Hypothesis Hv : spec_variant bits = Some v.
  Hypothesis Hlen : c08_length_ok v (len bits) = true.
  Hypothesis Hpad : text_pad_zero v bits = true.
  Hypothesis Hguard : c08_empty_text v bits = false.

  Let c := cls_of v.
  Let fs := fields_of c.
  Let L := spec_layout v.
  Let h1 := hb v bits.
  Let h2 := hb2 v bits.
  Let rr := rs v bits.

  Lemma facts sf f : In (sf, f) (combine L fs) ->
    exists il fs1 fs2, fs = fs1 ++ f :: fs2 /\ width_sum fs1 = s_off sf /\
                       il = (match fs2 with [] => true | _ => false end) /\ pair_ok v il sf f = true /\
                       h1 f = sub bits (s_off sf) (s_width sf) /\ s_width sf = f_width f /\
                       pair_stable_facts v bits sf f il.
  Proof. apply (pair_stable v bits Hlen Hpad). Qed.

  Lemma hb_is_sub : forall sf f, In (sf, f) (combine L fs) -> h1 f = sub bits (s_off sf) (s_width sf).
  Proof. intros sf f Hin. destruct (facts sf f Hin) as (? & ? & ? & _ & _ & _ & _ & E & _). exact E. Qed.

  Lemma length_le_nominal : (len bits <= width_sum fs)%nat.
  Proof.
    pose proof Hlen as H. unfold c08_length_ok in H. apply andb_prop in H as [_ He].
    apply existsb_exists in He as (sf & Hsf & E).
    destruct (spec_field_has_pair v sf Hsf) as (f & Hin).
    destruct (facts sf f Hin) as (il & fs1 & fs2 & Efs & Ho & _ & _ & _ & Hw & _).
    rewrite Efs, width_sum_app. cbn [width_sum].
    unfold ends_field in E. apply orb_prop in E as [E|E].
    - apply Nat.eqb_eq in E. lia.
    - apply andb_prop in E as [E _]. apply andb_prop in E as [_ E]. apply Nat.ltb_lt in E. lia.
  Qed.

  Lemma bits_are_fields : concat (map h1 fs) = bits.
  Proof.
    unfold h1. rewrite (concat_slices v bits L fs 0 (Hpairs v) hb_is_sub). cbn [skipn].
    apply firstn_all2. exact length_le_nominal.
  Qed.

  Lemma first_shape : shape fs (map h1 fs).
  Proof. apply (shape_slices v bits L fs 0 (Hpairs v) hb_is_sub). Qed.

  Lemma pair_of f : In f fs -> exists sf, In (sf, f) (combine L fs).
  Proof. apply field_has_pair. Qed.

  Lemma first_decode : decode_bits bits = Ok (c, map rr fs).
  Proof.
    assert (disc_end v <= len bits)%nat as Hd.
    { unfold c08_length_ok in Hlen. apply andb_prop in Hlen as [A _]. apply Nat.leb_le in A. exact A. }
    destruct (dispatch_matches_spec bits v Hv Hd) as (dt & ct & Ha & Hr).
    unfold decode_bits, decode_bits_as. rewrite Ha, Hr. cbn [bind].
    assert (from_bitarray_loop fs bits 0 0 = mapM (fun f => decode_one f (h1 f)) fs) as E.
    { rewrite <- bits_are_fields at 1. apply from_bitarray_fields. apply first_shape. }
    unfold from_bitarray. change (fields_of (cls_of v)) with fs. rewrite E.
    rewrite (mapM_ok _ (r0s v bits)).
    - cbn [bind]. rewrite init_attrs_map. rewrite (mapM_ok _ rr); [reflexivity|].
      intros f Hf. destruct (pair_of f Hf) as (sf & Hin). destruct (facts sf f Hin) as (? & ? & ? & _ & _ & _ & _ & _ & _ & F).
      destruct F as (_ & F & _). exact F.
    - intros f Hf. destruct (pair_of f Hf) as (sf & Hin). destruct (facts sf f Hin) as (? & ? & ? & _ & _ & _ & _ & _ & _ & F).
      destruct F as (F & _). exact F.
  Qed.

  Lemma reencoded : to_bitarray c (map rr fs) = Ok (concat (map h2 fs)).
  Proof.
    unfold to_bitarray. rewrite to_bitarray_loop_map. rewrite (mapM_ok _ h2); [reflexivity|].
    intros f Hf. destruct (pair_of f Hf) as (sf & Hin). destruct (facts sf f Hin) as (? & ? & ? & _ & _ & _ & _ & _ & _ & F).
    destruct F as (_ & _ & F & _). exact F.
  Qed.

  Lemma all_nil_transfer : forall gs l o, pairs_ok v o l gs = true ->
    Forall (fun x => x = []) (map h1 gs) ->
    (forall sf f, In (sf, f) (combine l gs) -> forall il, pair_ok v il sf f = true -> h1 f = [] -> h2 f = []) ->
    Forall (fun x => x = []) (map h2 gs).
  Proof.
    induction gs as [|x r IHr]; intros l o Hr Hn Hf'; [constructor|].
    destruct l as [|s' l']; [discriminate|].
    inversion Hn as [|? ? Hx Hrest]; subst. cbn [map]. cbn [pairs_ok] in Hr.
    apply andb_prop in Hr as [Hr1 Hr2]. apply andb_prop in Hr1 as [_ Hp'].
    constructor.
    - apply (Hf' s' x (or_introl eq_refl) _ Hp'). exact Hx.
    - apply (IHr l' _ Hr2 Hrest). intros sf f Hin. apply Hf'. right. exact Hin.
  Qed.

  Lemma shape_transfer : forall l gs off, pairs_ok v off l gs = true -> shape gs (map h1 gs) ->
    (forall sf f, In (sf, f) (combine l gs) -> forall il, pair_ok v il sf f = true ->
       (len (h2 f) <= f_width f)%nat /\ (h1 f = [] -> h2 f = []) /\
       (len (h1 f) = f_width f -> il = false -> len (h2 f) = f_width f /\ h2 f <> [])) ->
    shape gs (map h2 gs).
  Proof.
    induction l as [|s l IH]; intros [|g gs] off H Hs Hf; try discriminate; [exact I|].
    cbn [pairs_ok] in H. apply andb_prop in H as [H Hr]. apply andb_prop in H as [_ Hp].
    destruct (Hf s g (or_introl eq_refl) _ Hp) as (Hle & Hnil & Hfull).
    assert (forall sf f, In (sf, f) (combine l gs) -> forall il, pair_ok v il sf f = true ->
       (len (h2 f) <= f_width f)%nat /\ (h1 f = [] -> h2 f = []) /\
       (len (h1 f) = f_width f -> il = false -> len (h2 f) = f_width f /\ h2 f <> [])) as Hf'
      by (intros sf f Hin; apply Hf; right; exact Hin).
    cbn [map shape] in *. destruct Hs as [(A & B & Hs)|(A & Hn & Hl)].
    - destruct gs as [|g' gs'].
      + right. split; [exact Hle|]. split; [constructor|reflexivity].
      + left. destruct (Hfull A eq_refl) as (A' & B'). split; [exact A'|]. split; [exact B'|].
        apply (IH (g' :: gs') _ Hr Hs Hf').
    - right. split; [exact Hle|]. split; [|rewrite map_length in *; exact Hl].
      apply (all_nil_transfer gs l _ Hr Hn). intros sf f Hin il Hp'. apply (Hf' sf f Hin il Hp').
  Qed.

  Lemma second_shape : shape fs (map h2 fs).
  Proof.
    apply (shape_transfer L fs 0 (Hpairs v) first_shape). intros sf f Hin il Hp.
    destruct (facts sf f Hin) as (il' & fs1 & fs2 & _ & _ & _ & _ & _ & _ & F).
    destruct F as (_ & _ & _ & Hle & Hnil & _ & _ & _ & _ & _ & _).
    split; [exact Hle|]. split; [exact Hnil|].
    (* the flag of pair_ok is determined by the layout *)
    intros Hl ->. destruct (hb_pair v bits sf f Hin) as (_ & _ & _ & gs1 & gs2 & il2 & _ & _ & _ & Hp2).
    assert (il2 = false) as ->.
    { unfold pair_ok in Hp, Hp2. repeat (apply andb_prop in Hp as [Hp ?]). repeat (apply andb_prop in Hp2 as [Hp2 ?]).
      repeat match goal with H : Bool.eqb _ (ends_message v sf) = true |- _ => apply eqb_prop in H end. congruence. }
    destruct (pair_stable v bits Hlen Hpad sf f Hin) as (il3 & ? & ? & _ & _ & _ & Hp3 & _ & _ & F3).
    assert (il3 = false) as ->.
    { unfold pair_ok in Hp2, Hp3. repeat (apply andb_prop in Hp2 as [Hp2 ?]). repeat (apply andb_prop in Hp3 as [Hp3 ?]).
      repeat match goal with H : Bool.eqb _ (ends_message v sf) = true |- _ => apply eqb_prop in H end. congruence. }
    destruct F3 as (_ & _ & _ & _ & _ & Hfull & _). apply Hfull; [exact Hl|reflexivity].
  Qed.

  (* under the guard a covered field is never re-encoded as nothing *)
  Lemma covered_stays sf f : In (sf, f) (combine L fs) -> h2 f = [] -> h1 f = [].
  Proof.
    intros Hin H2. destruct (h1 f) as [|x xs] eqn:E1; [reflexivity|exfalso].
    destruct (facts sf f Hin) as (il & fs1 & fs2 & _ & _ & _ & _ & Eh & Hw & F).
    destruct F as (_ & _ & _ & _ & _ & _ & _ & _ & Hemp & _ & Hpk).
    assert (h1 f <> []) as Hne by (rewrite E1; discriminate).
    destruct (Hemp Hne H2) as (Ek & Ex & Et). destruct (Hpk Hne Ek) as (Hp & _).
    assert (c08_empty_text v bits = true); [|congruence].
    unfold c08_empty_text. apply existsb_exists. exists sf. split; [apply (in_combine_l _ _ _ _ Hin)|].
    rewrite Ek. rewrite sub_covered. rewrite (exact_text_match v _ _ Ex).
    assert (covered sf (len bits) = len (h1 f)) as Ec.
    { rewrite Eh, sub_length. unfold covered. reflexivity. }
    unfold h1 in *. rewrite Ec, <- Eh, <- (decode_text_is_spec_text _ Hp), Et, E1. reflexivity.
  Qed.

  Lemma second_fields : from_bitarray c (concat (map h2 fs)) = Ok (map rr fs).
  Proof.
    unfold from_bitarray. change (fields_of c) with fs.
    assert (from_bitarray_loop fs (concat (map h2 fs)) 0 0 = mapM (fun f => decode_one f (h2 f)) fs) as E0
      by (apply from_bitarray_fields; apply second_shape).
    rewrite E0. clear E0.
    set (r0t := fun f => get_ok VNone (decode_one f (h2 f))).
    assert (forall f, In f fs -> decode_one f (h2 f) = Ok (r0t f) /\ apply_opt_conv (f_attrs_conv f) (r0t f) = Ok (rr f)) as H.
    { intros f Hf. destruct (pair_of f Hf) as (sf & Hin).
      destruct (facts sf f Hin) as (il & fs1 & fs2 & _ & _ & _ & Hp & _ & _ & F).
      destruct F as (D1 & A1 & _ & _ & _ & _ & _ & D2 & _).
      unfold r0t. destruct (h2 f) as [|y ys] eqn:E2.
      - pose proof (covered_stays sf f Hin E2) as E1. cbn [decode_one get_ok].
        split; [reflexivity|]. fold h1 in D1. rewrite E1 in D1. cbn [decode_one] in D1. injection D1 as D1.
        fold rr in A1. rewrite <- D1 in A1. exact A1.
      - destruct D2 as (r0' & Dd & Aa); [fold h2; rewrite E2; discriminate|]. fold h2 in Dd. rewrite E2 in Dd.
        cbn [decode_one]. rewrite Dd. cbn [get_ok]. split; [reflexivity|exact Aa]. }
    rewrite (mapM_ok _ r0t) by (intros f Hf; apply (H f Hf)). cbn [bind].
    rewrite init_attrs_map. apply mapM_ok. intros f Hf. apply (H f Hf).
  Qed.

  (* the discriminator fields are re-emitted bit for bit: the first disc_end bits are unchanged *)
  Lemma prefix_same : forall l gs off, pairs_ok v off l gs = true -> (off <= disc_end v)%nat ->
    (forall sf f, In (sf, f) (combine l gs) ->
       h1 f = sub bits (s_off sf) (s_width sf) /\ s_width sf = f_width f /\
       ((disc_end v <= s_off sf)%nat \/ (h2 f = h1 f /\ (s_off sf + s_width sf <= disc_end v)%nat))) ->
    firstn (disc_end v - off) (concat (map h2 gs)) = firstn (disc_end v - off) (concat (map h1 gs)).
  Proof.
    induction l as [|s l IH]; intros [|g gs] off H Ho Hf; try discriminate; [reflexivity|].
    cbn [pairs_ok] in H. apply andb_prop in H as [H Hr]. apply andb_prop in H as [Hoff _]. apply Nat.eqb_eq in Hoff.
    destruct (Hf s g (or_introl eq_refl)) as (Eh & Hw & [Hge|(E2 & Hin)]).
    - replace (disc_end v - off)%nat with 0%nat by lia. reflexivity.
    - assert (disc_end v <= len bits)%nat as Hd.
      { unfold c08_length_ok in Hlen. apply andb_prop in Hlen as [A _]. apply Nat.leb_le in A. exact A. }
      assert (len (h1 g) = f_width g) as Hl1 by (rewrite Eh, sub_length; lia).
      cbn [map List.concat]. rewrite E2. rewrite !firstn_app, Hl1.
      f_equal. replace (disc_end v - off - f_width g)%nat with (disc_end v - (off + f_width g))%nat by lia.
      apply (IH gs _ Hr); [lia|]. intros sf f Hin2. apply Hf. right. exact Hin2.
  Qed.

  Lemma second_variant : spec_variant (concat (map h2 fs)) = Some v /\ (disc_end v <= len (concat (map h2 fs)))%nat.
  Proof.
    assert (disc_end v <= len bits)%nat as Hd.
    { unfold c08_length_ok in Hlen. apply andb_prop in Hlen as [A _]. apply Nat.leb_le in A. exact A. }
    pose proof (prefix_same L fs 0 (Hpairs v) ltac:(lia)) as P. rewrite Nat.sub_0_r in P.
    assert (firstn (disc_end v) (concat (map h2 fs)) = firstn (disc_end v) (concat (map h1 fs))) as E.
    { apply P. intros sf f Hin. destruct (facts sf f Hin) as (il & ? & ? & _ & _ & _ & _ & Eh & Hw & F).
      split; [exact Eh|]. split; [exact Hw|].
      pose proof (Hstable_pair v sf f Hin) as Hs. unfold stable_pair_ok in Hs. apply andb_prop in Hs as [_ Hs].
      apply orb_prop in Hs as [Hs|Hs]; [left; apply Nat.leb_le; exact Hs|right].
      apply andb_prop in Hs as [Hid Hle]. apply Nat.leb_le in Hle. split; [|exact Hle].
      destruct F as (_ & _ & _ & _ & _ & _ & Hident & _). apply Hident. exact Hid. }
    rewrite bits_are_fields in E. split.
    - apply (spec_variant_prefix bits _ v Hv E).
    - apply (f_equal (@List.length bool)) in E. rewrite !firstn_length in E. lia.
  Qed.

  Lemma second_decode : decode_bits (concat (map h2 fs)) = Ok (c, map rr fs).
  Proof.
    destruct second_variant as (Hv2 & Hd2).
    destruct (dispatch_matches_spec _ v Hv2 Hd2) as (dt & ct & Ha & Hr).
    unfold decode_bits, decode_bits_as. rewrite Ha, Hr. cbn [bind]. fold c. rewrite second_fields. reflexivity.
  Qed.

  (* second clause: no field was normalised (and no sub-character padding is in the payload) -> bit for bit *)
  Lemma bit_for_bit : raw_unnormalised v bits = true -> c08_pad_dropped v bits = false ->
    concat (map h2 fs) = bits.
  Proof.
    intros Hu Hpd. rewrite <- bits_are_fields at 1. f_equal. apply map_ext_in. intros f Hf.
    destruct (pair_of f Hf) as (sf & Hin).
    destruct (facts sf f Hin) as (il & fs1 & fs2 & _ & _ & _ & _ & Eh & Hw & F).
    destruct F as (_ & _ & _ & _ & Hnil & _ & _ & _ & _ & Hfx & Hpk). unfold h1, h2 in *.
    destruct (hb v bits f) as [|x xs] eqn:E1; [apply Hnil; reflexivity|]. rewrite <- E1 in *.
    assert (hb v bits f <> []) as Hne by (rewrite E1; discriminate).
    pose proof (in_combine_l _ _ _ _ Hin) as Hsf.
    assert (covered sf (len bits) = len (hb v bits f)) as Ec by (rewrite Eh, sub_length; reflexivity).
    apply (Hfx Hne).
    - unfold raw_unnormalised in Hu. rewrite forallb_forall in Hu. specialize (Hu sf Hsf). cbn zeta in Hu.
      rewrite sub_covered, <- Eh, Ec, Hw in Hu.
      apply orb_prop in Hu as [Hz|Hu]; [|exact Hu].
      apply Nat.eqb_eq in Hz. exfalso. apply Hne. apply length_zero_iff_nil. exact Hz.
    - intros Ek. destruct (Hpk Hne Ek) as (_ & [Hfull|Hal]); [|exact Hal].
      unfold c08_pad_dropped in Hpd.
      assert (negb (s_width sf mod 6 =? 0)%nat && (6 * (s_width sf / 6) <? covered sf (len bits))%nat = false) as G.
      { destruct (negb (s_width sf mod 6 =? 0)%nat && (6 * (s_width sf / 6) <? covered sf (len bits))%nat) eqn:E; [|reflexivity].
        assert (existsb (fun f0 => match s_kind f0 with
                                   | KT => negb (s_width f0 mod 6 =? 0)%nat && (6 * (s_width f0 / 6) <? covered f0 (len bits))%nat
                                   | _ => false end) (spec_layout v) = true); [|congruence].
        apply existsb_exists. exists sf. split; [exact Hsf|]. rewrite Ek. exact E. }
      rewrite Ec, Hfull, Hw in G. pose proof (Nat.div_mod (f_width f) 6 ltac:(lia)) as Dm.
      pose proof (Nat.mod_upper_bound (f_width f) 6 ltac:(lia)).
      apply andb_false_iff in G as [G|G].
      + apply negb_false_iff, Nat.eqb_eq in G. rewrite Hfull. exact G.
      + apply Nat.ltb_ge in G. rewrite Hfull. lia.
  Qed.
End Final.

(* C08 with exactly the known finding's inputs excluded *)
Theorem c08_partial v bits :
  spec_variant bits = Some v -> c08_length_ok v (len bits) = true -> text_pad_zero v bits = true ->
  c08_guard v bits = true ->
  c08_holds_for v bits (raw_unnormalised v bits && negb (c08_pad_dropped v bits)).
Proof.
  intros Hv Hlen Hpad Hg. unfold c08_guard in Hg. apply negb_true_iff in Hg.
  exists (map (rs v bits) (fields_of (cls_of v))), (concat (map (hb2 v bits) (fields_of (cls_of v)))).
  split; [apply first_decode; assumption|]. split; [apply reencoded; assumption|].
  split; [apply second_decode; assumption|].
  intros H. apply andb_prop in H as [Hu Hp]. apply negb_true_iff in Hp. apply bit_for_bit; assumption.
Qed.

(* ------------------------------------------------------------------------------------------------ *)
(* the inputs on which the unchanged code violates C08: concrete witnesses                            *)

Fixpoint bits_of_string (s : string) : list bool :=
  match s with
  | EmptyString => []
  | String a r => Ascii.eqb a (Ascii.Ascii true false false false true true false false) :: bits_of_string r
  end.

(* type 12, 78 bits: header and one character '@' -- decodes with text '', re-encodes to 72 bits, decodes with text None *)
Definition witness_c08_empty_text : list bool :=
  bits_of_string "001100" ++ repeat false 66 ++ repeat false 6.

Lemma c08_witness_empty_text :
  spec_variant witness_c08_empty_text = Some V12 /\ c08_length_ok V12 (len witness_c08_empty_text) = true /\
  text_pad_zero V12 witness_c08_empty_text = true /\ c08_empty_text V12 witness_c08_empty_text = true /\
  forall bfb, ~ c08_holds_for V12 witness_c08_empty_text bfb.
Proof.
  split; [vm_compute; reflexivity|]. split; [vm_compute; reflexivity|]. split; [vm_compute; reflexivity|].
  split; [vm_compute; reflexivity|].
  intros bfb (vs & b2 & H1 & H2 & H3 & _).
  vm_compute in H1. injection H1 as <-. vm_compute in H2. injection H2 as <-. vm_compute in H3. discriminate.
Qed.

(* type 21, 360 bits, every field re-encodes to itself: 356 bits come back (the 4 padding bits after the 88-bit name
   extension are not re-emitted) *)
Definition witness_c08_padding : list bool :=
  bits_of_string "010101" ++ repeat false 37 ++ concat (repeat (bits_of_string "000001") 20) ++ repeat false 109
  ++ concat (repeat (bits_of_string "000001") 14) ++ repeat false 4.

Lemma c08_witness_padding :
  spec_variant witness_c08_padding = Some V21 /\ c08_length_ok V21 (len witness_c08_padding) = true /\
  text_pad_zero V21 witness_c08_padding = true /\ raw_unnormalised V21 witness_c08_padding = true /\
  c08_empty_text V21 witness_c08_padding = false /\ c08_pad_dropped V21 witness_c08_padding = true /\
  ~ c08_holds_for V21 witness_c08_padding true.
Proof.
  split; [vm_compute; reflexivity|]. split; [vm_compute; reflexivity|]. split; [vm_compute; reflexivity|].
  split; [vm_compute; reflexivity|]. split; [vm_compute; reflexivity|]. split; [vm_compute; reflexivity|].
  intros (vs & b2 & H1 & H2 & _ & H4).
  vm_compute in H1. injection H1 as <-. vm_compute in H2. injection H2 as <-.
  specialize (H4 eq_refl). apply (f_equal (@List.length bool)) in H4. vm_compute in H4. discriminate.
Qed.
