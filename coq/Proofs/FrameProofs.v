(* Proofs for the framing layer, second half (C09; frame_roundtrip is also what C02 needs).
   Part C  integer formatting: digits only, one decimal digit, two hex digits   (fmt_dec_clean, dec_ok_nonneg, hex2_roundtrip)
   Part D  XOR checksum                                                          (fold_left_lxor, xor_all_range)
   Part E  reading back what the template writes                                 (view_sentence, checksum_sentence)
   Part F  ais_to_nmea_0183 satisfies every clause of Spec/FrameSpec             (frame_wellformed, frame_roundtrip)
   Part G  encode_msg / encode_dict / get_ais_type
   Chunks and the armoring round trip are in Proofs/FrameArmorProofs.v. *)
From Coq Require Import String ZArith List Bool Lia.
Require Import Prim.Exn Prim.Bits Prim.Fmt Gen.GenAlpha Model.FieldTypes Gen.GenTables Model.Codec Model.Frame Spec.FrameSpec.
Require Import Proofs.FrameArmorProofs.
Import ListNotations.
Open Scope list_scope.
Open Scope Z_scope.
Local Notation length := List.length (only parsing).

(* ================================================================================================ *)
(* Part C: formatting                                                                                *)

Lemma digits_fuel_Forall : forall (P : Z -> Prop) digit base, (forall n, P (digit (n mod base))) ->
  forall fuel n acc, Forall P acc -> Forall P (fmt_digits_fuel digit base fuel n acc).
Proof.
  intros P digit base HP. induction fuel as [|f IH]; intros n acc Hacc; simpl; auto.
  destruct (n <? base); [constructor; auto|]. apply IH. constructor; auto.
Qed.

(* str(n) consists of decimal digits and possibly a minus sign, for every integer *)
Definition dec_char (c : Z) : Prop := c = 45 \/ 48 <= c <= 57.

Lemma fmt_dec_chars : forall n, Forall dec_char (fmt_dec n).
Proof.
  assert (forall n, dec_char (fmt_dec_digit (n mod 10))) as Hd.
  { intros n. unfold dec_char, fmt_dec_digit. pose proof (Z.mod_pos_bound n 10). lia. }
  intros [|p|p]; simpl.
  - constructor; [unfold dec_char; lia|constructor].
  - apply digits_fuel_Forall; auto.
  - constructor; [left; reflexivity|]. apply digits_fuel_Forall; auto.
Qed.

Lemma fmt_dec_one_digit : forall k, 0 <= k <= 9 -> fmt_dec k = [48 + k].
Proof.
  intros k H.
  assert (k = 0 \/ k = 1 \/ k = 2 \/ k = 3 \/ k = 4 \/ k = 5 \/ k = 6 \/ k = 7 \/ k = 8 \/ k = 9) as D by lia.
  repeat (destruct D as [D|D]; [subst; reflexivity|]). subst; reflexivity.
Qed.

(* the decimal reading of what str(n) writes is n -- here for one digit, which is all the theorem needs *)
Definition dec_ok (n : Z) : Prop := fs_dec_is (fmt_dec n) n = true.

Lemma dec_ok_digit : forall k, 0 <= k <= 9 -> dec_ok k.
Proof.
  intros k H. unfold dec_ok.
  assert (k = 0 \/ k = 1 \/ k = 2 \/ k = 3 \/ k = 4 \/ k = 5 \/ k = 6 \/ k = 7 \/ k = 8 \/ k = 9) as D by lia.
  repeat (destruct D as [D|D]; [subst; reflexivity|]). subst; reflexivity.
Qed.

(* ... and for every non-negative integer: the digits are produced least significant first into an accumulator;
   reading them back multiplies the value read so far by 10^k and adds n *)
Lemma size_nat_bound : forall p, Zpos p < 2 ^ Z.of_nat (Pos.size_nat p).
Proof.
  induction p as [p IH|p IH|]; cbn [Pos.size_nat]; rewrite ?Nat2Z.inj_succ, ?Z.pow_succ_r by lia; lia.
Qed.

Lemma digits_fuel_nonempty : forall digit base fuel n acc, acc <> [] -> fmt_digits_fuel digit base fuel n acc <> [].
Proof.
  induction fuel as [|f IH]; intros n acc H; simpl; auto.
  destruct (n <? base); [congruence|]. apply IH. congruence.
Qed.

Lemma dec_digits_read : forall fuel n acc, 0 <= n < 2 ^ Z.of_nat fuel ->
  exists k, 0 <= k /\ forall a, fs_dec_val_acc a (fmt_digits_fuel fmt_dec_digit 10 fuel n acc) = fs_dec_val_acc (a * 10 ^ k + n) acc.
Proof.
  induction fuel as [|f IH]; intros n acc Hn.
  - exists 0. split; [lia|]. intros a. simpl in *. replace n with 0 by lia. f_equal. lia.
  - rewrite Nat2Z.inj_succ, Z.pow_succ_r in Hn by lia.
    assert (Hd : forall a r, fs_dec_val_acc a (fmt_dec_digit (n mod 10) :: r) = fs_dec_val_acc (10 * a + n mod 10) r).
    { intros a r. pose proof (Z.mod_pos_bound n 10 ltac:(lia)). simpl. unfold fs_is_digit, fmt_dec_digit.
      replace ((48 <=? 48 + n mod 10) && (48 + n mod 10 <=? 57)) with true by (symmetry; apply andb_true_intro; split; apply Z.leb_le; lia).
      f_equal. lia. }
    simpl fmt_digits_fuel. destruct (Z.ltb_spec n 10) as [Hlt|Hge].
    + exists 1. split; [lia|]. intros a. rewrite Hd. rewrite Z.mod_small by lia. f_equal. lia.
    + destruct (IH (n / 10) (fmt_dec_digit (n mod 10) :: acc)) as (k & Hk & Hr).
      { split; [apply Z.div_pos; lia|]. apply Z.div_lt_upper_bound; lia. }
      exists (k + 1). split; [lia|]. intros a. rewrite Hr, Hd. f_equal.
      rewrite Z.pow_add_r by lia. pose proof (Z.div_mod n 10 ltac:(lia)). lia.
Qed.

Lemma dec_ok_nonneg : forall n, 0 <= n -> dec_ok n.
Proof.
  intros [|p|p] H; [reflexivity| |lia]. unfold dec_ok, fs_dec_is, fs_dec_val, fmt_dec, fmt_pos_digits.
  destruct (dec_digits_read (Pos.size_nat p) (Zpos p) [] ltac:(pose proof (size_nat_bound p); lia)) as (k & Hk & Hr).
  assert (fmt_digits_fuel fmt_dec_digit 10 (Pos.size_nat p) (Z.pos p) [] <> []) as Hne.
  { assert (exists f, Pos.size_nat p = S f) as (f & ->) by (destruct p; eexists; reflexivity).
    cbn [fmt_digits_fuel]. destruct (Z.pos p <? 10); [congruence|apply digits_fuel_nonempty; congruence]. }
  destruct (fmt_digits_fuel fmt_dec_digit 10 (Pos.size_nat p) (Z.pos p) []) as [|d ds] eqn:E; [congruence|].
  rewrite (Hr 0). cbn [fs_dec_val_acc]. replace (0 * 10 ^ k + Z.pos p) with (Z.pos p) by lia. apply Z.eqb_refl.
Qed.

(* '{:02X}' read back as two upper-case hex digits, all 256 byte values *)
Definition hex2_ok (n : Z) : bool :=
  match fmt_02X n with
  | [h; l] => match fs_hex_val h, fs_hex_val l with
              | Some a, Some b => 16 * a + b =? n
              | _, _ => false
              end
  | _ => false
  end.

Lemma hex2_all : forallb hex2_ok (map Z.of_nat (seq 0 256)) = true.
Proof. vm_compute. reflexivity. Qed.

Lemma hex2_roundtrip : forall n, 0 <= n < 256 -> hex2_ok n = true.
Proof.
  intros n H. apply (proj1 (forallb_forall _ _) hex2_all). apply in_map_iff.
  exists (Z.to_nat n). split; [lia|apply in_seq; lia].
Qed.

Lemma hex2_length : forall n, hex2_ok n = true -> length (fmt_02X n) = 2%nat.
Proof.
  intros n. unfold hex2_ok. destruct (fmt_02X n) as [|h [|l [|x r]]]; try discriminate. reflexivity.
Qed.

(* ================================================================================================ *)
(* Part D: XOR                                                                                       *)

Lemma fold_left_lxor : forall r a, fold_left Z.lxor r a = Z.lxor a (fs_xor_all r).
Proof.
  induction r as [|x r IH]; intros a; simpl.
  - rewrite Z.lxor_0_r. reflexivity.
  - rewrite IH. unfold fs_xor_all. rewrite Z.lxor_assoc. reflexivity.
Qed.

Lemma lxor_range7 : forall a b, 0 <= a < 128 -> 0 <= b < 128 -> 0 <= Z.lxor a b < 128.
Proof.
  intros a b Ha Hb.
  assert (0 <= Z.lxor a b) as Hn by (apply Z.lxor_nonneg; lia).
  split; [exact Hn|].
  destruct (Z.eq_dec (Z.lxor a b) 0) as [E|E]; [lia|].
  change 128 with (2 ^ 7). apply Z.log2_lt_pow2; [lia|].
  assert (forall x, 0 <= x < 128 -> Z.log2 x < 7) as L.
  { intros x Hx. destruct (Z.eq_dec x 0) as [->|]; [reflexivity|]. apply Z.log2_lt_pow2; [lia|]. change (2 ^ 7) with 128. lia. }
  pose proof (Z.log2_lxor a b ltac:(lia) ltac:(lia)). pose proof (L a Ha). pose proof (L b Hb). lia.
Qed.

Lemma xor_all_range : forall s, Forall (fun c => 0 <= c < 128) s -> 0 <= fs_xor_all s < 128.
Proof.
  induction 1 as [|c s Hc Hs IH]; simpl; [lia|]. apply lxor_range7; assumption.
Qed.

(* ================================================================================================ *)
(* Part E: reading back what the template writes                                                     *)

Definition no (c : Z) (l : list Z) : Prop := Forall (fun x => x <> c) l.

Lemma break_at_app : forall sep a b, no sep a -> fs_break_at sep (a ++ sep :: b) = (a, sep :: b).
Proof.
  intros sep a b H. induction H as [|x a Hx Ha IH]; simpl.
  - rewrite Z.eqb_refl. reflexivity.
  - destruct (Z.eqb_spec x sep); [contradiction|]. rewrite IH. reflexivity.
Qed.

Lemma split_on_nonempty : forall sep s, fs_split_on sep s <> [].
Proof.
  intros sep s. destruct s as [|c r]; simpl; [congruence|].
  destruct (c =? sep); [congruence|]. destruct (fs_split_on sep r); congruence.
Qed.

Lemma split_on_app : forall sep a b, no sep a -> fs_split_on sep (a ++ sep :: b) = a :: fs_split_on sep b.
Proof.
  intros sep a b H. induction H as [|x a Hx Ha IH]; simpl.
  - rewrite Z.eqb_refl. reflexivity.
  - destruct (Z.eqb_spec x sep); [contradiction|]. rewrite IH. reflexivity.
Qed.

Lemma split_on_nosep : forall sep a, no sep a -> fs_split_on sep a = [a].
Proof.
  intros sep a H. induction H as [|x a Hx Ha IH]; simpl; [reflexivity|].
  destruct (Z.eqb_spec x sep); [contradiction|]. rewrite IH. reflexivity.
Qed.

Lemma split1_head_app : forall sep a b, no sep a -> frm_split1_head sep (a ++ sep :: b) = a.
Proof.
  intros sep a b H. induction H as [|x a Hx Ha IH]; simpl.
  - rewrite Z.eqb_refl. reflexivity.
  - destruct (Z.eqb_spec x sep); [contradiction|]. rewrite IH. reflexivity.
Qed.

Lemma is_prefix_app : forall p s, fs_is_prefix p (p ++ s) = true.
Proof. induction p as [|x p IH]; intros s; simpl; [reflexivity|]. rewrite Z.eqb_refl, IH. reflexivity. Qed.

Lemma text_eqb_refl : forall a, fs_text_eqb a a = true.
Proof. induction a as [|x a IH]; simpl; [reflexivity|]. rewrite Z.eqb_refl, IH. reflexivity. Qed.

(* seven fields joined by commas *)
Definition join7 (f0 f1 f2 f3 f4 f5 f6 : list Z) : list Z :=
  f0 ++ 44 :: f1 ++ 44 :: f2 ++ 44 :: f3 ++ 44 :: f4 ++ 44 :: f5 ++ 44 :: f6.

Lemma split_join7 : forall f0 f1 f2 f3 f4 f5 f6,
  no 44 f0 -> no 44 f1 -> no 44 f2 -> no 44 f3 -> no 44 f4 -> no 44 f5 -> no 44 f6 ->
  fs_split_on 44 (join7 f0 f1 f2 f3 f4 f5 f6) = [f0; f1; f2; f3; f4; f5; f6].
Proof.
  intros. unfold join7. repeat (rewrite split_on_app by assumption). rewrite split_on_nosep by assumption. reflexivity.
Qed.

Lemma Forall_join7 : forall (P : Z -> Prop) f0 f1 f2 f3 f4 f5 f6, P 44 ->
  Forall P f0 -> Forall P f1 -> Forall P f2 -> Forall P f3 -> Forall P f4 -> Forall P f5 -> Forall P f6 ->
  Forall P (join7 f0 f1 f2 f3 f4 f5 f6).
Proof.
  intros. unfold join7. repeat (apply Forall_app; split; [assumption|constructor; [assumption|]]). assumption.
Qed.

(* the sentence the template produces for given field texts, with the checksum the specification asks for *)
Definition sent_body (talker : list Z) (cnt num : Z) (seq chan chunk : list Z) (fillf : Z) : list Z :=
  join7 talker (fmt_dec cnt) (fmt_dec num) seq chan chunk (fmt_dec fillf).

Definition sentence (talker : list Z) (cnt num : Z) (seq chan chunk : list Z) (fillf : Z) : list Z :=
  33 :: sent_body talker cnt num seq chan chunk fillf
     ++ 42 :: fmt_02X (fs_xor_all (sent_body talker cnt num seq chan chunk fillf)).

Definition sent_view (talker : list Z) (cnt num : Z) (seq chan chunk : list Z) (fillf : Z) : fs_sview :=
  {| sv_body := sent_body talker cnt num seq chan chunk fillf;
     sv_tail := fmt_02X (fs_xor_all (sent_body talker cnt num seq chan chunk fillf));
     sv_talker := talker; sv_cnt := fmt_dec cnt; sv_num := fmt_dec num; sv_seq := seq; sv_chan := chan;
     sv_payload := chunk; sv_fill := fmt_dec fillf |}.

Lemma tpl_format_shape : forall talker cnt num seq chan chunk fillf x,
  tpl_format talker cnt num seq chan chunk fillf x = 33 :: sent_body talker cnt num seq chan chunk fillf ++ 42 :: fmt_02X x.
Proof.
  intros. unfold tpl_format, sent_body, join7. simpl.
  repeat (rewrite <- app_assoc || rewrite <- app_comm_cons). reflexivity.
Qed.

(* characters that may appear in a field: ASCII, neither '*' nor ',' *)
Definition clean_char (c : Z) : Prop := 0 <= c < 128 /\ c <> 42 /\ c <> 44.
Definition clean (l : list Z) : Prop := Forall clean_char l.

Lemma clean_no : forall l, clean l -> no 42 l /\ no 44 l /\ Forall (fun c => 0 <= c < 128) l.
Proof.
  intros l H. repeat split; eapply Forall_impl; try exact H; unfold clean_char; simpl; intros; lia.
Qed.

Lemma fmt_dec_clean : forall n, clean (fmt_dec n).
Proof.
  intros n. eapply Forall_impl; [|apply fmt_dec_chars]. unfold dec_char, clean_char. simpl. intros. lia.
Qed.

Lemma armored_clean : forall p, armored p -> clean p.
Proof.
  intros p H. eapply Forall_impl; [|exact H]. simpl. intros c Hc. unfold fs_armor_alphabet in Hc. unfold clean_char. lia.
Qed.

Section Sentence.
  Variables (talker seq chan chunk : list Z) (cnt num fillf : Z).
  Hypothesis Htalker : clean talker.
  Hypothesis Hseq : clean seq.
  Hypothesis Hchan : clean chan.
  Hypothesis Hchunk : clean chunk.
  Hypothesis Hne : talker <> [].

  Let body := sent_body talker cnt num seq chan chunk fillf.

  Lemma body_facts : no 42 body /\ Forall (fun c => 0 <= c < 128) body /\ body <> [].
  Proof.
    pose proof (clean_no _ Htalker) as (? & ? & ?). pose proof (clean_no _ Hseq) as (? & ? & ?).
    pose proof (clean_no _ Hchan) as (? & ? & ?). pose proof (clean_no _ Hchunk) as (? & ? & ?).
    pose proof (clean_no _ (fmt_dec_clean cnt)) as (? & ? & ?). pose proof (clean_no _ (fmt_dec_clean num)) as (? & ? & ?).
    pose proof (clean_no _ (fmt_dec_clean fillf)) as (? & ? & ?).
    unfold body, sent_body. repeat split.
    - apply Forall_join7; auto. discriminate.
    - apply Forall_join7; auto. lia.
    - unfold join7. destruct talker; [congruence|discriminate].
  Qed.

  (* util.compute_checksum of the dummy message is the XOR of the body *)
  Lemma checksum_sentence : forall x,
    frm_compute_checksum (tpl_format talker cnt num seq chan chunk fillf x) = Ok (fs_xor_all body).
  Proof.
    intros x. destruct body_facts as (Hno & _ & Hnn).
    rewrite tpl_format_shape. unfold frm_compute_checksum. simpl tl. fold body.
    rewrite split1_head_app by assumption.
    destruct body as [|c r] eqn:E; [congruence|]. simpl. rewrite fold_left_lxor. reflexivity.
  Qed.

  Lemma xor_body_range : 0 <= fs_xor_all body < 128.
  Proof. apply xor_all_range. apply body_facts. Qed.

  (* the specification reads the sentence back into exactly the fields that were written *)
  Lemma view_sentence :
    fs_view (sentence talker cnt num seq chan chunk fillf) = Some (sent_view talker cnt num seq chan chunk fillf).
  Proof.
    destruct body_facts as (Hno & _ & _).
    pose proof (clean_no _ Htalker) as (? & ? & ?). pose proof (clean_no _ Hseq) as (? & ? & ?).
    pose proof (clean_no _ Hchan) as (? & ? & ?). pose proof (clean_no _ Hchunk) as (? & ? & ?).
    pose proof (clean_no _ (fmt_dec_clean cnt)) as (? & ? & ?). pose proof (clean_no _ (fmt_dec_clean num)) as (? & ? & ?).
    pose proof (clean_no _ (fmt_dec_clean fillf)) as (? & ? & ?).
    unfold sentence, fs_view. fold body. change (negb (33 =? 33)) with false. cbv iota.
    rewrite break_at_app by assumption.
    unfold body at 1, sent_body. rewrite split_join7 by assumption. reflexivity.
  Qed.

  Lemma checksum_ok_sentence : fs_checksum_ok (sent_view talker cnt num seq chan chunk fillf) = true.
  Proof.
    pose proof (hex2_roundtrip (fs_xor_all body) ltac:(pose proof xor_body_range; lia)) as H.
    unfold hex2_ok in H. unfold fs_checksum_ok. simpl. fold body. exact H.
  Qed.

  Lemma prefix_sentence : fs_is_prefix ([33] ++ talker ++ [44]) (sentence talker cnt num seq chan chunk fillf) = true.
  Proof.
    unfold sentence, sent_body, join7.
    replace (33 :: (talker ++ 44 :: fmt_dec cnt ++ 44 :: fmt_dec num ++ 44 :: seq ++ 44 :: chan ++ 44 :: chunk ++ 44 :: fmt_dec fillf) ++ 42 :: _)
      with (([33] ++ talker ++ [44]) ++ (fmt_dec cnt ++ 44 :: fmt_dec num ++ 44 :: seq ++ 44 :: chan ++ 44 :: chunk ++ 44 :: fmt_dec fillf)
            ++ 42 :: fmt_02X (fs_xor_all body)).
    - apply is_prefix_app.
    - simpl. repeat (rewrite <- app_assoc || rewrite <- app_comm_cons). reflexivity.
  Qed.

  Lemma length_sentence : 0 <= cnt <= 9 -> 0 <= num <= 9 -> 0 <= fillf <= 9 ->
    length (sentence talker cnt num seq chan chunk fillf)
    = (length talker + length seq + length chan + length chunk + 13)%nat.
  Proof.
    intros H1 H2 H3. pose proof (hex2_length _ (hex2_roundtrip (fs_xor_all body) ltac:(pose proof xor_body_range; lia))) as Hh.
    unfold sentence. fold body. simpl length. rewrite app_length. simpl length. rewrite Hh.
    unfold body, sent_body, join7. rewrite !fmt_dec_one_digit by assumption.
    repeat (rewrite app_length; simpl length). lia.
  Qed.
End Sentence.

(* ================================================================================================ *)
(* Part F: ais_to_nmea_0183                                                                          *)

Lemma dec_ok_val : forall n, dec_ok n -> fs_dec_val (fmt_dec n) = Some n.
Proof.
  intros n H. unfold dec_ok, fs_dec_is in H. destruct (fs_dec_val (fmt_dec n)) as [v|]; [|discriminate].
  apply Z.eqb_eq in H. congruence.
Qed.

Lemma views_cons : forall s r,
  fs_views (s :: r) = match fs_view s, fs_views r with Some v, Some vs => Some (v :: vs) | _, _ => None end.
Proof. reflexivity. Qed.

Section Loop.
  Variables (talker seq chan : list Z) (cnt fill : Z).
  Hypothesis Htalker : clean talker.
  Hypothesis Hseq : clean seq.
  Hypothesis Hchan : clean chan.
  Hypothesis Hne : talker <> [].

  Definition fill_of (k : Z) : Z := if k =? cnt then fill else 0.

  Fixpoint sentences_from (k : Z) (cs : list (list Z)) : list (list Z) :=
    match cs with
    | [] => []
    | c :: r => sentence talker cnt k seq chan c (fill_of k) :: sentences_from (k + 1) r
    end.

  Fixpoint views_from (k : Z) (cs : list (list Z)) : list fs_sview :=
    match cs with
    | [] => []
    | c :: r => sent_view talker cnt k seq chan c (fill_of k) :: views_from (k + 1) r
    end.

  Lemma frame_loop_eq : forall cs k, Forall clean cs ->
    frame_loop talker cnt seq chan fill k cs = Ok (sentences_from k cs).
  Proof.
    induction cs as [|c r IH]; intros k H; [reflexivity|]. inversion H; subst.
    simpl frame_loop. rewrite checksum_sentence by assumption. unfold bind at 1.
    rewrite IH by assumption. unfold bind. rewrite tpl_format_shape. reflexivity.
  Qed.

  Lemma views_sentences : forall cs k, Forall clean cs -> fs_views (sentences_from k cs) = Some (views_from k cs).
  Proof.
    induction cs as [|c r IH]; intros k H; [reflexivity|]. inversion H; subst.
    change (sentences_from k (c :: r)) with (sentence talker cnt k seq chan c (fill_of k) :: sentences_from (k + 1) r).
    rewrite views_cons. rewrite view_sentence by assumption. rewrite IH by assumption. reflexivity.
  Qed.

  Lemma length_views : forall cs k, length (views_from k cs) = length cs.
  Proof. induction cs; intros; simpl; auto. Qed.

  Lemma length_sentences : forall cs k, length (sentences_from k cs) = length cs.
  Proof. induction cs; intros; simpl; auto. Qed.

  Lemma forallb_views : forall (f : fs_sview -> bool) cs k,
    (forall num c fillf, In c cs -> f (sent_view talker cnt num seq chan c fillf) = true) ->
    forallb f (views_from k cs) = true.
  Proof.
    induction cs as [|c r IH]; intros k H; [reflexivity|]. simpl. rewrite H by (left; reflexivity).
    apply IH. intros. apply H. right. assumption.
  Qed.

  Lemma forallb_sentences : forall (f : list Z -> bool) cs k,
    (forall num c, In c cs -> k <= num < k + Z.of_nat (length cs) -> f (sentence talker cnt num seq chan c (fill_of num)) = true) ->
    forallb f (sentences_from k cs) = true.
  Proof.
    induction cs as [|c r IH]; intros k H; [reflexivity|]. simpl forallb.
    rewrite H; [|left; reflexivity|simpl length; lia].
    apply IH. intros. apply H; [right; assumption|simpl length; lia].
  Qed.

  Lemma numbered_views : forall cs k, dec_ok cnt -> (forall i, k <= i < k + Z.of_nat (length cs) -> dec_ok i) ->
    fs_numbered_from cnt k (views_from k cs) = true.
  Proof.
    induction cs as [|c r IH]; intros k Hc Hi; [reflexivity|]. simpl.
    rewrite Hc. rewrite (Hi k) by (simpl length; lia). simpl. apply IH; auto.
    intros. apply Hi. simpl length. lia.
  Qed.

  Lemma fill_views : forall cs k, dec_ok 0 -> dec_ok fill -> k + Z.of_nat (length cs) - 1 = cnt ->
    fs_fill_ok fill (views_from k cs) = true.
  Proof.
    induction cs as [|c r IH]; intros k H0 Hf Hk; [reflexivity|].
    destruct r as [|c' r'].
    - simpl. unfold fill_of. replace (k =? cnt) with true by (symmetry; apply Z.eqb_eq; simpl in Hk; lia). exact Hf.
    - change (views_from k (c :: c' :: r')) with (sent_view talker cnt k seq chan c (fill_of k) :: views_from (k + 1) (c' :: r')).
      change (fs_fill_ok fill (?v :: views_from (k + 1) (c' :: r')))
        with (fs_dec_is (sv_fill v) 0 && fs_fill_ok fill (views_from (k + 1) (c' :: r'))).
      rewrite IH; auto; [|simpl length in *; lia].
      unfold fill_of. replace (k =? cnt) with false by (symmetry; apply Z.eqb_neq; simpl length in Hk; lia).
      cbn [sv_fill sent_view]. unfold dec_ok in H0. rewrite H0. reflexivity.
  Qed.

  Lemma concat_views : forall cs k, concat (map sv_payload (views_from k cs)) = concat cs.
  Proof. induction cs as [|c r IH]; intros k; simpl; [reflexivity|]. rewrite IH. reflexivity. Qed.
End Loop.

(* de-armoring fragment by fragment, as AISSentence.assemble_from_iterable does: every payload field with the fill
   bits its own sentence states, results concatenated in order *)
Fixpoint reassemble (vs : list fs_sview) : M bits :=
  match vs with
  | [] => Ok []
  | v :: r =>
    match fs_dec_val (sv_fill v) with
    | None => Raise (Lib InvalidNMEAMessageException)
    | Some f => bind (decode_into_bit_array (sv_payload v) f) (fun b => bind (reassemble r) (fun br => Ok (b ++ br)))
    end
  end.

Lemma reassemble_cons : forall v r,
  reassemble (v :: r) =
  match fs_dec_val (sv_fill v) with
  | None => Raise (Lib InvalidNMEAMessageException)
  | Some f => bind (decode_into_bit_array (sv_payload v) f) (fun b => bind (reassemble r) (fun br => Ok (b ++ br)))
  end.
Proof. reflexivity. Qed.

Lemma bind_ret : forall A (m : M A), bind m (fun y => Ok y) = m.
Proof. intros A [a|e]; reflexivity. Qed.

Lemma decode_cons' : forall a p f, p <> [] ->
  decode_into_bit_array (a :: p) f =
  if negb ((32 <=? a) && (a <=? 126)) then Raise (Lib NonPrintableCharacterException)
  else bind (decode_into_bit_array p f) (fun r => Ok (z_to_bits 6 (dearmor_char a) ++ r)).
Proof. intros a p f Hp. destruct p as [|a' p']; [congruence|]. reflexivity. Qed.

Lemma decode_app : forall a b f, b <> [] ->
  decode_into_bit_array (a ++ b) f =
  bind (decode_into_bit_array a 0) (fun x => bind (decode_into_bit_array b f) (fun y => Ok (x ++ y))).
Proof.
  induction a as [|c a IH]; intros b f Hb.
  - simpl. symmetry. apply bind_ret.
  - change ((c :: a) ++ b) with (c :: (a ++ b)).
    rewrite decode_cons' by (destruct a; simpl; congruence).
    destruct a as [|c' a'].
    + simpl app. simpl decode_into_bit_array at 2.
      destruct (negb ((32 <=? c) && (c <=? 126))); [reflexivity|]. simpl. reflexivity.
    + rewrite (decode_cons' c (c' :: a') 0) by congruence.
      destruct (negb ((32 <=? c) && (c <=? 126))); [reflexivity|].
      rewrite IH by assumption.
      destruct (decode_into_bit_array (c' :: a') 0) as [x|e]; [|reflexivity].
      cbn [bind]. destruct (decode_into_bit_array b f) as [y|e]; cbn [bind]; [rewrite app_assoc|]; reflexivity.
Qed.

Lemma reassemble_views : forall talker seq chan cnt fill cs k,
  dec_ok 0 -> dec_ok fill -> k + Z.of_nat (length cs) - 1 = cnt -> Forall (fun c => c <> []) cs ->
  cs <> [] ->
  reassemble (views_from talker seq chan cnt fill k cs) = decode_into_bit_array (concat cs) fill.
Proof.
  intros talker seq chan cnt fill. induction cs as [|c r IH]; intros k H0 Hf Hk Hne Hcs; [congruence|].
  pose proof (Forall_inv Hne) as Hc0. pose proof (Forall_inv_tail Hne) as Hr0. destruct r as [|c' r'].
  - simpl. unfold fill_of. replace (k =? cnt) with true by (symmetry; apply Z.eqb_eq; simpl in Hk; lia).
    rewrite (dec_ok_val _ Hf). rewrite app_nil_r.
    destruct (decode_into_bit_array c fill); simpl; [rewrite app_nil_r|]; reflexivity.
  - change (concat (c :: c' :: r')) with (c ++ concat (c' :: r')).
    rewrite decode_app by (pose proof (Forall_inv Hr0); simpl; destruct c'; [congruence|discriminate]).
    rewrite <- (IH (k + 1)); auto; [|simpl length in *; lia|congruence].
    change (views_from talker seq chan cnt fill k (c :: c' :: r'))
      with (sent_view talker cnt k seq chan c (fill_of cnt fill k) :: views_from talker seq chan cnt fill (k + 1) (c' :: r')).
    unfold fill_of at 1. replace (k =? cnt) with false by (symmetry; apply Z.eqb_neq; simpl length in Hk; lia).
    rewrite reassemble_cons. cbn [sv_fill sv_payload sent_view]. rewrite (dec_ok_val _ H0). reflexivity.
Qed.

Definition valid_talker (t : list Z) : Prop := t = frm_AIVDM \/ t = frm_AIVDO.
Definition valid_channel (c : list Z) : Prop := c = [65] \/ c = [66].

Lemma clean_ascii : forall l, clean l -> forallb frm_is_ascii l = true.
Proof.
  intros l H. apply forallb_forall. intros x Hx. unfold clean in H. rewrite Forall_forall in H. specialize (H x Hx).
  unfold clean_char in H. unfold frm_is_ascii. lia.
Qed.

Lemma valid_talker_clean : forall t, valid_talker t -> clean t /\ t <> [] /\ length t = 5%nat.
Proof.
  intros t [->| ->]; (split; [|split; [discriminate|reflexivity]]); repeat constructor; unfold clean_char; lia.
Qed.

Lemma valid_channel_clean : forall c, valid_channel c -> clean c /\ length c = 1%nat.
Proof. intros c [->| ->]; (split; [|reflexivity]); repeat constructor; unfold clean_char; lia. Qed.

(* the result of ais_to_nmea_0183 on a non-empty armored payload of ANY length, in closed form *)
Lemma frame_closed_form : forall p talker chan fill,
  valid_talker talker -> valid_channel chan -> armored p -> (1 <= length p)%nat ->
  let cnt := (Z.of_nat (length p) + 59) / 60 in
  let seq := if 1 <? cnt then [48] else [] in
  1 <= cnt /\ Z.of_nat (length (chunks 60 p)) = cnt /\ clean seq /\ Forall clean (chunks 60 p) /\
  ais_to_nmea_0183 p talker chan fill = Ok (sentences_from talker seq chan cnt fill 1 (chunks 60 p)).
Proof.
  intros p talker chan fill Ht Hc Hp Hlen cnt seq.
  destruct (valid_talker_clean _ Ht) as (Htc & Htn & Htl). destruct (valid_channel_clean _ Hc) as (Hcc & Hcl).
  assert (Hcnt : 1 <= cnt) by (unfold cnt; apply Z.div_le_lower_bound; lia).
  assert (Hseq : clean seq) by (unfold seq; destruct (1 <? cnt); repeat constructor; unfold clean_char; lia).
  assert (Hcs : Forall clean (chunks 60 p)) by (apply chunks_Forall; [lia|apply armored_clean; assumption]).
  split; [exact Hcnt|]. split; [rewrite chunks_length by lia; unfold cnt; f_equal; lia|].
  split; [exact Hseq|]. split; [exact Hcs|].
  unfold ais_to_nmea_0183.
  rewrite (clean_ascii p) by (apply armored_clean; assumption). rewrite (clean_ascii talker), (clean_ascii chan) by assumption.
  simpl negb. cbv iota. rewrite Htl, Hcl. simpl negb. cbv iota.
  unfold frm_ceil_div, frm_max_len. change (Z.of_nat 60) with 60.
  replace (Z.of_nat (length p) + 60 - 1) with (Z.of_nat (length p) + 59) by lia. fold cnt. fold seq.
  apply frame_loop_eq; assumption.
Qed.

(* C09, framing part, at full strength: for a non-empty armored payload of ANY length and any fill >= 0 every clause
   of Spec/FrameSpec.v but the length limit holds of the sentences produced; the length limit holds when the payload
   has at most 540 characters (one-digit fragment count) and the fill is one digit *)
Theorem frame_clauses : forall p talker chan fill,
  valid_talker talker -> valid_channel chan -> armored p -> (1 <= length p)%nat -> 0 <= fill ->
  exists ss, ais_to_nmea_0183 p talker chan fill = Ok ss /\
             (forall cl, cl <> ClLength -> fs_clause_holds talker chan p fill ss cl = true) /\
             ((length p <= 540)%nat -> fill <= 9 -> fs_clause_holds talker chan p fill ss ClLength = true).
Proof.
  intros p talker chan fill Ht Hc Hp Hlen Hfill.
  destruct (frame_closed_form p talker chan fill Ht Hc Hp Hlen) as (Hcnt & Hn & Hseq & Hcs & He).
  destruct (valid_talker_clean _ Ht) as (Htc & Htn & Htl). destruct (valid_channel_clean _ Hc) as (Hcc & Hcl).
  set (cnt := (Z.of_nat (length p) + 59) / 60) in *. set (seq := if 1 <? cnt then [48] else []) in *.
  set (cs := chunks 60 p) in *.
  exists (sentences_from talker seq chan cnt fill 1 cs). split; [exact He|].
  pose proof (views_sentences talker seq chan cnt fill Htc Hseq Hcc Htn cs 1 Hcs) as Hv.
  assert (Hsz : Forall (fun c => (1 <= length c <= 60)%nat) cs) by (apply chunks_sizes; lia).
  assert (Hseql : (length seq <= 1)%nat) by (unfold seq; destruct (1 <? cnt); simpl; lia).
  split; [|intros Hle Hf9; assert (cnt <= 9) by (unfold cnt; apply Z.lt_succ_r; apply Z.div_lt_upper_bound; lia)];
  [intros cl Hclne; destruct cl; try congruence|]; unfold fs_clause_holds, fs_on_views; try rewrite Hv.
  11: { (* length *)
    apply forallb_sentences. intros num c Hin Hnum. rewrite Forall_forall in Hcs, Hsz.
    rewrite length_sentence; auto; try lia.
    + specialize (Hsz c Hin). apply Z.leb_le. lia.
    + unfold fill_of. destruct (num =? cnt); lia. }
  - reflexivity.
  - (* start *)
    apply forallb_sentences. intros num c Hin _. rewrite Forall_forall in Hcs. apply prefix_sentence; auto.
  - (* checksum *)
    apply forallb_views. intros num c fillf Hin. rewrite Forall_forall in Hcs. apply checksum_ok_sentence; auto.
  - (* alphabet *)
    apply forallb_views. intros num c fillf Hin. simpl.
    assert (Forall armored cs) as Ha by (apply chunks_Forall; [lia|exact Hp]).
    rewrite Forall_forall in Ha. apply forallb_forall. intros x Hx. specialize (Ha c Hin).
    unfold armored in Ha. rewrite Forall_forall in Ha. auto.
  - (* numbering *)
    rewrite length_views. rewrite Hn. apply andb_true_intro. split; [apply Z.leb_le; lia|].
    apply numbered_views; [apply dec_ok_nonneg; lia|]. intros i Hi. apply dec_ok_nonneg. lia.
  - (* seq *)
    destruct (views_from talker seq chan cnt fill 1 cs) as [|v0 vs] eqn:E; [reflexivity|].
    assert (forallb (fun v => fs_text_eqb (sv_seq v) seq) (v0 :: vs) = true) as Hall.
    { rewrite <- E. apply forallb_views. intros. simpl. apply text_eqb_refl. }
    simpl in Hall. apply andb_true_iff in Hall. destruct Hall as (H0 & Hr).
    assert (sv_seq v0 = seq) as ->.
    { destruct cs as [|c0 r0]; [discriminate|]. simpl in E. inversion E. reflexivity. }
    assert (Z.of_nat (length (v0 :: vs)) = cnt) as Hl by (rewrite <- E, length_views; exact Hn).
    apply andb_true_intro. split; [apply andb_true_intro; split|].
    + unfold seq; destruct (1 <? cnt); reflexivity.
    + simpl. rewrite H0. exact Hr.
    + rewrite Hl. unfold seq. destruct (Z.ltb_spec 1 cnt); destruct (Z.leb_spec cnt 1); try lia; reflexivity.
  - (* fill *)
    apply fill_views; [apply dec_ok_nonneg; lia|apply dec_ok_nonneg; lia|lia].
  - (* concat *)
    rewrite concat_views. unfold cs. rewrite chunks_concat by lia. apply text_eqb_refl.
  - (* channel *)
    apply forallb_views. intros. simpl. apply text_eqb_refl.
  - (* seq-single *)
    apply forallb_views. intros. simpl. rewrite length_sentences, Hn.
    unfold seq. destruct (Z.ltb_spec 1 cnt); destruct (Z.eqb_spec cnt 1); try lia; reflexivity.
Qed.

(* C09 as DESIGN.md states it: 1..540 characters, fill 0..5, every clause *)
Theorem frame_wellformed : forall p talker chan fill,
  valid_talker talker -> valid_channel chan -> armored p -> (1 <= length p <= 540)%nat -> 0 <= fill <= 5 ->
  exists ss, ais_to_nmea_0183 p talker chan fill = Ok ss /\ fs_wellformed talker chan p fill ss.
Proof.
  intros p talker chan fill Ht Hc Hp Hlen Hfill.
  destruct (frame_clauses p talker chan fill Ht Hc Hp ltac:(lia) ltac:(lia)) as (ss & He & Hall & Hl).
  exists ss. split; [exact He|]. intros cl. destruct cl; try (apply Hall; discriminate). apply Hl; lia.
Qed.

(* frame_roundtrip (C09 "accepted by the decoder", also used by C02): armoring a bit string and framing it gives
   sentences that satisfy every clause, whose last fragment states the padding to a six-bit boundary, and whose payload
   fields de-armor -- fragment by fragment, as the decoder does -- to the bit string. *)
Theorem frame_roundtrip : forall (b : bits) talker chan,
  valid_talker talker -> valid_channel chan -> (1 <= length b <= 3240)%nat ->
  exists p fill ss vs,
    encode_ascii_6 b = Ok (p, fill) /\ p = fs_spec_armor b /\ armored p /\
    Z.of_nat fill = fs_padding_to_six (Z.of_nat (length b)) /\
    ais_to_nmea_0183 p talker chan (Z.of_nat fill) = Ok ss /\
    fs_wellformed talker chan p (Z.of_nat fill) ss /\
    fs_views ss = Some vs /\ reassemble vs = Ok b /\
    decode_into_bit_array (concat (map sv_payload vs)) (Z.of_nat fill) = Ok b.
Proof.
  intros b talker chan Ht Hc Hlen.
  destruct (armor_roundtrip b) as (p & fill & He & Hfill & Hsp & Harm & Hplen & Hdec).
  assert (Hf : 0 <= Z.of_nat fill <= 5).
  { rewrite Hfill. unfold fs_padding_to_six. pose proof (Z.mod_pos_bound (6 - Z.of_nat (length b) mod 6) 6). lia. }
  assert (Hpl : (1 <= length p <= 540)%nat).
  { assert (1 <= Z.of_nat (length p) <= 540); [|lia]. rewrite Hplen. split; [apply Z.div_le_lower_bound; lia|].
    apply Z.lt_succ_r. apply Z.div_lt_upper_bound; lia. }
  destruct (frame_wellformed p talker chan (Z.of_nat fill) Ht Hc Harm Hpl Hf) as (ss & Hss & Hwf).
  destruct (frame_closed_form p talker chan (Z.of_nat fill) Ht Hc Harm ltac:(lia)) as (Hcnt & Hn & Hseq & Hcs & He2).
  destruct (valid_talker_clean _ Ht) as (Htc & Htn & Htl). destruct (valid_channel_clean _ Hc) as (Hcc & Hcl).
  set (cnt := (Z.of_nat (length p) + 59) / 60) in *. set (seq := if 1 <? cnt then [48] else []) in *.
  rewrite He2 in Hss. inversion Hss; subst ss.
  exists p, fill, (sentences_from talker seq chan cnt (Z.of_nat fill) 1 (chunks 60 p)),
         (views_from talker seq chan cnt (Z.of_nat fill) 1 (chunks 60 p)).
  repeat split; auto.
  - apply views_sentences; auto.
  - rewrite reassemble_views; try (apply dec_ok_digit; lia); try lia.
    + rewrite chunks_concat by lia. exact Hdec.
    + eapply Forall_impl; [|apply (chunks_sizes 60 p); lia]. simpl. intros c Hc0 ->. simpl in Hc0. lia.
    + intros E. rewrite E in Hn. simpl in Hn. lia.
  - rewrite concat_views, chunks_concat by lia. exact Hdec.
Qed.

(* ================================================================================================ *)
(* Part G: the entry points                                                                          *)

Lemma check_talker_channel_ok : forall t c, valid_talker t -> valid_channel c -> check_talker_channel t c = Ok tt.
Proof. intros t c [->| ->] [->| ->]; reflexivity. Qed.

Lemma chars_eqb_eq : forall a b, frm_chars_eqb a b = true <-> a = b.
Proof.
  unfold frm_chars_eqb. induction a as [|x a IH]; intros [|y b]; simpl; split; intros H; try discriminate; auto.
  - apply andb_true_iff in H. destruct H as (Hl & H). apply andb_true_iff in H. destruct H as (Hxy & H).
    apply Z.eqb_eq in Hxy. subst y. f_equal. apply IH. rewrite Hl, H. reflexivity.
  - inversion H; subst. rewrite Z.eqb_refl. simpl.
    pose proof (proj2 (IH b) eq_refl) as H'. exact H'.
Qed.

(* the argument checks of encode_dict / encode_msg: anything but the two talkers and the two channels is a ValueError *)
Lemma check_talker_channel_bad : forall t c, ~ (valid_talker t /\ valid_channel c) ->
  check_talker_channel t c = Raise (Py ValueError).
Proof.
  intros t c H. unfold check_talker_channel. simpl existsb.
  destruct (frm_chars_eqb t frm_AIVDM) eqn:E1; [apply chars_eqb_eq in E1|];
  [|destruct (frm_chars_eqb t frm_AIVDO) eqn:E2; [apply chars_eqb_eq in E2|]]; simpl; try reflexivity;
  (destruct (frm_chars_eqb c [65]) eqn:E3; [apply chars_eqb_eq in E3|];
   [|destruct (frm_chars_eqb c [66]) eqn:E4; [apply chars_eqb_eq in E4|]]; simpl; try reflexivity;
   exfalso; apply H; unfold valid_talker, valid_channel; auto).
Qed.

(* ais_to_nmea_0183 itself only checks the lengths *)
Lemma frame_bad_lengths : forall p t c fill,
  forallb frm_is_ascii p && forallb frm_is_ascii t && forallb frm_is_ascii c = true ->
  length t <> 5%nat \/ length c <> 1%nat -> ais_to_nmea_0183 p t c fill = Raise (Py ValueError).
Proof.
  intros p t c fill Ha H. unfold ais_to_nmea_0183. rewrite Ha. simpl negb. cbv iota.
  destruct (Nat.eqb_spec (length t) 5); simpl; [|reflexivity].
  destruct (Nat.eqb_spec (length c) 1); simpl; [|reflexivity]. lia.
Qed.

Theorem encode_msg_wellformed : forall c vs (b : bits) talker chan,
  valid_talker talker -> valid_channel chan -> to_bitarray c vs = Ok b -> (1 <= length b <= 3240)%nat ->
  exists p fill ss vws,
    encode_ascii_6 b = Ok (p, fill) /\ p = fs_spec_armor b /\
    Z.of_nat fill = fs_padding_to_six (Z.of_nat (length b)) /\
    encode_msg (c, vs) talker chan = Ok ss /\
    fs_wellformed talker chan p (Z.of_nat fill) ss /\
    fs_views ss = Some vws /\ reassemble vws = Ok b.
Proof.
  intros c vs b talker chan Ht Hc Hb Hlen.
  destruct (frame_roundtrip b talker chan Ht Hc Hlen) as (p & fill & ss & vws & He & Hsp & _ & Hf & Hss & Hwf & Hv & Hr & _).
  exists p, fill, ss, vws. repeat split; auto.
  unfold encode_msg. rewrite check_talker_channel_ok by assumption. cbn [bind fst snd].
  unfold encode_msg_payload. rewrite Hb. cbn [bind]. rewrite He. cbn [bind]. exact Hss.
Qed.

(* encode.get_ais_type: `type` wins; `msg_type` is used when `type` is missing or is text that is not a number *)
Lemma get_ais_type_type : forall data v t,
  assoc_s "type" data = Some v -> frm_py_int v = Ok t -> get_ais_type data = Ok t.
Proof. intros data v t H1 H2. unfold get_ais_type. simpl. rewrite H1, H2. reflexivity. Qed.

Lemma get_ais_type_msg_type : forall data v t,
  assoc_s "type" data = None -> assoc_s "msg_type" data = Some v -> frm_py_int v = Ok t -> get_ais_type data = Ok t.
Proof. intros data v t H0 H1 H2. unfold get_ais_type. simpl. rewrite H0. simpl. rewrite H1, H2. reflexivity. Qed.

Lemma get_ais_type_fallback : forall data v0 v t,
  assoc_s "type" data = Some v0 -> frm_py_int v0 = Raise (Py ValueError) ->
  assoc_s "msg_type" data = Some v -> frm_py_int v = Ok t -> get_ais_type data = Ok t.
Proof. intros data v0 v t H0 H0' H1 H2. unfold get_ais_type. simpl. rewrite H0, H0'. simpl. rewrite H1, H2. reflexivity. Qed.

Lemma get_ais_type_missing : forall data,
  assoc_s "type" data = None -> assoc_s "msg_type" data = None -> get_ais_type data = Raise (Py ValueError).
Proof. intros data H0 H1. unfold get_ais_type. simpl. rewrite H0. simpl. rewrite H1. reflexivity. Qed.

Theorem encode_dict_wellformed : forall data t c vs (b : bits) talker chan,
  valid_talker talker -> valid_channel chan ->
  get_ais_type data = Ok t -> create_msg t data = Ok (c, vs) -> to_bitarray c vs = Ok b -> (1 <= length b <= 3240)%nat ->
  exists p fill ss vws,
    encode_ascii_6 b = Ok (p, fill) /\ p = fs_spec_armor b /\
    Z.of_nat fill = fs_padding_to_six (Z.of_nat (length b)) /\
    encode_dict data talker chan = Ok ss /\
    fs_wellformed talker chan p (Z.of_nat fill) ss /\
    fs_views ss = Some vws /\ reassemble vws = Ok b.
Proof.
  intros data t c vs b talker chan Ht Hc Hty Hcr Hb Hlen.
  destruct (frame_roundtrip b talker chan Ht Hc Hlen) as (p & fill & ss & vws & He & Hsp & _ & Hf & Hss & Hwf & Hv & Hr & _).
  exists p, fill, ss, vws. repeat split; auto.
  unfold encode_dict. rewrite check_talker_channel_ok by assumption. cbn [bind].
  rewrite Hty. cbn [bind]. unfold data_to_payload. rewrite Hcr. cbn [try_except bind fst snd].
  unfold encode_msg_payload. rewrite Hb. cbn [bind]. rewrite He. cbn [bind]. exact Hss.
Qed.

Lemma encode_dict_bad_args : forall data t c, ~ (valid_talker t /\ valid_channel c) ->
  encode_dict data t c = Raise (Py ValueError).
Proof. intros. unfold encode_dict. rewrite check_talker_channel_bad by assumption. reflexivity. Qed.

Lemma encode_msg_bad_args : forall m t c, ~ (valid_talker t /\ valid_channel c) ->
  encode_msg m t c = Raise (Py ValueError).
Proof. intros. unfold encode_msg. rewrite check_talker_channel_bad by assumption. reflexivity. Qed.
