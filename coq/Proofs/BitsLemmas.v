(* Bit-string lemmas shared by the codec proofs (C01, C11):
     - the accumulator reading [ubits] of Prim/Bits.v is the positional reading [uval] of Spec/Layout.v;
     - int_read_unsigned / int_read_signed: the pad-to-bytes-and-shift reading of from_bitarray / get_int equals the plain
       unsigned / two's-complement value of the slice, for every bit list (unbounded in the width);
     - Python slices are the spec's [sub]; [sub] as a list of [nth];
     - bits_to_bytes = spec_bytes, decode_bin_as_ascii6 = spec_text (list inductions). *)
From Coq Require Import ZArith List Bool Lia ZifyBool ZifyNat.
Require Import Prim.Bits Spec.Layout.
Import ListNotations.
Open Scope Z_scope.
Ltac Zify.zify_post_hook ::= Z.to_euclidean_division_equations.

Local Notation length := List.length (only parsing).

(* ------------------------------------------------------------------------------------------------ *)
(* uval                                                                                               *)

Lemma pow2_pos : forall n : nat, 0 < 2 ^ Z.of_nat n.
Proof. intros. apply Z.pow_pos_nonneg; lia. Qed.

Lemma pow2_S : forall n : nat, 2 ^ Z.of_nat (S n) = 2 * 2 ^ Z.of_nat n.
Proof. intros. rewrite Nat2Z.inj_succ, Z.pow_succ_r by lia. reflexivity. Qed.

Lemma uval_cons : forall x r, uval (x :: r) = (if x then 2 ^ Z.of_nat (length r) else 0) + uval r.
Proof. reflexivity. Qed.

Lemma uval_bound : forall b, 0 <= uval b < 2 ^ Z.of_nat (length b).
Proof.
  induction b as [|x r IH].
  - cbn. lia.
  - rewrite uval_cons. cbn [List.length]. rewrite pow2_S.
    pose proof (pow2_pos (length r)). destruct x; lia.
Qed.

Lemma uval_app : forall a b, uval (a ++ b) = uval a * 2 ^ Z.of_nat (length b) + uval b.
Proof.
  induction a as [|x r IH]; intros b.
  - cbn [app uval]. lia.
  - rewrite <- app_comm_cons, !uval_cons, IH, app_length, Nat2Z.inj_add, Z.pow_add_r by lia.
    destruct x; ring.
Qed.

Lemma uval_repeat_false : forall n, uval (repeat false n) = 0.
Proof. induction n as [|n IH]; [reflexivity|]. cbn [repeat]. rewrite uval_cons, IH. reflexivity. Qed.

Lemma ubits_acc_uval : forall b acc, ubits_acc acc b = acc * 2 ^ Z.of_nat (length b) + uval b.
Proof.
  induction b as [|x r IH]; intros acc.
  - cbn. lia.
  - cbn [ubits_acc]. rewrite IH, uval_cons. cbn [List.length]. rewrite pow2_S.
    destruct x; unfold b2z; ring.
Qed.

Lemma ubits_uval : forall b, ubits b = uval b.
Proof. intros. unfold ubits. rewrite ubits_acc_uval. lia. Qed.

Lemma uval_zero_all_false : forall b, forallb negb b = true -> uval b = 0.
Proof.
  induction b as [|x r IH]; [reflexivity|]. cbn [forallb]. intros H.
  apply andb_true_iff in H as [Hx Hr]. destruct x; [discriminate|]. rewrite uval_cons, IH by assumption. reflexivity.
Qed.

(* ------------------------------------------------------------------------------------------------ *)
(* the pad-and-shift reading                                                                          *)

Lemma from_bytes_u_uval : forall b, from_bytes_u b = uval b * 2 ^ Z.of_nat (pad_len (length b)).
Proof.
  intros. unfold from_bytes_u, pad8. rewrite ubits_uval, uval_app, repeat_length, uval_repeat_false. lia.
Qed.

Lemma shiftr_mul_pow2_nat : forall a (n : nat), Z.shiftr (a * 2 ^ Z.of_nat n) (Z.of_nat n) = a.
Proof. intros. rewrite Z.shiftr_div_pow2 by lia. apply Z.div_mul. pose proof (pow2_pos n). lia. Qed.

(* DESIGN 7/C01: the unsigned reading, for every bit list *)
Theorem int_read_unsigned : forall b, Z.shiftr (from_bytes_u b) (Z.of_nat (pad_len (length b))) = uval b.
Proof. intros. rewrite from_bytes_u_uval. apply shiftr_mul_pow2_nat. Qed.

Lemma from_bytes_s_sval : forall b, from_bytes_s b = sval_ b * 2 ^ Z.of_nat (pad_len (length b)).
Proof.
  intros b. destruct b as [|x r].
  - reflexivity.
  - unfold from_bytes_s, pad8. rewrite <- app_comm_cons. unfold sbits. rewrite app_comm_cons.
    rewrite ubits_uval, uval_app, repeat_length, uval_repeat_false, app_length, repeat_length.
    rewrite Nat2Z.inj_add, Z.pow_add_r by lia.
    unfold sval_. destruct x; ring.
Qed.

(* DESIGN 7/C01: the two's-complement reading, for every bit list *)
Theorem int_read_signed : forall b, Z.shiftr (from_bytes_s b) (Z.of_nat (pad_len (length b))) = sval_ b.
Proof. intros. rewrite from_bytes_s_sval. apply shiftr_mul_pow2_nat. Qed.

Lemma sval_bound : forall b, b <> [] ->
  - 2 ^ Z.of_nat (length b - 1) <= sval_ b < 2 ^ Z.of_nat (length b - 1).
Proof.
  intros [|x r] Hne; [congruence|].
  unfold sval_. pose proof (uval_bound r) as Hr. rewrite uval_cons. cbn [List.length].
  replace (S (length r) - 1)%nat with (length r) by lia. rewrite pow2_S.
  destruct x; lia.
Qed.

(* ------------------------------------------------------------------------------------------------ *)
(* slices                                                                                             *)

Lemma slice_sub : forall (b : list bool) lo hi, slice b lo hi = sub b lo (hi - lo).
Proof. reflexivity. Qed.

Lemma sub_length : forall (b : list bool) off w, (off + w <= length b)%nat -> length (sub b off w) = w.
Proof. intros. unfold sub. rewrite firstn_length, skipn_length. lia. Qed.

Lemma sub_length_le : forall (b : list bool) off w, (length (sub b off w) <= w)%nat.
Proof. intros. unfold sub. rewrite firstn_length. lia. Qed.

Lemma skipn_skipn_add : forall {A} y x (l : list A), skipn x (skipn y l) = skipn (y + x) l.
Proof.
  induction y as [|y IH]; intros x l; [reflexivity|].
  destruct l as [|a r]; [rewrite !skipn_nil; reflexivity|]. cbn [skipn Nat.add]. apply IH.
Qed.

Lemma skipn_cons_nth : forall (b : list bool) off d, (off < length b)%nat ->
  skipn off b = nth off b d :: skipn (S off) b.
Proof.
  induction b as [|x r IH]; intros off d H; cbn [List.length] in H; [lia|].
  destruct off as [|off]; [reflexivity|]. cbn [skipn nth]. rewrite (IH off d) by lia. reflexivity.
Qed.

Lemma sub_nth : forall w (b : list bool) off, (off + w <= length b)%nat ->
  sub b off w = map (fun i => nth i b false) (seq off w).
Proof.
  unfold sub. induction w as [|w IH]; intros b off H; [reflexivity|].
  rewrite (skipn_cons_nth b off false) by lia. cbn [firstn seq map]. f_equal. apply IH. lia.
Qed.

Lemma sub_firstn : forall (b : list bool) n off w, (off + w <= n)%nat -> sub (firstn n b) off w = sub b off w.
Proof.
  intros. unfold sub. rewrite skipn_firstn_comm, firstn_firstn. f_equal. lia.
Qed.

Lemma nth_firstn_lt : forall (b : list bool) n i, (i < n)%nat -> nth i (firstn n b) false = nth i b false.
Proof.
  induction b as [|x r IH]; intros n i H.
  - rewrite firstn_nil. reflexivity.
  - destruct n as [|n]; [lia|]. destruct i as [|i]; [reflexivity|]. cbn [firstn nth]. apply IH. lia.
Qed.

(* get_int on a range that lies inside the data: the plain unsigned value of the range *)
Lemma get_int_uval : forall b lo hi, (lo <= hi)%nat -> (hi <= length b)%nat ->
  get_int b lo hi false = uval (sub b lo (hi - lo)).
Proof.
  intros b lo hi Hlo Hhi. unfold get_int. rewrite slice_sub.
  rewrite <- (sub_length b lo (hi - lo)) at 2 by lia. apply int_read_unsigned.
Qed.

(* ------------------------------------------------------------------------------------------------ *)
(* bytes: bitarray.tobytes() = the slice left-aligned into bytes                                      *)

Lemma pad_len_lt8 : forall n, (pad_len n < 8)%nat.
Proof. intros. unfold pad_len. apply Nat.mod_upper_bound. lia. Qed.

Lemma pad_len_ge8 : forall n, (8 <= n)%nat -> pad_len n = pad_len (n - 8).
Proof. intros. unfold pad_len. lia. Qed.

Lemma pad_len_small : forall n, (0 < n < 8)%nat -> pad_len n = (8 - n)%nat.
Proof. intros. unfold pad_len. lia. Qed.

Lemma pad8_nil : pad8 [] = [].
Proof. reflexivity. Qed.

Lemma pad8_step : forall b, b <> [] ->
  firstn 8 (pad8 b) = firstn 8 b ++ repeat false (8 - length (firstn 8 b)) /\
  skipn 8 (pad8 b) = pad8 (skipn 8 b).
Proof.
  intros b Hne. assert (Hlen : (0 < length b)%nat) by (destruct b; [congruence|cbn; lia]).
  destruct (Nat.le_gt_cases 8 (length b)) as [Hge|Hlt].
  - unfold pad8. rewrite firstn_app, skipn_app, skipn_length.
    replace (8 - length b)%nat with 0%nat by lia. rewrite firstn_O, skipn_O, app_nil_r.
    rewrite firstn_length. replace (8 - Nat.min 8 (length b))%nat with 0%nat by lia.
    change (repeat false 0) with (@nil bool). rewrite app_nil_r, <- pad_len_ge8 by lia. split; reflexivity.
  - unfold pad8. rewrite pad_len_small by lia.
    rewrite firstn_all2 with (l := b) by lia. rewrite skipn_all2 with (l := b) by lia.
    cbn [List.length]. replace (pad_len 0) with 0%nat by reflexivity. cbn [repeat]. rewrite app_nil_r.
    split.
    + apply firstn_all2. rewrite app_length, repeat_length. lia.
    + apply skipn_all2. rewrite app_length, repeat_length. lia.
Qed.

Lemma pad8_length_nonempty : forall b, b <> [] -> pad8 b <> [].
Proof. intros [|x r] H; [congruence|]. unfold pad8. rewrite <- app_comm_cons. discriminate. Qed.

Lemma bytes_model_spec_fuel : forall fuel1 fuel2 b,
  (length b <= fuel1)%nat -> (length (pad8 b) <= fuel2)%nat ->
  map ubits (chunks_fuel fuel2 8 (pad8 b)) = bytes_of b fuel1.
Proof.
  induction fuel1 as [|f1 IH]; intros fuel2 b H1 H2.
  - destruct b; [|cbn in H1; lia]. rewrite pad8_nil. destruct fuel2; reflexivity.
  - destruct b as [|x r].
    + rewrite pad8_nil. destruct fuel2; reflexivity.
    + assert (Hne : x :: r <> []) by discriminate.
      pose proof (pad8_length_nonempty _ Hne) as Hpne.
      destruct (pad8_step _ Hne) as [Hf Hs].
      destruct fuel2 as [|f2].
      { destruct (pad8 (x :: r)); [congruence|cbn in H2; lia]. }
      cbn [chunks_fuel bytes_of].
      destruct (pad8 (x :: r)) as [|y p] eqn:Ep; [congruence|].
      rewrite <- Ep in *. cbn [map]. f_equal.
      * rewrite Hf, ubits_uval, uval_app, repeat_length, uval_repeat_false. lia.
      * rewrite Hs. apply IH.
        -- rewrite skipn_length. cbn [List.length] in *. lia.
        -- rewrite <- Hs, skipn_length. lia.
Qed.

(* bits_to_bytes (Prim) = spec_bytes (Spec), for every bit list *)
Theorem bytes_model_spec : forall b, bits_to_bytes b = spec_bytes b.
Proof. intros. unfold bits_to_bytes, spec_bytes, chunks. apply bytes_model_spec_fuel; lia. Qed.
