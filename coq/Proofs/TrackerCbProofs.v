(* Proofs about the general tracker model of Model/Tracker.v (`trkc_*`: subscriber callbacks may raise) against
   Spec/TrackerSpec.v (C13-C15).  Reuses the dictionary / sorting / scan lemmas of Proofs/TrackerProofs.v.

   Layout: 1 the subscriber loop  2 invariants (structural part / cache part)  3 what each method does
           4 C13  5 C14  6 C15  7 deliveries  8 the quiet environment gives back Model/Tracker.v `trk_step`. *)
From Coq Require Import List Bool ZArith Lia Sorted Permutation.
Require Import Prim.Exn Prim.IntDict Model.Tracker Spec.TrackerSpec Proofs.TrackerProofs.
Import ListNotations.
Open Scope Z_scope.

(* ================================================================================= 1. the subscriber loop *)
Section Cut.
  Context {A : Type}.
  Variable raises : A -> bool.

  Lemma cut_prefix (l : list A) : exists rest, l = sp_cut raises l ++ rest.
  Proof.
    induction l as [|x r [rest IH]]; simpl; [now exists []|]. destruct (raises x).
    - now exists r.
    - exists rest. simpl. f_equal. exact IH.
  Qed.

  Lemma cut_all (l : list A) : (forall x, In x l -> raises x = false) -> sp_cut raises l = l.
  Proof.
    induction l as [|x r IH]; simpl; [reflexivity|]. intros H. rewrite (H x) by now left.
    rewrite IH; [reflexivity|]. intros y I. apply H. now right.
  Qed.

  Lemma cut_stop (l1 l2 : list A) c : (forall x, In x l1 -> raises x = false) -> raises c = true ->
    sp_cut raises (l1 ++ c :: l2) = l1 ++ [c].
  Proof.
    induction l1 as [|x r IH]; simpl; intros H Hc; [now rewrite Hc|]. rewrite (H x) by now left.
    rewrite IH; [reflexivity | intros y I; apply H; now right | assumption].
  Qed.

  Lemma cut_reaches (l1 l2 : list A) c : (forall x, In x l1 -> raises x = false) ->
    exists rest, sp_cut raises (l1 ++ c :: l2) = l1 ++ c :: rest.
  Proof.
    induction l1 as [|x r IH]; simpl; intros H.
    - destruct (raises c); [now exists [] | now exists (sp_cut raises l2)].
    - rewrite (H x) by now left. destruct IH as [rest E]; [intros y I; apply H; now right|]. exists rest. now rewrite E.
  Qed.

  (* behind a subscriber that raises nobody is called *)
  Lemma cut_hides (l1 l2 : list A) c x : In c l1 -> raises c = true -> ~ In x l1 -> ~ In x (sp_cut raises (l1 ++ l2)).
  Proof.
    induction l1 as [|y r IH]; simpl; [tauto|]. intros [->|I] Hc N.
    - rewrite Hc. intros [->|[]]. apply N. now left.
    - destruct (raises y); [intros [->|[]]; apply N; now left|]. intros [->|J]; [apply N; now left|].
      revert J. apply IH; auto.
  Qed.
End Cut.

Section TrackerCb.
  Context {V : Type}.
  Variable nattrs : nat.
  Notation track := (trk_track V).
  Notation tracker := (trk_tracker V).
  Notation call := (trk_call V).
  Notation env := (trk_env V).
  Notation result := (trkc_result V).
  Notation delivery := (trk_delivery V).

  Definition cb_raises (en : env) (ev : trk_event) (tr : track) (cb : Z) : bool :=
    match e_cb en cb ev tr with CbReturn => false | CbRaise _ => true end.

  (* the subscribers of an event, in registration order *)
  Definition subscribers (b : trk_broker) (ev : trk_event) : list Z :=
    map snd (filter (fun s => trk_event_eqb ev (fst s)) b).

  Definition dl_cb (d : delivery) : Z := fst (fst d).

  (* propagate calls the subscribers of the event in registration order up to and including the first that raises *)
  Lemma propagate_cut (en : env) b tr ev :
    fst (brkc_propagate en b tr ev) = map (fun cb => (cb, ev, tr)) (sp_cut (cb_raises en ev tr) (subscribers b ev)).
  Proof.
    unfold subscribers. induction b as [|[d c] r IH]; simpl; [reflexivity|].
    destruct (trk_event_eqb ev d); simpl; [|exact IH]. unfold cb_raises at 1.
    destruct (e_cb en c ev tr); [|reflexivity].
    destruct (brkc_propagate en r tr ev) as [ds o]. simpl in *. now rewrite IH.
  Qed.

  (* ... and raises what that one raised (returns if none did) *)
  Lemma propagate_outcome (en : env) b tr ev :
    match snd (brkc_propagate en b tr ev) with
    | CbReturn => forall cb, In cb (subscribers b ev) -> e_cb en cb ev tr = CbReturn
    | CbRaise e => exists l1 cb l2, subscribers b ev = l1 ++ cb :: l2 /\ e_cb en cb ev tr = CbRaise e /\
                     (forall c, In c l1 -> e_cb en c ev tr = CbReturn)
    end.
  Proof.
    unfold subscribers. induction b as [|[d c] r IH]; simpl; [tauto|].
    destruct (trk_event_eqb ev d); simpl; [|exact IH].
    destruct (e_cb en c ev tr) as [|e] eqn:E.
    - destruct (brkc_propagate en r tr ev) as [ds o]. simpl in *. destruct o as [|e].
      + intros cb [<-|I]; auto.
      + destruct IH as (l1 & cb & l2 & E1 & E2 & E3). exists (c :: l1), cb, l2. rewrite E1. repeat split; auto.
        intros c0 [<-|I]; auto.
    - exists [], c, (map snd (filter (fun s => trk_event_eqb ev (fst s)) r)). repeat split; auto. intros c0 [].
  Qed.

  (* the registration list: register_callback appends the pair (whatever was registered or removed before -- also the
     same pair), remove_callback removes its first occurrence and nothing else *)
  Lemma subscribers_attach b ev cb ev' :
    subscribers (brk_attach b ev cb) ev' = subscribers b ev' ++ (if trk_event_eqb ev' ev then [cb] else []).
  Proof.
    unfold subscribers, brk_attach. rewrite filter_app, map_app. simpl. destruct (trk_event_eqb ev' ev); reflexivity.
  Qed.

  Lemma attach_subscribed b ev cb : In cb (subscribers (brk_attach b ev cb) ev).
  Proof.
    rewrite subscribers_attach. apply in_or_app. right. destruct ev; simpl; auto.
  Qed.

  Lemma detach_absent b ev cb : ~ In (ev, cb) b -> brk_detach b ev cb = b.
  Proof.
    induction b as [|[e c] r IH]; simpl; [reflexivity|]. intros N.
    destruct (trk_event_eqb ev e && (cb =? c)) eqn:E.
    - exfalso. apply N. left. apply andb_true_iff in E. destruct E as [E1 E2]. apply Z.eqb_eq in E2. subst c.
      destruct ev, e; simpl in E1; try discriminate; reflexivity.
    - f_equal. apply IH. intros I. apply N. now right.
  Qed.

  Lemma detach_last b ev cb : ~ In (ev, cb) b -> brk_detach (b ++ [(ev, cb)]) ev cb = b.
  Proof.
    induction b as [|[e c] r IH]; simpl; intros N.
    - rewrite Z.eqb_refl. destruct ev; reflexivity.
    - destruct (trk_event_eqb ev e && (cb =? c)) eqn:E.
      + exfalso. apply N. left. apply andb_true_iff in E. destruct E as [E1 E2]. apply Z.eqb_eq in E2. subst c.
        destruct ev, e; simpl in E1; try discriminate; reflexivity.
      + f_equal. apply IH. intros I. apply N. now right.
  Qed.

  (* registered, removed, registered again: the pair is registered (once), behind everything else *)
  Lemma reattach b ev cb : ~ In (ev, cb) b ->
    brk_attach (brk_detach (brk_attach b ev cb) ev cb) ev cb = b ++ [(ev, cb)].
  Proof. intros N. unfold brk_attach. now rewrite detach_last. Qed.

  (* a subscriber is the PAIR (event, callback): registering or removing a pair leaves the subscribers of every other
     event as they were -- also when the same callable is registered for several events *)
  Lemma subscribers_attach_other b ev cb ev' : trk_event_eqb ev' ev = false ->
    subscribers (brk_attach b ev cb) ev' = subscribers b ev'.
  Proof. intros H. rewrite subscribers_attach, H. apply app_nil_r. Qed.

  Lemma subscribers_attach_same b ev cb : subscribers (brk_attach b ev cb) ev = subscribers b ev ++ [cb].
  Proof. rewrite subscribers_attach. destruct ev; reflexivity. Qed.

  Lemma subscribers_detach_other b ev cb ev' : trk_event_eqb ev' ev = false ->
    subscribers (brk_detach b ev cb) ev' = subscribers b ev'.
  Proof.
    intros H. unfold subscribers. induction b as [|[e c] r IH]; simpl; [reflexivity|].
    destruct (trk_event_eqb ev e && (cb =? c)) eqn:E.
    - apply andb_true_iff in E. destruct E as [E1 _].
      assert (H0 : trk_event_eqb ev' e = false) by (destruct ev, e, ev'; simpl in *; congruence).
      rewrite H0. reflexivity.
    - simpl. destruct (trk_event_eqb ev' e); simpl; [f_equal|]; exact IH.
  Qed.

  Lemma propagate_quiet b (tr : track) ev : brkc_propagate trk_env_quiet b tr ev = (brk_propagate b tr ev, CbReturn).
  Proof.
    induction b as [|[d c] r IH]; simpl; [reflexivity|]. destruct (trk_event_eqb ev d); [|exact IH]. now rewrite IH.
  Qed.

  (* ================================================================================= 2. invariants *)
  (* the structural part: holds in EVERY state, whatever the subscribers did *)
  Record sinv (st : tracker) : Prop := mkSInv {
    s_nodup : NoDup (keys (t_tracks st));
    s_key : forall k tr, In (k, tr) (t_tracks st) -> tr_mmsi tr = k;
    s_sorted : t_ordered st = true -> StronglySorted le_lu_kv (t_tracks st);
    s_len : forall k tr, In (k, tr) (t_tracks st) -> length (tr_attrs tr) = nattrs }.

  (* the cache part: oldest_timestamp is a lower bound of every last_updated *)
  Definition oinv (st : tracker) : Prop :=
    forall k tr, In (k, tr) (t_tracks st) -> exists o, t_oldest st = Some o /\ o <= tr_lu tr.

  Lemma inv_split (st : tracker) : inv nattrs st <-> sinv st /\ oinv st.
  Proof.
    split.
    - intros [A B C D E]. split; [constructor; assumption | exact C].
    - intros [[A B D E] C]. constructor; assumption.
  Qed.

  Lemma sinv_init ttl o : sinv (trk_init ttl o).
  Proof. constructor; simpl; intros; try tauto; try constructor. Qed.

  Lemma sinv_same (st st' : tracker) : t_tracks st' = t_tracks st -> t_ordered st' = t_ordered st -> sinv st -> sinv st'.
  Proof. intros E1 E2 [A B C D]. constructor; rewrite ?E1, ?E2; assumption. Qed.

  Lemma sinv_without (st : tracker) p : sinv st -> sinv (with_tracks st (without p (t_tracks st))).
  Proof.
    intros [ND KEY SORT LEN]. constructor; simpl.
    - now apply nodup_keys_without.
    - intros k tr H. apply in_without in H. apply KEY. tauto.
    - intros E. apply ss_filter. auto.
    - intros k tr H. apply in_without in H. apply (LEN k). tauto.
  Qed.

  Lemma oinv_without (st : tracker) p : oinv st -> oinv (with_tracks st (without p (t_tracks st))).
  Proof. intros O k tr H. simpl in H. apply in_without in H. apply (O k). tauto. Qed.

  (* ================================================================================= 3. the methods *)
  (* ---------------------------------------------------------------- pop_track *)
  Definition swallowed (o : cb_outcome) : option exn :=
    match o with CbReturn => None | CbRaise e => if exn_is_keyerror e then None else Some e end.

  Lemma pop_track_c (en : env) (st : tracker) m : NoDup (keys (t_tracks st)) ->
    match idict_get (t_tracks st) m with
    | None => trkc_pop_track en st m = mkCResult st [] [] None None
    | Some tr =>
      let p := brkc_propagate en (t_broker st) tr DELETED in
      trkc_pop_track en st m =
        mkCResult (with_tracks st (without (Z.eqb m) (t_tracks st))) [(DELETED, tr)] (fst p)
                  (match snd p with CbReturn => Some tr | CbRaise _ => None end) (swallowed (snd p))
    end.
  Proof.
    intros ND. unfold trkc_pop_track. destruct (idict_get (t_tracks st) m) as [tr|]; [|reflexivity].
    simpl. rewrite del_without by assumption. destruct (brkc_propagate en (t_broker st) tr DELETED) as [ds o]. simpl.
    destruct o as [|e]; [reflexivity|]. simpl. destruct (exn_is_keyerror e); reflexivity.
  Qed.

  (* ---------------------------------------------------------------- pop_all *)
  (* [done] = the MMSIs whose pop_track was started (all of [ms] unless an exception ended the loop) *)
  Lemma pop_all_c (en : env) ms : forall st : tracker,
    NoDup (keys (t_tracks st)) -> (forall k tr, In (k, tr) (t_tracks st) -> tr_mmsi tr = k) ->
    exists done,
      let r := trkc_pop_all en st ms in
      rc_state r = with_tracks st (without (inset done) (t_tracks st)) /\
      (forall m, calls_for m (rc_calls r) = if inset done m then deleted_call (t_tracks st) m else []) /\
      incl done ms /\ (rc_exn r = None -> done = ms) /\ rc_ret r = None /\
      (rc_exn r <> None -> rc_calls r <> []).
  Proof.
    induction ms as [|m0 r IH]; intros st ND KEY; simpl.
    - exists []. simpl. rewrite without_id by reflexivity. rewrite with_tracks_id.
      repeat split; auto; try (intros x []); try congruence.
    - pose proof (pop_track_c en st m0 ND) as P. destruct (idict_get (t_tracks st) m0) as [tr0|] eqn:G.
      + simpl in P. rewrite P. simpl. set (p := brkc_propagate en (t_broker st) tr0 DELETED).
        pose proof (KEY _ _ (get_some_in _ _ _ G)) as K.
        destruct (swallowed (snd p)) as [e|] eqn:SW; simpl.
        * (* the exception escapes: the loop ends here *)
          exists [m0]. simpl. repeat split.
          -- f_equal. apply without_ext. intros k. unfold inset. simpl. rewrite (Z.eqb_sym m0 k). now rewrite orb_false_r.
          -- intros m. simpl. rewrite K. unfold inset. simpl. rewrite orb_false_r. rewrite (Z.eqb_sym m m0).
             destruct (Z.eqb_spec m0 m) as [->|N]; simpl; [|reflexivity]. unfold deleted_call. now rewrite G.
          -- intros x [<-|[]]. now left.
          -- discriminate.
          -- discriminate.
        * set (st1 := with_tracks st (without (Z.eqb m0) (t_tracks st))).
          destruct (IH st1) as (done & E & C & INC & FULL & RET & NE).
          -- simpl. now apply nodup_keys_without.
          -- simpl. intros k tr I. apply in_without in I. apply KEY. tauto.
          -- exists (m0 :: done). simpl in *. repeat split.
             ++ rewrite E. unfold st1, with_tracks. simpl. f_equal. rewrite without_without. apply without_ext.
                intros k. unfold inset. simpl. now rewrite (Z.eqb_sym m0 k).
             ++ intros m. rewrite C. simpl. unfold deleted_call. rewrite get_without. rewrite K.
                unfold inset at 2. simpl. fold (inset done m).
                rewrite (Z.eqb_sym m m0). destruct (Z.eqb_spec m0 m) as [->|N]; simpl.
                ** rewrite G. destruct (inset done m); reflexivity.
                ** reflexivity.
             ++ intros x [<-|I]; [now left | right; auto].
             ++ intros H. f_equal. auto.
             ++ intros _. discriminate.
      + rewrite P. simpl. destruct (IH st ND KEY) as (done & E & C & INC & FULL & RET & NE).
        exists (m0 :: done). simpl in *. repeat split.
        * rewrite E. f_equal. apply without_ext_in. intros k I. unfold inset. simpl.
          destruct (Z.eqb_spec k m0) as [->|N]; [|reflexivity]. apply get_none_iff in G. tauto.
        * intros m. rewrite C. unfold inset at 2. simpl. fold (inset done m).
          destruct (Z.eqb_spec m m0) as [->|N]; simpl; [|reflexivity].
          unfold deleted_call. rewrite G. destruct (inset done m0); reflexivity.
        * intros x [<-|I]; [now left | right; auto].
        * intros H. f_equal. auto.
        * assumption.
  Qed.

  (* ---------------------------------------------------------------- cleanup *)
  (* the iteration of a set visits exactly its elements *)
  Definition env_ok (en : env) : Prop := forall l x, In x (e_iter en l) <-> In x l.

  (* [done] = the MMSIs whose pop_track was started.  Whatever the subscribers do: only tracks whose age has reached
     the TTL are removed, and if the cache was a lower bound it is one afterwards (also when the loop over the expired
     MMSIs was left by an exception: `self.oldest_timestamp = oldest` is then not reached).  If no exception escaped,
     all tracks whose age has reached the TTL are removed. *)
  Lemma cleanup_c (en : env) (st : tracker) now : sinv st ->
    exists done o',
      rc_state (trkc_cleanup en st now) =
        mkTracker (without (inset done) (t_tracks st)) (t_ttl st) (t_ordered st) o' (t_broker st) /\
      (forall m, calls_for m (rc_calls (trkc_cleanup en st now)) =
                 if inset done m then deleted_call (t_tracks st) m else []) /\
      rc_ret (trkc_cleanup en st now) = None /\
      (rc_exn (trkc_cleanup en st now) <> None -> rc_calls (trkc_cleanup en st now) <> []) /\
      (t_ttl st = None -> done = []) /\
      (env_ok en -> forall T, t_ttl st = Some T ->
         (forall k tr, In (k, tr) (t_tracks st) -> In k done -> T <= now - tr_lu tr) /\
         (oinv st ->
            oinv (rc_state (trkc_cleanup en st now)) /\
            (rc_exn (trkc_cleanup en st now) = None ->
             forall k tr, In (k, tr) (t_tracks st) -> T <= now - tr_lu tr -> In k done))).
  Proof.
    intros I. destruct st as [d ttl ord old br]. destruct I as [ND KEY SORT LEN]. simpl in *.
    assert (NOOP : without (inset []) d = d) by (apply without_id; reflexivity).
    assert (NOCALL : forall m : Z, calls_for m (@nil call) = if inset [] m then deleted_call d m else []) by reflexivity.
    unfold trkc_cleanup. simpl. destruct ttl as [T|].
    2:{ exists [], old. simpl. rewrite NOOP. split; [reflexivity|]. split; [exact NOCALL|]. split; [reflexivity|].
        split; [intros H; exfalso; apply H; reflexivity|]. split; [reflexivity|]. intros _ T X. discriminate. }
    destruct old as [o|].
    2:{ exists [], None. simpl. rewrite NOOP. split; [reflexivity|]. split; [exact NOCALL|]. split; [reflexivity|].
        split; [intros H; exfalso; apply H; reflexivity|]. split; [discriminate|]. intros _ T' _. split; [intros k tr _ []|].
        intros OI. split; [exact OI|]. intros _ k tr H _. destruct (OI _ _ H) as (o & E & _). discriminate. }
    destruct (Z.ltb_spec (now - T) o) as [Early|Late].
    { exists [], (Some o). simpl. rewrite NOOP. split; [reflexivity|]. split; [exact NOCALL|]. split; [reflexivity|].
      split; [intros H; exfalso; apply H; reflexivity|]. split; [discriminate|]. intros _ T' ET. inversion ET; subst T'.
      split; [intros k tr _ []|]. intros OI. split; [exact OI|].
      intros _ k tr H St. destruct (OI _ _ H) as (o1 & E & L). inversion E; subst. simpl in *. lia. }
    set (L := if ord then idict_values d else trk_sorted (idict_values d)).
    assert (SS : StronglySorted le_lu L).
    { unfold L. destruct ord; [|apply sorted_ss]. unfold idict_values. apply (proj1 (@ss_map _ _ snd le_lu d)). now apply SORT. }
    assert (MEM : forall tr, In tr L <-> In tr (idict_values d)).
    { intros tr. unfold L. destruct ord; [tauto|]. split; apply Permutation_in;
        [apply Permutation_sym|]; apply sorted_perm. }
    destruct (trk_cleanup_scan now T L (Some o) []) as [o' del] eqn:ES.
    destruct (scan_spec _ _ _ _ _ _ _ SS ES) as (D & O).
    destruct (pop_all_c en (e_iter en del) (mkTracker d (Some T) ord (Some o) br) ND KEY)
      as (done & E & C & INC & FULL & RET & NE).
    simpl in E, C, INC, FULL, RET, NE.
    assert (EXACT : forall k tr, In (k, tr) d -> (In k del <-> T <= now - tr_lu tr)).
    { intros k tr H. rewrite D. split.
      - intros [[]|(tr' & I' & K & St)]. apply MEM, in_values in I'. destruct I' as (k' & I').
        pose proof (KEY _ _ I') as K'. assert (k' = k) by congruence. subst k'.
        pose proof (in_get _ _ _ ND I') as G1. pose proof (in_get _ _ _ ND H) as G2. congruence.
      - intros St. right. exists tr. split; [apply MEM, in_values; now exists k|]. split; [now apply KEY | assumption]. }
    destruct (rc_exn (trkc_pop_all en (mkTracker d (Some T) ord (Some o) br) (e_iter en del))) as [e|] eqn:EX.
    - (* the loop was left by an exception: oldest_timestamp keeps its value *)
      exists done, (Some o). split; [exact E|]. split; [exact C|]. split; [exact RET|]. split; [rewrite EX; exact NE|].
      split; [discriminate|]. intros OK T' ET. inversion ET; subst T'. split.
      + intros k tr H Hd. apply (EXACT _ _ H). apply OK. now apply INC.
      + intros OI. split; [|rewrite EX; discriminate]. rewrite E. intros k tr H. simpl in H. apply in_without in H.
        apply (OI k tr). tauto.
    - exists done, o'. simpl. split; [now rewrite E|]. split; [exact C|]. split; [reflexivity|].
      split; [intros X; now contradiction X|]. split; [discriminate|].
      intros OK T' ET. inversion ET; subst T'. specialize (FULL eq_refl). split.
      + intros k tr H Hd. apply (EXACT _ _ H). apply OK. now apply INC.
      + intros OI. split.
        * rewrite E. intros k tr H. simpl in H. apply in_without in H. destruct H as [H NI]. simpl in NI.
          apply inset_false in NI. simpl.
          assert (Fr : now - tr_lu tr < T).
          { destruct (Z.lt_ge_cases (now - tr_lu tr) T) as [X|X]; [assumption|]. exfalso. apply NI. rewrite FULL.
            apply OK. now apply (EXACT _ _ H). }
          assert (InL : In tr L) by (apply MEM, in_values; now exists k).
          destruct O as [(-> & A)|(lu0 & -> & A)].
          -- specialize (A _ InL). lia.
          -- exists lu0. split; [reflexivity | now apply A].
        * intros _ k tr H St. rewrite FULL. apply OK. now apply (EXACT _ _ H).
  Qed.

  Lemma cleanup_c_sinv (en : env) (st : tracker) now : sinv st -> sinv (rc_state (trkc_cleanup en st now)).
  Proof.
    intros I. destruct (cleanup_c en st now I) as (done & o' & E & _). rewrite E.
    apply (sinv_same (with_tracks st (without (inset done) (t_tracks st)))); [reflexivity | reflexivity |].
    now apply sinv_without.
  Qed.

  Lemma cleanup_c_cfg (en : env) (st : tracker) now : sinv st ->
    t_ttl (rc_state (trkc_cleanup en st now)) = t_ttl st /\ t_ordered (rc_state (trkc_cleanup en st now)) = t_ordered st /\
    t_broker (rc_state (trkc_cleanup en st now)) = t_broker st.
  Proof. intros I. destruct (cleanup_c en st now I) as (done & o' & E & _). rewrite E. simpl. auto. Qed.

  (* ---------------------------------------------------------------- update *)
  Lemma ensure_spec_s (st : tracker) ts : sinv st ->
    (out_of_order st ts /\ trk_ensure_timestamp_constraints st ts = (st, Some (Py ValueError))) \/
    (~ out_of_order st ts /\ trk_ensure_timestamp_constraints st ts = (st, None)).
  Proof.
    intros I. unfold trk_ensure_timestamp_constraints, out_of_order. destruct (t_ordered st) eqn:EO; simpl.
    2:{ right. split; [intros [X _]; discriminate | reflexivity]. }
    destruct (t_tracks st) as [|kv0 r] eqn:ED.
    { right. split; [intros (_ & k & tr & [] & _) | reflexivity]. }
    rewrite <- ED. destruct (poplast_spec (t_tracks st)) as (d' & k & latest & Ed & Ep);
      [apply I | rewrite ED; discriminate|].
    rewrite Ep. rewrite with_tracks_id. destruct (Z.ltb_spec ts (tr_lu latest)) as [Lt|Ge].
    - left. split; [|reflexivity]. split; [reflexivity|]. exists k, latest.
      split; [rewrite Ed; apply in_or_app; right; now left | assumption].
    - right. split; [|reflexivity]. intros (_ & k1 & tr1 & I1 & Lt).
      pose proof (s_sorted _ I EO) as S. rewrite Ed in S, I1. apply ss_app in S. destruct S as (_ & _ & S).
      apply in_app_or in I1. destruct I1 as [I1|[E1|[]]].
      + specialize (S _ _ I1 (or_introl eq_refl)). unfold le_lu_kv in S. simpl in S. lia.
      + inversion E1; subst. lia.
  Qed.

  Lemma upd_result_facts_s (st : tracker) m new : sinv st -> tr_mmsi new = m -> length (tr_attrs new) = nattrs ->
    tr_mmsi (upd_result st m new) = m /\ tr_lu (upd_result st m new) = tr_lu new /\
    length (tr_attrs (upd_result st m new)) = nattrs.
  Proof.
    intros I Hm Hl. unfold upd_result. destruct (idict_get (t_tracks st) m) as [old|] eqn:G; [|auto].
    simpl. rewrite merge_fields_length. repeat split; auto. apply (s_len _ I m). now apply get_some_in.
  Qed.

  (* the table after insert_track / update_track (oldest_timestamp not yet touched) *)
  Definition inserted (st : tracker) (m : Z) (new : track) : tracker :=
    with_tracks st (without (Z.eqb m) (t_tracks st) ++ [(m, upd_result st m new)]).

  Lemma after_insert_inserted (st : tracker) m new :
    after_insert st m new = trk_set_oldest_timestamp (inserted st m new) (tr_lu new).
  Proof. reflexivity. Qed.

  Lemma sinv_inserted (st : tracker) m new : sinv st -> tr_mmsi new = m -> length (tr_attrs new) = nattrs ->
    ~ out_of_order st (tr_lu new) -> sinv (inserted st m new).
  Proof.
    intros I Hm Hl NO. destruct (upd_result_facts_s st m new I Hm Hl) as (Rm & Rlu & Rlen).
    unfold inserted. set (tr' := upd_result st m new) in *. clearbody tr'.
    destruct I as [ND KEY SORT LEN]. unfold out_of_order in NO. destruct st as [d ttl ord old br]. simpl in *.
    assert (IN : forall k tr, In (k, tr) (without (Z.eqb m) d ++ [(m, tr')]) ->
                 (In (k, tr) d /\ k <> m) \/ (k = m /\ tr = tr')).
    { intros k tr H. apply in_app_or in H. destruct H as [H|[H|[]]].
      - apply in_without in H. simpl in H. left. split; [tauto|]. destruct H as [_ H]. apply Z.eqb_neq in H. congruence.
      - inversion H; subst. now right. }
    constructor; simpl.
    - rewrite keys_app. simpl. apply (Permutation_NoDup (Permutation_cons_append _ _)). constructor.
      + rewrite keys_without, filter_In, Z.eqb_refl. simpl. intros [_ X]. discriminate.
      + now apply nodup_keys_without.
    - intros k tr H. destruct (IN _ _ H) as [[H1 _]|[-> ->]]; [now apply KEY | assumption].
    - intros Eo. apply ss_app. split; [apply ss_filter; now apply SORT|]. split; [repeat constructor|].
      intros x y Hx [<-|[]]. apply in_without in Hx. destruct x as [kx trx]. unfold le_lu_kv. simpl.
      destruct (Z.le_gt_cases (tr_lu trx) (tr_lu new)) as [L|G]; [lia|]. exfalso. apply NO. split; [assumption|].
      exists kx, trx. split; [tauto | lia].
    - intros k tr H. destruct (IN _ _ H) as [[H1 _]|[-> ->]]; [now apply (LEN k) | assumption].
  Qed.

  Lemma set_oldest_same (st : tracker) ts :
    t_tracks (trk_set_oldest_timestamp st ts) = t_tracks st /\ t_ordered (trk_set_oldest_timestamp st ts) = t_ordered st /\
    t_ttl (trk_set_oldest_timestamp st ts) = t_ttl st /\ t_broker (trk_set_oldest_timestamp st ts) = t_broker st.
  Proof. unfold trk_set_oldest_timestamp. destruct (t_oldest st); simpl; auto. Qed.

  Lemma sinv_after_insert (st : tracker) m new : sinv (inserted st m new) -> sinv (after_insert st m new).
  Proof.
    rewrite after_insert_inserted. destruct (set_oldest_same (inserted st m new) (tr_lu new)) as (A & B & _).
    now apply sinv_same.
  Qed.

  Lemma with_tracks_set_oldest (st : tracker) d ts :
    with_tracks (trk_set_oldest_timestamp st ts) d = trk_set_oldest_timestamp (with_tracks st d) ts.
  Proof. unfold trk_set_oldest_timestamp. simpl. destruct (t_oldest st); reflexivity. Qed.

  (* the state in which insert_track / update_track leave the tracker when a subscriber raises: a NEW track is already
     covered by the cache (`__set_oldest_timestamp` runs before insert_track), an updated one still is *)
  Definition raised_insert (st : tracker) (m : Z) (new : track) : tracker :=
    if idict_mem (t_tracks st) m then inserted st m new else after_insert st m new.

  Lemma insert_or_update_c (en : env) (st : tracker) m new : NoDup (keys (t_tracks st)) ->
    (older_than_track st m (tr_lu new) /\
     trkc_insert_or_update en st m new = mkCResult st [] [] None (Some (Py ValueError))) \/
    (~ older_than_track st m (tr_lu new) /\
     trkc_insert_or_update en st m new =
       mkCResult (match snd (brkc_propagate en (t_broker st) (upd_result st m new) (upd_event st m)) with
                  | CbReturn => after_insert st m new | CbRaise _ => raised_insert st m new end)
                 [(upd_event st m, upd_result st m new)]
                 (fst (brkc_propagate en (t_broker st) (upd_result st m new) (upd_event st m))) None
                 (outcome_exn (snd (brkc_propagate en (t_broker st) (upd_result st m new) (upd_event st m))))).
  Proof.
    intros ND. unfold trkc_insert_or_update, raised_insert, after_insert, inserted, upd_event, upd_result, older_than_track, idict_mem.
    destruct (idict_get (t_tracks st) m) as [old|] eqn:G.
    - unfold trkc_update_track_m. rewrite G. destruct (Z.ltb_spec (tr_lu new) (tr_lu old)).
      + left. split; [exists old; auto | reflexivity].
      + right. split; [intros (o & E & L); inversion E; subst; lia|].
        rewrite del_without by assumption.
        rewrite set_absent by (rewrite get_without, Z.eqb_refl; reflexivity). simpl.
        destruct (brkc_propagate en (t_broker st) (trk_update_track old new) UPDATED) as [ds [|e]]; reflexivity.
    - right. split; [intros (o & E & _); discriminate|]. unfold trkc_insert_track.
      rewrite set_oldest_tracks. rewrite set_absent by assumption. rewrite without_id.
      2:{ intros k Ik. destruct (Z.eqb_spec m k); [subst; apply get_none_iff in G; tauto | reflexivity]. }
      simpl. rewrite (proj2 (proj2 (proj2 (set_oldest_same st (tr_lu new))))).
      destruct (brkc_propagate en (t_broker st) new CREATED) as [ds [|e]]; simpl.
      + now rewrite set_oldest_absorb.
      + now rewrite with_tracks_set_oldest.
  Qed.

  Lemma raised_insert_tracks (st : tracker) m new :
    t_tracks (raised_insert st m new) = without (Z.eqb m) (t_tracks st) ++ [(m, upd_result st m new)].
  Proof.
    unfold raised_insert. destruct (idict_mem (t_tracks st) m); [reflexivity|].
    now destruct (after_insert_cfg st m new) as (_ & _ & _ & E).
  Qed.

  Lemma sinv_raised_insert (st : tracker) m new : sinv (inserted st m new) -> sinv (raised_insert st m new).
  Proof. intros I. unfold raised_insert. destruct (idict_mem (t_tracks st) m); [assumption | now apply sinv_after_insert]. Qed.

  Lemma update_c (en : env) (st : tracker) now (msg : trk_msg V) ts : sinv st ->
    let new := trk_msg_to_track nattrs msg ts now in
    let m := m_mmsi msg in
    (upd_rejected st m (tr_lu new) /\ trkc_update nattrs en st now msg ts = mkCResult st [] [] None (Some (Py ValueError))) \/
    (~ upd_rejected st m (tr_lu new) /\ sinv (inserted st m new) /\
     trkc_update nattrs en st now msg ts =
       match snd (brkc_propagate en (t_broker st) (upd_result st m new) (upd_event st m)) with
       | CbRaise e =>
         mkCResult (raised_insert st m new) [(upd_event st m, upd_result st m new)]
                   (fst (brkc_propagate en (t_broker st) (upd_result st m new) (upd_event st m))) None (Some e)
       | CbReturn =>
         mkCResult (rc_state (trkc_cleanup en (after_insert st m new) now))
                   ((upd_event st m, upd_result st m new) :: rc_calls (trkc_cleanup en (after_insert st m new) now))
                   (fst (brkc_propagate en (t_broker st) (upd_result st m new) (upd_event st m))
                    ++ rc_deliv (trkc_cleanup en (after_insert st m new) now))
                   None (rc_exn (trkc_cleanup en (after_insert st m new) now))
       end).
  Proof.
    intros I new m. unfold trkc_update. fold new. fold m. unfold upd_rejected.
    destruct (msg_to_track_facts nattrs msg ts now) as (Fm & _ & Fl). fold new in Fm, Fl.
    destruct (ensure_spec_s st (tr_lu new) I) as [[OO E]|[NO E]]; rewrite E.
    - left. split; [now right | reflexivity].
    - destruct (insert_or_update_c en st m new (s_nodup _ I)) as [[OT E2]|[NT E2]]; rewrite E2.
      + left. split; [now left | reflexivity].
      + right. split; [tauto|]. split; [now apply sinv_inserted|].
        destruct (snd (brkc_propagate en (t_broker st) (upd_result st m new) (upd_event st m))); reflexivity.
  Qed.
  Lemma cleanup_c_nottl (en : env) (st : tracker) now : t_ttl st = None ->
    trkc_cleanup en st now = mkCResult st [] [] None None.
  Proof. intros E. unfold trkc_cleanup. now rewrite E. Qed.

  (* ---------------------------------------------------------------- one step *)
  Theorem step_sinv (en : env) (st : tracker) op : sinv st -> op_ok nattrs st op ->
    sinv (rc_state (trkc_step nattrs en st op)).
  Proof.
    intros I OKop. destruct op as [now msg ts|now|m|ev cb|ev cb|now msg ts|newttl|]; simpl.
    - destruct (update_c en st now msg ts I) as [[_ E]|(_ & I2 & E)]; rewrite E; [exact I|].
      destruct (snd (brkc_propagate en (t_broker st) _ _)); simpl; [|now apply sinv_raised_insert].
      apply cleanup_c_sinv. now apply sinv_after_insert.
    - now apply cleanup_c_sinv.
    - pose proof (pop_track_c en st m (s_nodup _ I)) as P. destruct (idict_get (t_tracks st) m); simpl in P; rewrite P; simpl;
        [now apply sinv_without | assumption].
    - now apply (sinv_same st).
    - now apply (sinv_same st).
    - destruct (msg_to_track_facts nattrs msg ts now) as (Fm & _ & Fl).
      assert (I2 : sinv (inserted st (m_mmsi msg) (trk_msg_to_track nattrs msg ts now))) by now apply sinv_inserted.
      destruct (insert_or_update_c en st (m_mmsi msg) (trk_msg_to_track nattrs msg ts now) (s_nodup _ I)) as [[_ E]|[_ E]];
        rewrite E; simpl; [exact I|].
      destruct (snd (brkc_propagate en (t_broker st) _ _)); [now apply sinv_after_insert | now apply sinv_raised_insert].
    - now apply (sinv_same st).
    - destruct I as [A B C D]. constructor; simpl; auto. discriminate.
  Qed.

  Lemma cleanup_c_oinv (en : env) (st : tracker) now : sinv st -> oinv st -> env_ok en ->
    oinv (rc_state (trkc_cleanup en st now)).
  Proof.
    intros I O OK. destruct (t_ttl st) as [T|] eqn:ET.
    2:{ rewrite cleanup_c_nottl by assumption. exact O. }
    destruct (cleanup_c en st now I) as (done & o' & _ & _ & _ & _ & _ & X).
    destruct (X OK T ET) as (_ & Y). now apply Y.
  Qed.

  (* a subscriber of CREATED / UPDATED raised: the cache still bounds the table *)
  Lemma oinv_raised_insert (st : tracker) m new : inv nattrs st -> tr_mmsi new = m -> length (tr_attrs new) = nattrs ->
    ~ upd_rejected st m (tr_lu new) -> oinv (raised_insert st m new).
  Proof.
    intros I0 Hm Hl NR. unfold raised_insert. destruct (idict_mem (t_tracks st) m) eqn:M.
    - pose proof (proj1 (inv_split st) I0) as [I O]. destruct (upd_result_facts_s st m new I Hm Hl) as (_ & Rlu & _).
      unfold idict_mem in M. destruct (idict_get (t_tracks st) m) as [old|] eqn:G; [|discriminate].
      intros k tr H. unfold inserted in H. simpl in H. apply in_app_or in H. destruct H as [H|[H|[]]].
      + apply in_without in H. apply (O k tr). tauto.
      + inversion H; subst k tr. simpl. destruct (O _ _ (get_some_in _ _ _ G)) as (o & Eo & Lo). exists o. split; [assumption|].
        rewrite Rlu. destruct (Z.lt_ge_cases (tr_lu new) (tr_lu old)) as [X|X]; [|lia].
        exfalso. apply NR. left. exists old. auto.
    - assert (IA : inv nattrs (after_insert st m new)) by (apply inv_after_insert; auto; intros X; apply NR; now right).
      apply inv_split in IA. tauto.
  Qed.

  (* the full invariant -- structure AND cache -- survives every operation, whatever the subscribers do *)
  Theorem step_inv (en : env) (st : tracker) op : inv nattrs st -> env_ok en -> op_ok nattrs st op ->
    inv nattrs (rc_state (trkc_step nattrs en st op)).
  Proof.
    intros I0 OK OKop. pose proof (proj1 (inv_split st) I0) as [I O]. apply inv_split. split; [now apply step_sinv|].
    destruct op as [now msg ts|now|m|ev cb|ev cb|now msg ts|newttl|]; simpl in *.
    - destruct (update_c en st now msg ts I) as [[_ E]|(NR & I2 & E)]; rewrite E in *; [exact O|].
      destruct (msg_to_track_facts nattrs msg ts now) as (Fm & _ & Fl).
      destruct (snd (brkc_propagate en (t_broker st) _ _)); simpl in *.
      + assert (IA : inv nattrs (after_insert st (m_mmsi msg) (trk_msg_to_track nattrs msg ts now))).
        { apply inv_after_insert; auto. intros X. apply NR. now right. }
        apply inv_split in IA. destruct IA as [IA OA]. now apply cleanup_c_oinv.
      + now apply oinv_raised_insert.
    - now apply cleanup_c_oinv.
    - pose proof (pop_track_c en st m (s_nodup _ I)) as P. destruct (idict_get (t_tracks st) m); simpl in P; rewrite P; simpl;
        [now apply oinv_without | assumption].
    - exact O.
    - exact O.
    - destruct (msg_to_track_facts nattrs msg ts now) as (Fm & _ & Fl).
      destruct (insert_or_update_c en st (m_mmsi msg) (trk_msg_to_track nattrs msg ts now) (s_nodup _ I)) as [[_ E]|[NR E]];
        rewrite E; simpl; [exact O|].
      destruct (snd (brkc_propagate en (t_broker st) _ _)).
      + assert (IA : inv nattrs (after_insert st (m_mmsi msg) (trk_msg_to_track nattrs msg ts now))) by now apply inv_after_insert.
        apply inv_split in IA. tauto.
      + apply oinv_raised_insert; auto. intros [X|X]; tauto.
    - exact O.
    - exact O.
  Qed.

  (* every state: after any history, whatever the subscribers did (returned, raised, left operations half way) *)
  Inductive reachable_any : tracker -> Prop :=
  | reach_any_init ttl ordered : reachable_any (trk_init ttl ordered)
  | reach_any_step en st op : reachable_any st -> env_ok en -> op_ok nattrs st op ->
                              reachable_any (rc_state (trkc_step nattrs en st op)).

  Lemma reachable_any_inv st : reachable_any st -> inv nattrs st.
  Proof. induction 1; [apply inv_init | now apply step_inv]. Qed.

  Lemma reachable_any_sinv st : reachable_any st -> sinv st.
  Proof. intros R. apply reachable_any_inv in R. apply inv_split in R. tauto. Qed.

  (* only the two configuration operations change the configuration *)
  Lemma step_cfg_c (en : env) (st : tracker) op : sinv st ->
    t_ordered (rc_state (trkc_step nattrs en st op)) = sp_mode (t_ordered st) (abs_op op) /\
    t_ttl (rc_state (trkc_step nattrs en st op)) = sp_ttl_after (t_ttl st) (abs_op op).
  Proof.
    intros I. destruct op as [now msg ts|now|m1|ev cb|ev cb|now msg ts|newttl|]; simpl; auto.
    - destruct (update_c en st now msg ts I) as [[_ E]|(_ & I2 & E)]; rewrite E; simpl; [auto|].
      destruct (after_insert_cfg st (m_mmsi msg) (trk_msg_to_track nattrs msg ts now)) as (A & B & _).
      destruct (snd (brkc_propagate en (t_broker st) _ _)); simpl.
      2:{ unfold raised_insert. destruct (idict_mem (t_tracks st) (m_mmsi msg)); [simpl; auto | rewrite A, B; auto]. }
      destruct (cleanup_c_cfg en _ now (sinv_after_insert _ _ _ I2)) as (X & Y & _). rewrite X, Y. auto.
    - destruct (cleanup_c_cfg en st now I) as (X & Y & _). auto.
    - pose proof (pop_track_c en st m1 (s_nodup _ I)) as P. destruct (idict_get (t_tracks st) m1); simpl in P; rewrite P; simpl; auto.
    - destruct (insert_or_update_c en st (m_mmsi msg) (trk_msg_to_track nattrs msg ts now) (s_nodup _ I)) as [[_ E]|[_ E]];
        rewrite E; simpl; [auto|].
      destruct (after_insert_cfg st (m_mmsi msg) (trk_msg_to_track nattrs msg ts now)) as (A & B & _).
      destruct (snd (brkc_propagate en (t_broker st) _ _)); [rewrite A, B; auto|].
      unfold raised_insert. destruct (idict_mem (t_tracks st) (m_mmsi msg)); [simpl; auto | rewrite A, B; auto].
  Qed.

  (* ================================================================================= 4. C13 *)
  (* whatever the subscribers do, expiry only removes tracks whose age has reached the TTL *)
  Lemma cleanup_removed_expired (en : env) (st : tracker) now T : sinv st -> env_ok en -> t_ttl st = Some T ->
    Forall (fun c => fst c = DELETED /\ T <= now - tr_lu (snd c)) (rc_calls (trkc_cleanup en st now)).
  Proof.
    intros I OK ET. destruct (cleanup_c en st now I) as (done & o' & _ & C & _ & _ & _ & X).
    destruct (X OK T ET) as (Y & _). rewrite Forall_forall. intros c H.
    destruct (cleanup_calls _ _ _ C c H) as (E & D & G). split; [assumption|].
    apply get_some_in in G. now apply (Y _ _ G).
  Qed.

  (* a cleanup that returns, started where the cache is a lower bound, leaves only tracks younger than the TTL *)
  Lemma cleanup_remaining_fresh (en : env) (st : tracker) now T : inv nattrs st -> env_ok en -> t_ttl st = Some T ->
    rc_exn (trkc_cleanup en st now) = None ->
    Forall (fun tr => now - tr_lu tr < T) (trk_tracks (rc_state (trkc_cleanup en st now))).
  Proof.
    intros I0 OK ET EX. apply inv_split in I0. destruct I0 as [I O].
    destruct (cleanup_c en st now I) as (done & o' & E & _ & _ & _ & _ & X).
    destruct (X OK T ET) as (_ & Y). destruct (Y O) as (_ & Z). specialize (Z EX). rewrite E. rewrite Forall_forall.
    intros tr H. unfold trk_tracks in H. simpl in H. apply in_values in H. destruct H as (k & H).
    apply in_without in H. destruct H as [H N]. simpl in N. apply inset_false in N.
    destruct (Z.lt_ge_cases (now - tr_lu tr) T) as [L|G]; [assumption|]. exfalso. apply N. now apply (Z _ _ H).
  Qed.

  (* C13, TTL configured: an update()/cleanup() that RETURNS, from EVERY state (also one left behind by an operation
     that a subscriber's exception ended), whatever the subscribers do during it (KeyError of a DELETED subscriber is
     swallowed by pop_track; anything that escapes makes the operation raise and is excluded by rc_exn = None) *)
  Theorem expiry_exact_c (en : env) (st : tracker) op now T : reachable_any st -> env_ok en -> t_ttl st = Some T ->
    (op = OpCleanup now \/ exists msg ts, op = OpUpdate now msg ts) ->
    rc_exn (trkc_step nattrs en st op) = None ->
    sp_ttl_ok T now (map (@tr_lu V) (trk_tracks (rc_state (trkc_step nattrs en st op))))
              (deleted_lus (rc_calls (trkc_step nattrs en st op))).
  Proof.
    intros R OK ET Hop. apply reachable_any_inv in R. pose proof (proj1 (inv_split st) R) as [I O].
    unfold sp_ttl_ok. rewrite Forall_map. destruct Hop as [->|(msg & ts & ->)]; simpl.
    - intros EX. split; [now apply cleanup_remaining_fresh|].
      apply deleted_lus_all. now apply cleanup_removed_expired.
    - destruct (update_c en st now msg ts I) as [[_ E]|(NR & I2 & E)]; rewrite E; simpl; [discriminate|].
      destruct (msg_to_track_facts nattrs msg ts now) as (Fm & _ & Fl).
      destruct (after_insert_cfg st (m_mmsi msg) (trk_msg_to_track nattrs msg ts now)) as (Ettl & _).
      rewrite ET in Ettl.
      destruct (snd (brkc_propagate en (t_broker st) _ _)); simpl; [|discriminate]. intros EX.
      assert (IA : inv nattrs (after_insert st (m_mmsi msg) (trk_msg_to_track nattrs msg ts now))).
      { apply inv_after_insert; auto. intros X. apply NR. now right. }
      split; [now apply cleanup_remaining_fresh|].
      unfold deleted_lus. simpl. rewrite upd_event_not_deleted. apply deleted_lus_all.
      apply cleanup_removed_expired; auto. apply inv_split in IA. tauto.
  Qed.

  (* ... and whether the operation returns or is left by an exception: what expiry removed had reached the TTL (the
     second half of C13), and the invariants -- the cache included -- hold in the state left behind *)
  Theorem expiry_never_removes_fresh (en : env) (st : tracker) op now T : reachable_any st -> env_ok en ->
    t_ttl st = Some T -> (op = OpCleanup now \/ exists msg ts, op = OpUpdate now msg ts) ->
    Forall (fun lu => T <= now - lu) (deleted_lus (rc_calls (trkc_step nattrs en st op))) /\
    inv nattrs (rc_state (trkc_step nattrs en st op)).
  Proof.
    intros R OK ET Hop. split.
    2:{ apply step_inv; [now apply reachable_any_inv | assumption|]. destruct Hop as [->|(msg & ts & ->)]; exact Logic.I. }
    apply reachable_any_sinv in R.
    destruct Hop as [->|(msg & ts & ->)]; simpl.
    - apply deleted_lus_all. now apply cleanup_removed_expired.
    - destruct (update_c en st now msg ts R) as [[_ E]|(NR & I2 & E)]; rewrite E; simpl; [constructor|].
      destruct (after_insert_cfg st (m_mmsi msg) (trk_msg_to_track nattrs msg ts now)) as (Ettl & _).
      rewrite ET in Ettl.
      destruct (snd (brkc_propagate en (t_broker st) _ _)); simpl.
      + unfold deleted_lus. simpl. rewrite upd_event_not_deleted. apply deleted_lus_all.
        apply cleanup_removed_expired; auto. now apply sinv_after_insert.
      + unfold deleted_lus. simpl. rewrite upd_event_not_deleted. constructor.
  Qed.

  (* C13, TTL None: update() and cleanup() never remove a track, whatever the subscribers do *)
  Theorem no_ttl_no_expiry_c (en : env) (st : tracker) op : reachable_any st -> t_ttl st = None ->
    (forall m, op <> OpPop m) ->
    deleted_mmsis (rc_calls (trkc_step nattrs en st op)) = [] /\
    incl (keys (t_tracks st)) (keys (t_tracks (rc_state (trkc_step nattrs en st op)))).
  Proof.
    intros R ET NP. apply reachable_any_sinv in R.
    destruct op as [now msg ts|now|m|ev cb|ev cb|now msg ts|newttl|]; simpl.
    - destruct (update_c en st now msg ts R) as [[_ E]|(_ & I2 & E)]; rewrite E; simpl.
      + split; [reflexivity | apply incl_refl].
      + destruct (after_insert_cfg st (m_mmsi msg) (trk_msg_to_track nattrs msg ts now)) as (Ettl & _ & _ & Etr).
        rewrite ET in Ettl.
        assert (KS : incl (keys (t_tracks st))
                       (keys (without (Z.eqb (m_mmsi msg)) (t_tracks st) ++
                              [(m_mmsi msg, upd_result st (m_mmsi msg) (trk_msg_to_track nattrs msg ts now))]))).
        { rewrite keys_app, keys_without. simpl. intros k Ik. apply in_or_app.
          destruct (Z.eqb_spec (m_mmsi msg) k) as [->|N]; [right; now left | left].
          apply filter_In. split; [assumption|]. apply negb_true_iff. now apply Z.eqb_neq. }
        destruct (snd (brkc_propagate en (t_broker st) _ _)); simpl.
        * rewrite (cleanup_c_nottl en _ now Ettl). simpl. unfold deleted_mmsis. simpl.
          rewrite upd_event_not_deleted. split; [reflexivity|]. now rewrite Etr.
        * unfold deleted_mmsis. simpl. rewrite upd_event_not_deleted. split; [reflexivity|]. now rewrite raised_insert_tracks.
    - rewrite (cleanup_c_nottl en st now ET). simpl. split; [reflexivity | apply incl_refl].
    - exfalso. now apply (NP m).
    - split; [reflexivity | apply incl_refl].
    - split; [reflexivity | apply incl_refl].
    - destruct (insert_or_update_c en st (m_mmsi msg) (trk_msg_to_track nattrs msg ts now) (s_nodup _ R)) as [[_ E]|[_ E]];
        rewrite E; simpl; [split; [reflexivity | apply incl_refl]|].
      unfold deleted_mmsis. simpl. rewrite upd_event_not_deleted. split; [reflexivity|].
      assert (KS : incl (keys (t_tracks st))
                     (keys (without (Z.eqb (m_mmsi msg)) (t_tracks st) ++
                            [(m_mmsi msg, upd_result st (m_mmsi msg) (trk_msg_to_track nattrs msg ts now))]))).
      { rewrite keys_app, keys_without. simpl. intros k Ik. apply in_or_app.
        destruct (Z.eqb_spec (m_mmsi msg) k) as [->|N]; [right; now left | left].
        apply filter_In. split; [assumption|]. apply negb_true_iff. now apply Z.eqb_neq. }
      destruct (snd (brkc_propagate en (t_broker st) _ _)).
      + now destruct (after_insert_cfg st (m_mmsi msg) (trk_msg_to_track nattrs msg ts now)) as (_ & _ & _ & ->).
      + now rewrite raised_insert_tracks.
    - split; [reflexivity | apply incl_refl].
    - split; [reflexivity | apply incl_refl].
  Qed.
  (* ================================================================================= 5. C14 *)
  Lemma values_mmsi_keys_s (st : tracker) : sinv st -> map (@tr_mmsi V) (idict_values (t_tracks st)) = keys (t_tracks st).
  Proof.
    intros I. unfold idict_values, keys. rewrite map_map. apply map_ext_in. intros [k tr] H. simpl.
    now apply (s_key _ I).
  Qed.

  (* n_latest_tracks only needs the structural invariants: it is right in EVERY state *)
  Theorem n_latest_correct_c (st : tracker) n : reachable_any st -> 0 <= n ->
    sp_top_n n (map mlu (trk_tracks st)) (map mlu (trk_n_latest_tracks st n)) /\
    (t_ordered st = false -> sp_newest_first (map mlu (trk_n_latest_tracks st n))) /\
    incl (trk_n_latest_tracks st n) (trk_tracks st).
  Proof.
    intros R Hn. apply reachable_any_sinv in R. unfold trk_n_latest_tracks, trk_tracks, trk_tracks_ordered_after_insertion.
    set (vals := idict_values (t_tracks st)).
    assert (LV : length (t_tracks st) = length vals) by (unfold vals, idict_values; now rewrite map_length).
    rewrite LV. set (len := Z.of_nat (length vals)).
    assert (NDV : NoDup (map fst (map mlu vals))).
    { rewrite mlu_fst. unfold vals. rewrite values_mmsi_keys_s by assumption. apply (s_nodup _ R). }
    destruct (t_ordered st) eqn:EO.
    - unfold py_slice_from. fold len. replace (len - Z.min n len <? 0) with false by (symmetry; apply Z.ltb_ge; lia).
      set (k := Z.to_nat (len - Z.min n len)).
      assert (SS : StronglySorted le_lu vals).
      { unfold vals, idict_values. apply (proj1 (@ss_map _ _ snd le_lu (t_tracks st))). now apply (s_sorted _ R). }
      split; [|split; [discriminate|]].
      + apply top_n_of_split with (rest := map mlu (firstn k vals)).
        * rewrite <- (firstn_skipn k vals) at 1. rewrite map_app. apply Permutation_app_comm.
        * assumption.
        * intros x y Ix Iy. apply in_map_iff in Ix. destruct Ix as (tx & <- & Ix).
          apply in_map_iff in Iy. destruct Iy as (ty & <- & Iy). simpl.
          apply (ss_split le_lu k vals ty tx SS Iy Ix).
        * rewrite !map_length, skipn_length. unfold k, len. lia.
      + intros x Ix. rewrite <- (firstn_skipn k vals). apply in_or_app. now right.
    - rewrite enum_take_firstn. rewrite Z.sub_0_r. set (k := Z.to_nat (Z.min n len)).
      set (L := rev (trk_sorted vals)).
      assert (PL : Permutation vals L).
      { unfold L. rewrite <- Permutation_rev. apply sorted_perm. }
      assert (SL : StronglySorted (fun a b => le_lu b a) L) by (apply ss_rev, sorted_ss).
      split; [|split].
      + apply top_n_of_split with (rest := map mlu (skipn k L)).
        * rewrite <- map_app, firstn_skipn. now apply Permutation_map.
        * assumption.
        * intros x y Ix Iy. apply in_map_iff in Ix. destruct Ix as (tx & <- & Ix).
          apply in_map_iff in Iy. destruct Iy as (ty & <- & Iy). simpl.
          apply (ss_split (fun a b => le_lu b a) k L tx ty SL Ix Iy).
        * rewrite !map_length, firstn_length. rewrite <- (Permutation_length PL). unfold k, len. lia.
      + intros _. unfold sp_newest_first. apply (proj1 (@ss_map _ _ mlu (fun a b => snd b <= snd a) (firstn k L))).
        simpl. apply ss_firstn. exact SL.
      + intros x Ix. apply (Permutation_in _ (Permutation_sym PL)). rewrite <- (firstn_skipn k L).
        apply in_or_app. now left.
  Qed.

  (* ================================================================================= 6. C15 *)
  (* the target of an accepted update: update() got as far as propagating CREATED / UPDATED (it may still raise
     afterwards, if a subscriber does) *)
  Definition step_target_c (op : trk_op V) (res : result) : option Z :=
    match op with
    | OpUpdate _ msg _ | OpInsertOrUpdate _ msg _ => match rc_calls res with [] => None | _ => Some (m_mmsi msg) end
    | _ => None
    end.

  Theorem step_events_c (en : env) (st : tracker) op m : sinv st ->
    sp_events_of m (abs_calls (rc_calls (trkc_step nattrs en st op))) =
      sp_expected_events (step_target_c op (trkc_step nattrs en st op)) m (idict_mem (t_tracks st) m)
                         (idict_mem (t_tracks (rc_state (trkc_step nattrs en st op))) m) /\
    (idict_mem (t_tracks st) m = false -> step_target_c op (trkc_step nattrs en st op) <> Some m ->
     idict_mem (t_tracks (rc_state (trkc_step nattrs en st op))) m = false).
  Proof.
    intros I. rewrite events_of_calls.
    assert (SAME : forall b, [] = sp_expected_events None m b b) by (intros []; reflexivity).
    destruct op as [now msg ts|now|m1|ev cb|ev cb|now msg ts|newttl|]; simpl.
    - destruct (update_c en st now msg ts I) as [[_ E]|(_ & I2 & E)]; rewrite E; simpl; [split; [apply SAME | auto]|].
      set (m0 := m_mmsi msg) in *. set (new := trk_msg_to_track nattrs msg ts now) in *.
      destruct (upd_result_facts_s st m0 new I) as (Rm & _);
        [apply (msg_to_track_facts nattrs msg ts now) | apply (msg_to_track_facts nattrs msg ts now)|].
      destruct (after_insert_cfg st m0 new) as (_ & _ & _ & Etr).
      assert (M2 : idict_mem (without (Z.eqb m0) (t_tracks st) ++ [(m0, upd_result st m0 new)]) m
                   = (m =? m0) || idict_mem (t_tracks st) m).
      { unfold idict_mem. rewrite get_app_single, get_without, (Z.eqb_sym m0 m).
        destruct (m =? m0); simpl; [reflexivity|]. destruct (idict_get (t_tracks st) m); reflexivity. }
      destruct (snd (brkc_propagate en (t_broker st) _ _)); simpl.
      + destruct (cleanup_c en _ now (sinv_after_insert _ _ _ I2)) as (done & o' & Ec & C & _). rewrite Ec. simpl.
        pose proof (cleanup_events _ _ _ m C) as CE. rewrite Rm. rewrite Etr in CE |- *. rewrite M2 in CE.
        destruct (Z.eqb_spec m m0) as [->|N]; simpl in *.
        * rewrite CE. split; [|congruence]. unfold upd_event.
          destruct (idict_mem (t_tracks st) m0); reflexivity.
        * rewrite CE. split; [reflexivity|]. intros B _. rewrite mem_without, M2.
          rewrite B. apply andb_false_r.
      + rewrite Rm. rewrite raised_insert_tracks. rewrite M2. destruct (Z.eqb_spec m m0) as [->|N]; simpl.
        * split; [|congruence]. unfold upd_event. destruct (idict_mem (t_tracks st) m0); reflexivity.
        * split; [|auto]. destruct (idict_mem (t_tracks st) m); reflexivity.
    - destruct (cleanup_c en st now I) as (done & o' & Ec & C & _). rewrite Ec. simpl.
      split; [now apply cleanup_events|]. intros B _. rewrite mem_without, B. apply andb_false_r.
    - pose proof (pop_track_c en st m1 (s_nodup _ I)) as P.
      destruct (idict_get (t_tracks st) m1) as [tr|] eqn:G; simpl in P; rewrite P; simpl; [|split; [apply SAME | auto]].
      rewrite mem_without. rewrite (s_key _ I _ _ (get_some_in _ _ _ G)). rewrite (Z.eqb_sym m1 m).
      destruct (Z.eqb_spec m m1) as [->|N]; simpl.
      + unfold idict_mem. rewrite G. split; [reflexivity | discriminate].
      + split; [apply SAME | auto].
    - split; [apply SAME | auto].
    - split; [apply SAME | auto].
    - set (m0 := m_mmsi msg). set (new := trk_msg_to_track nattrs msg ts now).
      destruct (insert_or_update_c en st m0 new (s_nodup _ I)) as [[_ E]|[_ E]]; rewrite E; simpl; [split; [apply SAME | auto]|].
      destruct (upd_result_facts_s st m0 new I) as (Rm & _);
        [apply (msg_to_track_facts nattrs msg ts now) | apply (msg_to_track_facts nattrs msg ts now)|].
      assert (M2 : idict_mem (without (Z.eqb m0) (t_tracks st) ++ [(m0, upd_result st m0 new)]) m
                   = (m =? m0) || idict_mem (t_tracks st) m).
      { unfold idict_mem. rewrite get_app_single, get_without, (Z.eqb_sym m0 m).
        destruct (m =? m0); simpl; [reflexivity|]. destruct (idict_get (t_tracks st) m); reflexivity. }
      assert (TR : t_tracks (match snd (brkc_propagate en (t_broker st) (upd_result st m0 new) (upd_event st m0)) with
                             | CbReturn => after_insert st m0 new | CbRaise _ => raised_insert st m0 new end)
                   = without (Z.eqb m0) (t_tracks st) ++ [(m0, upd_result st m0 new)]).
      { destruct (snd (brkc_propagate en (t_broker st) _ _)); [|apply raised_insert_tracks].
        now destruct (after_insert_cfg st m0 new) as (_ & _ & _ & ->). }
      rewrite TR, Rm, M2. destruct (Z.eqb_spec m m0) as [->|N]; simpl.
      + split; [|congruence]. unfold upd_event. destruct (idict_mem (t_tracks st) m0); reflexivity.
      + split; [|auto]. destruct (idict_mem (t_tracks st) m); reflexivity.
    - split; [apply SAME | auto].
    - split; [apply SAME | auto].
  Qed.

  (* all propagate calls of a run, as (event, mmsi), in order *)
  Definition run_events_c (results : list result) : list (sp_event * Z) :=
    flat_map (fun r => abs_calls (rc_calls r)) results.

  (* a history that respects the ordered-mode caveat of insert_or_update() at every step, and whose environments
     enumerate the set of expired MMSIs (`run_ok` is True for histories without insert_or_update() whose environments are
     built by `trk_env_of` / `trk_env_quiet`) *)
  Fixpoint trkc_run_ok (st : tracker) (h : list (env * trk_op V)) : Prop :=
    match h with
    | [] => True
    | (en, op) :: r => env_ok en /\ op_ok nattrs st op /\ trkc_run_ok (rc_state (trkc_step nattrs en st op)) r
    end.

  Lemma runc_ok_without_insert : forall (h : list (env * trk_op V)) (st : tracker),
    (forall x, In x h -> env_ok (fst x)) -> (forall en now msg ts, ~ In (en, OpInsertOrUpdate now msg ts) h) -> trkc_run_ok st h.
  Proof.
    induction h as [|[en op] r IH]; intros st E N; simpl; [exact Logic.I|]. split; [apply (E (en, op)); now left|]. split.
    - destruct op; try exact Logic.I. exfalso. apply (N en now decoded ts_epoch_ms). now left.
    - apply IH; [intros x I; apply E; now right | intros en' now msg ts I; apply (N en' now msg ts); now right].
  Qed.

  Lemma run_alive_c m : forall (h : list (env * trk_op V)) (st : tracker) trace0, sinv st -> trkc_run_ok st h ->
    sp_alive m trace0 = Some (idict_mem (t_tracks st) m) ->
    sp_alive m (trace0 ++ run_events_c (snd (trkc_run nattrs st h))) =
      Some (idict_mem (t_tracks (fst (trkc_run nattrs st h))) m).
  Proof.
    induction h as [|[en op] r IH]; intros st trace0 I OK A; simpl.
    - now rewrite app_nil_r.
    - destruct OK as (_ & OK1 & OK2).
      destruct (trkc_run nattrs (rc_state (trkc_step nattrs en st op)) r) as [st' rs] eqn:ER. simpl.
      rewrite app_assoc.
      specialize (IH (rc_state (trkc_step nattrs en st op)) (trace0 ++ abs_calls (rc_calls (trkc_step nattrs en st op)))).
      rewrite ER in IH. simpl in IH. apply IH; [now apply step_sinv | assumption|].
      unfold sp_alive in *. rewrite events_of_app, auto_run_app, A.
      destruct (step_events_c en st op m I) as (E & K). rewrite E. now apply expected_run.
  Qed.

  (* C15: whatever the subscribers do, the propagate calls of every MMSI stay in (CREATED UPDATED* DELETED)* and
     "alive" = "has a track" *)
  Theorem events_lifecycle_c ttl ordered (h : list (env * trk_op V)) m : trkc_run_ok (trk_init ttl ordered) h ->
    sp_alive m (run_events_c (snd (trkc_run nattrs (trk_init ttl ordered) h))) =
      Some (idict_mem (t_tracks (fst (trkc_run nattrs (trk_init ttl ordered) h))) m).
  Proof. intros OK. apply (run_alive_c m h (trk_init ttl ordered) []); [apply sinv_init | assumption | reflexivity]. Qed.

  Lemma run_reachable_any : forall (h : list (env * trk_op V)) (st : tracker),
    trkc_run_ok st h -> reachable_any st -> reachable_any (fst (trkc_run nattrs st h)).
  Proof.
    induction h as [|[en op] r IH]; intros st F R; simpl; [assumption|]. destruct F as (F1 & F2 & F3).
    specialize (IH _ F3 (reach_any_step en st op R F1 F2)).
    destruct (trkc_run nattrs (rc_state (trkc_step nattrs en st op)) r). exact IH.
  Qed.

  (* a rejected update: exactly the updates that are older than their own track or (ordered) than some track; it
     calls nobody, changes nothing and raises ValueError.  Every other update propagates CREATED / UPDATED. *)
  Theorem rejected_unchanged_c (en : env) (st : tracker) now (msg : trk_msg V) ts : reachable_any st ->
    (rc_calls (trkc_step nattrs en st (OpUpdate now msg ts)) = [] <-> upd_rejected st (m_mmsi msg) (msg_ts ts now)) /\
    (rc_calls (trkc_step nattrs en st (OpUpdate now msg ts)) = [] ->
     rc_state (trkc_step nattrs en st (OpUpdate now msg ts)) = st /\
     rc_deliv (trkc_step nattrs en st (OpUpdate now msg ts)) = [] /\
     rc_exn (trkc_step nattrs en st (OpUpdate now msg ts)) = Some (Py ValueError)).
  Proof.
    intros R. apply reachable_any_sinv in R. simpl.
    assert (Elu : tr_lu (trk_msg_to_track nattrs msg ts now) = msg_ts ts now) by apply msg_to_track_facts.
    destruct (update_c en st now msg ts R) as [[Rej E]|(NRej & I2 & E)]; rewrite E; rewrite Elu in *.
    - simpl. split; [tauto | auto].
    - destruct (snd (brkc_propagate en (t_broker st) _ _)); simpl; (split; [split; [discriminate | tauto] | discriminate]).
  Qed.

  (* ================================================================================= 7. deliveries *)
  (* what the subscribers get for a list of propagate calls *)
  Definition trkc_deliver (en : env) (b : trk_broker) (calls : list call) : list delivery :=
    flat_map (fun c => fst (brkc_propagate en b (snd c) (fst c))) calls.

  Lemma deliver_app (en : env) b (c1 c2 : list call) :
    trkc_deliver en b (c1 ++ c2) = trkc_deliver en b c1 ++ trkc_deliver en b c2.
  Proof. apply flat_map_app. Qed.

  Lemma pop_all_deliv (en : env) ms : forall st : tracker, NoDup (keys (t_tracks st)) ->
    rc_deliv (trkc_pop_all en st ms) = trkc_deliver en (t_broker st) (rc_calls (trkc_pop_all en st ms)).
  Proof.
    induction ms as [|m0 r IH]; intros st ND; simpl; [reflexivity|].
    pose proof (pop_track_c en st m0 ND) as P. destruct (idict_get (t_tracks st) m0) as [tr0|] eqn:G; simpl in P; rewrite P; simpl.
    - destruct (swallowed (snd (brkc_propagate en (t_broker st) tr0 DELETED))); simpl; [now rewrite app_nil_r|].
      rewrite IH by (simpl; now apply nodup_keys_without). simpl. reflexivity.
    - now rewrite IH.
  Qed.

  Lemma cleanup_deliv (en : env) (st : tracker) now : NoDup (keys (t_tracks st)) ->
    rc_deliv (trkc_cleanup en st now) = trkc_deliver en (t_broker st) (rc_calls (trkc_cleanup en st now)).
  Proof.
    intros ND. unfold trkc_cleanup. destruct (t_ttl st); [|reflexivity]. destruct (t_oldest st); [|reflexivity].
    destruct (_ <? _); [reflexivity|]. destruct (trk_cleanup_scan _ _ _ _ _) as [o' del].
    pose proof (pop_all_deliv en (e_iter en del) st ND) as P.
    destruct (rc_exn (trkc_pop_all en st (e_iter en del))); simpl; exact P.
  Qed.

  (* C15, "to whom": the callback invocations of an operation are those of its propagate calls, in order; each call
     goes to the subscribers of its event in registration order up to and including the first one that raises *)
  Theorem deliveries_of_calls (en : env) (st : tracker) op : reachable_any st ->
    rc_deliv (trkc_step nattrs en st op) =
      flat_map (fun c => map (fun cb => (cb, fst c, snd c))
                             (sp_cut (cb_raises en (fst c) (snd c)) (subscribers (t_broker st) (fst c))))
               (rc_calls (trkc_step nattrs en st op)).
  Proof.
    intros R. apply reachable_any_sinv in R.
    assert (G : rc_deliv (trkc_step nattrs en st op) = trkc_deliver en (t_broker st) (rc_calls (trkc_step nattrs en st op))).
    { destruct op as [now msg ts|now|m1|ev cb|ev cb|now msg ts|newttl|]; simpl; try reflexivity.
      - destruct (update_c en st now msg ts R) as [[_ E]|(_ & I2 & E)]; rewrite E; simpl; [reflexivity|].
        destruct (after_insert_cfg st (m_mmsi msg) (trk_msg_to_track nattrs msg ts now)) as (_ & _ & Eb & _).
        destruct (snd (brkc_propagate en (t_broker st) _ _)) eqn:EP; simpl; [|now rewrite app_nil_r].
        rewrite cleanup_deliv by (apply (s_nodup _ (sinv_after_insert _ _ _ I2))). now rewrite Eb.
      - apply cleanup_deliv. apply (s_nodup _ R).
      - pose proof (pop_track_c en st m1 (s_nodup _ R)) as P.
        destruct (idict_get (t_tracks st) m1); simpl in P; rewrite P; simpl; [now rewrite app_nil_r | reflexivity].
      - destruct (insert_or_update_c en st (m_mmsi msg) (trk_msg_to_track nattrs msg ts now) (s_nodup _ R)) as [[_ E]|[_ E]];
          rewrite E; simpl; [reflexivity | now rewrite app_nil_r]. }
    rewrite G. unfold trkc_deliver. apply flat_map_ext. intros [ev tr]. simpl. apply propagate_cut.
  Qed.
  (* ---------------------------------------------------------------- where an exception comes from *)
  (* [raised_last en ds e]: the last callback invocation of [ds] is the one that raised [e] *)
  Definition raised_last (en : env) (ds : list delivery) (e : exn) : Prop :=
    exists pre cb ev tr, ds = pre ++ [(cb, ev, tr)] /\ e_cb en cb ev tr = CbRaise e /\
      (ev = DELETED -> exn_is_keyerror e = false).

  Lemma propagate_raise_last (en : env) b tr ev e : snd (brkc_propagate en b tr ev) = CbRaise e ->
    exists pre cb, fst (brkc_propagate en b tr ev) = pre ++ [(cb, ev, tr)] /\ e_cb en cb ev tr = CbRaise e.
  Proof.
    induction b as [|[d c] r IH]; simpl; [discriminate|]. destruct (trk_event_eqb ev d); [|exact IH].
    destruct (e_cb en c ev tr) as [|e0] eqn:E.
    - destruct (brkc_propagate en r tr ev) as [ds o]. simpl in *. intros H. destruct (IH H) as (pre & cb & E1 & E2).
      exists ((c, ev, tr) :: pre), cb. rewrite E1. auto.
    - simpl. intros [= <-]. exists [], c. auto.
  Qed.

  Lemma raised_last_app (en : env) pre ds e : raised_last en ds e -> raised_last en (pre ++ ds) e.
  Proof. intros (p & cb & ev & tr & -> & A & B). exists (pre ++ p), cb, ev, tr. rewrite app_assoc. auto. Qed.

  Lemma pop_track_exn (en : env) (st : tracker) m e : NoDup (keys (t_tracks st)) ->
    rc_exn (trkc_pop_track en st m) = Some e -> raised_last en (rc_deliv (trkc_pop_track en st m)) e.
  Proof.
    intros ND. pose proof (pop_track_c en st m ND) as P. destruct (idict_get (t_tracks st) m) as [tr|]; simpl in P; rewrite P; simpl;
      [|discriminate].
    destruct (snd (brkc_propagate en (t_broker st) tr DELETED)) as [|e0] eqn:EP; simpl; [discriminate|].
    destruct (exn_is_keyerror e0) eqn:K; [discriminate|]. intros [= <-].
    destruct (propagate_raise_last en _ _ _ _ EP) as (pre & cb & E1 & E2). exists pre, cb, DELETED, tr. auto.
  Qed.

  Lemma pop_all_exn (en : env) ms e : forall st : tracker, NoDup (keys (t_tracks st)) ->
    rc_exn (trkc_pop_all en st ms) = Some e -> raised_last en (rc_deliv (trkc_pop_all en st ms)) e.
  Proof.
    induction ms as [|m0 r IH]; intros st ND; simpl; [discriminate|].
    pose proof (pop_track_exn en st m0) as PE. pose proof (pop_track_c en st m0 ND) as P.
    destruct (rc_exn (trkc_pop_track en st m0)) as [e0|] eqn:EX; simpl.
    - intros [= <-]. now apply PE.
    - intros H. apply raised_last_app. apply IH; [|assumption].
      destruct (idict_get (t_tracks st) m0); simpl in P; rewrite P; simpl; [now apply nodup_keys_without | assumption].
  Qed.

  Lemma cleanup_exn (en : env) (st : tracker) now e : NoDup (keys (t_tracks st)) ->
    rc_exn (trkc_cleanup en st now) = Some e -> raised_last en (rc_deliv (trkc_cleanup en st now)) e.
  Proof.
    intros ND. unfold trkc_cleanup. destruct (t_ttl st); [|discriminate]. destruct (t_oldest st); [|discriminate].
    destruct (_ <? _); [discriminate|]. destruct (trk_cleanup_scan _ _ _ _ _) as [o' del].
    pose proof (pop_all_exn en (e_iter en del) e st ND) as P.
    destruct (rc_exn (trkc_pop_all en st (e_iter en del))) eqn:EX; simpl; [rewrite EX; exact P | discriminate].
  Qed.

  (* An operation raises either because an update is rejected (ValueError, nobody was called), or because the LAST
     callback it invoked raised -- and then it raises that very exception; a KeyError of a DELETED callback never
     leaves the operation. *)
  Theorem exception_origin (en : env) (st : tracker) op e : reachable_any st ->
    rc_exn (trkc_step nattrs en st op) = Some e ->
    (rc_calls (trkc_step nattrs en st op) = [] /\ rc_deliv (trkc_step nattrs en st op) = [] /\ e = Py ValueError) \/
    raised_last en (rc_deliv (trkc_step nattrs en st op)) e.
  Proof.
    intros R. apply reachable_any_sinv in R. destruct op as [now msg ts|now|m1|ev cb|ev cb|now msg ts|newttl|]; simpl; try discriminate.
    - destruct (update_c en st now msg ts R) as [[_ E]|(_ & I2 & E)]; rewrite E; simpl; [intros [= <-]; now left|].
      destruct (snd (brkc_propagate en (t_broker st) _ _)) as [|e0] eqn:EP; simpl.
      + intros H. right. apply raised_last_app. apply cleanup_exn; [|assumption]. apply (s_nodup _ (sinv_after_insert _ _ _ I2)).
      + intros [= <-]. right. destruct (propagate_raise_last en _ _ _ _ EP) as (pre & cb & E1 & E2).
        exists pre, cb, (upd_event st (m_mmsi msg)), (upd_result st (m_mmsi msg) (trk_msg_to_track nattrs msg ts now)).
        repeat split; auto. intros X. unfold upd_event in X. destruct (idict_mem (t_tracks st) (m_mmsi msg)); discriminate.
    - intros H. right. apply cleanup_exn; [apply (s_nodup _ R) | assumption].
    - intros H. right. apply pop_track_exn; [apply (s_nodup _ R) | assumption].
    - destruct (insert_or_update_c en st (m_mmsi msg) (trk_msg_to_track nattrs msg ts now) (s_nodup _ R)) as [[_ E]|[_ E]];
        rewrite E; simpl; [intros [= <-]; now left|].
      destruct (snd (brkc_propagate en (t_broker st) _ _)) as [|e0] eqn:EP; simpl; [discriminate|].
      intros [= <-]. right. destruct (propagate_raise_last en _ _ _ _ EP) as (pre & cb & E1 & E2).
      exists pre, cb, (upd_event st (m_mmsi msg)), (upd_result st (m_mmsi msg) (trk_msg_to_track nattrs msg ts now)).
      repeat split; auto. intros X. unfold upd_event in X. destruct (idict_mem (t_tracks st) (m_mmsi msg)); discriminate.
  Qed.

  (* ================================================================================= 8. the quiet environment *)
  (* With subscribers that return normally (and the set visited in insertion order) the general model IS the model
     `trk_step` of Model/Tracker.v, about which Proofs/TrackerProofs.v (C12) speaks. *)
  Lemma env_ok_quiet : env_ok (@trk_env_quiet V).
  Proof. intros l x. simpl. tauto. Qed.

  Lemma pop_track_broker (st : tracker) m : t_broker (fst (fst (trk_pop_track st m))) = t_broker st.
  Proof. unfold trk_pop_track. destruct (idict_get (t_tracks st) m); reflexivity. Qed.

  Lemma pop_track_quiet (st : tracker) m :
    trkc_pop_track trk_env_quiet st m =
    mkCResult (fst (fst (trk_pop_track st m))) (snd (fst (trk_pop_track st m)))
              (trk_deliver (t_broker st) (snd (fst (trk_pop_track st m)))) (snd (trk_pop_track st m)) None.
  Proof.
    unfold trkc_pop_track, trk_pop_track. destruct (idict_get (t_tracks st) m) as [tr|]; [|reflexivity].
    simpl. rewrite propagate_quiet. simpl. now rewrite app_nil_r.
  Qed.

  Lemma deliver_app_old b (c1 c2 : list call) : trk_deliver b (c1 ++ c2) = trk_deliver b c1 ++ trk_deliver b c2.
  Proof. apply flat_map_app. Qed.

  Lemma pop_all_quiet ms : forall st : tracker,
    trkc_pop_all trk_env_quiet st ms =
    mkCResult (fst (trk_pop_all st ms)) (snd (trk_pop_all st ms)) (trk_deliver (t_broker st) (snd (trk_pop_all st ms))) None None.
  Proof.
    induction ms as [|m r IH]; intros st; simpl; [reflexivity|]. rewrite pop_track_quiet. simpl.
    pose proof (pop_track_broker st m) as B.
    destruct (trk_pop_track st m) as [[s1 c1] r1]. simpl in *. rewrite IH. simpl.
    destruct (trk_pop_all s1 r) as [s2 c2]. simpl. now rewrite deliver_app_old, B.
  Qed.

  Lemma cleanup_quiet (st : tracker) now :
    trkc_cleanup trk_env_quiet st now =
    mkCResult (fst (trk_cleanup st now)) (snd (trk_cleanup st now)) (trk_deliver (t_broker st) (snd (trk_cleanup st now))) None None.
  Proof.
    unfold trkc_cleanup, trk_cleanup. destruct (t_ttl st); [|reflexivity]. destruct (t_oldest st); [|reflexivity].
    destruct (_ <? _); [reflexivity|]. destruct (trk_cleanup_scan _ _ _ _ _) as [o' del]. simpl.
    rewrite pop_all_quiet. simpl. destruct (trk_pop_all st del) as [s1 c]. reflexivity.
  Qed.

  Lemma set_oldest_broker (st : tracker) ts : t_broker (trk_set_oldest_timestamp st ts) = t_broker st.
  Proof. apply set_oldest_same. Qed.

  Lemma insert_or_update_quiet (st : tracker) m tr :
    trkc_insert_or_update trk_env_quiet st m tr =
    mkCResult (fst (fst (trk_insert_or_update st m tr))) (snd (fst (trk_insert_or_update st m tr)))
              (trk_deliver (t_broker st) (snd (fst (trk_insert_or_update st m tr)))) None (snd (trk_insert_or_update st m tr)) /\
    t_broker (fst (fst (trk_insert_or_update st m tr))) = t_broker st.
  Proof.
    unfold trkc_insert_or_update, trk_insert_or_update. destruct (idict_mem (t_tracks st) m).
    - unfold trkc_update_track_m, trk_update_track_m. destruct (idict_get (t_tracks st) m) as [old|]; [|split; reflexivity].
      destruct (_ <? _); [split; reflexivity|]. simpl. rewrite propagate_quiet. simpl. rewrite app_nil_r.
      split; [reflexivity | rewrite set_oldest_broker; reflexivity].
    - unfold trkc_insert_track, trk_insert_track. simpl. rewrite propagate_quiet. simpl. rewrite app_nil_r.
      rewrite !set_oldest_broker. split; [reflexivity | simpl; apply set_oldest_broker].
  Qed.

  Lemma ensure_broker (st : tracker) ts : t_broker (fst (trk_ensure_timestamp_constraints st ts)) = t_broker st.
  Proof.
    unfold trk_ensure_timestamp_constraints. destruct (_ || _); [reflexivity|].
    destruct (trk_poplast (t_tracks st)) as [[latest d]|]; [|reflexivity]. destruct (_ <? _); reflexivity.
  Qed.

  Theorem trkc_step_quiet (st : tracker) op :
    rc_state (trkc_step nattrs trk_env_quiet st op) = r_state (trk_step nattrs st op) /\
    rc_calls (trkc_step nattrs trk_env_quiet st op) = r_calls (trk_step nattrs st op) /\
    rc_exn (trkc_step nattrs trk_env_quiet st op) = r_exn (trk_step nattrs st op) /\
    rc_deliv (trkc_step nattrs trk_env_quiet st op) = trk_deliver (t_broker st) (r_calls (trk_step nattrs st op)) /\
    (forall m, op = OpPop m -> rc_ret (trkc_step nattrs trk_env_quiet st op) = snd (trk_pop_track st m)).
  Proof.
    destruct op as [now msg ts|now|m|ev cb|ev cb|now msg ts|newttl|]; simpl.
    - unfold trkc_update, trk_update. pose proof (ensure_broker st (tr_lu (trk_msg_to_track nattrs msg ts now))) as B1.
      destruct (trk_ensure_timestamp_constraints st _) as [st1 [e|]]; simpl in *; [repeat split; discriminate|].
      destruct (insert_or_update_quiet st1 (m_mmsi msg) (trk_msg_to_track nattrs msg ts now)) as (E & B2). rewrite E.
      destruct (trk_insert_or_update st1 _ _) as [[st2 calls] [e|]]; simpl in *.
      + rewrite B1. repeat split; discriminate.
      + rewrite cleanup_quiet. simpl. destruct (trk_cleanup st2 now) as [st3 c3]. simpl.
        rewrite deliver_app_old, B2, B1. repeat split; discriminate.
    - rewrite cleanup_quiet. destruct (trk_cleanup st now) as [st1 c]. simpl. repeat split; discriminate.
    - rewrite pop_track_quiet. simpl. split; [|split; [|split; [|split]]].
      1-4: destruct (trk_pop_track st m) as [[s1 c1] r1]; reflexivity.
      intros m' [= <-]. reflexivity.
    - repeat split; discriminate.
    - repeat split; discriminate.
    - destruct (insert_or_update_quiet st (m_mmsi msg) (trk_msg_to_track nattrs msg ts now)) as (E & _). rewrite E.
      destruct (trk_insert_or_update st _ _) as [[st2 calls] e]. simpl. repeat split; discriminate.
    - repeat split; discriminate.
    - repeat split; discriminate.
  Qed.

  Lemma trkc_run_quiet : forall (h : list (trk_op V)) (st : tracker),
    fst (trkc_run nattrs st (map (fun op => (trk_env_quiet, op)) h)) = fst (trk_run nattrs st h).
  Proof.
    induction h as [|op r IH]; intros st; simpl; [reflexivity|].
    destruct (trkc_step_quiet st op) as (E & _). specialize (IH (r_state (trk_step nattrs st op))). rewrite <- E in IH at 1.
    destruct (trkc_run nattrs _ _) as [s1 r1]. destruct (trk_run nattrs _ r) as [s2 r2]. exact IH.
  Qed.

  (* every state of the model with quiet subscribers is a state the theorems of this file speak about *)
  Lemma reachable_old_any (st : tracker) : reachable nattrs st -> reachable_any st.
  Proof.
    induction 1 as [ttl o|st op R IH OKop]; [constructor|].
    destruct (trkc_step_quiet st op) as (E1 & _). rewrite <- E1.
    apply reach_any_step; [assumption | apply env_ok_quiet | assumption].
  Qed.
End TrackerCb.

(* ================================================================================= statements over reachable states *)
Section ReachableCb.
  Context {V : Type}.
  Variable nattrs : nat.

  Lemma step_cfg_reachable_c (en : trk_env V) (st : trk_tracker V) op : reachable_any nattrs st ->
    t_ordered (rc_state (trkc_step nattrs en st op)) = sp_mode (t_ordered st) (abs_op op) /\
    t_ttl (rc_state (trkc_step nattrs en st op)) = sp_ttl_after (t_ttl st) (abs_op op).
  Proof. intros R. apply step_cfg_c. now apply reachable_any_sinv. Qed.

  Lemma step_events_reachable_c (en : trk_env V) (st : trk_tracker V) op m : reachable_any nattrs st ->
    sp_events_of m (abs_calls (rc_calls (trkc_step nattrs en st op))) =
      sp_expected_events (step_target_c op (trkc_step nattrs en st op)) m (idict_mem (t_tracks st) m)
                         (idict_mem (t_tracks (rc_state (trkc_step nattrs en st op))) m) /\
    (idict_mem (t_tracks st) m = false -> step_target_c op (trkc_step nattrs en st op) <> Some m ->
     idict_mem (t_tracks (rc_state (trkc_step nattrs en st op))) m = false).
  Proof. intros R. apply step_events_c. now apply reachable_any_sinv. Qed.

  (* the environments the driver builds from the line protocol (and the Examples use) are within the theorems' scope *)
  Lemma fold_set_add_in x : forall hint acc,
    In x (fold_left (fun s y => trk_set_add y s) hint acc) <-> In x acc \/ In x hint.
  Proof.
    induction hint as [|h r IH]; intros acc; simpl; [tauto|]. rewrite IH, set_add_in. intuition.
  Qed.

  Lemma env_of_ok (rules : list (@trk_rule)) hint : env_ok (@trk_env_of V rules hint).
  Proof.
    intros l x. simpl. unfold trk_iter_by_hint. rewrite in_app_iff, !filter_In, fold_set_add_in.
    rewrite negb_true_iff. fold (inset l x). fold (inset hint x). rewrite inset_iff, inset_false. simpl.
    destruct (in_dec Z.eq_dec x hint); tauto.
  Qed.
End ReachableCb.

(* ================================================================================= the repaired defect *)
(* Before `fix: keep oldest_timestamp a lower bound of the tracks when a subscriber callback raises` (the bodies
   `*_unrepaired` of Model/Tracker.v) C13's first half was FALSE of pyais: once the exception of a subscriber had left
   update() (a CREATED subscriber raises: the track is in the table, `__set_oldest_timestamp` was skipped) or cleanup()
   (a DELETED subscriber raises something else than KeyError: `oldest_timestamp` was advanced by the scan, the loop over
   the expired MMSIs ended at the first pop), oldest_timestamp was no lower bound of the tracks any more; a later
   cleanup() returned early -- and normally -- although an expired track remained.  The two witnesses, on the unrepaired
   and on the repaired bodies: *)

(* a CREATED subscriber raises KeyError for the first vessel; 13 ticks later (ttl 12) cleanup() is called *)
Definition witness_created : list (trk_env Z * trk_op Z) :=
  let en := trk_env_of [(7, CREATED, None, Py KeyError)] [] in
  [(en, OpAttach CREATED 7); (en, OpUpdate 0 (mkMsg 111 [MPresent (Some 1)]) (Some 0))].

(* a DELETED subscriber raises ValueError: cleanup() at 12 pops 111, is left by the exception, keeps 222 (age 12);
   cleanup() is called again at 13 *)
Definition witness_deleted : list (trk_env Z * trk_op Z) :=
  let en := trk_env_of [(7, DELETED, None, Py ValueError)] [] in
  [(en, OpAttach DELETED 7); (en, OpUpdate 0 (mkMsg 111 [MPresent (Some 1)]) (Some 0));
   (en, OpUpdate 0 (mkMsg 222 [MPresent (Some 2)]) (Some 0)); (en, OpUpdate 8 (mkMsg 333 [MPresent (Some 3)]) (Some 8));
   (en, OpCleanup 12)].

(* unrepaired: oldest_timestamp stays None, cleanup() returns at once and the track (age 13 >= 12) remains;
   repaired: the cache is 0, the track expires *)
Theorem unrepaired_refuted_after_callback_exception :
  let su := fst (trkc_run_unrepaired 1 (trk_init (Some 12) false) witness_created) in
  let ru := trkc_step_unrepaired 1 trk_env_quiet su (OpCleanup 13) in
  let sr := fst (trkc_run 1 (trk_init (Some 12) false) witness_created) in
  let rr := trkc_step 1 trk_env_quiet sr (OpCleanup 13) in
  (t_oldest su = None /\ rc_exn ru = None /\
   ~ sp_ttl_ok 12 13 (map (@tr_lu Z) (trk_tracks (rc_state ru))) (deleted_lus (rc_calls ru))) /\
  (t_oldest sr = Some 0 /\ rc_exn rr = None /\ trk_tracks (rc_state rr) = [] /\ deleted_lus (rc_calls rr) = [0]).
Proof.
  intros su ru sr rr. split; [|vm_compute; repeat split].
  split; [reflexivity|]. split; [reflexivity|].
  assert (E : map (@tr_lu Z) (trk_tracks (rc_state ru)) = [0]) by (vm_compute; reflexivity).
  rewrite E. intros [X _]. inversion X as [|? ? X1 X2]; subst. cbv beta in X1. lia.
Qed.

(* unrepaired: the aborted cleanup() at 12 has advanced oldest_timestamp to 8, cleanup() at 13 returns early and 222
   (age 13) remains; repaired: the cache is still 0 after the aborted cleanup(), cleanup() at 13 removes 222 *)
Theorem unrepaired_refuted_after_aborted_cleanup :
  let su := fst (trkc_run_unrepaired 1 (trk_init (Some 12) false) witness_deleted) in
  let ru := trkc_step_unrepaired 1 trk_env_quiet su (OpCleanup 13) in
  let sr := fst (trkc_run 1 (trk_init (Some 12) false) witness_deleted) in
  let rr := trkc_step 1 trk_env_quiet sr (OpCleanup 13) in
  (t_oldest su = Some 8 /\ rc_exn ru = None /\
   ~ sp_ttl_ok 12 13 (map (@tr_lu Z) (trk_tracks (rc_state ru))) (deleted_lus (rc_calls ru))) /\
  (t_oldest sr = Some 0 /\ rc_exn rr = None /\ map (@tr_mmsi Z) (trk_tracks (rc_state rr)) = [333] /\
   deleted_lus (rc_calls rr) = [0]).
Proof.
  intros su ru sr rr. split; [|vm_compute; repeat split].
  split; [reflexivity|]. split; [reflexivity|].
  assert (E : map (@tr_lu Z) (trk_tracks (rc_state ru)) = [0; 8]) by (vm_compute; reflexivity).
  rewrite E. intros [X _]. inversion X as [|? ? X1 X2]; subst. cbv beta in X1. lia.
Qed.
