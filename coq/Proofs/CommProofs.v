From Coq Require Import ZArith List Bool String Lia.
Require Import Prim.Exn Prim.Dict Gen.GenEnums Gen.GenComm Spec.CommSpec.
Import ListNotations.
Open Scope Z_scope.

Lemma land_shiftr_bitrange r lo len :
  0 <= lo -> 0 <= len -> Z.land (Z.shiftr r lo) (Z.ones len) = bitrange r lo len.
Proof.
  intros Hlo Hlen. unfold bitrange.
  rewrite Z.land_ones by assumption. rewrite Z.shiftr_div_pow2 by assumption. reflexivity.
Qed.

Lemma land_bitrange0 r len : 0 <= len -> Z.land r (Z.ones len) = bitrange r 0 len.
Proof.
  intros H. unfold bitrange. rewrite Z.land_ones by assumption.
  change (2 ^ 0) with 1. rewrite Z.div_1_r. reflexivity.
Qed.

Lemma bitrange_bounds r lo len : 0 <= len -> 0 <= bitrange r lo len < 2 ^ len.
Proof. intros H. unfold bitrange. apply Z.mod_pos_bound. apply Z.pow_pos_nonneg; lia. Qed.

(* a bit range of a bit range, in the shift-and-mask form the code uses *)
Lemma land_shiftr_nested r len lo' len' :
  0 <= lo' -> 0 <= len' -> lo' + len' <= len ->
  Z.land (Z.shiftr (Z.land r (Z.ones len)) lo') (Z.ones len') = Z.land (Z.shiftr r lo') (Z.ones len').
Proof.
  intros Hlo' Hlen' Hle. apply Z.bits_inj'. intros n Hn.
  rewrite !Z.land_spec, !Z.shiftr_spec by lia. rewrite Z.land_spec.
  destruct (Z.ltb_spec n len') as [Hlt|Hge].
  - rewrite (Z.ones_spec_low len (n + lo')) by lia. rewrite andb_true_r. reflexivity.
  - rewrite (Z.ones_spec_high len' n) by lia. rewrite !andb_false_r. reflexivity.
Qed.

Lemma masks : SYNC_MASK = Z.ones 2 /\ TIMEOUT_MASK = Z.ones 3 /\ MSG_MASK = Z.ones 14
              /\ SLOT_INCREMENT_MASK = Z.ones 13 /\ MAX_COMM_STATE_VALUE = Z.ones 19.
Proof. repeat split; reflexivity. Qed.

Definition agree (d : dict) (s : list (string * option Z)) : Prop :=
  Forall (fun k => dict_get d k = lookup s k) comm_keys /\ incl (map fst d) comm_keys.

(* like [agree] but silent on one key *)
Definition agree_except (k0 : string) (d : dict) (s : list (string * option Z)) : Prop :=
  Forall (fun k => k = k0 \/ dict_get d k = lookup s k) comm_keys /\ incl (map fst d) comm_keys.

Lemma timeout_cases t : 0 <= t < 8 -> t = 0 \/ t = 1 \/ t = 2 \/ t = 3 \/ t = 4 \/ t = 5 \/ t = 6 \/ t = 7.
Proof. lia. Qed.

Lemma sync_cases t : 0 <= t < 4 -> t = 0 \/ t = 1 \/ t = 2 \/ t = 3.
Proof. lia. Qed.

Ltac incl_tac := cbv [incl map fst]; intros ? Hin; cbv [In] in Hin; cbv [comm_keys In]; tauto.

(* The two extraction functions applied to a 19-bit (or any) value report exactly the ITU bit ranges.
   The minute is compared on its 6 low bits (the code masks 6 of the 7 bits); see [minute_mask]. *)
Definition spec_sotdma6 (r : Z) : list (string * option Z) :=
  let t := bitrange r 14 3 in
  let sub := bitrange r 0 14 in
  [ ("sync_state"%string, Some (bitrange r 17 2));
    ("slot_timeout"%string, Some t);
    ("slot_offset"%string, when (t =? 0) sub);
    ("utc_hour"%string, when (t =? 1) (bitrange r 9 5));
    ("utc_minute"%string, when (t =? 1) (bitrange r 2 6));
    ("slot_number"%string, when (zin t [2; 4; 6]) sub);
    ("received_stations"%string, when (zin t [3; 5; 7]) sub);
    ("slot_increment"%string, None); ("num_slots"%string, None); ("keep_flag"%string, None) ].

Lemma minute_mask r : bitrange r 2 7 <= 59 -> bitrange r 2 6 = bitrange r 2 7.
Proof.
  unfold bitrange. intros H.
  change (2 ^ 7) with (2 ^ 6 * 2) in *. set (x := r / 2 ^ 2) in *.
  rewrite Z.rem_mul_r in H by lia.
  change (2 ^ 6) with 64 in *.
  rewrite Z.rem_mul_r by lia.
  assert (0 <= x mod 64 < 64) by (apply Z.mod_pos_bound; lia).
  assert (0 <= (x / 64) mod 2 < 2) by (apply Z.mod_pos_bound; lia).
  lia.
Qed.

Lemma sotdma_ok r :
  exists d, get_sotdma_comm_state r = Ok d /\
    Forall (fun k => dict_get d k = lookup (spec_sotdma6 r) k)
      ["received_stations"; "slot_number"; "utc_hour"; "utc_minute"; "slot_offset"; "slot_timeout"; "sync_state"]%string
    /\ map fst d = ["received_stations"; "slot_number"; "utc_hour"; "utc_minute"; "slot_offset"; "slot_timeout"; "sync_state"]%string.
Proof.
  unfold get_sotdma_comm_state, spec_sotdma6.
  destruct masks as (-> & -> & -> & _ & _).
  change 31 with (Z.ones 5). change 63 with (Z.ones 6).
  rewrite !land_shiftr_nested by lia.
  rewrite !land_shiftr_bitrange by lia. rewrite !land_bitrange0 by lia.
  pose proof (bitrange_bounds r 14 3 ltac:(lia)) as Ht.
  pose proof (bitrange_bounds r 17 2 ltac:(lia)) as Hs.
  change (2 ^ 3) with 8 in Ht. change (2 ^ 2) with 4 in Hs.
  generalize dependent (bitrange r 14 3). intros t Ht.
  generalize dependent (bitrange r 17 2). intros s Hs.
  generalize (bitrange r 0 14) (bitrange r 9 5) (bitrange r 2 6). intros sub hr mi.
  destruct (timeout_cases t Ht) as [E|[E|[E|[E|[E|[E|[E|E]]]]]]]; rewrite E;
    destruct (sync_cases s Hs) as [F|[F|[F|F]]]; rewrite F;
    (eexists; split; [ vm_compute; reflexivity | split; [ repeat constructor | reflexivity ] ]).
Qed.

Lemma itdma_ok r :
  exists d, get_itdma_comm_state r = Ok d /\
    Forall (fun k => dict_get d k = lookup (spec_itdma r) k)
      ["keep_flag"; "sync_state"; "slot_increment"; "num_slots"]%string
    /\ map fst d = ["keep_flag"; "sync_state"; "slot_increment"; "num_slots"]%string.
Proof.
  unfold get_itdma_comm_state, spec_itdma.
  destruct masks as (-> & -> & _ & -> & _).
  change (Z.land r 1) with (Z.land r (Z.ones 1)).
  rewrite !land_shiftr_bitrange by lia. rewrite !land_bitrange0 by lia.
  generalize (bitrange r 17 2) (bitrange r 4 13) (bitrange r 1 3) (bitrange r 0 1). intros s i n k.
  eexists; split; [ reflexivity | split; [ repeat (constructor; [vm_compute; reflexivity|]); constructor | reflexivity ] ].
Qed.

(* ---------------------------------------------------------------------------------------------- *)
(* The mixin: classification, masking, and the complete dictionary                                 *)

Lemma radio_width_cases mt w :
  radio_width mt = Some w ->
  (w = 19 /\ (mt = 1 \/ mt = 2 \/ mt = 3 \/ mt = 4 \/ mt = 11)) \/
  (w = 20 /\ (mt = 9 \/ mt = 18 \/ mt = 26)).
Proof.
  unfold radio_width, zin, existsb.
  destruct (Z.eqb_spec mt 1); [intros [= <-]; left; tauto|].
  destruct (Z.eqb_spec mt 2); [intros [= <-]; left; tauto|].
  destruct (Z.eqb_spec mt 3); [intros [= <-]; left; tauto|].
  destruct (Z.eqb_spec mt 4); [intros [= <-]; left; tauto|].
  destruct (Z.eqb_spec mt 11); [intros [= <-]; left; tauto|].
  destruct (Z.eqb_spec mt 9); [intros [= <-]; right; tauto|].
  destruct (Z.eqb_spec mt 18); [intros [= <-]; right; tauto|].
  destruct (Z.eqb_spec mt 26); [intros [= <-]; right; tauto|].
  simpl. discriminate.
Qed.

Lemma raw_is_mod mt radio : communication_state_raw mt radio = radio mod 2 ^ 19.
Proof.
  unfold communication_state_raw. destruct masks as (_ & _ & _ & _ & ->).
  apply Z.land_ones. lia.
Qed.

Lemma bitrange_mod19 r lo len :
  0 <= lo -> 0 <= len -> lo + len <= 19 -> bitrange (r mod 2 ^ 19) lo len = bitrange r lo len.
Proof.
  intros. rewrite <- (Z.land_ones r 19) by lia.
  rewrite <- !land_shiftr_bitrange by lia. apply land_shiftr_nested; lia.
Qed.

Lemma selector_bit radio : 0 <= radio < 2 ^ 20 ->
  (radio <=? MAX_COMM_STATE_VALUE) = (bitrange radio 19 1 =? 0).
Proof.
  intros H. unfold bitrange, MAX_COMM_STATE_VALUE.
  change (2 ^ 20) with 1048576 in H. change (2 ^ 19) with 524288. change (2 ^ 1) with 2.
  destruct (Z.leb_spec radio 524287) as [Hle|Hgt].
  - rewrite Z.div_small by lia. reflexivity.
  - assert (radio / 524288 = 1) as -> by (symmetry; apply Z.div_unique with (r := radio - 524288); lia).
    reflexivity.
Qed.

Definition scheme_is (s : scheme) (o : option scheme) : bool :=
  match o, s with Some SOTDMA, SOTDMA | Some ITDMA, ITDMA => true | _, _ => false end.

Theorem classification mt radio w :
  radio_width mt = Some w -> 0 <= radio < 2 ^ w ->
  is_sotdma mt radio = scheme_is SOTDMA (spec_scheme mt radio) /\
  is_itdma mt radio = scheme_is ITDMA (spec_scheme mt radio) /\
  is_sotdma mt radio = negb (is_itdma mt radio).
Proof.
  intros Hw Hr.
  destruct (radio_width_cases mt w Hw) as [[-> Hm]|[-> Hm]].
  - destruct Hm as [->|[->|[->|[->| ->]]]]; repeat split; reflexivity.
  - assert (Hs := selector_bit radio Hr).
    assert (Hgt : (radio >? MAX_COMM_STATE_VALUE) = negb (radio <=? MAX_COMM_STATE_VALUE)).
    { rewrite Z.gtb_ltb, Z.leb_antisym, negb_involutive. reflexivity. }
    destruct Hm as [->|[->| ->]];
      unfold is_sotdma, is_itdma, spec_scheme; cbn [zmem zin existsb Z.eqb orb SOTDMA_TYPES SOTDMA_ITDMA_TYPES];
      rewrite Hgt, Hs; destruct (bitrange radio 19 1 =? 0); repeat split; reflexivity.
Qed.

(* never both, for every type id and every integer whatsoever *)
Theorem never_both mt radio : is_sotdma mt radio && is_itdma mt radio = false.
Proof.
  unfold is_sotdma, is_itdma, SOTDMA_TYPES, SOTDMA_ITDMA_TYPES, zmem, existsb.
  destruct (Z.eqb_spec mt 1); [subst; reflexivity|].
  destruct (Z.eqb_spec mt 2); [subst; reflexivity|].
  destruct (Z.eqb_spec mt 4); [subst; reflexivity|].
  destruct (Z.eqb_spec mt 11); [subst; reflexivity|].
  destruct (Z.eqb_spec mt 3); [subst; reflexivity|].
  cbn [orb].
  destruct ((mt =? 9) || ((mt =? 18) || ((mt =? 26) || false))); [|reflexivity].
  rewrite Z.gtb_ltb, Z.leb_antisym. destruct (MAX_COMM_STATE_VALUE <? radio); reflexivity.
Qed.

(* dictionary plumbing: result.update(...) on the ten-key initial dictionary *)
Lemma update_sotdma (v1 v2 v3 v4 v5 v6 v7 : option Z) :
  dict_update
    (dict_of_list [("received_stations"%string, @None Z); ("slot_number"%string, None); ("utc_hour"%string, None);
                   ("utc_minute"%string, None); ("slot_offset"%string, None); ("slot_timeout"%string, None);
                   ("sync_state"%string, None); ("keep_flag"%string, None); ("slot_increment"%string, None);
                   ("num_slots"%string, None)])
    [("received_stations"%string, v1); ("slot_number"%string, v2); ("utc_hour"%string, v3);
     ("utc_minute"%string, v4); ("slot_offset"%string, v5); ("slot_timeout"%string, v6); ("sync_state"%string, v7)]
  = [("received_stations"%string, v1); ("slot_number"%string, v2); ("utc_hour"%string, v3);
     ("utc_minute"%string, v4); ("slot_offset"%string, v5); ("slot_timeout"%string, v6); ("sync_state"%string, v7);
     ("keep_flag"%string, None); ("slot_increment"%string, None); ("num_slots"%string, None)].
Proof. reflexivity. Qed.

Lemma update_itdma (v1 v2 v3 v4 : option Z) :
  dict_update
    (dict_of_list [("received_stations"%string, @None Z); ("slot_number"%string, None); ("utc_hour"%string, None);
                   ("utc_minute"%string, None); ("slot_offset"%string, None); ("slot_timeout"%string, None);
                   ("sync_state"%string, None); ("keep_flag"%string, None); ("slot_increment"%string, None);
                   ("num_slots"%string, None)])
    [("keep_flag"%string, v1); ("sync_state"%string, v2); ("slot_increment"%string, v3); ("num_slots"%string, v4)]
  = [("received_stations"%string, None); ("slot_number"%string, None); ("utc_hour"%string, None);
     ("utc_minute"%string, None); ("slot_offset"%string, None); ("slot_timeout"%string, None); ("sync_state"%string, v2);
     ("keep_flag"%string, v1); ("slot_increment"%string, v3); ("num_slots"%string, v4)].
Proof. reflexivity. Qed.

(* a dictionary with exactly the given keys in the given order is determined by its look-ups *)
Lemma dict_shape7 (d : dict) k1 k2 k3 k4 k5 k6 k7 :
  map fst d = [k1; k2; k3; k4; k5; k6; k7] ->
  exists v1 v2 v3 v4 v5 v6 v7, d = [(k1, v1); (k2, v2); (k3, v3); (k4, v4); (k5, v5); (k6, v6); (k7, v7)].
Proof.
  destruct d as [|[a1 v1] [|[a2 v2] [|[a3 v3] [|[a4 v4] [|[a5 v5] [|[a6 v6] [|[a7 v7] [|]]]]]]]]; try discriminate.
  intros [= -> -> -> -> -> -> ->]. repeat eexists.
Qed.

Lemma dict_shape4 (d : dict) k1 k2 k3 k4 :
  map fst d = [k1; k2; k3; k4] ->
  exists v1 v2 v3 v4, d = [(k1, v1); (k2, v2); (k3, v3); (k4, v4)].
Proof.
  destruct d as [|[a1 v1] [|[a2 v2] [|[a3 v3] [|[a4 v4] [|]]]]]; try discriminate.
  intros [= -> -> -> ->]. repeat eexists.
Qed.

Definition minute_clause (radio : Z) (k : string) : Prop :=
  k = "utc_minute"%string /\ utc_minute_comparable radio = false.

Theorem comm_state_correct mt radio w s :
  radio_width mt = Some w -> 0 <= radio < 2 ^ w -> comm_spec mt radio = Some s ->
  exists d, get_communication_state mt radio = Ok d /\
    map fst d = comm_keys /\
    Forall (fun k => minute_clause radio k \/ dict_get d k = lookup s k) comm_keys.
Proof.
  intros Hw Hr Hs.
  destruct (classification mt radio w Hw Hr) as (Hso & Hit & _).
  unfold get_communication_state. rewrite raw_is_mod.
  unfold comm_spec in Hs. rewrite Hso.
  destruct (spec_scheme mt radio) as [[|]|] eqn:Esch; try discriminate; injection Hs as <-; cbn [scheme_is].
  - (* SOTDMA *)
    destruct (sotdma_ok (radio mod 2 ^ 19)) as (d & -> & Hf & Hk). cbn [bind].
    destruct (dict_shape7 d _ _ _ _ _ _ _ Hk) as (v1 & v2 & v3 & v4 & v5 & v6 & v7 & ->).
    rewrite update_sotdma.
    eexists; split; [reflexivity|]. split; [reflexivity|].
    unfold spec_sotdma6 in Hf. rewrite !bitrange_mod19 in Hf by lia.
    repeat (apply Forall_cons_iff in Hf; destruct Hf as [? Hf]). cbn in *.
    unfold spec_sotdma, comm_keys.
    destruct (utc_minute_comparable radio) eqn:Emin.
    + unfold utc_minute_comparable in Emin. apply Z.leb_le in Emin. apply minute_mask in Emin.
      repeat (constructor; [right; cbn; congruence|]). constructor.
    + constructor; [right; cbn; congruence|]. constructor; [right; cbn; congruence|].
      constructor; [right; cbn; congruence|]. constructor; [left; split; [reflexivity|assumption]|].
      repeat (constructor; [right; cbn; congruence|]). constructor.
  - (* ITDMA *)
    destruct (itdma_ok (radio mod 2 ^ 19)) as (d & -> & Hf & Hk). cbn [bind].
    destruct (dict_shape4 d _ _ _ _ Hk) as (v1 & v2 & v3 & v4 & ->).
    rewrite update_itdma.
    eexists; split; [reflexivity|]. split; [reflexivity|].
    unfold spec_itdma in Hf. rewrite !bitrange_mod19 in Hf by lia.
    repeat (apply Forall_cons_iff in Hf; destruct Hf as [? Hf]). cbn in *.
    unfold spec_itdma, comm_keys.
    repeat (constructor; [right; cbn; congruence|]). constructor.
Qed.

(* Reconstruction of the raw value from the reported fields (statement about the ITU bit ranges; combined
   with [comm_state_correct] it speaks about the reported dictionary). *)
Lemma split3 r a b : 0 <= a -> 0 <= b ->
  r mod 2 ^ (a + b) = bitrange r a b * 2 ^ a + bitrange r 0 a.
Proof.
  intros Ha Hb. unfold bitrange. change (2 ^ 0) with 1. rewrite Z.div_1_r.
  rewrite Z.pow_add_r by lia.
  assert (0 < 2 ^ a) by (apply Z.pow_pos_nonneg; lia).
  assert (0 < 2 ^ b) by (apply Z.pow_pos_nonneg; lia).
  rewrite Z.rem_mul_r by lia. lia.
Qed.

Theorem sotdma_reconstruct r :
  bitrange r 17 2 * 2 ^ 17 + bitrange r 14 3 * 2 ^ 14 + bitrange r 0 14 = r mod 2 ^ 19.
Proof.
  change 19 with (17 + 2). rewrite split3 by lia.
  assert (bitrange r 0 17 = bitrange r 14 3 * 2 ^ 14 + bitrange r 0 14) as ->.
  { transitivity (r mod 2 ^ (14 + 3)).
    - unfold bitrange. change (2 ^ 0) with 1. rewrite Z.div_1_r. reflexivity.
    - apply split3; lia. }
  lia.
Qed.

Theorem itdma_reconstruct r :
  bitrange r 17 2 * 2 ^ 17 + bitrange r 4 13 * 2 ^ 4 + bitrange r 1 3 * 2 + bitrange r 0 1 = r mod 2 ^ 19.
Proof.
  change 19 with (17 + 2). rewrite split3 by lia.
  assert (bitrange r 0 17 = bitrange r 4 13 * 2 ^ 4 + bitrange r 0 4) as ->.
  { transitivity (r mod 2 ^ (4 + 13)).
    - unfold bitrange. change (2 ^ 0) with 1. rewrite Z.div_1_r. reflexivity.
    - apply split3; lia. }
  assert (bitrange r 0 4 = bitrange r 1 3 * 2 + bitrange r 0 1) as ->.
  { transitivity (r mod 2 ^ (1 + 3)).
    - unfold bitrange. change (2 ^ 0) with 1. rewrite Z.div_1_r. reflexivity.
    - rewrite split3 by lia. reflexivity. }
  lia.
Qed.
