(* Proofs about the reassembly loops (Model/Assemble.v) against Spec/AssembleSpec.v: C03, C07, C18. *)
From Coq Require Import ZArith List Bool Lia Permutation Arith.
Require Import Prim.Exn Prim.Bits Prim.PyList Model.Sentence Model.AssembleIter Model.Assemble Spec.AssembleSpec.
Import ListNotations.
Open Scope Z_scope.

(* ================================================================ slots and the buffer as a finite map *)

Lemma str_eqb_eq : forall a b, str_eqb a b = true <-> a = b.
Proof.
  induction a as [|x a IH]; destruct b as [|y b]; simpl; split; intro H; try discriminate; auto.
  - apply andb_true_iff in H. destruct H as [H1 H2]. apply Z.eqb_eq in H1. apply IH in H2. congruence.
  - inversion H; subst. rewrite Z.eqb_refl. simpl. apply IH. reflexivity.
Qed.

Lemma slot_eqb_eq : forall a b, slot_eqb a b = true <-> a = b.
Proof.
  intros [a1 a2] [b1 b2]. unfold slot_eqb. simpl. rewrite andb_true_iff, Z.eqb_eq, str_eqb_eq.
  split; [intros [H1 H2]; congruence | intro H; inversion H; auto].
Qed.

Lemma slot_eqb_refl : forall a, slot_eqb a a = true.
Proof. intro a. apply slot_eqb_eq. reflexivity. Qed.

Lemma slot_eqb_neq : forall a b, a <> b -> slot_eqb a b = false.
Proof. intros a b H. destruct (slot_eqb a b) eqn:E; auto. apply slot_eqb_eq in E. contradiction. Qed.

Lemma slot_eq_dec : forall a b : asm_slot, {a = b} + {a <> b}.
Proof.
  intros a b. destruct (slot_eqb a b) eqn:E.
  - left. apply slot_eqb_eq. exact E.
  - right. intro H. apply slot_eqb_eq in H. congruence.
Qed.

(* keys are unique, as in a dict *)
Fixpoint buf_wf (b : asm_buffer) : Prop :=
  match b with
  | [] => True
  | (k, _) :: r => buf_get r k = None /\ buf_wf r
  end.

Lemma buf_get_set_same : forall b s v, buf_get (buf_set b s v) s = Some v.
Proof.
  induction b as [|[k w] r IH]; intros s v; simpl.
  - rewrite slot_eqb_refl. reflexivity.
  - destruct (slot_eqb s k) eqn:E; simpl; rewrite ?E; auto.
Qed.

Lemma buf_get_set_other : forall b s s' v, s' <> s -> buf_get (buf_set b s v) s' = buf_get b s'.
Proof.
  induction b as [|[k w] r IH]; intros s s' v H; simpl.
  - rewrite slot_eqb_neq by exact H. reflexivity.
  - destruct (slot_eqb s k) eqn:E; simpl.
    + apply slot_eqb_eq in E. subst k. rewrite slot_eqb_neq by exact H. reflexivity.
    + destruct (slot_eqb s' k); auto.
Qed.

Lemma buf_get_del_other : forall b s s', s' <> s -> buf_get (buf_del b s) s' = buf_get b s'.
Proof.
  induction b as [|[k w] r IH]; intros s s' H; simpl; auto.
  destruct (slot_eqb s k) eqn:E; simpl.
  - apply slot_eqb_eq in E. subst k. rewrite slot_eqb_neq by exact H. reflexivity.
  - destruct (slot_eqb s' k); auto.
Qed.

Lemma buf_get_del_same : forall b s, buf_wf b -> buf_get (buf_del b s) s = None.
Proof.
  induction b as [|[k w] r IH]; intros s W; simpl; auto.
  destruct W as [W1 W2].
  destruct (slot_eqb s k) eqn:E; simpl.
  - apply slot_eqb_eq in E. subst k. exact W1.
  - rewrite E. apply IH. exact W2.
Qed.

Lemma buf_wf_set : forall b s v, buf_wf b -> buf_wf (buf_set b s v).
Proof.
  induction b as [|[k w] r IH]; intros s v W; simpl; auto.
  destruct W as [W1 W2].
  destruct (slot_eqb s k) eqn:E; simpl; split; auto.
  rewrite buf_get_set_other; auto.
  intro H. subst k. rewrite slot_eqb_refl in E. discriminate.
Qed.

Lemma buf_wf_del : forall b s, buf_wf b -> buf_wf (buf_del b s).
Proof.
  induction b as [|[k w] r IH]; intros s W; simpl; auto.
  destruct W as [W1 W2].
  destruct (slot_eqb s k) eqn:E; simpl; auto. split; auto.
  rewrite buf_get_del_other; auto.
  intro H. subst k. rewrite slot_eqb_refl in E. discriminate.
Qed.

(* ================================================================ the two loops share one shape *)

Definition slot_of (msg : ais_sentence) : asm_slot :=
  (match a_seq_id msg with None => -1 | Some v => v end, a_channel msg).

(* the multi-fragment branch, without the wrapper: new buffer and the assembled message if this fragment completed it *)
Definition buffer_step (buffer : asm_buffer) (msg : ais_sentence) : M (asm_buffer * option ais_sentence) :=
  let slot := slot_of msg in
  let buffer1 := if negb (buf_mem buffer slot)
                 then buf_set buffer slot (pyl_repeat None (Z.max (a_frag_cnt msg) 255)) else buffer in
  match buf_get buffer1 slot with
  | None => Raise (Py KeyError)
  | Some arr =>
      match pyl_setitem arr (a_frag_num msg - 1) (Some msg) with
      | Raise e => Raise e
      | Ok arr' =>
          let buffer2 := buf_set buffer1 slot arr' in
          let parts := not_none (pyl_slice arr' 0 (a_frag_cnt msg)) in
          if pyl_len parts =? a_frag_cnt msg then
            match assemble_from_iterable parts with
            | Raise e => Raise e
            | Ok full => Ok (buf_del buffer2 slot, Some full)
            end
          else Ok (buffer2, None)
      end
  end.

Definition attach (w : option gatehouse) (m : ais_sentence) : ais_sentence :=
  match w with Some g => ais_set_wrapper m (Some g) | None => m end.

Definition ais_step (st : asm_state) (msg : ais_sentence) : M (asm_state * list ais_sentence) :=
  let '(buffer, w) := st in
  if is_single msg then Ok ((buffer, None), [attach w msg])
  else match buffer_step buffer msg with
       | Raise e => Raise e
       | Ok (buffer', None) => Ok ((buffer', w), [])
       | Ok (buffer', Some full) => Ok ((buffer', None), [attach w full])
       end.

Definition generic_step (hs : list handler) (st : asm_state) (parsed : M sentence) (tbq : option exn)
  : M (asm_state * list ais_sentence) :=
  match parsed with
  | Raise e => if catches hs e then Ok (st, []) else Raise e
  | Ok s =>
      match tbq with
      | Some e => if catches hs e then Ok (st, []) else Raise e
      | None => match s with
                | SGatehouse g => Ok ((fst st, Some g), [])
                | SAis msg => ais_step st msg
                end
      end
  end.

Lemma stream_step_generic : forall st p t, stream_step st p t = generic_step stream_except st p t.
Proof.
  intros [buffer w] p t. unfold stream_step, generic_step, stream_try, try_except, add_to_tbq, bind.
  destruct p as [s|e]; [|destruct (catches stream_except e); reflexivity].
  destruct t as [e|]; [destruct (catches stream_except e); reflexivity|].
  destruct s as [msg|g]; [|reflexivity].
  unfold ais_step, buffer_step, stream_insert_wrapper, attach, fragment_count, slot_of, bind.
  destruct (is_single msg); [destruct w; reflexivity|].
  match goal with |- context [buf_get ?b ?s] => destruct (buf_get b s) as [arr|] end; [|reflexivity].
  destruct (pyl_setitem arr (a_frag_num msg - 1) (Some msg)) as [arr'|e]; [|reflexivity].
  destruct (pyl_len (not_none (pyl_slice arr' 0 (a_frag_cnt msg))) =? a_frag_cnt msg); [|reflexivity].
  destruct (assemble_from_iterable _) as [full|e]; [|reflexivity].
  destruct w; reflexivity.
Qed.

Lemma queue_step_generic : forall st p t, queue_step st p t = generic_step queue_except st p t.
Proof.
  intros [buffer w] p t. unfold queue_step, generic_step, queue_try, try_except, add_to_tbq, bind.
  destruct p as [s|e]; [|destruct (catches queue_except e); reflexivity].
  destruct t as [e|]; [destruct (catches queue_except e); reflexivity|].
  destruct s as [msg|g]; [|reflexivity].
  unfold ais_step, buffer_step, attach, fragment_count, slot_of, bind.
  destruct (is_single msg); [destruct w; reflexivity|].
  match goal with |- context [buf_get ?b ?s] => destruct (buf_get b s) as [arr|] end; [|reflexivity].
  destruct (pyl_setitem arr (a_frag_num msg - 1) (Some msg)) as [arr'|e]; [|reflexivity].
  destruct (pyl_len (not_none (pyl_slice arr' 0 (a_frag_cnt msg))) =? a_frag_cnt msg); [|reflexivity].
  destruct (assemble_from_iterable _) as [full|e]; [|reflexivity].
  destruct w; reflexivity.
Qed.

(* ================================================================ Python list primitives on in-range arguments *)

Lemma list_set_length : forall A (l : list A) k x, length (pyl_list_set l k x) = length l.
Proof. induction l as [|a l IH]; intros [|k] x; simpl; auto. Qed.

Lemma nth_error_list_set_same : forall A (l : list A) k x, (k < length l)%nat -> nth_error (pyl_list_set l k x) k = Some x.
Proof. induction l as [|a l IH]; intros [|k] x H; simpl in *; try lia; auto. apply IH. lia. Qed.

Lemma nth_error_list_set_other : forall A (l : list A) k j x, j <> k -> nth_error (pyl_list_set l k x) j = nth_error l j.
Proof.
  induction l as [|a l IH]; intros [|k] [|j] x H; simpl; auto; try congruence.
Qed.

Lemma pyl_setitem_in_range : forall A (l : list A) i x,
  0 <= i < pyl_len l -> pyl_setitem l i x = Ok (pyl_list_set l (Z.to_nat i) x).
Proof.
  intros A l i x H. unfold pyl_setitem, pyl_index.
  destruct (i <? 0) eqn:E1; [apply Z.ltb_lt in E1; lia|].
  rewrite E1. simpl.
  destruct (pyl_len l <=? i) eqn:E2; [apply Z.leb_le in E2; lia|]. reflexivity.
Qed.

Lemma pyl_slice_prefix : forall A (l : list A) n, 0 <= n <= pyl_len l -> pyl_slice l 0 n = firstn (Z.to_nat n) l.
Proof.
  intros A l n H. unfold pyl_slice, pyl_clip.
  assert (0 <= pyl_len l) by (unfold pyl_len; lia).
  replace (0 <? 0) with false by reflexivity.
  destruct (pyl_len l <? 0) eqn:E0; [apply Z.ltb_lt in E0; lia|].
  destruct (n <? 0) eqn:E1; [apply Z.ltb_lt in E1; lia|].
  destruct (pyl_len l <? n) eqn:E2; [apply Z.ltb_lt in E2; lia|].
  simpl. rewrite Z.sub_0_r. reflexivity.
Qed.

Lemma not_none_app : forall A (l1 l2 : list (option A)), not_none (l1 ++ l2) = not_none l1 ++ not_none l2.
Proof. induction l1 as [|[x|] l1 IH]; intros; simpl; rewrite ?IH; reflexivity. Qed.

Definition cell {A} (arr : list (option A)) (k : nat) : list A :=
  match nth_error arr k with Some (Some x) => [x] | _ => [] end.

Lemma firstn_S_snoc : forall A (l : list A) n x, nth_error l n = Some x -> firstn (S n) l = firstn n l ++ [x].
Proof.
  induction l as [|a l IH]; intros [|n] x H; simpl in *; try discriminate.
  - inversion H. reflexivity.
  - f_equal. apply IH. exact H.
Qed.

Lemma not_none_firstn : forall A (arr : list (option A)) n, (n <= length arr)%nat ->
  not_none (firstn n arr) = flat_map (cell arr) (seq 0 n).
Proof.
  intros A arr. induction n as [|n IH]; intro H; [reflexivity|].
  destruct (nth_error arr n) as [c|] eqn:E; [|apply nth_error_None in E; lia].
  rewrite (firstn_S_snoc _ _ _ _ E), not_none_app, IH by lia.
  rewrite seq_S, flat_map_app. simpl. f_equal. unfold cell. rewrite E. destruct c; reflexivity.
Qed.

Lemma zrange_seq : forall n lo, asm_zrange lo n = map (fun k => lo + Z.of_nat k) (seq 0 n).
Proof.
  induction n as [|n IH]; intro lo; simpl; [reflexivity|].
  rewrite Z.add_0_r. f_equal. rewrite IH, <- seq_shift, map_map. apply map_ext. intro k. lia.
Qed.

Lemma zrange_length : forall n lo, length (asm_zrange lo n) = n.
Proof. induction n; intro; simpl; auto. Qed.

Lemma zrange_In : forall n lo x, In x (asm_zrange lo n) <-> lo <= x < lo + Z.of_nat n.
Proof.
  induction n as [|n IH]; intros lo x; simpl; [lia|].
  rewrite IH. lia.
Qed.

Lemma zrange_NoDup : forall n lo, NoDup (asm_zrange lo n).
Proof.
  induction n as [|n IH]; intro lo; simpl; constructor; auto.
  rewrite zrange_In. lia.
Qed.

(* ================================================================ the array of one message *)

Definition store (arr : list (option ais_sentence)) (f : sfrag) : list (option ais_sentence) :=
  pyl_list_set arr (Z.to_nat (f_num f - 1)) (Some (sf_sent f)).

Definition arr_of (L : nat) (fs : list sfrag) : list (option ais_sentence) := fold_left store fs (repeat None L).

Lemma arr_of_snoc : forall L fs f, arr_of L (fs ++ [f]) = store (arr_of L fs) f.
Proof. intros. unfold arr_of. rewrite fold_left_app. reflexivity. Qed.

Lemma arr_of_length : forall L fs, length (arr_of L fs) = L.
Proof.
  intros L fs. induction fs as [|f fs IH] using rev_ind.
  - apply repeat_length.
  - rewrite arr_of_snoc. unfold store. rewrite list_set_length. exact IH.
Qed.

(* cell k holds the fragment numbered k+1, if one has arrived *)
Lemma arr_of_cell : forall L fs k, (k < L)%nat -> (forall f, In f fs -> 1 <= f_num f <= Z.of_nat L) ->
  (exists f, In f fs /\ f_num f = Z.of_nat k + 1 /\ nth_error (arr_of L fs) k = Some (Some (sf_sent f))) \/
  ((forall f, In f fs -> f_num f <> Z.of_nat k + 1) /\ nth_error (arr_of L fs) k = Some None).
Proof.
  intros L fs k Hk. induction fs as [|f fs IH] using rev_ind; intro R.
  - right. split; [intros f []|]. unfold arr_of. simpl.
    rewrite (nth_error_nth' _ None) by (rewrite repeat_length; exact Hk). rewrite nth_repeat. reflexivity.
  - rewrite arr_of_snoc. unfold store.
    assert (Rf : 1 <= f_num f <= Z.of_nat L) by (apply R; apply in_or_app; right; left; reflexivity).
    assert (R' : forall g, In g fs -> 1 <= f_num g <= Z.of_nat L) by (intros g Hg; apply R; apply in_or_app; auto).
    destruct (Nat.eq_dec k (Z.to_nat (f_num f - 1))) as [E|E].
    + left. exists f. split; [apply in_or_app; right; left; reflexivity|]. split; [lia|].
      rewrite <- E. apply nth_error_list_set_same. rewrite arr_of_length. exact Hk.
    + rewrite nth_error_list_set_other by exact E.
      destruct (IH R') as [[g [G1 [G2 G3]]]|[G1 G2]].
      * left. exists g. split; [apply in_or_app; auto|]. auto.
      * right. split; [|exact G2]. intros g Hg. apply in_app_or in Hg. destruct Hg as [Hg|[Hg|[]]].
        -- apply G1. exact Hg.
        -- subst g. lia.
Qed.

Lemma filter_unique : forall (l : list sfrag) x, NoDup (map f_num l) -> In x l ->
  filter (fun y => f_num y =? f_num x) l = [x].
Proof.
  induction l as [|a l IH]; intros x N H; [destruct H|].
  simpl in N. inversion N as [|? ? N1 N2]; subst. simpl.
  destruct (f_num a =? f_num x) eqn:E.
  - apply Z.eqb_eq in E. destruct H as [H|H].
    + subst a. f_equal.
      assert (forall y, In y l -> (f_num y =? f_num x) = false).
      { intros y Hy. apply Z.eqb_neq. intro C. apply N1. rewrite <- C. apply in_map. exact Hy. }
      clear -H. induction l as [|b l IH]; simpl; auto. rewrite H by (left; reflexivity). apply IH. intros. apply H. right. auto.
    + exfalso. apply N1. rewrite E. apply in_map. exact H.
  - destruct H as [H|H]; [subst a; rewrite Z.eqb_refl in E; discriminate|]. apply IH; auto.
Qed.

Lemma filter_nothing : forall A (p : A -> bool) l, (forall x, In x l -> p x = false) -> filter p l = [].
Proof.
  induction l as [|a l IH]; intro H; simpl; auto. rewrite H by (left; reflexivity). apply IH. intros. apply H. right. auto.
Qed.

(* the non-None cells of the first n positions are the fragments in fragment-number order *)
Lemma arr_of_parts : forall fs L n, NoDup (map f_num fs) -> (forall f, In f fs -> 1 <= f_num f <= Z.of_nat n) ->
  (n <= L)%nat ->
  not_none (firstn n (arr_of L fs)) =
  map sf_sent (flat_map (fun k => filter (fun f => f_num f =? k) fs) (asm_zrange 1 n)).
Proof.
  intros fs L n N R HL.
  rewrite not_none_firstn by (rewrite arr_of_length; exact HL).
  rewrite zrange_seq. rewrite flat_map_concat_map, (flat_map_concat_map _ (map _ _)), map_map.
  rewrite concat_map, map_map. f_equal. apply map_ext_in. intros k Hk. apply in_seq in Hk.
  assert (R' : forall f, In f fs -> 1 <= f_num f <= Z.of_nat L) by (intros f Hf; specialize (R f Hf); lia).
  destruct (arr_of_cell L fs k ltac:(lia) R') as [[f [F1 [F2 F3]]]|[F1 F2]]; unfold cell.
  - rewrite F3. replace (1 + Z.of_nat k) with (f_num f) by lia. rewrite filter_unique by assumption. reflexivity.
  - rewrite F2. rewrite filter_nothing; [reflexivity|]. intros x Hx. apply Z.eqb_neq. specialize (F1 x Hx). lia.
Qed.

(* every fragment is counted once when its number is among the (distinct) ks *)
Lemma flat_map_filter_cons_length : forall ks (a : sfrag) fs,
  length (flat_map (fun k => filter (fun f => f_num f =? k) (a :: fs)) ks) =
  Nat.add (length (filter (fun k => f_num a =? k) ks))
          (length (flat_map (fun k => filter (fun f => f_num f =? k) fs) ks)).
Proof.
  induction ks as [|k ks IH]; intros a fs; [reflexivity|].
  assert (E : forall (f : Z -> list sfrag) k ks, flat_map f (k :: ks) = f k ++ flat_map f ks) by reflexivity.
  rewrite !E, !app_length, IH. cbn [filter]. destruct (f_num a =? k); cbn [length]; lia.
Qed.

Lemma filter_eq_once : forall ks v, NoDup ks -> In v ks -> length (filter (fun k => v =? k) ks) = 1%nat.
Proof.
  induction ks as [|k ks IH]; intros v N H; [destruct H|].
  inversion N as [|? ? N1 N2]; subst. simpl. destruct (v =? k) eqn:E.
  - apply Z.eqb_eq in E. subst k. simpl. f_equal.
    rewrite filter_nothing; [reflexivity|]. intros x Hx. apply Z.eqb_neq. intro C. subst x. contradiction.
  - destruct H as [H|H]; [subst k; rewrite Z.eqb_refl in E; discriminate|]. apply IH; assumption.
Qed.

Lemma flat_map_filter_length : forall (fs : list sfrag) ks, NoDup ks -> (forall f, In f fs -> In (f_num f) ks) ->
  length (flat_map (fun k => filter (fun f => f_num f =? k) fs) ks) = length fs.
Proof.
  induction fs as [|a fs IH]; intros ks N H.
  - clear N H. induction ks as [|k ks IHk]; simpl; auto.
  - rewrite flat_map_filter_cons_length, filter_eq_once, IH; auto.
    + intros f Hf. apply H. right. exact Hf.
    + apply H. left. reflexivity.
Qed.

(* ================================================================ assemble_from_iterable on parts in order *)

Fixpoint sorted_gt (lb : Z) (l : list ais_sentence) : Prop :=
  match l with
  | [] => True
  | x :: r => lb < a_frag_num x /\ sorted_gt (a_frag_num x) r
  end.

Lemma sorted_gt_weaken : forall l lb lb', lb' <= lb -> sorted_gt lb l -> sorted_gt lb' l.
Proof. destruct l as [|x r]; simpl; intros; auto. destruct H0. split; auto. lia. Qed.

Lemma sort_by_frag_sorted : forall l lb, sorted_gt lb l -> sort_by_frag l = l.
Proof.
  induction l as [|x r IH]; intros lb H; [reflexivity|].
  destruct H as [H1 H2]. unfold sort_by_frag in *. simpl. rewrite (IH _ H2).
  destruct r as [|y r']; [reflexivity|]. simpl. destruct H2 as [H2 _].
  apply Z.ltb_lt in H2. rewrite H2. reflexivity.
Qed.

Lemma not_none_sorted : forall (arr : list (option ais_sentence)) o,
  (forall k x, nth_error arr k = Some (Some x) -> a_frag_num x = o + Z.of_nat k + 1) ->
  sorted_gt o (not_none arr).
Proof.
  induction arr as [|c arr IH]; intros o H; [exact I|].
  assert (H' : forall k x, nth_error arr k = Some (Some x) -> a_frag_num x = (o + 1) + Z.of_nat k + 1).
  { intros k x E. rewrite (H (S k) x E). lia. }
  destruct c as [x|]; simpl.
  - assert (a_frag_num x = o + 1) by (rewrite (H O x eq_refl); simpl; lia).
    split; [lia|]. rewrite H0. apply IH. exact H'.
  - apply sorted_gt_weaken with (o + 1); [lia|]. apply IH. exact H'.
Qed.

Lemma nth_error_firstn : forall A (l : list A) n k x, nth_error (firstn n l) k = Some x -> nth_error l k = Some x.
Proof.
  induction l as [|a l IH]; intros [|n] [|k] x H; simpl in *; try discriminate; auto. apply IH with n. exact H.
Qed.

Lemma join_raw_join_lf : forall l, join_raw l = asm_join_lf (map (fun p => c_raw (a_common p)) l).
Proof.
  induction l as [|x r IH]; [reflexivity|]. destruct r as [|y r']; [reflexivity|].
  change (join_raw (x :: y :: r')) with (c_raw (a_common x) ++ LF :: join_raw (y :: r')).
  rewrite IH. reflexivity.
Qed.

(* ================================================================ consequences of well-formedness *)

Lemma frags_of_app : forall m l1 l2, frags_of m (l1 ++ l2) = frags_of m l1 ++ frags_of m l2.
Proof. intros. apply filter_app. Qed.

Lemma frags_of_In : forall m l x, In x (frags_of m l) <-> In x l /\ sf_msg x = m.
Proof. intros. unfold frags_of. rewrite filter_In, Nat.eqb_eq. reflexivity. Qed.

Lemma NoDup_app_l : forall A (l r : list A), NoDup (l ++ r) -> NoDup l.
Proof.
  induction l as [|a l IH]; intros r H; [constructor|]. simpl in H. inversion H as [|? ? H1 H2]; subst.
  constructor; [|apply IH with r; exact H2]. intro C. apply H1. apply in_or_app. auto.
Qed.

Lemma WF_prefix : forall p r, WF_frags (p ++ r) -> WF_frags p.
Proof.
  intros p r [R S D O]. constructor.
  - intros f H. apply R. apply in_or_app. auto.
  - intros f g Hf Hg. apply S; apply in_or_app; auto.
  - intro m. specialize (D m). rewrite frags_of_app, map_app in D. apply NoDup_app_l in D. exact D.
  - intros p' f r' E. subst p. apply (O p' f (r' ++ r)). rewrite <- app_assoc. reflexivity.
Qed.

Lemma WF_snoc : forall seen f rest, WF_frags (seen ++ f :: rest) -> WF_frags (seen ++ [f]).
Proof. intros seen f rest H. apply WF_prefix with rest. rewrite <- app_assoc. exact H. Qed.

(* no more fragments of a message than its count *)
Lemma frag_count_bound : forall fs g, WF_frags fs -> In g fs ->
  Z.of_nat (length (frags_of (sf_msg g) fs)) <= f_cnt g.
Proof.
  intros fs g [R S D O] Hg.
  assert (Hc := R g Hg).
  assert (Hl : (length (map f_num (frags_of (sf_msg g) fs)) <= length (asm_zrange 1 (Z.to_nat (f_cnt g))))%nat).
  { apply NoDup_incl_length; [apply D|]. intros x Hx. apply in_map_iff in Hx. destruct Hx as [y [Y1 Y2]].
    apply frags_of_In in Y2. destruct Y2 as [Y2 Y3].
    destruct (S y g Y2 Hg Y3) as [_ [_ Y4]]. specialize (R y Y2). apply zrange_In. lia. }
  rewrite map_length, zrange_length in Hl. lia.
Qed.

Lemma frags_of_snoc_same : forall seen f, frags_of (sf_msg f) (seen ++ [f]) = frags_of (sf_msg f) seen ++ [f].
Proof. intros. rewrite frags_of_app. unfold frags_of at 2. simpl. rewrite Nat.eqb_refl. reflexivity. Qed.

Lemma frag_count_snoc : forall seen f rest, WF_frags (seen ++ f :: rest) ->
  Z.of_nat (length (frags_of (sf_msg f) seen)) + 1 <= f_cnt f.
Proof.
  intros seen f rest W.
  assert (B := frag_count_bound (seen ++ [f]) f (WF_snoc _ _ _ W) ltac:(apply in_or_app; right; left; reflexivity)).
  rewrite frags_of_snoc_same, app_length in B. simpl in B. lia.
Qed.

Lemma f_single_same : forall f g, f_seq f = f_seq g -> f_cnt f = f_cnt g -> f_single f = f_single g.
Proof. intros f g H1 H2. unfold f_single. rewrite H1, H2. reflexivity. Qed.

Lemma f_slot_same : forall f g, f_seq f = f_seq g -> f_chan f = f_chan g -> f_slot f = f_slot g.
Proof. intros f g H1 H2. unfold f_slot. rewrite H1, H2. reflexivity. Qed.

Lemma is_single_spec : forall f, 1 <= f_num f <= f_cnt f -> is_single (sf_sent f) = f_single f.
Proof.
  intros f H. unfold is_single, f_single, f_num, f_cnt, f_seq, seq_truthy in *.
  destruct (a_frag_cnt (sf_sent f) =? 1) eqn:E.
  - apply Z.eqb_eq in E. replace (a_frag_num (sf_sent f) =? a_frag_cnt (sf_sent f)) with true
      by (symmetry; apply Z.eqb_eq; lia).
    destruct (a_seq_id (sf_sent f)); simpl; rewrite ?negb_involutive, ?andb_true_r; reflexivity.
  - rewrite andb_false_r, andb_false_r. reflexivity.
Qed.

(* ================================================================ the buffer the specification predicts *)

(* does the fragment occupy slot s *)
Definition occ (s : asm_slot) (f : sfrag) : bool := negb (f_single f) && slot_eqb (f_slot f) s.

(* the latest fragment that occupied slot s *)
Fixpoint last_occ (s : asm_slot) (seen : list sfrag) : option sfrag :=
  match seen with
  | [] => None
  | a :: r => match last_occ s r with
              | Some h => Some h
              | None => if occ s a then Some a else None
              end
  end.

Lemma last_occ_snoc : forall s seen f, last_occ s (seen ++ [f]) = if occ s f then Some f else last_occ s seen.
Proof.
  induction seen as [|a r IH]; intro f; simpl.
  - destruct (occ s f); reflexivity.
  - rewrite IH. destruct (occ s f); reflexivity.
Qed.

Lemma last_occ_none : forall s seen, last_occ s seen = None -> forall x, In x seen -> occ s x = false.
Proof.
  induction seen as [|a r IH]; intros H x Hx; [destruct Hx|]. simpl in H.
  destruct (last_occ s r) eqn:E; [discriminate|]. destruct (occ s a) eqn:Ea; [discriminate|].
  destruct Hx as [Hx|Hx]; [subst; exact Ea| apply IH; auto].
Qed.

Lemma last_occ_some : forall s seen h, last_occ s seen = Some h ->
  exists p r, seen = p ++ h :: r /\ occ s h = true /\ forall x, In x r -> occ s x = false.
Proof.
  induction seen as [|a r IH]; intros h H; [discriminate|]. simpl in H.
  destruct (last_occ s r) as [h'|] eqn:E.
  - inversion H; subst h'. destruct (IH h eq_refl) as [p [r' [E1 [E2 E3]]]].
    exists (a :: p), r'. subst r. auto.
  - destruct (occ s a) eqn:Ea; [|discriminate]. inversion H; subst a.
    exists [], r. split; [reflexivity|]. split; [exact Ea|]. apply last_occ_none. exact E.
Qed.

Definition arrlen (cnt : Z) : nat := Z.to_nat (Z.max cnt 255).

Definition expected (seen : list sfrag) (s : asm_slot) : option (list (option ais_sentence)) :=
  match last_occ s seen with
  | None => None
  | Some f => if Z.of_nat (length (frags_of (sf_msg f) seen)) <? f_cnt f
              then Some (arr_of (arrlen (f_cnt f)) (frags_of (sf_msg f) seen)) else None
  end.

Definition Inv (seen : list sfrag) (buf : asm_buffer) : Prop :=
  buf_wf buf /\ forall s, buf_get buf s = expected seen s.

Lemma occ_own : forall f, f_single f = false -> occ (f_slot f) f = true.
Proof. intros f H. unfold occ. rewrite H, slot_eqb_refl. reflexivity. Qed.

Lemma occ_msg : forall fs f g s, WF_frags fs -> In f fs -> In g fs -> sf_msg f = sf_msg g -> occ s f = occ s g.
Proof.
  intros fs f g s W Hf Hg E. destruct (wf_same _ W f g Hf Hg E) as [E1 [E2 E3]].
  unfold occ. rewrite (f_single_same f g E1 E3), (f_slot_same f g E1 E2). reflexivity.
Qed.

(* the slot of an arriving multi-sentence fragment holds exactly the earlier fragments of its own message *)
Lemma expected_own : forall seen f rest, WF_frags (seen ++ f :: rest) -> f_single f = false ->
  expected seen (f_slot f) =
  match frags_of (sf_msg f) seen with
  | [] => None
  | _ :: _ => Some (arr_of (arrlen (f_cnt f)) (frags_of (sf_msg f) seen))
  end.
Proof.
  intros seen f rest W Hs.
  assert (W1 := WF_snoc _ _ _ W).
  assert (Hf : In f (seen ++ f :: rest)) by (apply in_or_app; right; left; reflexivity).
  assert (Hin : forall x, In x seen -> In x (seen ++ f :: rest)) by (intros; apply in_or_app; auto).
  assert (B := frag_count_snoc _ _ _ W).
  unfold expected.
  destruct (last_occ (f_slot f) seen) as [h|] eqn:E.
  - destruct (last_occ_some _ _ _ E) as [p1 [r1 [E1 [E2 E3]]]].
    assert (Hh : In h seen) by (subst seen; apply in_or_app; right; left; reflexivity).
    unfold occ in E2. apply andb_true_iff in E2. destruct E2 as [E2a E2b].
    apply negb_true_iff in E2a. apply slot_eqb_eq in E2b.
    destruct (Nat.eq_dec (sf_msg h) (sf_msg f)) as [Em|Em].
    + (* the occupant is this message: it is incomplete *)
      rewrite Em. destruct (wf_same _ W h f (Hin h Hh) Hf Em) as [_ [_ Ec]]. rewrite Ec.
      destruct (frags_of (sf_msg f) seen) as [|x l] eqn:Ef.
      * exfalso. assert (In h (frags_of (sf_msg f) seen)) by (apply frags_of_In; auto). rewrite Ef in H. destruct H.
      * replace (Z.of_nat (length (x :: l)) <? f_cnt f) with true by (symmetry; apply Z.ltb_lt; lia). reflexivity.
    + (* another message occupied the slot last: it is complete, and no fragment of this message has arrived *)
      rewrite (wf_no_overlap _ W seen f rest eq_refl Hs h Hh E2a E2b Em), Z.ltb_irrefl.
      destruct (frags_of (sf_msg f) seen) as [|g l] eqn:Ef; [reflexivity|]. exfalso.
      assert (Hg : In g (frags_of (sf_msg f) seen)) by (rewrite Ef; left; reflexivity).
      apply frags_of_In in Hg. destruct Hg as [Hg Hgm].
      assert (Og : occ (f_slot f) g = true).
      { rewrite (occ_msg _ g f (f_slot f) W (Hin g Hg) Hf Hgm). apply occ_own. exact Hs. }
      subst seen. apply in_app_or in Hg. destruct Hg as [Hg|[Hg|Hg]].
      * (* g arrived before h: its message was complete when h arrived, so f is one fragment too many *)
        unfold occ in Og. apply andb_true_iff in Og. destruct Og as [Oa Ob].
        apply negb_true_iff in Oa. apply slot_eqb_eq in Ob.
        assert (C := wf_no_overlap _ W p1 h (r1 ++ f :: rest) ltac:(rewrite <- app_assoc; reflexivity) E2a g Hg Oa
                       ltac:(congruence) ltac:(congruence)).
        destruct (wf_same _ W g f (Hin g ltac:(apply in_or_app; auto)) Hf Hgm) as [_ [_ Ec]].
        rewrite Hgm, Ec in C. rewrite <- Ef, frags_of_app, app_length in B. lia.
      * subst g. contradiction.
      * rewrite (E3 g Hg) in Og. discriminate.
  - destruct (frags_of (sf_msg f) seen) as [|g l] eqn:Ef; [reflexivity|]. exfalso.
    assert (Hg : In g (frags_of (sf_msg f) seen)) by (rewrite Ef; left; reflexivity).
    apply frags_of_In in Hg. destruct Hg as [Hg Hgm].
    assert (Og : occ (f_slot f) g = true).
    { rewrite (occ_msg _ g f (f_slot f) W (Hin g Hg) Hf Hgm). apply occ_own. exact Hs. }
    rewrite (last_occ_none _ _ E g Hg) in Og. discriminate.
Qed.

Lemma last_occ_In : forall s seen h, last_occ s seen = Some h -> In h seen /\ occ s h = true.
Proof.
  intros s seen h H. destruct (last_occ_some _ _ _ H) as [p [r [E1 [E2 _]]]].
  split; [subst seen; apply in_or_app; right; left; reflexivity | exact E2].
Qed.

(* a slot the arriving fragment does not occupy is predicted unchanged *)
Lemma expected_other : forall seen f rest s, WF_frags (seen ++ f :: rest) -> occ s f = false ->
  expected (seen ++ [f]) s = expected seen s.
Proof.
  intros seen f rest s W Ho. unfold expected. rewrite last_occ_snoc, Ho.
  destruct (last_occ s seen) as [h|] eqn:E; [|reflexivity].
  destruct (last_occ_In _ _ _ E) as [Hh Oh].
  assert (Em : sf_msg f <> sf_msg h).
  { intro C. rewrite (occ_msg _ f h s W) in Ho; auto; try congruence.
    - apply in_or_app; right; left; reflexivity.
    - apply in_or_app; auto. }
  rewrite frags_of_app. simpl. apply Nat.eqb_neq in Em. rewrite Em, app_nil_r. reflexivity.
Qed.

Lemma expected_own_after : forall seen f rest, WF_frags (seen ++ f :: rest) -> f_single f = false ->
  expected (seen ++ [f]) (f_slot f) =
  if completes f (seen ++ [f]) then None
  else Some (arr_of (arrlen (f_cnt f)) (frags_of (sf_msg f) (seen ++ [f]))).
Proof.
  intros seen f rest W Hs. unfold expected, completes. rewrite last_occ_snoc, (occ_own f Hs).
  assert (B := frag_count_bound (seen ++ [f]) f (WF_snoc _ _ _ W) ltac:(apply in_or_app; right; left; reflexivity)).
  destruct (Z.of_nat (length (frags_of (sf_msg f) (seen ++ [f]))) =? f_cnt f) eqn:E.
  - apply Z.eqb_eq in E. rewrite E, Z.ltb_irrefl. reflexivity.
  - apply Z.eqb_neq in E. replace (_ <? _) with true by (symmetry; apply Z.ltb_lt; lia). reflexivity.
Qed.

(* ================================================================ one fragment of a multi-sentence message *)

Lemma arrlen_ge : forall cnt, cnt <= Z.of_nat (arrlen cnt).
Proof. intro cnt. unfold arrlen. lia. Qed.

Lemma parts_members : forall m cnt l x, In x (parts_in_order m cnt l) -> In x l /\ sf_msg x = m.
Proof.
  intros m cnt l x H. unfold parts_in_order in H. apply in_flat_map in H. destruct H as [k [_ H]].
  apply filter_In in H. destruct H as [H _]. apply frags_of_In in H. exact H.
Qed.

Lemma buffer_step_correct : forall seen f rest buf,
  WF_frags (seen ++ f :: rest) -> f_single f = false -> Inv seen buf ->
  exists buf' o, buffer_step buf (sf_sent f) = Ok (buf', o) /\ Inv (seen ++ [f]) buf' /\
    (if completes f (seen ++ [f])
     then exists full, o = Some full /\ delivery_of full = spec_assemble f (seen ++ [f])
     else o = None).
Proof.
  intros seen f rest buf W Hs [Wb G].
  assert (W1 := WF_snoc _ _ _ W).
  assert (Hf1 : In f (seen ++ [f])) by (apply in_or_app; right; left; reflexivity).
  assert (R := wf_range _ W1 f Hf1).
  set (m := sf_msg f). set (L := arrlen (f_cnt f)). set (s := f_slot f).
  assert (HL : f_cnt f <= Z.of_nat L) by apply arrlen_ge.
  (* the array found (or created) in the slot *)
  assert (K : exists buffer1,
             (if negb (buf_mem buf s) then buf_set buf s (pyl_repeat None (Z.max (f_cnt f) 255)) else buf) = buffer1 /\
             buf_wf buffer1 /\ buf_get buffer1 s = Some (arr_of L (frags_of m seen)) /\
             forall s', s' <> s -> buf_get buffer1 s' = buf_get buf s').
  { unfold buf_mem. rewrite (G s). unfold s. rewrite (expected_own _ _ _ W Hs). fold m. fold L.
    destruct (frags_of m seen) as [|g l] eqn:Ef; simpl negb; cbv iota.
    - eexists. split; [reflexivity|]. split; [apply buf_wf_set; exact Wb|]. split.
      + rewrite buf_get_set_same. reflexivity.
      + intros s' Hn. apply buf_get_set_other. exact Hn.
    - exists buf. split; [reflexivity|]. split; [exact Wb|]. split; [|reflexivity].
      rewrite (G (f_slot f)), (expected_own _ _ _ W Hs). fold m. fold L. rewrite Ef. reflexivity. }
  destruct K as [buffer1 [K0 [K1 [K2 K3]]]].
  unfold buffer_step. change (slot_of (sf_sent f)) with s. change (a_frag_cnt (sf_sent f)) with (f_cnt f).
  change (a_frag_num (sf_sent f)) with (f_num f). rewrite K0, K2.
  rewrite pyl_setitem_in_range by (unfold pyl_len; rewrite arr_of_length; lia).
  assert (Earr : pyl_list_set (arr_of L (frags_of m seen)) (Z.to_nat (f_num f - 1)) (Some (sf_sent f))
                 = arr_of L (frags_of m (seen ++ [f]))).
  { unfold m. rewrite frags_of_snoc_same, arr_of_snoc. reflexivity. }
  rewrite Earr. clear Earr.
  set (fs' := frags_of m (seen ++ [f])). set (arr' := arr_of L fs').
  rewrite pyl_slice_prefix by (unfold pyl_len, arr'; rewrite arr_of_length; lia).
  set (n := Z.to_nat (f_cnt f)).
  assert (Hn : (n <= L)%nat) by (unfold n; lia).
  assert (Rfs : forall g, In g fs' -> 1 <= f_num g <= Z.of_nat n).
  { intros g Hg. apply frags_of_In in Hg. destruct Hg as [Hg Hm].
    destruct (wf_same _ W1 g f Hg Hf1 Hm) as [_ [_ Ec]]. assert (Rg := wf_range _ W1 g Hg). unfold n. lia. }
  assert (Nfs : NoDup (map f_num fs')) by apply (wf_distinct _ W1).
  (* in fragment-number order already *)
  assert (Sorted : sorted_gt 0 (not_none (firstn n arr'))).
  { apply not_none_sorted. intros k x E. apply nth_error_firstn in E.
    assert (Hk : (k < L)%nat).
    { assert (nth_error arr' k <> None) by congruence. apply nth_error_Some in H. unfold arr' in H.
      rewrite arr_of_length in H. exact H. }
    destruct (arr_of_cell L fs' k Hk) as [[g [G1 [G2 G3]]]|[G1 G2]].
    - intros g Hg. specialize (Rfs g Hg). lia.
    - fold arr' in G3. rewrite G3 in E. inversion E; subst x. unfold f_num in G2. lia.
    - fold arr' in G2. rewrite G2 in E. discriminate. }
  assert (P : not_none (firstn n arr') = map sf_sent (parts_in_order m (f_cnt f) (seen ++ [f]))).
  { unfold arr'. rewrite (arr_of_parts fs' L n Nfs Rfs Hn). reflexivity. }
  assert (Len : pyl_len (not_none (firstn n arr')) = Z.of_nat (length fs')).
  { unfold pyl_len. rewrite P, map_length. unfold parts_in_order. fold fs'. fold n.
    rewrite flat_map_filter_length; [reflexivity|apply zrange_NoDup|].
    intros g Hg. apply zrange_In. specialize (Rfs g Hg). lia. }
  rewrite Len. unfold completes. fold m. fold fs'.
  assert (Other : forall s', s' <> s -> expected (seen ++ [f]) s' = buf_get buf s').
  { intros s' Hn'. rewrite (G s'). apply expected_other with rest; [exact W|].
    unfold occ. fold s. rewrite (slot_eqb_neq s s') by congruence. apply andb_false_r. }
  assert (Own := expected_own_after _ _ _ W Hs). unfold completes in Own. fold m in Own. fold fs' in Own. fold L in Own.
  fold arr' in Own. fold s in Own.
  destruct (Z.of_nat (length fs') =? f_cnt f) eqn:C.
  - (* complete: assemble and delete the slot *)
    unfold assemble_from_iterable. cbv zeta. rewrite (sort_by_frag_sorted _ _ Sorted).
    destruct (not_none (firstn n arr')) as [|first more] eqn:Parts.
    { exfalso. unfold pyl_len in Len. simpl in Len. apply Z.eqb_eq in C. lia. }
    eexists. eexists. split; [reflexivity|]. split.
    + split; [apply buf_wf_del; apply buf_wf_set; exact K1|]. intro s'.
      destruct (slot_eq_dec s' s) as [E|E].
      * subst s'. rewrite buf_get_del_same by (apply buf_wf_set; exact K1). symmetry. exact Own.
      * rewrite buf_get_del_other, buf_get_set_other, K3, Other by exact E. reflexivity.
    + eexists. split; [reflexivity|]. unfold spec_assemble. fold m. rewrite <- P.
      unfold delivery_of, ais_set_assembled, set_raw_valid. simpl.
      rewrite join_raw_join_lf, !flat_map_concat_map.
      assert (Hfirst : In first (map sf_sent (parts_in_order m (f_cnt f) (seen ++ [f])))) by (rewrite <- P; left; reflexivity).
      apply in_map_iff in Hfirst. destruct Hfirst as [g [G1 G2]]. apply parts_members in G2. destruct G2 as [G2 G3].
      destruct (wf_same _ W1 g f G2 Hf1 G3) as [E1 [E2 _]]. unfold f_seq, f_chan in *. rewrite G1 in *.
      rewrite E1, E2. destruct more; reflexivity.
  - eexists. eexists. split; [reflexivity|]. split; [|reflexivity].
    split; [apply buf_wf_set; exact K1|]. intro s'.
    destruct (slot_eq_dec s' s) as [E|E].
    + subst s'. rewrite buf_get_set_same. symmetry. exact Own.
    + rewrite buf_get_set_other, K3, Other by exact E. reflexivity.
Qed.

(* ================================================================ single-sentence messages *)

Lemma single_correct : forall seen f rest, WF_frags (seen ++ f :: rest) -> f_single f = true ->
  completes f (seen ++ [f]) = true /\ delivery_of (sf_sent f) = spec_assemble f (seen ++ [f]).
Proof.
  intros seen f rest W Hs.
  assert (B := frag_count_snoc _ _ _ W).
  assert (R := wf_range _ W f ltac:(apply in_or_app; right; left; reflexivity)).
  assert (Hc : f_cnt f = 1).
  { unfold f_single in Hs. apply andb_true_iff in Hs. destruct Hs as [Hs _]. apply Z.eqb_eq. exact Hs. }
  assert (E : frags_of (sf_msg f) seen = []).
  { destruct (frags_of (sf_msg f) seen); [reflexivity|]. simpl in B. lia. }
  assert (E' : frags_of (sf_msg f) (seen ++ [f]) = [f]) by (rewrite frags_of_snoc_same, E; reflexivity).
  split.
  - unfold completes. rewrite E', Hc. reflexivity.
  - unfold spec_assemble, parts_in_order. rewrite E', Hc. simpl.
    replace (f_num f =? 1) with true by (symmetry; apply Z.eqb_eq; lia). simpl.
    rewrite !app_nil_r, andb_true_r. reflexivity.
Qed.

Lemma delivery_of_attach : forall w a, delivery_of (attach w a) = delivery_of a.
Proof. intros [g|] a; reflexivity. Qed.

(* ================================================================ running a loop over a well-formed schedule *)

Definition skips (hs : list handler) : Prop := forall e, skippable e = true -> catches hs (Lib e) = true.

Lemma stream_except_skips : skips stream_except.
Proof. intros e H. destruct e; try discriminate; reflexivity. Qed.

Lemma queue_except_skips : skips queue_except.
Proof. intros e H. destruct e; try discriminate; reflexivity. Qed.

Lemma asm_run_ext : forall step1 step2, (forall st p t, step1 st p t = step2 st p t) ->
  forall ins st, asm_run step1 st ins = asm_run step2 st ins.
Proof.
  intros step1 step2 H. induction ins as [|[p t] ins IH]; intro st; simpl; [reflexivity|].
  rewrite H. destruct (step2 st p t) as [[st' out]|e]; [|reflexivity]. rewrite IH. reflexivity.
Qed.

Lemma frags_app : forall a b, asm_frags (a ++ b) = asm_frags a ++ asm_frags b.
Proof. induction a as [|[f|g|e] a IH]; intro b; simpl; rewrite ?IH; reflexivity. Qed.

Lemma run_schedule : forall hs, skips hs -> forall rest seen buf w,
  WF_frags (seen ++ asm_frags rest) -> (forall e, In (ISkipped e) rest -> skippable e = true) -> Inv seen buf ->
  exists outs buf' w',
    asm_run (generic_step hs) (buf, w) (schedule_lines rest) = (outs, Ok (buf', w')) /\
    map (map delivery_of) outs = spec_deliveries_from seen rest /\
    Inv (seen ++ asm_frags rest) buf'.
Proof.
  intros hs Hhs. induction rest as [|i rest IH]; intros seen buf w W Sk I.
  - exists [], buf, w. simpl. rewrite app_nil_r. auto.
  - assert (Sk' : forall e, In (ISkipped e) rest -> skippable e = true) by (intros e He; apply Sk; right; exact He).
    destruct i as [f|g|e]; simpl asm_frags in *; simpl schedule_lines; simpl asm_run.
    + (* a fragment *)
      assert (R := wf_range _ W f ltac:(apply in_or_app; right; left; reflexivity)).
      assert (W' : WF_frags ((seen ++ [f]) ++ asm_frags rest)) by (rewrite <- app_assoc; exact W).
      unfold ais_step. rewrite (is_single_spec f R).
      destruct (f_single f) eqn:Hs.
      * destruct (single_correct _ _ _ W Hs) as [C D].
        assert (I' : Inv (seen ++ [f]) buf).
        { destruct I as [Wb G]. split; [exact Wb|]. intro s. rewrite (G s). symmetry.
          apply expected_other with (asm_frags rest); [exact W|]. unfold occ. rewrite Hs. reflexivity. }
        destruct (IH (seen ++ [f]) buf None W' Sk' I') as [outs [buf' [w' [E1 [E2 E3]]]]].
        rewrite E1. exists ([attach w (sf_sent f)] :: outs), buf', w'.
        split; [reflexivity|]. split; [|rewrite <- app_assoc in E3; exact E3].
        simpl. rewrite C, delivery_of_attach, D, E2. reflexivity.
      * destruct (buffer_step_correct _ _ _ _ W Hs I) as [buf1 [o [B1 [B2 B3]]]]. rewrite B1.
        destruct (completes f (seen ++ [f])) eqn:C.
        -- destruct B3 as [full [Bo Bd]]. subst o.
           destruct (IH (seen ++ [f]) buf1 None W' Sk' B2) as [outs [buf' [w' [E1 [E2 E3]]]]].
           rewrite E1. exists ([attach w full] :: outs), buf', w'.
           split; [reflexivity|]. split; [|rewrite <- app_assoc in E3; exact E3].
           simpl. rewrite C, delivery_of_attach, Bd, E2. reflexivity.
        -- subst o.
           destruct (IH (seen ++ [f]) buf1 w W' Sk' B2) as [outs [buf' [w' [E1 [E2 E3]]]]].
           rewrite E1. exists ([] :: outs), buf', w'.
           split; [reflexivity|]. split; [|rewrite <- app_assoc in E3; exact E3].
           simpl. rewrite C, E2. reflexivity.
    + (* a wrapper line: the buffer is untouched *)
      destruct (IH seen buf (Some g) W Sk' I) as [outs [buf' [w' [E1 [E2 E3]]]]].
      simpl fst. rewrite E1. exists ([] :: outs), buf', w'. split; [reflexivity|]. split; [|exact E3].
      simpl. rewrite E2. reflexivity.
    + (* a skipped line *)
      rewrite (Hhs e (Sk e (or_introl eq_refl))).
      destruct (IH seen buf w W Sk' I) as [outs [buf' [w' [E1 [E2 E3]]]]].
      rewrite E1. exists ([] :: outs), buf', w'. split; [reflexivity|]. split; [|exact E3].
      simpl. rewrite E2. reflexivity.
Qed.

Lemma Inv_init : Inv [] [].
Proof. split; [exact I|]. intro s. reflexivity. Qed.

Theorem stream_deliveries_correct : forall s, WF s ->
  exists outs st, asm_run stream_step asm_init (schedule_lines s) = (outs, Ok st) /\
                  map (map delivery_of) outs = spec_deliveries s.
Proof.
  intros s [W Sk]. rewrite (asm_run_ext _ _ stream_step_generic).
  destruct (run_schedule _ stream_except_skips s [] [] None W Sk Inv_init) as [outs [buf' [w' [E1 [E2 _]]]]].
  exists outs, (buf', w'). split; assumption.
Qed.

Theorem queue_deliveries_correct : forall s, WF s ->
  exists outs st, asm_run queue_step asm_init (schedule_lines s) = (outs, Ok st) /\
                  map (map delivery_of) outs = spec_deliveries s.
Proof.
  intros s [W Sk]. rewrite (asm_run_ext _ _ queue_step_generic).
  destruct (run_schedule _ queue_except_skips s [] [] None W Sk Inv_init) as [outs [buf' [w' [E1 [E2 _]]]]].
  exists outs, (buf', w'). split; assumption.
Qed.

(* ================================================================ C18: the pending wrapper *)

Definition cell_fresh (c : option ais_sentence) : Prop :=
  match c with Some x => a_wrapper x = None | None => True end.

Definition buf_fresh (b : asm_buffer) : Prop := Forall (fun kv => Forall cell_fresh (snd kv)) b.

Lemma buf_fresh_get : forall b s arr, buf_fresh b -> buf_get b s = Some arr -> Forall cell_fresh arr.
Proof.
  induction b as [|[k v] r IH]; intros s arr F H; simpl in H; [discriminate|].
  inversion F as [|? ? F1 F2]; subst. destruct (slot_eqb s k).
  - inversion H; subst. exact F1.
  - apply IH with s; assumption.
Qed.

Lemma buf_fresh_set : forall b s arr, buf_fresh b -> Forall cell_fresh arr -> buf_fresh (buf_set b s arr).
Proof.
  induction b as [|[k v] r IH]; intros s arr F A; simpl.
  - constructor; [exact A|constructor].
  - inversion F as [|? ? F1 F2]; subst. destruct (slot_eqb s k); constructor; auto. apply IH; assumption.
Qed.

Lemma buf_fresh_del : forall b s, buf_fresh b -> buf_fresh (buf_del b s).
Proof.
  induction b as [|[k v] r IH]; intros s F; simpl; [constructor|].
  inversion F as [|? ? F1 F2]; subst. destruct (slot_eqb s k); [exact F2|]. constructor; auto. apply IH. exact F2.
Qed.

Lemma list_set_Forall : forall A (P : A -> Prop) l k x, Forall P l -> P x -> Forall P (pyl_list_set l k x).
Proof.
  induction l as [|a l IH]; intros [|k] x F Px; simpl; auto; inversion F; subst; constructor; auto.
Qed.

Lemma pyl_setitem_Forall : forall A (P : A -> Prop) l i x l', pyl_setitem l i x = Ok l' -> Forall P l -> P x -> Forall P l'.
Proof.
  intros A P l i x l' H F Px. unfold pyl_setitem in H. destruct (pyl_index (pyl_len l) i); [|discriminate].
  inversion H; subst. apply list_set_Forall; assumption.
Qed.

Lemma firstn_Forall : forall A (P : A -> Prop) n l, Forall P l -> Forall P (firstn n l).
Proof. induction n as [|n IH]; intros [|a l] F; simpl; auto. inversion F; subst. constructor; auto. Qed.

Lemma skipn_Forall : forall A (P : A -> Prop) n l, Forall P l -> Forall P (skipn n l).
Proof. induction n as [|n IH]; intros [|a l] F; simpl; auto. inversion F; subst. auto. Qed.

Lemma not_none_fresh : forall l, Forall cell_fresh l -> Forall (fun x => a_wrapper x = None) (not_none l).
Proof.
  induction l as [|[x|] l IH]; intro F; simpl; [constructor| |]; inversion F; subst; auto.
Qed.

Lemma repeat_Forall : forall A (P : A -> Prop) x n, P x -> Forall P (repeat x n).
Proof. induction n; intro; simpl; constructor; auto. Qed.

Lemma assemble_wrapper : forall parts full, assemble_from_iterable parts = Ok full ->
  Forall (fun x => a_wrapper x = None) parts -> a_wrapper full = None.
Proof.
  intros parts full H F. unfold assemble_from_iterable in H. destruct parts as [|first r]; [discriminate|].
  inversion H; subst. inversion F; subst. assumption.
Qed.

Lemma buffer_step_fresh : forall buf msg buf' o, buf_fresh buf -> a_wrapper msg = None ->
  buffer_step buf msg = Ok (buf', o) ->
  buf_fresh buf' /\ match o with Some full => a_wrapper full = None | None => True end.
Proof.
  intros buf msg buf' o F Fm H. unfold buffer_step in H.
  set (slot := slot_of msg) in *.
  set (buffer1 := if negb (buf_mem buf slot) then buf_set buf slot (pyl_repeat None (Z.max (a_frag_cnt msg) 255)) else buf) in *.
  assert (F1 : buf_fresh buffer1).
  { unfold buffer1. destruct (negb (buf_mem buf slot)); [|exact F]. apply buf_fresh_set; [exact F|].
    apply repeat_Forall. exact I. }
  destruct (buf_get buffer1 slot) as [arr|] eqn:E; [|discriminate].
  destruct (pyl_setitem arr (a_frag_num msg - 1) (Some msg)) as [arr'|e] eqn:E2; [|discriminate].
  assert (Fa : Forall cell_fresh arr') by (apply (pyl_setitem_Forall _ _ _ _ _ _ E2); [apply (buf_fresh_get _ _ _ F1 E)|exact Fm]).
  destruct (pyl_len (not_none (pyl_slice arr' 0 (a_frag_cnt msg))) =? a_frag_cnt msg).
  - destruct (assemble_from_iterable _) as [full|e] eqn:E3; [|discriminate]. inversion H; subst.
    split; [apply buf_fresh_del; apply buf_fresh_set; assumption|].
    apply (assemble_wrapper _ _ E3). apply not_none_fresh. unfold pyl_slice. apply firstn_Forall. apply skipn_Forall. exact Fa.
  - inversion H; subst. split; [apply buf_fresh_set; assumption|exact I].
Qed.

Lemma attach_wrapper : forall w a, a_wrapper a = None -> a_wrapper (attach w a) = w.
Proof. intros [g|] a H; simpl; auto. Qed.

(* what one step does to the pending wrapper *)
Lemma generic_step_wrapper : forall hs buf w p t st' out,
  buf_fresh buf -> fresh_line (p, t) -> generic_step hs (buf, w) p t = Ok (st', out) ->
  buf_fresh (fst st') /\
  map a_wrapper out :: spec_wrapper_from (snd st') [] =
    match line_event (p, t) (has_delivery out) with
    | EWrap g => [[]] | EDeliver => [[w]] | ENone => [[]]
    end /\
  snd st' = match line_event (p, t) (has_delivery out) with
            | EWrap g => Some g | EDeliver => None | ENone => w
            end.
Proof.
  intros hs buf w p t st' out F Fl H. unfold generic_step in H.
  destruct p as [s|e].
  2:{ destruct (catches hs e); inversion H; subst. simpl. auto. }
  destruct t as [e|].
  { destruct (catches hs e); inversion H; subst. simpl. destruct s; auto. }
  destruct s as [msg|g].
  2:{ inversion H; subst. simpl. auto. }
  simpl in Fl. unfold ais_step in H. destruct (is_single msg).
  - inversion H; subst. simpl. rewrite attach_wrapper by exact Fl. auto.
  - destruct (buffer_step buf msg) as [[buf' o]|e] eqn:E; [|discriminate].
    destruct (buffer_step_fresh _ _ _ _ F Fl E) as [F' Fo].
    destruct o as [full|]; inversion H; subst; simpl.
    + rewrite attach_wrapper by exact Fo. auto.
    + auto.
Qed.

Lemma run_wrappers : forall hs ins buf w, buf_fresh buf -> Forall fresh_line ins ->
  map (map a_wrapper) (fst (asm_run (generic_step hs) (buf, w) ins)) =
  spec_wrapper_from w (asm_events ins (map has_delivery (fst (asm_run (generic_step hs) (buf, w) ins)))).
Proof.
  intros hs. induction ins as [|[p t] ins IH]; intros buf w F Fl; [reflexivity|].
  inversion Fl as [|? ? Fl1 Fl2]; subst. simpl asm_run.
  destruct (generic_step hs (buf, w) p t) as [[st' out]|e] eqn:E; [|reflexivity].
  destruct (generic_step_wrapper _ _ _ _ _ _ _ F Fl1 E) as [F' [H1 H2]].
  destruct st' as [buf' w']. simpl in F', H1, H2.
  specialize (IH buf' w' F' Fl2).
  destruct (asm_run (generic_step hs) (buf', w') ins) as [outs fin]. simpl in *.
  rewrite IH. destruct (line_event (p, t) (has_delivery out)); inversion H1; subst; reflexivity.
Qed.

Lemma buf_fresh_init : buf_fresh [].
Proof. constructor. Qed.

Theorem stream_wrappers_correct : forall ins, Forall fresh_line ins ->
  map (map a_wrapper) (fst (asm_run stream_step asm_init ins)) =
  spec_wrapper (asm_events ins (map has_delivery (fst (asm_run stream_step asm_init ins)))).
Proof.
  intros ins F. rewrite (asm_run_ext _ _ stream_step_generic). apply run_wrappers; [apply buf_fresh_init|exact F].
Qed.

Theorem queue_wrappers_correct : forall ins, Forall fresh_line ins ->
  map (map a_wrapper) (fst (asm_run queue_step asm_init ins)) =
  spec_wrapper (asm_events ins (map has_delivery (fst (asm_run queue_step asm_init ins)))).
Proof.
  intros ins F. rewrite (asm_run_ext _ _ queue_step_generic). apply run_wrappers; [apply buf_fresh_init|exact F].
Qed.

(* the two specifications together, on well-formed schedules *)
Lemma events_schedule : forall s (outs : list (list ais_sentence)) spec,
  map (map delivery_of) outs = spec ->
  asm_events (schedule_lines s) (map has_delivery outs) = schedule_events s spec.
Proof.
  induction s as [|i s IH]; intros outs spec H; [reflexivity|].
  destruct outs as [|o outs]; simpl in H; subst spec; [reflexivity|].
  simpl. rewrite (IH outs _ eq_refl). f_equal.
  destruct o; simpl; [|reflexivity]. destruct i; reflexivity.
Qed.

Lemma schedule_fresh : forall s, (forall f, In (IFrag f) s -> a_wrapper (sf_sent f) = None) ->
  Forall fresh_line (schedule_lines s).
Proof.
  induction s as [|i s IH]; intro H; [constructor|]. simpl. constructor.
  - destruct i; simpl; auto. apply H. left. reflexivity.
  - apply IH. intros f Hf. apply H. right. exact Hf.
Qed.

Theorem stream_schedule_correct : forall s, WF s -> (forall f, In (IFrag f) s -> a_wrapper (sf_sent f) = None) ->
  exists outs st, asm_run stream_step asm_init (schedule_lines s) = (outs, Ok st) /\
                  map (map delivery_of) outs = spec_deliveries s /\
                  map (map a_wrapper) outs = spec_wrapper (schedule_events s (spec_deliveries s)).
Proof.
  intros s W F. destruct (stream_deliveries_correct s W) as [outs [st [E1 E2]]].
  exists outs, st. split; [exact E1|]. split; [exact E2|].
  assert (H := stream_wrappers_correct _ (schedule_fresh s F)). rewrite E1 in H. simpl in H.
  rewrite H. rewrite (events_schedule s outs _ E2). reflexivity.
Qed.

Theorem queue_schedule_correct : forall s, WF s -> (forall f, In (IFrag f) s -> a_wrapper (sf_sent f) = None) ->
  exists outs st, asm_run queue_step asm_init (schedule_lines s) = (outs, Ok st) /\
                  map (map delivery_of) outs = spec_deliveries s /\
                  map (map a_wrapper) outs = spec_wrapper (schedule_events s (spec_deliveries s)).
Proof.
  intros s W F. destruct (queue_deliveries_correct s W) as [outs [st [E1 E2]]].
  exists outs, st. split; [exact E1|]. split; [exact E2|].
  assert (H := queue_wrappers_correct _ (schedule_fresh s F)). rewrite E1 in H. simpl in H.
  rewrite H. rewrite (events_schedule s outs _ E2). reflexivity.
Qed.

(* ================================================================ C03: slot independence, singles *)

Lemma buffer_step_other_slots : forall buf msg buf' o s, buffer_step buf msg = Ok (buf', o) ->
  s <> slot_of msg -> buf_get buf' s = buf_get buf s.
Proof.
  intros buf msg buf' o s H Hn. unfold buffer_step in H.
  set (slot := slot_of msg) in *.
  set (buffer1 := if negb (buf_mem buf slot) then buf_set buf slot (pyl_repeat None (Z.max (a_frag_cnt msg) 255)) else buf) in *.
  assert (K : buf_get buffer1 s = buf_get buf s).
  { unfold buffer1. destruct (negb (buf_mem buf slot)); [|reflexivity]. apply buf_get_set_other. exact Hn. }
  destruct (buf_get buffer1 slot) as [arr|]; [|discriminate].
  destruct (pyl_setitem arr (a_frag_num msg - 1) (Some msg)) as [arr'|e]; [|discriminate].
  destruct (pyl_len (not_none (pyl_slice arr' 0 (a_frag_cnt msg))) =? a_frag_cnt msg).
  - destruct (assemble_from_iterable _); [|discriminate]. inversion H; subst.
    rewrite buf_get_del_other, buf_get_set_other by exact Hn. exact K.
  - inversion H; subst. rewrite buf_get_set_other by exact Hn. exact K.
Qed.

(* a step only touches the slot of the arriving fragment; every other line leaves the whole buffer alone *)
Lemma generic_slot_independence : forall hs buf w p t st' out s,
  generic_step hs (buf, w) p t = Ok (st', out) ->
  (forall a, p = Ok (SAis a) -> s <> slot_of a) ->
  buf_get (fst st') s = buf_get buf s.
Proof.
  intros hs buf w p t st' out s H Hs. unfold generic_step in H.
  destruct p as [x|e]; [|destruct (catches hs e); inversion H; reflexivity].
  destruct t as [e|]; [destruct (catches hs e); inversion H; reflexivity|].
  destruct x as [msg|g]; [|inversion H; reflexivity].
  unfold ais_step in H. destruct (is_single msg); [inversion H; reflexivity|].
  destruct (buffer_step buf msg) as [[buf' o]|e] eqn:E; [|discriminate].
  assert (K := buffer_step_other_slots _ _ _ _ s E (Hs msg eq_refl)).
  destruct o; inversion H; subst; exact K.
Qed.

Theorem stream_slot_independence : forall buf w p t st' out s,
  stream_step (buf, w) p t = Ok (st', out) -> (forall a, p = Ok (SAis a) -> s <> slot_of a) ->
  buf_get (fst st') s = buf_get buf s.
Proof. intros until s. rewrite stream_step_generic. apply generic_slot_independence. Qed.

Theorem queue_slot_independence : forall buf w p t st' out s,
  queue_step (buf, w) p t = Ok (st', out) -> (forall a, p = Ok (SAis a) -> s <> slot_of a) ->
  buf_get (fst st') s = buf_get buf s.
Proof. intros until s. rewrite queue_step_generic. apply generic_slot_independence. Qed.

Theorem singles_immediate : forall buf w a, is_single a = true ->
  stream_step (buf, w) (Ok (SAis a)) None = Ok ((buf, None), [attach w a]) /\
  queue_step (buf, w) (Ok (SAis a)) None = Ok ((buf, None), [attach w a]).
Proof.
  intros buf w a H. rewrite stream_step_generic, queue_step_generic. unfold generic_step, ais_step. rewrite H. auto.
Qed.

(* skipped lines are no-ops (used by C05c) *)
Theorem stream_skip_noop : forall st e t, catches stream_except e = true -> stream_step st (Raise e) t = Ok (st, []).
Proof. intros st e t H. rewrite stream_step_generic. unfold generic_step. rewrite H. reflexivity. Qed.

Theorem queue_skip_noop : forall st e t, catches queue_except e = true -> queue_step st (Raise e) t = Ok (st, []).
Proof. intros st e t H. rewrite queue_step_generic. unfold generic_step. rewrite H. reflexivity. Qed.

(* ================================================================ C07: the two loops agree *)

(* the try block raised IndexError: the only exception the queue's tuple catches and the stream's does not *)
Definition try_index_error (p : M sentence) (t : option exn) : bool :=
  match p with
  | Raise (Py IndexError) => true
  | Ok _ => match t with Some (Py IndexError) => true | _ => false end
  | _ => false
  end.

Theorem queue_step_eq : forall st p t,
  queue_step st p t = if try_index_error p t then Ok (st, []) else stream_step st p t.
Proof.
  intros st p t. rewrite queue_step_generic, stream_step_generic. unfold generic_step, try_index_error.
  destruct p as [s|[l|y]].
  - destruct t as [[l|y]|]; [destruct l; reflexivity|destruct y; reflexivity|reflexivity].
  - destruct l; reflexivity.
  - destruct y; reflexivity.
Qed.

Corollary stream_ok_queue_ok : forall st p t r, stream_step st p t = Ok r -> queue_step st p t = Ok r.
Proof.
  intros st p t r H. rewrite queue_step_eq. destruct (try_index_error p t) eqn:E; [|exact H].
  exfalso. rewrite stream_step_generic in H. unfold generic_step, try_index_error in *.
  destruct p as [s|[l|y]]; try discriminate.
  - destruct t as [[l|y]|]; try discriminate. destruct y; discriminate.
  - destruct y; discriminate.
Qed.

Theorem runs_agree : forall ins st outs fin,
  asm_run stream_step st ins = (outs, Ok fin) -> asm_run queue_step st ins = (outs, Ok fin).
Proof.
  induction ins as [|[p t] ins IH]; intros st outs fin H; simpl in *; [exact H|].
  destruct (stream_step st p t) as [[st' out]|e] eqn:E; [|inversion H].
  rewrite (stream_ok_queue_ok _ _ _ _ E).
  destruct (asm_run stream_step st' ins) as [outs' fin'] eqn:E2. inversion H; subst.
  rewrite (IH _ _ _ E2). reflexivity.
Qed.

Theorem runs_equal_without_index_error : forall ins st,
  Forall (fun l => try_index_error (fst l) (snd l) = false) ins ->
  asm_run queue_step st ins = asm_run stream_step st ins.
Proof.
  induction ins as [|[p t] ins IH]; intros st F; [reflexivity|]. inversion F as [|? ? F1 F2]; subst. simpl in *.
  rewrite queue_step_eq, F1. destruct (stream_step st p t) as [[st' out]|e]; [|reflexivity].
  rewrite (IH st' F2). reflexivity.
Qed.

(* ---------------------------------------------------------------- the front-ends feed the same lines *)

Definition passes_filter (l : byte_line) : Prop := 10 < pyl_len l /\ should_parse l = true.

Lemma stream_source_id : forall ls, Forall passes_filter ls -> stream_source ls = ls.
Proof.
  induction ls as [|l ls IH]; intro F; [reflexivity|]. inversion F as [|? ? [F1 F2] F3]; subst.
  unfold stream_source in *. simpl. rewrite F2.
  replace (pyl_len l <=? 10) with false by (symmetry; apply Z.leb_gt; exact F1). simpl. rewrite IH by exact F3. reflexivity.
Qed.

Lemma split_after_lf_line : forall l cur rest, ~ In 10 l ->
  split_after_lf_acc cur (l ++ 10 :: rest) = (rev cur ++ l ++ [10]) :: split_after_lf_acc [] rest.
Proof.
  induction l as [|c l IH]; intros cur rest H; simpl.
  - reflexivity.
  - destruct (c =? 10) eqn:E; [apply Z.eqb_eq in E; exfalso; apply H; left; auto|].
    rewrite IH by (intro C; apply H; right; exact C). simpl. rewrite <- app_assoc. reflexivity.
Qed.

Definition terminated (l : byte_line) : byte_line := l ++ [10].

Lemma split_after_lf_lines : forall ls, Forall (fun l => ~ In 10 l) ls ->
  split_after_lf (concat (map terminated ls)) = map terminated ls.
Proof.
  unfold split_after_lf. induction ls as [|l ls IH]; intro F; [reflexivity|]. inversion F; subst.
  simpl. unfold terminated at 1. rewrite <- app_assoc. simpl. rewrite split_after_lf_line by assumption.
  simpl. rewrite IH by assumption. reflexivity.
Qed.

Lemma passes_filter_terminated : forall l, passes_filter l -> passes_filter (terminated l).
Proof.
  intros l [H1 H2]. unfold passes_filter, terminated, pyl_len in *. rewrite app_length. simpl. split; [lia|].
  destruct l; [discriminate|exact H2].
Qed.

(* Every front-end hands the same line list to its loop: lines longer than 10 bytes that start with ! $ or \ and
   contain no LF (the terminator LF is appended; a CR before it is part of l). *)
Theorem frontends_agree : forall ls, Forall passes_filter ls -> Forall (fun l => ~ In 10 l) ls ->
  let lines := map terminated ls in
  iter_source lines = lines /\ bytestream_source lines = lines /\ binaryio_source (concat lines) = lines /\
  iter_source ls = ls /\ bytestream_source ls = ls.
Proof.
  intros ls F N lines.
  assert (F' : Forall passes_filter lines).
  { unfold lines. clear N. induction F; simpl; constructor; auto. apply passes_filter_terminated. assumption. }
  split; [reflexivity|]. split; [apply stream_source_id; exact F'|]. split.
  - unfold binaryio_source, lines. rewrite split_after_lf_lines by exact N. apply stream_source_id. exact F'.
  - split; [reflexivity|apply stream_source_id; exact F].
Qed.

(* ================================================================ assemble_from_iterable is independent of the order of its parts *)

Lemma insert_by_frag_perm : forall m l, Permutation (insert_by_frag m l) (m :: l).
Proof.
  induction l as [|x r IH]; simpl; [apply Permutation_refl|].
  destruct (a_frag_num m <? a_frag_num x); [apply Permutation_refl|].
  apply perm_trans with (x :: m :: r); [apply perm_skip; exact IH|apply perm_swap].
Qed.

Lemma sort_by_frag_perm : forall l, Permutation (sort_by_frag l) l.
Proof.
  induction l as [|x r IH]; [apply Permutation_refl|]. unfold sort_by_frag in *. simpl.
  apply perm_trans with (x :: fold_right insert_by_frag [] r); [apply insert_by_frag_perm|apply perm_skip; exact IH].
Qed.

(* sorted by fragment number, weakly *)
Fixpoint num_sorted (l : list ais_sentence) : Prop :=
  match l with
  | [] => True
  | x :: r => Forall (fun y => a_frag_num x <= a_frag_num y) r /\ num_sorted r
  end.

Lemma insert_by_frag_sorted : forall m l, num_sorted l -> num_sorted (insert_by_frag m l).
Proof.
  induction l as [|x r IH]; intro S; simpl; [split; [constructor|exact I]|].
  destruct S as [S1 S2]. destruct (a_frag_num m <? a_frag_num x) eqn:E.
  - apply Z.ltb_lt in E. split; [|split; assumption].
    constructor; [lia|]. eapply Forall_impl; [|exact S1]. simpl. intros; lia.
  - apply Z.ltb_ge in E. split; [|apply IH; exact S2].
    apply (Permutation_Forall (Permutation_sym (insert_by_frag_perm m r))). constructor; [exact E|exact S1].
Qed.

Lemma sort_by_frag_sorted_out : forall l, num_sorted (sort_by_frag l).
Proof.
  induction l as [|x r IH]; [exact I|]. unfold sort_by_frag in *. simpl. apply insert_by_frag_sorted. exact IH.
Qed.

Lemma sorted_perm_unique : forall l1 l2, num_sorted l1 -> num_sorted l2 -> Permutation l1 l2 ->
  NoDup (map a_frag_num l1) -> l1 = l2.
Proof.
  induction l1 as [|a l1 IH]; intros l2 S1 S2 P N.
  - apply Permutation_nil in P. subst. reflexivity.
  - destruct l2 as [|b l2]; [apply Permutation_sym, Permutation_nil in P; discriminate|].
    destruct S1 as [A1 A2]. destruct S2 as [B1 B2]. simpl in N. inversion N as [|? ? N1 N2]; subst.
    assert (Hab : a = b).
    { assert (Hb : In b (a :: l1)) by (apply (Permutation_in _ (Permutation_sym P)); left; reflexivity).
      assert (Ha : In a (b :: l2)) by (apply (Permutation_in _ P); left; reflexivity).
      destruct Hb as [Hb|Hb]; [exact Hb|]. destruct Ha as [Ha|Ha]; [auto|].
      rewrite Forall_forall in A1, B1. assert (K1 := A1 b Hb). assert (K2 := B1 a Ha).
      exfalso. apply N1. replace (a_frag_num a) with (a_frag_num b) by lia. apply in_map. exact Hb. }
    subst b. f_equal. apply IH; auto. apply Permutation_cons_inv with a. exact P.
Qed.

Theorem sort_by_frag_permutation : forall l l', Permutation l l' -> NoDup (map a_frag_num l) ->
  sort_by_frag l = sort_by_frag l'.
Proof.
  intros l l' P N. apply sorted_perm_unique; try apply sort_by_frag_sorted_out.
  - apply perm_trans with l; [apply sort_by_frag_perm|]. apply perm_trans with l'; [exact P|].
    apply Permutation_sym, sort_by_frag_perm.
  - apply (Permutation_NoDup (Permutation_map a_frag_num (Permutation_sym (sort_by_frag_perm l)))). exact N.
Qed.

(* what decode() and the readers observe of an assembled sentence besides the identity of messages[0] *)
Definition assembled_view (r : M ais_sentence) : option (bytes * bytes * bits * bool * Z) :=
  match r with
  | Ok a => Some (c_raw (a_common a), a_payload a, a_bits a, c_is_valid (a_common a), a_ais_id a)
  | Raise _ => None
  end.

Theorem assemble_perm : forall l l', Permutation l l' -> NoDup (map a_frag_num l) ->
  assembled_view (assemble_from_iterable l) = assembled_view (assemble_from_iterable l').
Proof.
  intros l l' P N. unfold assemble_from_iterable. rewrite (sort_by_frag_permutation l l' P N).
  destruct l as [|a l]; destruct l' as [|b l'].
  - reflexivity.
  - apply Permutation_nil in P. discriminate.
  - apply Permutation_sym, Permutation_nil in P. discriminate.
  - reflexivity.
Qed.

(* ================================================================ properties of spec_wrapper itself *)

Fixpoint no_wrap (evs : list asm_event) : Prop :=
  match evs with
  | [] => True
  | EWrap _ :: _ => False
  | _ :: r => no_wrap r
  end.

(* without a wrapper line, nothing is attached *)
Lemma spec_wrapper_none : forall evs, no_wrap evs -> Forall (Forall (eq None)) (spec_wrapper_from None evs).
Proof.
  induction evs as [|[g| |] r IH]; intro H; simpl in *; [constructor|destruct H| |]; constructor; auto.
Qed.

(* after a delivery nothing is pending: each wrapper reaches at most one message *)
Lemma spec_wrapper_consumed : forall p r, spec_wrapper_from p (EDeliver :: r) = [p] :: spec_wrapper_from None r.
Proof. reflexivity. Qed.

(* of several wrappers the latest one counts; lines without delivery keep it pending *)
Lemma spec_wrapper_latest : forall p g r, spec_wrapper_from p (EWrap g :: r) = [] :: spec_wrapper_from (Some g) r.
Proof. reflexivity. Qed.

(* ================================================================ the decision procedure for WF is sound *)

Lemma asm_optz_eqb_eq : forall a b, asm_optz_eqb a b = true -> a = b.
Proof. intros [x|] [y|] H; simpl in H; try discriminate; auto. apply Z.eqb_eq in H. congruence. Qed.

Lemma asm_lz_eqb_eq : forall a b, asm_lz_eqb a b = true -> a = b.
Proof.
  induction a as [|x a IH]; intros [|y b] H; simpl in H; try discriminate; auto.
  apply andb_true_iff in H. destruct H as [H1 H2]. apply Z.eqb_eq in H1. apply IH in H2. congruence.
Qed.

Lemma asm_lz_eqb_refl : forall a, asm_lz_eqb a a = true.
Proof. induction a; simpl; auto. rewrite Z.eqb_refl. auto. Qed.

Lemma distinct_ok_sound : forall fs, asm_distinct_ok fs = true -> forall m, NoDup (map f_num (frags_of m fs)).
Proof.
  induction fs as [|f r IH]; intros H m; [constructor|]. simpl in H. apply andb_true_iff in H. destruct H as [H1 H2].
  unfold frags_of. simpl. destruct (Nat.eqb (sf_msg f) m) eqn:E; [|apply IH; exact H2].
  simpl. constructor; [|apply IH; exact H2].
  intro C. apply in_map_iff in C. destruct C as [g [G1 G2]]. apply filter_In in G2. destruct G2 as [G2 G3].
  rewrite forallb_forall in H1. specialize (H1 g G2). apply negb_true_iff in H1.
  apply Nat.eqb_eq in E. apply Nat.eqb_eq in G3. subst m.
  rewrite G3, Nat.eqb_refl, G1, Z.eqb_refl in H1. discriminate.
Qed.

Lemma overlap_ok_sound : forall rest p, asm_overlap_ok p rest = true ->
  forall p' f r, rest = p' ++ f :: r -> f_single f = false ->
  forall g, In g (p ++ p') -> f_single g = false -> f_slot g = f_slot f -> sf_msg g <> sf_msg f ->
  Z.of_nat (length (frags_of (sf_msg g) (p ++ p'))) = f_cnt g.
Proof.
  induction rest as [|x rest IH]; intros p H p' f r E Hs g Hg Hsg Hslot Hm.
  - destruct p'; discriminate.
  - simpl in H. apply andb_true_iff in H. destruct H as [H1 H2].
    destruct p' as [|y p']; simpl in E; inversion E; subst.
    + rewrite app_nil_r in *. rewrite Hs in H1. simpl in H1. assert (H1g := proj1 (forallb_forall _ _) H1 g Hg). clear H1. rename H1g into H1. simpl in H1.
      rewrite Hsg in H1. simpl in H1.
      replace (asm_slot_eqb2 (f_slot g) (f_slot f)) with true in H1
        by (rewrite Hslot; unfold asm_slot_eqb2; rewrite Z.eqb_refl, asm_lz_eqb_refl; reflexivity).
      simpl in H1. apply Nat.eqb_neq in Hm. rewrite Hm in H1. simpl in H1. apply Z.eqb_eq. exact H1.
    + replace (p ++ y :: p') with ((p ++ [y]) ++ p') in * by (rewrite <- app_assoc; reflexivity).
      apply (IH (p ++ [y]) H2 p' f r eq_refl Hs g Hg Hsg Hslot Hm).
Qed.

Theorem wf_check_sound : forall s, asm_wf_check s = true -> WF s.
Proof.
  intros s H. unfold asm_wf_check in H. apply andb_true_iff in H. destruct H as [H Hk].
  unfold asm_wf_frags_check in H. apply andb_true_iff in H. destruct H as [H Ho].
  apply andb_true_iff in H. destruct H as [H Hd]. apply andb_true_iff in H. destruct H as [Hr Hs]. split.
  - constructor.
    + intros f Hf. rewrite forallb_forall in Hr. specialize (Hr f Hf). unfold asm_range_ok in Hr.
      apply andb_true_iff in Hr. destruct Hr as [A B]. apply Z.leb_le in A. apply Z.leb_le in B. lia.
    + intros f g Hf Hg E. rewrite forallb_forall in Hs. specialize (Hs f Hf). rewrite forallb_forall in Hs.
      specialize (Hs g Hg). unfold asm_same_ok in Hs. rewrite E, Nat.eqb_refl in Hs. simpl in Hs.
      repeat (apply andb_true_iff in Hs; destruct Hs as [Hs ?]).
      split; [apply asm_optz_eqb_eq; assumption|]. split; [apply asm_lz_eqb_eq; assumption|apply Z.eqb_eq; assumption].
    + apply distinct_ok_sound. exact Hd.
    + intros p f r E. apply (overlap_ok_sound _ [] Ho p f r E).
  - intros e He. rewrite forallb_forall in Hk. apply (Hk _ He).
Qed.
