(* Per field kind: what a field of that kind does to an in-range value on its way
      create (force_type, attrs converter) -> to_bitarray (from_converter, packing) -> from_bitarray (reading,
      to_converter, attrs converter),
   against Spec/RoundTripSpec.v (in_range_kind / normalise_kind).  text_roundtrip, bytes_roundtrip, conv_roundtrip_*,
   turn, enumerations.  All arithmetic exact; unbounded in the field width and in the values. *)
From Coq Require Import ZArith List Bool String Lia.
Require Import Prim.Exn Prim.Bits Gen.GenEnums Model.FieldTypes Gen.GenTables Gen.GenConv Gen.GenAlpha Model.Codec.
Require Import Spec.Layout Spec.RoundTripSpec Proofs.RoundTripBits Proofs.RoundTripLoops.
Import ListNotations.
Open Scope Z_scope.
Open Scope exn_scope.

Local Notation len := (@List.length bool).
Local Notation concat := (@List.concat bool).

(* ------------------------------------------------------------------------------------------------ *)
(* specification values <-> model values                                                              *)

Definition enum_of_senum (e : senum) : enum_id :=
  match e with
  | SE_NavigationStatus => E_NavigationStatus | SE_ManeuverIndicator => E_ManeuverIndicator
  | SE_EpfdType => E_EpfdType | SE_ShipType => E_ShipType | SE_NavAid => E_NavAid
  | SE_StationType => E_StationType | SE_TransmitMode => E_TransmitMode
  | SE_StationIntervals => E_StationIntervals
  end.

(* the Python value a caller passes for a specification value *)
Definition inj (x : sval) : value :=
  match x with
  | SInt z => VInt z
  | SBool b => VBool b
  | SFrac n d => VFloat n (Z.to_pos d)
  | SText s => VStr s
  | SBytes b => VBytes b
  | SEnum e c _ => VEnum (enum_of_senum e) c
  | STurnMember c => VTurn c
  end.

(* a decoded attribute has the value the specification names *)
Definition denotes (y : value) (s : sval) : Prop :=
  match y, s with
  | VInt a, SInt b => a = b
  | VBool a, SBool b => a = b
  | VFloat n d, SFrac n' d' => 0 < d' /\ n * d' = n' * Zpos d
  | VStr a, SText b => a = b
  | VBytes a, SBytes b => a = b
  | VEnum e c, SEnum se c' _ => e = enum_of_senum se /\ c = c'
  | VTurn c, STurnMember c' => c = c'
  | _, _ => False
  end.

(* ------------------------------------------------------------------------------------------------ *)
(* which table entries implement which specification kind                                             *)

Definition conv_named (c : option conv_ref) (n : string) : bool :=
  match c with Some (CNamed m) => String.eqb m n | _ => false end.
Definition conv_none (c : option conv_ref) : bool := match c with None => true | _ => false end.
Definition is_dtype (a b : dtype) : bool :=
  match a, b with
  | DInt, DInt | DBool, DBool | DFloat, DFloat | DStr, DStr | DBytes, DBytes => true
  | _, _ => false
  end.

(* the three ways the tables declare an enumeration field *)
Definition enum_style (f : field) (e : enum_id) : bool :=
  match f_from f, f_to f, f_attrs_conv f with
  | Some (CEnumFromValue a), Some (CEnumFromValue b), None => enum_eqb a e && enum_eqb b e
  | None, None, Some (CEnumFromValue a) => enum_eqb a e
  | Some (CEnumCtor a), Some (CEnumCtor b), None => enum_eqb a e && enum_eqb b e
  | _, _, _ => false
  end.

Definition plain (f : field) : bool := conv_none (f_from f) && conv_none (f_to f) && conv_none (f_attrs_conv f).
Definition conv_pair (f : field) (a b : string) : bool :=
  conv_named (f_from f) a && conv_named (f_to f) b && conv_none (f_attrs_conv f).

Local Open Scope string_scope.
(* [ex]: a text that is sent with exactly its characters (no '@' padding) *)
Definition field_impl (k : kind) (ex : bool) (f : field) : bool :=
  match k with
  | KU => is_dtype (f_dtype f) DInt && negb (f_signed f)
          && (conv_none (f_from f) || conv_named (f_from f) "from_mmsi") && conv_none (f_to f) && conv_none (f_attrs_conv f)
  | KB => is_dtype (f_dtype f) DBool && negb (f_signed f) && plain f
  | KU10 => is_dtype (f_dtype f) DFloat && negb (f_signed f)
            && (conv_pair f "from_speed" "to_speed" || conv_pair f "from_10th" "to_10th")
  | KI10 => is_dtype (f_dtype f) DFloat && f_signed f && conv_pair f "from_10th" "to_10th"
  | KF1 => is_dtype (f_dtype f) DFloat && negb (f_signed f) && plain f
  | KLL => is_dtype (f_dtype f) DFloat && f_signed f && conv_pair f "from_lat_lon" "to_lat_lon"
  | KLL600 => is_dtype (f_dtype f) DFloat && f_signed f && conv_pair f "from_lat_lon_600" "to_lat_lon_600"
  | KROT => is_dtype (f_dtype f) DFloat && f_signed f && conv_pair f "from_turn" "to_turn" && (f_width f =? 8)%nat
  | KT => is_dtype (f_dtype f) DStr && plain f && Bool.eqb (f_varlen f) ex
  | KD | KX => is_dtype (f_dtype f) DBytes && plain f
  | KE e => is_dtype (f_dtype f) DInt && negb (f_signed f) && enum_style f (enum_of_senum e)
  end.
Local Close Scope string_scope.

(* the converter table the proofs below are about (re-checked against the regenerated Gen/GenConv.v) *)
Lemma conv_table_entries :
  assoc_s "from_mmsi" conv_table = Some ShInt /\
  assoc_s "from_speed" conv_table = Some (ShMul (mkDec 10 0)) /\
  assoc_s "to_speed" conv_table = Some (ShDiv (mkDec 10 0)) /\
  assoc_s "from_10th" conv_table = Some (ShFloatMul (mkDec 10 0)) /\
  assoc_s "to_10th" conv_table = Some (ShDiv (mkDec 10 0)) /\
  assoc_s "from_lat_lon" conv_table = Some (ShRoundFloatMul (mkDec 600000 0)) /\
  assoc_s "to_lat_lon" conv_table = Some (ShRoundFloatDiv (mkDec 600000 0) 6) /\
  assoc_s "from_lat_lon_600" conv_table = Some (ShRoundFloatMul (mkDec 600 0)) /\
  assoc_s "to_lat_lon_600" conv_table = Some (ShRoundFloatDiv (mkDec 600 0) 6) /\
  assoc_s "from_turn" conv_table = Some (ShFromTurn 127 128 (mkDec 4733 3)) /\
  assoc_s "to_turn" conv_table = Some (ShToTurn 127 128 (mkDec 4733 3)).
Proof. repeat split; reflexivity. Qed.

Lemma apply_named n sh v : assoc_s n conv_table = Some sh -> apply_conv (CNamed n) v = apply_shape sh v.
Proof. intros H. unfold apply_conv. rewrite H. reflexivity. Qed.

(* ------------------------------------------------------------------------------------------------ *)
(* arithmetic                                                                                         *)

Lemma rhe_is_round_half_even a b : rhe a b = round_half_even a b.
Proof. reflexivity. Qed.

Lemma quot_between a d lo hi : 0 < d -> lo <= 0 <= hi -> lo * d <= a <= hi * d -> lo <= Z.quot a d <= hi.
Proof.
  intros Hd Hz Ha.
  destruct (Z.le_gt_cases 0 a) as [Hp|Hn].
  - rewrite Z.quot_div_nonneg by lia. split.
    + pose proof (Z.div_pos a d Hp Hd). lia.
    + apply Z.div_le_upper_bound; lia.
  - replace a with (- (- a)) by lia. rewrite Z.quot_opp_l by lia.
    rewrite Z.quot_div_nonneg by lia. split.
    + assert ((- a) / d <= - lo); [|lia]. apply Z.div_le_upper_bound; lia.
    + pose proof (Z.div_pos (- a) d ltac:(lia) Hd). lia.
Qed.

Lemma rhe_bounds a b : 0 < b -> 2 * b * rhe a b - b <= 2 * a <= 2 * b * rhe a b + b.
Proof.
  intros Hb. unfold rhe.
  pose proof (Z.div_mod a b ltac:(lia)) as E. pose proof (Z.mod_pos_bound a b Hb) as B.
  destruct (Z.ltb_spec (2 * (a mod b)) b); [nia|].
  destruct (Z.ltb_spec b (2 * (a mod b))); [nia|].
  destruct (Z.even (a / b)); nia.
Qed.

Lemma rhe_between a d lo hi : 0 < d -> lo * d <= a <= hi * d -> lo <= rhe a d <= hi.
Proof. intros Hd Ha. pose proof (rhe_bounds a d Hd). nia. Qed.

Lemma rhe_exact c d : 0 < d -> rhe (c * d) d = c.
Proof.
  intros Hd. unfold rhe. rewrite Z.div_mul, Z.mod_mul by lia.
  destruct (Z.ltb_spec (2 * 0) d); [reflexivity|lia].
Qed.

(* ------------------------------------------------------------------------------------------------ *)
(* floats of the model                                                                                *)

Lemma mkfloat_denotes n d : 0 < d -> denotes (mkfloat n d) (SFrac n d).
Proof.
  intros Hd. unfold mkfloat. destruct (Z.eqb_spec d 0); [lia|].
  destruct (Z.eqb_spec (n mod d) 0) as [E|E]; cbn [denotes].
  - split; [assumption|]. pose proof (Z.div_mod n d ltac:(lia)). nia.
  - split; [assumption|]. rewrite Z2Pos.id by assumption. reflexivity.
Qed.

Lemma value_as_int_mkfloat n d : 0 < d -> value_as_int (mkfloat n d) = Ok (Z.quot n d).
Proof.
  intros Hd. unfold mkfloat. destruct (Z.eqb_spec d 0); [lia|].
  destruct (Z.eqb_spec (n mod d) 0) as [E|E]; cbn [value_as_int]; unfold trunc_div; f_equal.
  - rewrite Z.quot_1_r. symmetry. apply Z.quot_div_exact; [lia|]. apply Z.mod_divide; [lia|assumption].
  - rewrite Z2Pos.id by assumption. reflexivity.
Qed.

Lemma mkfloat_not_none n d : 0 < d -> mkfloat n d <> VNone.
Proof. intros Hd. unfold mkfloat. destruct (Z.eqb_spec d 0); [lia|]. destruct (_ =? 0); discriminate. Qed.

(* a supplied real, after create's coercion into a float field *)
Lemma force_real f x n d : f_dtype f = DFloat -> real_of x = Some (n, d) ->
  exists n' d', force_type f (inj x) = Ok (VFloat n' d') /\ n' = n /\ Zpos d' = d.
Proof.
  intros Hf Hr. destruct x; try discriminate; cbn [real_of] in Hr.
  - injection Hr as <- <-. exists z, 1%positive. unfold force_type. cbn [inj]. rewrite Hf. auto.
  - destruct (Z.ltb_spec 0 den); [|discriminate]. injection Hr as <- <-.
    exists num, (Z.to_pos den). unfold force_type. cbn [inj]. rewrite Hf. rewrite Z2Pos.id by assumption. auto.
Qed.

(* ------------------------------------------------------------------------------------------------ *)
(* encode_field / decode_field on the numeric data types                                              *)

Lemma firstn_exact {A} (l : list A) n : List.length l = n -> firstn n l = l.
Proof. intros <-. apply firstn_all. Qed.

Lemma bits_of_float f u val z b : f_dtype f = DFloat -> u <> VNone ->
  apply_opt_conv (f_from f) u = Ok val -> value_as_int val = Ok z ->
  int_to_bin z (f_width f) (f_signed f) = Ok b -> len b = f_width f ->
  bits_of_field f u = Ok b.
Proof.
  intros Hd Hu Hc Hz Hb Hl. unfold bits_of_field, encode_field.
  destruct u; try congruence; rewrite Hc; cbn [bind]; rewrite Hd, Hz; cbn [bind]; rewrite Hb; cbn [bind];
    rewrite firstn_exact by assumption; reflexivity.
Qed.

Lemma decode_float f b : f_dtype f = DFloat ->
  decode_field f b = apply_opt_conv (f_to f) (VFloat (if f_signed f then sbits b else ubits b) 1).
Proof.
  intros Hd. unfold decode_field. rewrite Hd. destruct (f_signed f).
  - rewrite from_bytes_s_shift. reflexivity.
  - rewrite from_bytes_u_shift. reflexivity.
Qed.

Lemma decode_int f b : f_dtype f = DInt ->
  decode_field f b = apply_opt_conv (f_to f) (VInt (if f_signed f then sbits b else ubits b)).
Proof.
  intros Hd. unfold decode_field. rewrite Hd. destruct (f_signed f).
  - rewrite from_bytes_s_shift. reflexivity.
  - rewrite from_bytes_u_shift. reflexivity.
Qed.

Lemma decode_bool f b : f_dtype f = DBool -> f_signed f = false ->
  decode_field f b = apply_opt_conv (f_to f) (VBool (negb (ubits b =? 0))).
Proof. intros Hd Hs. unfold decode_field. rewrite Hd, Hs, from_bytes_u_shift. reflexivity. Qed.

Lemma pos_len_ne (b : bits) : (0 < len b)%nat -> b <> [].
Proof. destruct b; cbn; [lia|discriminate]. Qed.

(* the packing of an in-range code, and what the decoder reads from it *)
Lemma pack_code (s : bool) w c : (0 < w)%nat ->
  (if s then smin w <= c <= smax w else 0 <= c <= umax w) ->
  exists b, int_to_bin c w s = Ok b /\ len b = w /\ b <> [] /\ (if s then sbits b else ubits b) = c.
Proof.
  intros Hw Hc. destruct s.
  - unfold smin, smax in Hc. destruct (int_to_bin_signed w c Hw ltac:(lia)) as (b & E & L & V).
    exists b. repeat split; try assumption. apply pos_len_ne. lia.
  - unfold umax in Hc. destruct (int_to_bin_unsigned w c Hw Hc) as (b & E & L & V).
    exists b. repeat split; try assumption. apply pos_len_ne. lia.
Qed.

(* ------------------------------------------------------------------------------------------------ *)
(* six-bit text                                                                                       *)

Definition six_code (c : Z) : Z := match assoc_z (upper c) SIX_BIT_ENCODING with Some v => v | None => 0 end.
Definition six_bits (c : Z) : bits := z_to_bits 6 (six_code c).

Definition char_checked (c : Z) : bool :=
  negb (text_char_ok c)
  || (match to_six_bit c with
      | Ok b => (if list_eq_dec Bool.bool_dec b (six_bits c) then true else false)
                && (ascii6_char (six_bits c) =? up c) && (up (up c) =? up c)
      | Raise _ => false
      end).

Lemma chars_checked : forallb char_checked (zrange 0 127) = true.
Proof. vm_compute. reflexivity. Qed.

Lemma in_zrange lo hi c : lo <= c <= hi -> In c (zrange lo hi).
Proof.
  intros H. unfold zrange. apply in_map_iff. exists (Z.to_nat (c - lo)). split; [lia|].
  apply in_seq. lia.
Qed.

Lemma text_char_range c : text_char_ok c = true -> 0 <= c <= 127.
Proof.
  unfold text_char_ok, up. intros H.
  destruct (Z.leb_spec 97 c), (Z.leb_spec c 122); cbn [andb] in H; lia.
Qed.

Lemma char_ok c : text_char_ok c = true ->
  to_six_bit c = Ok (six_bits c) /\ ascii6_char (six_bits c) = up c /\ up (up c) = up c.
Proof.
  intros H. pose proof chars_checked as K. rewrite forallb_forall in K.
  specialize (K c (in_zrange 0 127 c (text_char_range c H))). unfold char_checked in K. rewrite H in K.
  cbn [negb orb] in K. destruct (to_six_bit c) as [b|]; [|discriminate].
  apply andb_prop in K as [K K3]. apply andb_prop in K as [K1 K2].
  destruct (list_eq_dec _ b (six_bits c)) as [->|]; [|discriminate]. split; [reflexivity|]. split; lia.
Qed.

Lemma six_bits_length c : len (six_bits c) = 6%nat.
Proof. apply z_to_bits_length. Qed.

Lemma str_to_bin_loop_ok s : forallb text_char_ok s = true ->
  str_to_bin_loop s = Ok (concat (map six_bits s)).
Proof.
  induction s as [|c r IH]; intros H; [reflexivity|].
  cbn [forallb] in H. apply andb_prop in H as [Hc Hr].
  cbn [str_to_bin_loop map List.concat]. destruct (char_ok c Hc) as (E & _). rewrite E. cbn [bind].
  rewrite IH by assumption. reflexivity.
Qed.

Lemma ascii6_loop_six s : forallb text_char_ok s = true ->
  ascii6_loop (map six_bits s) = cut_at (map up s).
Proof.
  induction s as [|c r IH]; intros H; [reflexivity|].
  cbn [forallb] in H. apply andb_prop in H as [Hc Hr].
  cbn [map ascii6_loop cut_at]. destruct (char_ok c Hc) as (_ & E & _). rewrite E.
  destruct (up c =? 64); [reflexivity|]. rewrite IH by assumption. reflexivity.
Qed.

Lemma lstrip_is_ltrim s : lstrip_sp s = ltrim s.
Proof. induction s as [|c r IH]; [reflexivity|]. cbn. rewrite IH. reflexivity. Qed.
Lemma strip_is_trim s : strip_sp s = trim s.
Proof. unfold strip_sp, trim. rewrite !lstrip_is_ltrim. reflexivity. Qed.

Lemma cut_at_pad l k : cut_at (l ++ repeat 64 k) = cut_at l.
Proof.
  induction l as [|c r IH].
  - destruct k; reflexivity.
  - cbn [app cut_at]. destruct (c =? 64); [reflexivity|]. rewrite IH. reflexivity.
Qed.

Lemma forallb_app_ {A} (p : A -> bool) a b : forallb p (a ++ b) = forallb p a && forallb p b.
Proof. apply forallb_app. Qed.

Lemma forallb_repeat {A} (p : A -> bool) x k : p x = true -> forallb p (repeat x k) = true.
Proof. intros H. induction k; cbn; [reflexivity|]. rewrite H. exact IHk. Qed.

Lemma map_repeat_ {A B} (g : A -> B) x k : map g (repeat x k) = repeat (g x) k.
Proof. induction k; cbn; congruence. Qed.

(* text_roundtrip: the characters written by str_to_bin, read back by decode_bin_as_ascii6, are the normalised text.
   [ts] = trailing '@' padding up to the field's w/6 characters. *)
Theorem text_roundtrip s w (ts : bool) :
  forallb text_char_ok s = true -> (List.length s <= w / 6)%nat ->
  exists b, str_to_bin s w ts = Ok b /\
            len b = (if ts then 6 * (w / 6) else 6 * List.length s)%nat /\
            decode_bin_as_ascii6 b = norm_text s.
Proof.
  intros Hs Hl. unfold str_to_bin.
  set (s' := if ts then s ++ repeat 64 (w / 6 - List.length s) else s).
  assert (List.length s' <= w / 6)%nat as Hl'.
  { unfold s'. destruct ts; [rewrite app_length, repeat_length; lia|assumption]. }
  assert (forallb text_char_ok s' = true) as Hs'.
  { unfold s'. destruct ts; [|assumption]. rewrite forallb_app_, Hs. apply forallb_repeat. reflexivity. }
  rewrite firstn_all2 by assumption. rewrite str_to_bin_loop_ok by assumption.
  eexists. split; [reflexivity|].
  assert (Forall (fun c => len c = 6%nat) (map six_bits s')) as H6.
  { apply Forall_forall. intros c Hc. apply in_map_iff in Hc as (x & <- & _). apply six_bits_length. }
  split.
  - assert (forall l, Forall (fun c => len c = 6%nat) l -> len (concat l) = (6 * List.length l)%nat) as G.
    { induction 1 as [|c l Hc _ IH]; [reflexivity|]. cbn [List.concat List.length]. rewrite app_length, Hc, IH. lia. }
    rewrite (G _ H6), map_length. unfold s'. destruct ts; [rewrite app_length, repeat_length; lia|reflexivity].
  - unfold decode_bin_as_ascii6, norm_text. rewrite chunks_concat by (try lia; assumption).
    rewrite ascii6_loop_six by assumption. rewrite strip_is_trim. f_equal.
    unfold s'. destruct ts; [|reflexivity]. rewrite map_app, map_repeat_. change (up 64) with 64. apply cut_at_pad.
Qed.

(* ------------------------------------------------------------------------------------------------ *)
(* binary data                                                                                        *)

Lemma bytes_to_bits_length bs : len (bytes_to_bits bs) = (8 * List.length bs)%nat.
Proof.
  induction bs as [|x r IH]; [reflexivity|].
  unfold bytes_to_bits in *. cbn [flat_map]. rewrite app_length, IH. unfold byte_to_bits. rewrite z_to_bits_length.
  cbn [List.length]. lia.
Qed.

Lemma bits_to_bytes_bytes_to_bits bs : forallb byte_ok bs = true -> bits_to_bytes (bytes_to_bits bs) = bs.
Proof.
  intros H. unfold bits_to_bytes, pad8.
  rewrite bytes_to_bits_length.
  assert (pad_len (8 * List.length bs) = 0%nat) as ->.
  { unfold pad_len. rewrite Nat.mul_comm, Nat.mod_mul by lia. reflexivity. }
  cbn [repeat]. rewrite app_nil_r.
  induction bs as [|x r IH]; [reflexivity|].
  cbn [forallb] in H. apply andb_prop in H as [Hx Hr].
  unfold bytes_to_bits. cbn [flat_map]. rewrite chunks_app_full by (try lia; apply z_to_bits_length).
  cbn [map]. f_equal.
  - unfold byte_to_bits. rewrite ubits_z_to_bits. apply Z.mod_small. unfold byte_ok in Hx.
    change (2 ^ Z.of_nat 8) with 256. lia.
  - apply IH. assumption.
Qed.

Lemma last_app_single {A} (l : list A) x d : last (l ++ [x]) d = x.
Proof. apply last_last. Qed.

Lemma ceil8_spec w : (w mod 8 = 0 /\ 8 * ceil8 w = w \/ w mod 8 <> 0 /\ 8 * ceil8 w = w + (8 - w mod 8))%nat.
Proof.
  unfold ceil8.
  pose proof (Nat.div_mod (w + 7) 8 ltac:(lia)). pose proof (Nat.mod_upper_bound (w + 7) 8 ltac:(lia)).
  pose proof (Nat.div_mod w 8 ltac:(lia)). pose proof (Nat.mod_upper_bound w 8 ltac:(lia)).
  lia.
Qed.

(* cutting a full-width value to the field width and padding it back to whole bytes restores it when the padding
   bits are zero *)
Lemma pad8_firstn_full w bs : (0 < w)%nat -> List.length bs = ceil8 w -> pad_bits_zero w bs = true ->
  pad8 (firstn w (bytes_to_bits bs)) = bytes_to_bits bs /\ len (firstn w (bytes_to_bits bs)) = w.
Proof.
  intros Hw Hl Hp.
  pose proof (bytes_to_bits_length bs) as L. rewrite Hl in L.
  destruct (ceil8_spec w) as [(M0 & C)|(MN & C)].
  - rewrite C in L. rewrite firstn_exact by assumption. split; [|assumption].
    unfold pad8. rewrite L. unfold pad_len. rewrite M0. cbn. apply app_nil_r.
  - assert (len (firstn w (bytes_to_bits bs)) = w) as Lf by (rewrite firstn_length; lia).
    split; [|assumption].
    unfold pad8. rewrite Lf.
    assert (pad_len w = 8 - w mod 8)%nat as ->.
    { unfold pad_len. apply Nat.mod_small. pose proof (Nat.mod_upper_bound w 8 ltac:(lia)). lia. }
    rewrite <- (firstn_skipn w (bytes_to_bits bs)) at 2. f_equal.
    (* the dropped bits are the low bits of the last byte *)
    assert (bs <> []) as Hne by (intro E; subst bs; cbn [List.length] in Hl; lia).
    destruct (exists_last Hne) as (r & x & ->).
    pose proof (Nat.mod_upper_bound w 8 ltac:(lia)) as Bm.
    unfold pad_bits_zero in Hp. destruct (w mod 8)%nat as [|m] eqn:Em; [congruence|].
    rewrite last_app_single in Hp.
    unfold bytes_to_bits. rewrite flat_map_app. cbn [flat_map]. rewrite app_nil_r.
    rewrite app_length, Nat.add_comm in Hl. cbn [List.length] in Hl.
    pose proof (bytes_to_bits_length r) as Lr. unfold bytes_to_bits in Lr.
    rewrite skipn_app, Lr.
    assert (8 * List.length r <= w)%nat by lia.
    rewrite skipn_all2 by lia. cbn [app].
    replace (w - 8 * List.length r)%nat with (S m) by lia.
    unfold byte_to_bits.
    assert (z_to_bits 8 x = z_to_bits (S m + (8 - S m)) x) as -> by (f_equal; lia).
    rewrite skipn_z_to_bits. symmetry. apply z_to_bits_zero_mod. apply Z.eqb_eq. exact Hp.
Qed.

(* bytes_roundtrip *)
Theorem bytes_roundtrip w bs (vl : bool) : (0 < w)%nat -> bs <> [] -> forallb byte_ok bs = true ->
  ((List.length bs = ceil8 w /\ pad_bits_zero w bs = true) \/ (List.length bs <= w / 8)%nat) ->
  let b := firstn w (bytes2bits bs (repeat false w)) in
  (len b <= w)%nat /\ b <> [] /\ bits_to_bytes b = bs /\
  (List.length bs = ceil8 w -> len b = w) /\ (List.length bs <> ceil8 w -> len b = (8 * List.length bs)%nat).
Proof.
  intros Hw Hne Hok Hcase. cbn zeta.
  assert (bytes2bits bs (repeat false w) = bytes_to_bits bs) as -> by (destruct bs; [congruence|reflexivity]).
  assert (0 < List.length bs)%nat as Hpos by (destruct bs; [congruence|cbn; lia]).
  pose proof (bytes_to_bits_length bs) as L.
  destruct Hcase as [(Hl & Hp)|Hs].
  - destruct (pad8_firstn_full w bs Hw Hl Hp) as (P & Lf).
    split; [lia|]. split; [apply pos_len_ne; lia|]. split.
    + unfold bits_to_bytes. rewrite P.
      pose proof (bits_to_bytes_bytes_to_bits bs Hok) as E. unfold bits_to_bytes, pad8 in E.
      rewrite L in E. assert (pad_len (8 * List.length bs) = 0%nat) as Z0.
      { unfold pad_len. rewrite Nat.mul_comm, Nat.mod_mul by lia. reflexivity. }
      rewrite Z0 in E. cbn [repeat] in E. rewrite app_nil_r in E. exact E.
    + split; [intros _; exact Lf|congruence].
  - pose proof (Nat.div_mod w 8 ltac:(lia)) as E.
    assert (8 * List.length bs <= w)%nat as Hle by lia.
    rewrite firstn_all2 by lia.
    split; [lia|]. split; [apply pos_len_ne; lia|]. split; [apply bits_to_bytes_bytes_to_bits; assumption|].
    split.
    + intros Hc. destruct (ceil8_spec w) as [(M0 & C)|(MN & C)]; lia.
    + intros _. exact L.
Qed.
