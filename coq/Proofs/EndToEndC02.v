(* Composition layer, C02 part: C02_partial (create -> to_bitarray -> decode_bits = normalise, Proofs/RoundTrip.v)
   carried through the REAL public path
       create -> to_bitarray -> encode_ascii_6 -> ais_to_nmea_0183 -> produce -> _assemble_messages -> decode
   i.e. encode_msg / encode_dict (Model/Frame.v) followed by decode_api (Model/DecodeApi.v), with Proofs/EndToEnd.v.
   The bound "at most 1800 bits" that the framing composition needs is PROVED from the regenerated field tables
   (every class serialises to at most 1064 bits, because every field is cut to its width), not assumed. *)
From Coq Require Import String ZArith List Bool Lia.
Require Import Prim.Exn Prim.Bits Model.FieldTypes Gen.GenTables Gen.GenDispatch Model.Codec Model.Frame Model.Sentence
               Model.DecodeApi Spec.Layout Spec.RoundTripSpec.
Require Import Proofs.RoundTripKinds Proofs.RoundTripDispatch Proofs.RoundTrip Proofs.FrameProofs Proofs.EndToEnd.
Import ListNotations.
Open Scope list_scope.
Open Scope Z_scope.
Local Notation length := List.length (only parsing).

(* ------------------------------------------------------------------------------------------------ *)
(* every message serialises to at most 1064 bits                                                      *)

Definition e2e_width_sum (fs : list field) : nat := fold_right (fun f a => (f_width f + a)%nat) 0%nat fs.

Lemma encode_field_length : forall f v ob, encode_field f v = Ok ob ->
  match ob with Some b => (length b <= f_width f)%nat | None => True end.
Proof.
  intros f v ob H. unfold encode_field in H.
  assert (forall (m : M bits), bind m (fun b => Ok (Some (firstn (f_width f) b))) = Ok ob ->
          match ob with Some b => (length b <= f_width f)%nat | None => True end) as K.
  { intros [b|e] Hm; [|discriminate]. cbn in Hm. injection Hm as <-. rewrite firstn_length. lia. }
  destruct v; try (injection H as <-; exact I);
    (destruct (apply_opt_conv (f_from f) _) as [val|err]; [|discriminate]; cbn [bind] in H; apply K in H; exact H).
Qed.

Lemma to_bitarray_loop_length : forall fs vs b, to_bitarray_loop fs vs = Ok b -> (length b <= e2e_width_sum fs)%nat.
Proof.
  induction fs as [|f fr IH]; intros vs b H.
  - cbn in H. injection H as <-. cbn. lia.
  - destruct vs as [|v vr]; [cbn in H; injection H as <-; cbn; lia|].
    cbn [to_bitarray_loop] in H.
    destruct (encode_field f v) as [ob|e] eqn:E; [|discriminate]. cbn [bind] in H.
    destruct (to_bitarray_loop fr vr) as [r|e] eqn:R; [|discriminate]. cbn [bind] in H. injection H as <-.
    pose proof (encode_field_length f v ob E) as Hob. specialize (IH vr r R). cbn [e2e_width_sum fold_right].
    fold (e2e_width_sum fr). destruct ob as [b0|]; [rewrite app_length|]; lia.
Qed.

Lemma e2e_all_classes_complete : forall c, In c all_classes.
Proof. destruct c; unfold all_classes; repeat (first [left; reflexivity | right]). Qed.

Lemma e2e_widths_all : forallb (fun c => (e2e_width_sum (fields_of c) <=? 1064)%nat) all_classes = true.
Proof. vm_compute. reflexivity. Qed.

Theorem to_bitarray_bound : forall c vs b, to_bitarray c vs = Ok b -> (length b <= 1064)%nat.
Proof.
  intros c vs b H. apply to_bitarray_loop_length in H.
  pose proof (proj1 (forallb_forall _ _) e2e_widths_all c (e2e_all_classes_complete c)) as K.
  apply Nat.leb_le in K. lia.
Qed.

(* (decode_bits [] is NOT an error in the payload decoder -- type id 0 is MessageType1 in MSG_CLASS and every field of
   an empty payload is None -- whereas decode() rejects an empty payload; so "at least one bit" has to come from the
   encoder side: the serialisation of a created message starts with its six type bits.) *)
Lemma created_bits_nonempty : forall v a vs b, in_range v a = true -> c02_guard v a = true ->
  create_msg (type_id v) (kwargs_of a) = Ok (cls_of v, vs) -> to_bitarray (cls_of v) vs = Ok b -> (6 <= length b)%nat.
Proof.
  intros v a vs b Hr Hg Hcr Hb.
  destruct (create_dispatch v a Hr) as (dt & ct & Hassoc & Hrun).
  unfold create_msg in Hcr. rewrite Hassoc, Hrun in Hcr. cbn [bind] in Hcr. rewrite (created v a Hr Hg) in Hcr.
  cbn [bind] in Hcr. injection Hcr as <-.
  destruct (whole_message v a Hr Hg) as (Henc & _). rewrite Henc in Hb. injection Hb as <-.
  apply (type_id_bits v a Hr Hg).
Qed.

(* ------------------------------------------------------------------------------------------------ *)
(* the `type` key of encode_dict is seen by get_ais_type only                                         *)

Local Open Scope string_scope.

Fixpoint e2e_ctree_keys (t : ctree cls) : list string :=
  match t with
  | CLeaf _ => [] | CRaise => []
  | CIfKw k _ t1 t2 => k :: e2e_ctree_keys t1 ++ e2e_ctree_keys t2
  | CIfKwIntEq k _ _ t1 t2 => k :: e2e_ctree_keys t1 ++ e2e_ctree_keys t2
  end.

Definition e2e_not_type (k : string) : bool := negb (String.eqb k "type").

Lemma assoc_s_skip_type : forall (B : Type) k (x : B) kw, e2e_not_type k = true -> assoc_s k (("type", x) :: kw) = assoc_s k kw.
Proof. intros B k x kw H. unfold e2e_not_type in H. apply negb_true_iff in H. cbn [assoc_s]. rewrite H. reflexivity. Qed.

Lemma run_ctree_skip_type : forall t x kw, forallb e2e_not_type (e2e_ctree_keys t) = true ->
  run_ctree t (("type", x) :: kw) = run_ctree t kw.
Proof.
  induction t as [c| |k d t1 IH1 t2 IH2|k d z t1 IH1 t2 IH2]; intros x kw H; try reflexivity;
    cbn [e2e_ctree_keys forallb] in H; apply andb_true_iff in H; destruct H as (Hk & H);
    rewrite forallb_app in H; apply andb_true_iff in H; destruct H as (H1 & H2);
    cbn [run_ctree]; unfold kw_get; rewrite assoc_s_skip_type by exact Hk; rewrite IH1, IH2 by assumption; reflexivity.
Qed.

Lemma force_all_skip_type : forall fs x kw, forallb (fun f => e2e_not_type (f_name f)) fs = true ->
  force_all fs (("type", x) :: kw) = force_all fs kw.
Proof.
  induction fs as [|f fr IH]; intros x kw H; [reflexivity|]. cbn [forallb] in H. apply andb_true_iff in H.
  destruct H as (Hf & Hr). cbn [force_all]. rewrite assoc_s_skip_type by exact Hf. rewrite IH by exact Hr. reflexivity.
Qed.

Lemma create_args_skip_type : forall fs x kw, forallb (fun f => e2e_not_type (f_name f)) fs = true ->
  create_args fs (("type", x) :: kw) = create_args fs kw.
Proof.
  induction fs as [|f fr IH]; intros x kw H; [reflexivity|]. cbn [forallb] in H. apply andb_true_iff in H.
  destruct H as (Hf & Hr). cbn [create_args]. rewrite assoc_s_skip_type by exact Hf. rewrite IH by exact Hr. reflexivity.
Qed.

(* over the regenerated tables: no class has an attribute called `type`, no create() dispatcher consults that key *)
Lemma e2e_no_type_field : forallb (fun c => forallb (fun f => e2e_not_type (f_name f)) (fields_of c)) all_classes = true.
Proof. vm_compute. reflexivity. Qed.

Lemma e2e_no_type_ctree : forallb (fun e => forallb e2e_not_type (e2e_ctree_keys (snd (snd e)))) msg_class_table = true.
Proof. vm_compute. reflexivity. Qed.

Lemma assoc_z_in : forall (B : Type) k (l : list (Z * B)) y, assoc_z k l = Some y -> In (k, y) l.
Proof.
  induction l as [|[k' y'] r IH]; intros y H; [discriminate|]. cbn [assoc_z] in H.
  destruct (Z.eqb_spec k k') as [->|N]; [injection H as ->; left; reflexivity|right; apply IH; exact H].
Qed.

Lemma create_msg_skip_type : forall t x kw, create_msg t (("type", x) :: kw) = create_msg t kw.
Proof.
  intros t x kw. unfold create_msg. destruct (assoc_z t msg_class_table) as [[dt ct]|] eqn:E; [|reflexivity].
  apply assoc_z_in in E. pose proof (proj1 (forallb_forall _ _) e2e_no_type_ctree _ E) as Hct. cbn [snd] in Hct.
  rewrite run_ctree_skip_type by exact Hct.
  destruct (run_ctree ct kw) as [c|e]; [|reflexivity]. cbn [bind]. unfold create_cls.
  pose proof (proj1 (forallb_forall _ _) e2e_no_type_field c (e2e_all_classes_complete c)) as Hc.
  rewrite force_all_skip_type, create_args_skip_type by exact Hc. reflexivity.
Qed.

(* an in-range assignment names fields of the layout only: it has no `type` entry *)
Lemma e2e_no_type_in_layout : forall v, find_field "type" (spec_layout v) = None.
Proof. destruct v; vm_compute; reflexivity. Qed.

Lemma in_range_no_type : forall v a, in_range v a = true -> lookup_s "type" a = None.
Proof.
  intros v a H. destruct (lookup_s "type" a) as [x|] eqn:E; [|reflexivity]. exfalso.
  apply lookup_in in E. unfold in_range in H. do 3 (apply andb_prop in H as [H _]). apply andb_prop in H as [_ H].
  rewrite forallb_forall in H. specialize (H _ E). unfold field_in_range in H. cbn [fst] in H.
  rewrite e2e_no_type_in_layout in H. discriminate.
Qed.

Lemma in_range_msg_type : forall v a x, in_range v a = true -> lookup_s "msg_type" a = Some x -> x = SInt (type_id v).
Proof.
  intros v a x H E. unfold in_range in H. apply andb_prop in H as [_ H]. rewrite E in H.
  destruct x; try discriminate. cbn in H. apply Z.eqb_eq in H. subst. reflexivity.
Qed.

(* ------------------------------------------------------------------------------------------------ *)
(* C02 end to end                                                                                     *)

(* The message built from the assignment goes through encode_msg, and through encode_dict with the type under the key
   `type` or (when the caller supplies it as the attribute) under `msg_type`; all three return the same sentences; the
   decoder entry point accepts them and returns a message of v's class whose supplied fields have their normalised
   values. *)
Definition c02_e2e_holds_for (v : variant) (a : assignment) (talker chan : list Z) : Prop :=
  exists vs ss nmea vs',
    create_msg (type_id v) (kwargs_of a) = Ok (cls_of v, vs) /\
    encode_msg (cls_of v, vs) talker chan = Ok ss /\
    encode_dict (("type", VInt (type_id v)) :: kwargs_of a) talker chan = Ok ss /\
    (lookup_s "msg_type" a <> None -> encode_dict (kwargs_of a) talker chan = Ok ss) /\
    decode_api false ss = Ok (nmea, (cls_of v, vs')) /\
    agrees (cls_of v) vs' (normalise v a).

Theorem c02_end_to_end : forall v a talker chan,
  valid_talker talker -> valid_channel chan -> in_range v a = true -> c02_guard v a = true ->
  c02_e2e_holds_for v a talker chan.
Proof.
  intros v a talker chan Ht Hc Hr Hg.
  destruct (c02_partial v a Hr Hg) as (vs & b & vs' & Hcr & Hb & Hdec & Hag).
  assert (Hlen : (1 <= length b <= 1800)%nat).
  { pose proof (to_bitarray_bound _ _ _ Hb). pose proof (created_bits_nonempty v a vs b Hr Hg Hcr Hb). lia. }
  assert (Hty : get_ais_type (("type", VInt (type_id v)) :: kwargs_of a) = Ok (type_id v))
    by (apply (get_ais_type_type _ (VInt (type_id v))); reflexivity).
  pose proof Hcr as Hcr'. rewrite <- (create_msg_skip_type (type_id v) (VInt (type_id v))) in Hcr'.
  destruct (encode_dict_accepted _ _ _ _ _ talker chan Ht Hc Hty Hcr' Hb Hlen) as (ss & Hed & Hem & Hd).
  rewrite Hdec in Hd. apply mmap_snd_ok in Hd. destruct Hd as (nmea & Hd).
  exists vs, ss, nmea, vs'. split; [exact Hcr|]. split; [exact Hem|]. split; [exact Hed|].
  split; [|split; assumption].
  intros Hmt. destruct (lookup_s "msg_type" a) as [x|] eqn:E; [|congruence].
  pose proof (in_range_msg_type v a x Hr E) as ->.
  assert (Hty2 : get_ais_type (kwargs_of a) = Ok (type_id v)).
  { apply (get_ais_type_msg_type _ (VInt (type_id v))); [| |reflexivity]; rewrite assoc_kwargs.
    - rewrite (in_range_no_type v a Hr). reflexivity.
    - rewrite E. reflexivity. }
  destruct (encode_dict_accepted _ _ _ _ _ talker chan Ht Hc Hty2 Hcr Hb Hlen) as (ss2 & Hed2 & Hem2 & _).
  rewrite Hem in Hem2. injection Hem2 as <-. exact Hed2.
Qed.
