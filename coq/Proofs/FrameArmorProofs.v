(* Proofs for the framing layer, first half (C09; armor_roundtrip is also what C02 needs).
   Part A  util.chunks: unfolding, concat, lengths                     (chunks_concat, chunks_length)
   Part B  armoring round trip for ALL bit strings                     (armor_roundtrip)
   The second half (formatting, checksum, the sentence clauses, the entry points) is Proofs/FrameProofs.v. *)
From Coq Require Import String ZArith List Bool Lia.
Require Import Prim.Exn Prim.Bits Prim.Fmt Gen.GenAlpha Model.FieldTypes Gen.GenTables Model.Codec Model.Frame Spec.FrameSpec.
Import ListNotations.
Open Scope list_scope.
Open Scope Z_scope.
Local Notation length := List.length (only parsing).

(* ================================================================================================ *)
(* Part A: chunks                                                                                    *)

Section Chunks.
  Context {A : Type}.

  Lemma chunks_fuel_irrel : forall (n : nat), (0 < n)%nat -> forall f1 f2 (l : list A),
    (length l <= f1)%nat -> (length l <= f2)%nat -> chunks_fuel f1 n l = chunks_fuel f2 n l.
  Proof.
    intros n Hn. induction f1 as [|f1 IH]; intros f2 l H1 H2.
    - destruct l; [|simpl in H1; lia]. destruct f2; reflexivity.
    - destruct l as [|a l]; [destruct f2; reflexivity|].
      destruct f2 as [|f2]; [simpl in H2; lia|].
      simpl chunks_fuel. f_equal. change (length (a :: l)) with (S (length l)) in *.
      apply IH; rewrite skipn_length; change (length (a :: l)) with (S (length l)); lia.
  Qed.

  Lemma chunks_nil : forall n, chunks n (@nil A) = [].
  Proof. reflexivity. Qed.

  Lemma chunks_unfold : forall (n : nat) (l : list A), (0 < n)%nat -> l <> [] ->
    chunks n l = firstn n l :: chunks n (skipn n l).
  Proof.
    intros n l Hn Hl. unfold chunks. destruct l as [|a l]; [congruence|].
    simpl chunks_fuel. f_equal. apply chunks_fuel_irrel; auto.
    rewrite skipn_length. change (length (a :: l)) with (S (length l)). lia.
  Qed.

  (* induction along the chunks of a list *)
  Lemma chunks_rect : forall (n : nat) (P : list A -> Prop), (0 < n)%nat ->
    P [] -> (forall l, l <> [] -> P (skipn n l) -> P l) -> forall l, P l.
  Proof.
    intros n P Hn H0 HS l.
    assert (forall k l, (length l <= k)%nat -> P l) as H.
    { induction k as [|k IH]; intros l0 Hk.
      - destruct l0; [exact H0|simpl in Hk; lia].
      - destruct l0 as [|a l0]; [exact H0|]. apply HS; [congruence|].
        apply IH. rewrite skipn_length. change (length (a :: l0)) with (S (length l0)) in *. lia. }
    apply (H (length l)). lia.
  Qed.

  Lemma chunks_concat : forall (n : nat) (l : list A), (0 < n)%nat -> concat (chunks n l) = l.
  Proof.
    intros n l Hn. pattern l. apply (chunks_rect n); auto.
    intros l0 Hl IH. rewrite chunks_unfold by auto. simpl. rewrite IH. apply firstn_skipn.
  Qed.

  (* every chunk is non-empty and at most n long *)
  Lemma chunks_sizes : forall (n : nat) (l : list A), (0 < n)%nat ->
    Forall (fun c => (1 <= length c <= n)%nat) (chunks n l).
  Proof.
    intros n l Hn. pattern l. apply (chunks_rect n); auto.
    - constructor.
    - intros l0 Hl IH. rewrite chunks_unfold by auto. constructor; auto.
      rewrite firstn_length. destruct l0; [congruence|]. simpl. lia.
  Qed.

  (* len(list(chunks(l, n))) = ceil(len(l) / n) *)
  Lemma chunks_length : forall (n : nat) (l : list A), (0 < n)%nat ->
    Z.of_nat (length (chunks n l)) = (Z.of_nat (length l) + Z.of_nat n - 1) / Z.of_nat n.
  Proof.
    intros n l Hn. pattern l. apply (chunks_rect n); auto.
    - simpl. symmetry. apply Z.div_small. lia.
    - intros l0 Hl IH. rewrite chunks_unfold by auto.
      change (length (firstn n l0 :: chunks n (skipn n l0))) with (S (length (chunks n (skipn n l0)))).
      rewrite Nat2Z.inj_succ, IH, skipn_length.
      assert (length l0 <> 0)%nat by (destruct l0; simpl; congruence).
      destruct (Nat.le_gt_cases (length l0) n) as [Hle|Hgt].
      + replace (length l0 - n)%nat with 0%nat by lia.
        rewrite (Z.div_small (Z.of_nat 0 + _ - 1)) by lia.
        apply Z.div_unique with (r := Z.of_nat (length l0) - 1); lia.
      + rewrite Nat2Z.inj_sub by lia.
        replace (Z.of_nat (length l0) + Z.of_nat n - 1)
          with (Z.of_nat (length l0) - Z.of_nat n + Z.of_nat n - 1 + 1 * Z.of_nat n) by lia.
        rewrite Z.div_add by lia. lia.
  Qed.

  Lemma chunks_Forall : forall (P : A -> Prop) (n : nat) (l : list A), (0 < n)%nat ->
    Forall P l -> Forall (Forall P) (chunks n l).
  Proof.
    intros P n l Hn. pattern l. apply (chunks_rect n); auto.
    - constructor.
    - intros l0 Hl IH HP. rewrite chunks_unfold by auto.
      rewrite <- (firstn_skipn n l0) in HP. apply Forall_app in HP. destruct HP. constructor; auto.
  Qed.
End Chunks.

(* ================================================================================================ *)
(* Part B: armoring round trip                                                                       *)

Definition armored (p : list Z) : Prop := Forall (fun c => fs_armor_alphabet c = true) p.

Definition fillnat (b : bits) : nat := ((6 - length b mod 6) mod 6)%nat.

Lemma fillnat_padding : forall b, Z.of_nat (fillnat b) = fs_padding_to_six (Z.of_nat (length b)).
Proof.
  intros b. unfold fillnat, fs_padding_to_six.
  assert (length b mod 6 < 6)%nat by (apply Nat.mod_upper_bound; lia).
  rewrite Nat2Z.inj_mod, Nat2Z.inj_sub by lia. rewrite Nat2Z.inj_mod. reflexivity.
Qed.

(* a full group of six bits: 64 cases *)
Lemma armor_full : forall b0 b1 b2 b3 b4 b5 : bool,
  let c := [b0; b1; b2; b3; b4; b5] in
  let a := fs_sixbit_char (fs_six_val b0 b1 b2 b3 b4 b5) in
  armor_char (Z.shiftr (from_bytes_u c) 2) = Ok a /\ fs_armor_alphabet a = true /\
  (32 <=? a) && (a <=? 126) = true /\ z_to_bits 6 (dearmor_char a) = c.
Proof. intros. destruct b0, b1, b2, b3, b4, b5; vm_compute; repeat split; reflexivity. Qed.

(* the last group, one to six bits: 126 cases *)
Lemma armor_last : forall c : bits, (1 <= length c <= 6)%nat ->
  exists a, fs_spec_armor c = [a] /\ armor_char (Z.shiftr (from_bytes_u c) 2) = Ok a /\ fs_armor_alphabet a = true /\
            fillnat c = (6 - length c)%nat /\ decode_into_bit_array [a] (Z.of_nat (6 - length c)) = Ok c.
Proof.
  intros c H.
  destruct c as [|b0 [|b1 [|b2 [|b3 [|b4 [|b5 [|b6 r]]]]]]]; simpl in H; try lia;
    [destruct b0|destruct b0, b1|destruct b0, b1, b2|destruct b0, b1, b2, b3|destruct b0, b1, b2, b3, b4
     |destruct b0, b1, b2, b3, b4, b5];
    match goal with |- context [fs_spec_armor ?c = _] => exists (hd 0 (fs_spec_armor c)) end;
    vm_compute; repeat split; reflexivity.
Qed.

Lemma decode_cons : forall a p f, p <> [] -> (32 <=? a) && (a <=? 126) = true ->
  decode_into_bit_array (a :: p) f = bind (decode_into_bit_array p f) (fun r => Ok (z_to_bits 6 (dearmor_char a) ++ r)).
Proof.
  intros a p f Hp Ha. destruct p as [|a' p']; [congruence|].
  change (decode_into_bit_array (a :: a' :: p') f)
    with (if negb ((32 <=? a) && (a <=? 126)) then Raise (Lib NonPrintableCharacterException)
          else bind (decode_into_bit_array (a' :: p') f) (fun r => Ok (z_to_bits 6 (dearmor_char a) ++ r))).
  rewrite Ha. reflexivity.
Qed.

Lemma armor_loop : forall b : bits, b <> [] -> forall pad0, exists p,
  encode_ascii_6_loop (chunks 6 b) pad0 = Ok (p, fillnat b) /\ p <> [] /\ p = fs_spec_armor b /\ armored p /\
  length p = length (chunks 6 b) /\ decode_into_bit_array p (Z.of_nat (fillnat b)) = Ok b.
Proof.
  intros b. pattern b. apply (chunks_rect 6); [lia|congruence|].
  intros l Hl IH _ pad0.
  destruct l as [|b0 [|b1 [|b2 [|b3 [|b4 [|b5 [|b6 r]]]]]]]; [congruence| | | | | | |].
  1-6: match goal with |- context [chunks 6 ?c] =>
         destruct (armor_last c) as (a & Hs & Ha & Hal & Hf & Hd); [simpl; lia|];
         exists [a]; rewrite Hf; change (chunks 6 c) with [c];
         unfold encode_ascii_6_loop; rewrite Ha; simpl bind;
         repeat split; auto; [congruence|constructor; [exact Hal|constructor]]
       end.
  (* more than six bits *)
  rewrite chunks_unfold by (try lia; congruence).
  change (firstn 6 (b0 :: b1 :: b2 :: b3 :: b4 :: b5 :: b6 :: r)) with [b0; b1; b2; b3; b4; b5].
  change (skipn 6 (b0 :: b1 :: b2 :: b3 :: b4 :: b5 :: b6 :: r)) with (b6 :: r) in *.
  destruct (armor_full b0 b1 b2 b3 b4 b5) as (Ha & Hal & Hpr & Hz).
  destruct (IH ltac:(congruence) 0%nat) as (p' & He & Hne & Hsp & Harm & Hlen & Hdec).
  set (a := fs_sixbit_char (fs_six_val b0 b1 b2 b3 b4 b5)) in *.
  assert (Hfill : fillnat (b0 :: b1 :: b2 :: b3 :: b4 :: b5 :: b6 :: r) = fillnat (b6 :: r)).
  { unfold fillnat. change (length (b0 :: b1 :: b2 :: b3 :: b4 :: b5 :: b6 :: r)) with (6 + length (b6 :: r))%nat.
    replace (6 + length (b6 :: r))%nat with (length (b6 :: r) + 1 * 6)%nat by lia.
    rewrite Nat.mod_add by lia. reflexivity. }
  exists (a :: p'). rewrite Hfill.
  split; [|split; [congruence|split; [|split; [|split]]]].
  - change (encode_ascii_6_loop ([b0; b1; b2; b3; b4; b5] :: chunks 6 (b6 :: r)) pad0)
      with (bind (armor_char (Z.shiftr (from_bytes_u [b0; b1; b2; b3; b4; b5]) 2))
                 (fun a0 => bind (encode_ascii_6_loop (chunks 6 (b6 :: r)) 0%nat)
                                 (fun x => let '(out, p) := x in Ok (a0 :: out, p)))).
    rewrite Ha. unfold bind at 1. rewrite He. reflexivity.
  - rewrite Hsp. reflexivity.
  - constructor; assumption.
  - simpl. rewrite Hlen. reflexivity.
  - rewrite decode_cons by assumption. rewrite Hdec. unfold bind. rewrite Hz. reflexivity.
Qed.

(* armor_roundtrip (used by C09 and C02): for EVERY bit string, encode_ascii_6 succeeds, returns the specification's
   armoring and the padding to the next six-bit boundary, and de-armoring with that fill gives the bits back. *)
Theorem armor_roundtrip : forall b : bits, exists p fill,
  encode_ascii_6 b = Ok (p, fill) /\
  Z.of_nat fill = fs_padding_to_six (Z.of_nat (length b)) /\
  p = fs_spec_armor b /\ armored p /\
  Z.of_nat (length p) = (Z.of_nat (length b) + 5) / 6 /\
  decode_into_bit_array p (Z.of_nat fill) = Ok b.
Proof.
  intros b. destruct b as [|x b].
  - exists [], 0%nat. split; [reflexivity|]. split; [reflexivity|]. split; [reflexivity|].
    split; [constructor|]. split; reflexivity.
  - destruct (armor_loop (x :: b) ltac:(congruence) 0%nat) as (p & He & _ & Hsp & Harm & Hlen & Hdec).
    exists p, (fillnat (x :: b)). unfold encode_ascii_6.
    split; [exact He|]. split; [apply fillnat_padding|]. split; [exact Hsp|]. split; [exact Harm|].
    split; [|exact Hdec].
    rewrite Hlen, chunks_length by lia. change (Z.of_nat 6) with 6. f_equal. lia.
Qed.
