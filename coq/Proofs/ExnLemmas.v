(* "raises only": which exceptions a computation in the exception monad can end with, and how that composes through
   bind, mmap and try/except.  Used bottom-up for C05 (DESIGN section 7/C05): no enumeration of inputs anywhere. *)
From Coq Require Import List Bool.
Require Import Prim.Exn.
Import ListNotations.

Definition raises_only {A} (m : M A) (P : exn -> Prop) : Prop :=
  match m with Ok _ => True | Raise e => P e end.

(* never raises *)
Definition total {A} (m : M A) : Prop := exists a, m = Ok a.

Definition is_lib (e : exn) : Prop := match e with Lib _ => True | Py _ => False end.
(* a real Python exception (anything but the model's "outside the model" marker) *)
Definition modelled (e : exn) : Prop := e <> Py Unmodelled.

Lemma no_escape_iff : forall A (m : M A), no_escape m <-> raises_only m is_lib.
Proof. intros A [a|[l|p]]; simpl; tauto. Qed.

Lemma raises_only_ok : forall A (a : A) P, raises_only (Ok a) P.
Proof. intros; exact I. Qed.

Lemma raises_only_raise : forall A e (P : exn -> Prop), P e -> raises_only (@Raise A e) P.
Proof. intros; exact H. Qed.

Lemma raises_only_weaken : forall A (m : M A) (P Q : exn -> Prop),
  raises_only m P -> (forall e, P e -> Q e) -> raises_only m Q.
Proof. intros A [a|e] P Q H HPQ; simpl in *; auto. Qed.

Lemma total_raises_only : forall A (m : M A) P, total m -> raises_only m P.
Proof. intros A m P [a ->]. exact I. Qed.

Lemma raises_only_bind : forall A B (m : M A) (f : A -> M B) P,
  raises_only m P -> (forall a, m = Ok a -> raises_only (f a) P) -> raises_only (bind m f) P.
Proof. intros A B [a|e] f P Hm Hf; simpl in *; auto. Qed.

Lemma raises_only_mmap : forall A B (g : A -> B) (m : M A) P, raises_only m P -> raises_only (mmap g m) P.
Proof. intros A B g [a|e] P H; simpl in *; auto. Qed.

(* try: m except hs: k  -- what m raises is either handled (then k decides) or passes through *)
Lemma raises_only_try : forall A (m : M A) hs k (P0 P : exn -> Prop),
  raises_only m P0 ->
  (forall e, P0 e -> catches hs e = true -> raises_only (k e) P) ->
  (forall e, P0 e -> catches hs e = false -> P e) ->
  raises_only (try_except m hs k) P.
Proof.
  intros A [a|e] hs k P0 P Hm Hc Hn; simpl in *; auto.
  destruct (catches hs e) eqn:E; auto. simpl. auto.
Qed.

(* `except Exception` catches every real Python exception and every library exception *)
Lemma catches_exception : forall e, modelled e -> catches [HException] e = true.
Proof.
  intros [l|p] H; simpl.
  - reflexivity.
  - destruct p; simpl; try reflexivity. exfalso; apply H; reflexivity.
Qed.

(* try: m except Exception: raise X  -- provided m stays inside the model *)
Lemma raises_only_try_exception : forall A (m : M A) (x : exn) (P : exn -> Prop),
  raises_only m modelled -> P x -> raises_only (try_except m [HException] (fun _ => Raise x)) P.
Proof.
  intros A m x P Hm Hx.
  apply raises_only_try with (P0 := modelled); auto.
  intros e He Hc. rewrite (catches_exception e He) in Hc. discriminate.
Qed.

(* inversion of a successful bind *)
Lemma bind_ok : forall A B (m : M A) (f : A -> M B) b,
  bind m f = Ok b -> exists a, m = Ok a /\ f a = Ok b.
Proof. intros A B [a|e] f b H; simpl in H; [eauto | discriminate]. Qed.

Lemma mmap_ok : forall A B (g : A -> B) (m : M A) b, mmap g m = Ok b -> exists a, m = Ok a /\ b = g a.
Proof. intros A B g [a|e] b H; simpl in H; [inversion H; eauto | discriminate]. Qed.

Lemma try_except_ok_of_ok : forall A (m : M A) hs k a, m = Ok a -> try_except m hs k = Ok a.
Proof. intros; subst; reflexivity. Qed.
