(* Composition of the finished layers ("e2e"): the encoder's framing (Model/Frame.v, C09), the carrier family and the
   decoder entry point (Spec/CarrierSpec.v, Model/Nmea.v, Model/DecodeApi.v, C04), the payload codec (Model/Codec.v, C01,
   C02).  Nothing is modelled here; the file only ties theorems of those layers together.

   Part A  frame_is_carrier          what ais_to_nmea_0183 emits is a member of the carrier family of its payload
   Part B  accepted_by_decoder       C09's clause "the sentences taken together are accepted by the decoder";
           encode_msg_accepted / encode_dict_accepted, the same for the two entry points
   (Proofs/EndToEndC02.v: c02_end_to_end -- C02_partial through encode_msg / encode_dict -> decode_api, with the bound on
    the payload length proved from the regenerated tables;  Proofs/EndToEndC01.v: c01_through_carrier -- C01 for
    decode( *sentences ) on EVERY carrier of the armored bits.)

   Frame.v's strings are lists of character codes (list Z), CarrierSpec's byte strings are lists of byte values
   (list Z): for the ASCII text the encoder emits str.encode() is the identity on codes, so the "conversion" between
   the two is the identity and the statements below equate the lists directly. *)
From Coq Require Import String ZArith List Bool Lia Permutation.
Require Import Prim.Exn Prim.Bits Prim.Fmt Model.FieldTypes Gen.GenTables Model.Codec Model.Frame Model.Sentence Model.Nmea
               Model.DecodeApi Spec.FrameSpec Spec.CarrierSpec.
Require Import Proofs.FrameArmorProofs Proofs.FrameProofs Proofs.CarrierParse Proofs.CarrierProofs.
Import ListNotations.
Open Scope list_scope.
Open Scope Z_scope.
Local Notation length := List.length (only parsing).

(* ================================================================================================ *)
(* Part A: the encoder's sentences are a carrier                                                     *)

(* the two hex digits '{:02X}' writes for a byte value are hex digits in the sense of the carrier spec *)
Definition e2e_hex2_carrier_ok (n : Z) : bool :=
  Nat.eqb (length (fmt_02X n)) 2 && forallb is_hexdigit (fmt_02X n).

Lemma e2e_hex2_all : forallb e2e_hex2_carrier_ok (map Z.of_nat (seq 0 256)) = true.
Proof. vm_compute. reflexivity. Qed.

Lemma e2e_hex2_carrier : forall n, 0 <= n < 256 -> e2e_hex2_carrier_ok n = true.
Proof.
  intros n H. apply (proj1 (forallb_forall _ _) e2e_hex2_all). apply in_map_iff.
  exists (Z.to_nat n). split; [lia|apply in_seq; lia].
Qed.

(* the options of the sentence the encoder writes: talker = the first two letters of AIVDM / AIVDO, type word = the
   last three, the channel given, the checksum digits given, no tag block, nothing after the checksum *)
Definition e2e_opts (talker chan cks : list Z) : carrier_opts :=
  mkOpts (firstn 2 talker) (skipn 2 talker) chan cks None [].

Definition e2e_seq_text (seq : option nat) : list Z := match seq with Some s => [digit s] | None => [] end.

Lemma e2e_opts_ok : forall talker chan n, valid_talker talker -> valid_channel chan -> 0 <= n < 256 ->
  opts_ok (e2e_opts talker chan (fmt_02X n)) = true.
Proof.
  intros talker chan n Ht Hc Hn. pose proof (e2e_hex2_carrier n Hn) as H. unfold e2e_hex2_carrier_ok in H.
  apply andb_true_iff in H. destruct H as (Hl & Hh).
  unfold opts_ok, e2e_opts. cbn [o_talker o_type o_channel o_checksum o_tagblock o_trailing].
  rewrite Hl, Hh. destruct Ht as [->| ->]; destruct Hc as [->| ->]; reflexivity.
Qed.

(* one sentence of the template = one sentence of the family *)
Lemma e2e_sentence_text : forall talker chan (n i : nat) seq c (f : nat),
  valid_talker talker -> (n <= 9)%nat -> (i <= 9)%nat -> (f <= 9)%nat ->
  sentence talker (Z.of_nat n) (Z.of_nat i) (e2e_seq_text seq) chan c (Z.of_nat f)
  = sentence_text (e2e_opts talker chan
                     (fmt_02X (fs_xor_all (sent_body talker (Z.of_nat n) (Z.of_nat i) (e2e_seq_text seq) chan c (Z.of_nat f)))))
                  n i seq c f.
Proof.
  intros talker chan n i seq c f Ht Hn Hi Hf.
  unfold sentence, sentence_text, e2e_opts. cbn [o_talker o_type o_channel o_checksum o_tagblock o_trailing].
  set (x := fmt_02X _). unfold sent_body, join7.
  rewrite !fmt_dec_one_digit by lia. unfold digit, BANG, COMMA, STAR, e2e_seq_text.
  destruct Ht as [->| ->]; cbn [firstn skipn app]; rewrite app_nil_r;
    repeat (rewrite <- app_assoc || rewrite <- app_comm_cons); reflexivity.
Qed.

(* the parts (chunk, options) of the carrier the encoder's loop writes, from fragment number k on *)
Fixpoint e2e_parts (talker seq chan : list Z) (cnt fill : Z) (k : Z) (cs : list (list Z)) : list (bytestr * carrier_opts) :=
  match cs with
  | [] => []
  | c :: r =>
    (c, e2e_opts talker chan (fmt_02X (fs_xor_all (sent_body talker cnt k seq chan c (fill_of cnt fill k)))))
    :: e2e_parts talker seq chan cnt fill (k + 1) r
  end.

Lemma e2e_parts_fst : forall talker seq chan cnt fill cs k, map fst (e2e_parts talker seq chan cnt fill k cs) = cs.
Proof. induction cs as [|c r IH]; intros k; [reflexivity|]. cbn [e2e_parts map fst]. rewrite IH. reflexivity. Qed.

Lemma e2e_parts_length : forall talker seq chan cnt fill cs k, length (e2e_parts talker seq chan cnt fill k cs) = length cs.
Proof. intros. rewrite <- (map_length fst), e2e_parts_fst. reflexivity. Qed.

Lemma e2e_cs_cons : forall n i seq fill c o rest, rest <> [] ->
  CarrierSpec.sentences_from n i seq fill ((c, o) :: rest)
  = sentence_text o n i seq c 0 :: CarrierSpec.sentences_from n (S i) seq fill rest.
Proof. intros n i seq fill c o [|[c' o'] r] H; [congruence|reflexivity]. Qed.

(* the loop's sentences, from fragment number i on, are the sentences of the family for those parts *)
Lemma e2e_sentences_from : forall talker chan (n : nat) seq (fill : nat) cs (i : nat),
  valid_talker talker -> (n <= 9)%nat -> (fill <= 9)%nat -> (i + length cs = n + 1)%nat ->
  FrameProofs.sentences_from talker (e2e_seq_text seq) chan (Z.of_nat n) (Z.of_nat fill) (Z.of_nat i) cs
  = CarrierSpec.sentences_from n i seq fill
      (e2e_parts talker (e2e_seq_text seq) chan (Z.of_nat n) (Z.of_nat fill) (Z.of_nat i) cs).
Proof.
  intros talker chan n seq fill cs. induction cs as [|c r IH]; intros i Ht Hn Hf Hi; [reflexivity|].
  cbn [FrameProofs.sentences_from e2e_parts]. cbn [length] in Hi.
  destruct r as [|c' r'].
  - (* the last fragment: i = n *)
    cbn [length] in Hi. assert (i = n) by lia. subst i.
    cbn [FrameProofs.sentences_from e2e_parts CarrierSpec.sentences_from].
    unfold fill_of. rewrite Z.eqb_refl. rewrite e2e_sentence_text by (auto; lia). reflexivity.
  - assert (Hlt : (i < n)%nat) by (cbn [length] in Hi; lia).
    replace (Z.of_nat i + 1) with (Z.of_nat (S i)) by lia.
    rewrite IH by (auto; cbn [length] in *; lia).
    unfold fill_of at 1 2. replace (Z.of_nat i =? Z.of_nat n) with false by (symmetry; apply Z.eqb_neq; lia).
    change 0 with (Z.of_nat 0). rewrite e2e_sentence_text by (auto; lia).
    rewrite e2e_cs_cons by (cbn [e2e_parts]; discriminate). reflexivity.
Qed.

Lemma armored_is_armor : forall p, armored p -> forallb is_armor p = true.
Proof. intros p H. apply forallb_forall. unfold armored in H. rewrite Forall_forall in H. exact H. Qed.

Lemma is_armor_armored : forall p, forallb is_armor p = true -> armored p.
Proof. intros p H. unfold armored. apply Forall_forall. rewrite forallb_forall in H. exact H. Qed.

(* every part the loop writes is a part the family admits *)
Lemma e2e_parts_ok : forall talker seq chan cnt fill cs k,
  valid_talker talker -> valid_channel chan -> clean seq ->
  Forall (fun c => (1 <= length c <= 60)%nat /\ armored c) cs ->
  Forall (fun co => fst co <> [] /\ (length (fst co) <= max_chunk)%nat /\ forallb is_armor (fst co) = true /\
                    opts_ok (snd co) = true) (e2e_parts talker seq chan cnt fill k cs).
Proof.
  intros talker seq chan cnt fill cs. induction cs as [|c r IH]; intros k Ht Hc Hs Hcs; [constructor|].
  inversion Hcs as [|? ? (Hlen & Harm) Hr]; subst. cbn [e2e_parts]. constructor; [|apply IH; assumption].
  cbn [fst snd]. split; [intros ->; cbn in Hlen; lia|]. split; [unfold max_chunk; lia|].
  split; [apply armored_is_armor; exact Harm|].
  destruct (valid_talker_clean _ Ht) as (Htc & Htn & _). destruct (valid_channel_clean _ Hc) as (Hcc & _).
  apply e2e_opts_ok; try assumption.
  pose proof (xor_body_range talker seq chan c cnt k (fill_of cnt fill k) Htc Hs Hcc (armored_clean _ Harm) Htn). lia.
Qed.

(* frame_is_carrier: for every armored payload of 1..300 characters (at most five fragments of 60), both talkers, both
   channels and fill <= 5, the encoder succeeds and its sentences -- read as byte strings -- are a carrier of (p, fill):
   talker "AI", type word VDM / VDO, one-digit numbering i of n, sequence id 0 when fragmented and empty otherwise, the
   fill bits on the last fragment only, the checksum digits the encoder computes, in fragment order. *)
Theorem frame_is_carrier : forall (p talker chan : list Z) (fill : nat),
  valid_talker talker -> valid_channel chan -> armored p -> (1 <= length p <= 300)%nat -> (fill <= 5)%nat ->
  exists ss, ais_to_nmea_0183 p talker chan (Z.of_nat fill) = Ok ss /\ is_carrier p fill ss.
Proof.
  intros p talker chan fill Ht Hc Hp Hlen Hfill.
  destruct (frame_closed_form p talker chan (Z.of_nat fill) Ht Hc Hp ltac:(lia)) as (Hcnt & Hn & Hseq & Hcs & He).
  set (cnt := (Z.of_nat (length p) + 59) / 60) in *. set (cs := chunks 60 p) in *.
  assert (Hcnt5 : cnt <= 5) by (unfold cnt; apply Z.lt_succ_r; apply Z.div_lt_upper_bound; lia).
  set (n := length cs) in *.
  assert (Hn' : cnt = Z.of_nat n) by lia.
  set (seq := if (1 <? n)%nat then Some 0%nat else None).
  assert (Hseqt : (if 1 <? cnt then [48] else []) = e2e_seq_text seq).
  { unfold seq. rewrite Hn'. destruct (Z.ltb_spec 1 (Z.of_nat n)); destruct (Nat.ltb_spec 1 n); try lia; reflexivity. }
  rewrite Hseqt in He, Hseq. rewrite Hn' in He.
  exists (FrameProofs.sentences_from talker (e2e_seq_text seq) chan (Z.of_nat n) (Z.of_nat fill) 1 cs).
  split; [exact He|].
  exists (e2e_parts talker (e2e_seq_text seq) chan (Z.of_nat n) (Z.of_nat fill) 1 cs), seq.
  rewrite e2e_parts_fst, e2e_parts_length. fold n.
  split; [unfold cs; apply chunks_concat; lia|]. split; [lia|].
  split.
  { apply e2e_parts_ok; try assumption.
    pose proof (chunks_sizes 60 p ltac:(lia)) as Hsz. pose proof (chunks_Forall _ 60 p ltac:(lia) Hp) as Ha.
    fold cs in Hsz, Ha. rewrite Forall_forall in *. intros c Hin. split; [apply Hsz|apply Ha]; exact Hin. }
  split; [exact Hfill|]. split.
  { unfold seq. destruct (Nat.ltb_spec 1 n); lia. }
  change 1 with (Z.of_nat 1). rewrite e2e_sentences_from by (auto; fold n; lia). apply Permutation_refl.
Qed.

(* ================================================================================================ *)
(* Part B: the decoder accepts what the encoder emits                                                *)

Lemma mmap_snd_ok : forall (A B : Type) (m : M (A * B)) (y : B), mmap snd m = Ok y -> exists x, m = Ok (x, y).
Proof. intros A B [[x y']|e] y H; [|discriminate]. cbn in H. injection H as ->. exists x. reflexivity. Qed.

(* armoring + framing + the decoder entry point, for every bit string of 1..1800 bits (300 characters = five fragments
   of 60; the longest AIS message has 1064 bits): the encoder model succeeds, its sentences are a carrier of the armored
   payload, and decode( *sentences ) is exactly what the payload decoder makes of the bits that were encoded --
   the same message, or the same exception when the bits are no decodable message. *)
Theorem accepted_by_decoder : forall (b : bits) (talker chan : list Z),
  valid_talker talker -> valid_channel chan -> (1 <= length b <= 1800)%nat ->
  exists p fill ss,
    encode_ascii_6 b = Ok (p, fill) /\
    ais_to_nmea_0183 p talker chan (Z.of_nat fill) = Ok ss /\
    is_carrier p fill ss /\
    mmap snd (decode_api false ss) = decode_bits b.
Proof.
  intros b talker chan Ht Hc Hlen.
  destruct (FrameArmorProofs.armor_roundtrip b) as (p & fill & He & Hfill & _ & Harm & Hplen & Hdec).
  assert (Hf : (fill <= 5)%nat).
  { assert (Z.of_nat fill <= 5); [|lia]. rewrite Hfill. unfold fs_padding_to_six.
    pose proof (Z.mod_pos_bound (6 - Z.of_nat (length b) mod 6) 6). lia. }
  assert (Hpl : (1 <= length p <= 300)%nat).
  { assert (1 <= Z.of_nat (length p) <= 300); [|lia]. rewrite Hplen. split; [apply Z.div_le_lower_bound; lia|].
    apply Z.lt_succ_r. apply Z.div_lt_upper_bound; lia. }
  destruct (frame_is_carrier p talker chan fill Ht Hc Harm Hpl Hf) as (ss & Hss & Hcar).
  exists p, fill, ss. split; [exact He|]. split; [exact Hss|]. split; [exact Hcar|].
  apply (carrier_vs_bits p fill ss b); try assumption.
  - intros ->. cbn in Hpl. lia.
  - apply armored_is_armor. exact Harm.
Qed.

(* the same for the two entry points: encode_msg of a message whose to_bitarray() gives 1..1800 bits *)
Theorem encode_msg_accepted : forall (c : cls) (vs : list value) (b : bits) (talker chan : list Z),
  valid_talker talker -> valid_channel chan -> to_bitarray c vs = Ok b -> (1 <= length b <= 1800)%nat ->
  exists ss, encode_msg (c, vs) talker chan = Ok ss /\ mmap snd (decode_api false ss) = decode_bits b.
Proof.
  intros c vs b talker chan Ht Hc Hb Hlen.
  destruct (accepted_by_decoder b talker chan Ht Hc Hlen) as (p & fill & ss & He & Hss & _ & Hd).
  exists ss. split; [|exact Hd].
  unfold encode_msg. rewrite check_talker_channel_ok by assumption. cbn [bind fst snd].
  unfold encode_msg_payload. rewrite Hb. cbn [bind]. rewrite He. cbn [bind]. exact Hss.
Qed.

(* ... and encode_dict of a dictionary from which get_ais_type finds a type and create() builds such a message;
   the sentences are those of encode_msg *)
Theorem encode_dict_accepted : forall (data : list (string * value)) (t : Z) (c : cls) (vs : list value) (b : bits)
                                      (talker chan : list Z),
  valid_talker talker -> valid_channel chan ->
  get_ais_type data = Ok t -> create_msg t data = Ok (c, vs) -> to_bitarray c vs = Ok b -> (1 <= length b <= 1800)%nat ->
  exists ss, encode_dict data talker chan = Ok ss /\ encode_msg (c, vs) talker chan = Ok ss /\
             mmap snd (decode_api false ss) = decode_bits b.
Proof.
  intros data t c vs b talker chan Ht Hc Hty Hcr Hb Hlen.
  destruct (encode_msg_accepted c vs b talker chan Ht Hc Hb Hlen) as (ss & Hss & Hd).
  exists ss. split; [|split; assumption].
  unfold encode_dict. unfold encode_msg in Hss. rewrite check_talker_channel_ok in * by assumption. cbn [bind] in *.
  rewrite Hty. cbn [bind]. unfold data_to_payload. rewrite Hcr. cbn [try_except bind]. exact Hss.
Qed.

(* ================================================================================================ *)
(* Part C: the str -> bytes step                                                                     *)

(* encode_dict / encode_msg return str objects and decode() starts with msg.encode('utf-8') for every str argument.
   Every character the encoder model writes is ASCII (0..127), where UTF-8 encoding is the identity on codes: handing the
   character lists to the decoder model as byte lists -- as every statement above does -- is that step. *)
Definition e2e_ascii (s : list Z) : Prop := Forall (fun c => 0 <= c < 128) s.

Lemma e2e_hexdigit_ascii : forall l, forallb is_hexdigit l = true -> e2e_ascii l.
Proof.
  intros l H. apply Forall_forall. intros c Hc. rewrite forallb_forall in H. specialize (H c Hc).
  unfold is_hexdigit in H. cbv beta. lia.
Qed.

Lemma e2e_sentences_ascii : forall talker seq chan cnt fill cs k,
  clean talker -> clean seq -> clean chan -> talker <> [] -> Forall clean cs ->
  Forall e2e_ascii (FrameProofs.sentences_from talker seq chan cnt fill k cs).
Proof.
  intros talker seq chan cnt fill cs. induction cs as [|c r IH]; intros k Ht Hs Hc Hne Hcs; [constructor|].
  inversion Hcs; subst. cbn [FrameProofs.sentences_from]. constructor; [|apply IH; assumption].
  unfold sentence, e2e_ascii.
  destruct (body_facts talker seq chan c cnt k (fill_of cnt fill k) Ht Hs Hc ltac:(assumption) Hne) as (_ & Hb & _).
  pose proof (xor_body_range talker seq chan c cnt k (fill_of cnt fill k) Ht Hs Hc ltac:(assumption) Hne) as Hx.
  assert (Hr : 0 <= fs_xor_all (sent_body talker cnt k seq chan c (fill_of cnt fill k)) < 256) by lia.
  pose proof (e2e_hex2_carrier _ Hr) as Hh. unfold e2e_hex2_carrier_ok in Hh. apply andb_true_iff in Hh.
  constructor; [cbv beta; lia|]. apply Forall_app. split; [exact Hb|]. constructor; [cbv beta; lia|].
  apply e2e_hexdigit_ascii. apply Hh.
Qed.

Theorem frame_ascii : forall (p talker chan : list Z) (fill : Z) ss,
  valid_talker talker -> valid_channel chan -> armored p -> (1 <= length p)%nat ->
  ais_to_nmea_0183 p talker chan fill = Ok ss -> Forall e2e_ascii ss.
Proof.
  intros p talker chan fill ss Ht Hc Hp Hlen He.
  destruct (frame_closed_form p talker chan fill Ht Hc Hp Hlen) as (_ & _ & Hseq & Hcs & He').
  rewrite He' in He. injection He as <-.
  destruct (valid_talker_clean _ Ht) as (Htc & Htn & _). destruct (valid_channel_clean _ Hc) as (Hcc & _).
  apply e2e_sentences_ascii; assumption.
Qed.
