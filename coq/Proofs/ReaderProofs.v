(* C05, reader level: iterating a stream reader / feeding an NMEAQueue never raises, with or without a tag block queue;
   skipped lines are no-ops; a line only touches its own reassembly slot.
   Composition of   Proofs/NmeaProofs.v   (what produce can raise, the ranges of a parsed AIS sentence),
                    Proofs/TbqProofs.v    (what put_sentence can raise, and that it raises before touching `groups`),
                    Proofs/AssembleProofs.v (the two loops share one shape; slot independence). *)
From Coq Require Import ZArith List Bool Lia.
Require Import Prim.Exn Prim.PyList Gen.GenConst Model.Sentence Model.AssembleIter Model.Nmea Model.Tbq Model.Assemble
               Model.Reader.
Require Import Proofs.ExnLemmas Proofs.NmeaProofs Proofs.TbqProofs Proofs.AssembleProofs.
Import ListNotations.
Open Scope Z_scope.

(* ---------------------------------------------------------------- the buffer invariant *)

(* every fragment array in the buffer has 255 cells: max(fragment_count, 0xff) = 0xff because a parsed sentence has
   fragment_count <= MAX_FRAG_CNT = 100 *)
Definition buf_len255 (b : asm_buffer) : Prop := Forall (fun kv => length (snd kv) = 255%nat) b.

Lemma buf_len255_get : forall b s arr, buf_len255 b -> buf_get b s = Some arr -> length arr = 255%nat.
Proof.
  induction b as [|[k v] r IH]; intros s arr Hb Hg; [discriminate|].
  inversion Hb as [|x l Hx Hr]; subst. cbn [buf_get] in Hg.
  destruct (slot_eqb s k); [inversion Hg; subst; exact Hx|]. eapply IH; eauto.
Qed.

Lemma buf_len255_set : forall b s arr, buf_len255 b -> length arr = 255%nat -> buf_len255 (buf_set b s arr).
Proof.
  induction b as [|[k v] r IH]; intros s arr Hb Ha.
  - constructor; [exact Ha|constructor].
  - inversion Hb as [|x l Hx Hr]; subst. cbn [buf_set]. destruct (slot_eqb s k).
    + constructor; [exact Ha|exact Hr].
    + constructor; [exact Hx|]. apply IH; assumption.
Qed.

Lemma buf_len255_del : forall b s, buf_len255 b -> buf_len255 (buf_del b s).
Proof.
  induction b as [|[k v] r IH]; intros s Hb; [constructor|].
  inversion Hb as [|x l Hx Hr]; subst. cbn [buf_del]. destruct (slot_eqb s k); [exact Hr|].
  constructor; [exact Hx|]. apply IH. exact Hr.
Qed.

Definition ranges_ok (a : ais_sentence) : Prop :=
  1 <= a_frag_cnt a <= MAX_FRAG_CNT /\ 1 <= a_frag_num a <= MAX_FRAG_CNT.

Lemma max_frag_cnt_small : MAX_FRAG_CNT <= 255.
Proof. unfold MAX_FRAG_CNT. lia. Qed.

(* the multi-fragment branch cannot raise for a parsed sentence, and keeps the invariant *)
Lemma buffer_step_total : forall b msg, buf_len255 b -> ranges_ok msg ->
  exists b' o, buffer_step b msg = Ok (b', o) /\ buf_len255 b'.
Proof.
  intros b msg Hb [[Hc1 Hc2] [Hn1 Hn2]]. pose proof max_frag_cnt_small as Hm.
  unfold buffer_step. set (slot := slot_of msg).
  set (fresh := pyl_repeat (@None ais_sentence) (Z.max (a_frag_cnt msg) 255)).
  assert (Hfresh : length fresh = 255%nat).
  { unfold fresh, pyl_repeat. rewrite repeat_length. replace (Z.max (a_frag_cnt msg) 255) with 255 by lia. reflexivity. }
  set (buffer1 := if negb (buf_mem b slot) then buf_set b slot fresh else b).
  assert (Hb1 : buf_len255 buffer1).
  { unfold buffer1. destruct (negb (buf_mem b slot)); [apply buf_len255_set; assumption|exact Hb]. }
  assert (Hg : exists arr, buf_get buffer1 slot = Some arr).
  { unfold buffer1, buf_mem. destruct (buf_get b slot) as [arr|] eqn:E; cbn [negb].
    - exists arr. exact E.
    - exists fresh. apply buf_get_set_same. }
  destruct Hg as [arr Hg]. rewrite Hg.
  pose proof (buf_len255_get _ _ _ Hb1 Hg) as Hlen.
  rewrite pyl_setitem_in_range by (unfold pyl_len; rewrite Hlen; lia).
  set (arr' := pyl_list_set arr (Z.to_nat (a_frag_num msg - 1)) (Some msg)).
  assert (Hlen' : length arr' = 255%nat) by (unfold arr'; rewrite list_set_length; exact Hlen).
  destruct (pyl_len (not_none (pyl_slice arr' 0 (a_frag_cnt msg))) =? a_frag_cnt msg) eqn:E.
  - apply Z.eqb_eq in E.
    destruct (not_none (pyl_slice arr' 0 (a_frag_cnt msg))) as [|p ps] eqn:Ep.
    + unfold pyl_len in E. cbn [length] in E. lia.
    + unfold assemble_from_iterable. eexists _, _. split; [reflexivity|].
      apply buf_len255_del. apply buf_len255_set; assumption.
  - eexists _, _. split; [reflexivity|]. apply buf_len255_set; assumption.
Qed.

(* ---------------------------------------------------------------- one step of either loop *)

Definition catches_reader_set (hs : list handler) : Prop := forall e, reader_set e -> catches hs e = true.

Lemma stream_catches : catches_reader_set stream_except.
Proof. intros e [H|[H|H]]; subst; reflexivity. Qed.
Lemma queue_catches : catches_reader_set queue_except.
Proof. intros e [H|[H|H]]; subst; reflexivity. Qed.

(* what the composition feeds a loop with: parse outcomes as produce gives them, tbq outcomes as put_sentence gives them *)
Definition parsed_ok (p : M sentence) : Prop :=
  match p with
  | Raise e => reader_set e
  | Ok (SAis a) => ranges_ok a
  | Ok (SGatehouse _) => True
  end.
Definition tbq_ok (t : option exn) : Prop := match t with None => True | Some e => reader_set e end.

Lemma generic_step_total : forall hs b w p t, catches_reader_set hs -> buf_len255 b -> parsed_ok p -> tbq_ok t ->
  exists b' w' out, generic_step hs (b, w) p t = Ok ((b', w'), out) /\ buf_len255 b'.
Proof.
  intros hs b w p t Hc Hb Hp Ht. unfold generic_step.
  destruct p as [s|e].
  - destruct t as [e|].
    + rewrite (Hc e Ht). eexists _, _, _. split; [reflexivity|exact Hb].
    + destruct s as [msg|g].
      * unfold ais_step. destruct (is_single msg).
        -- eexists _, _, _. split; [reflexivity|exact Hb].
        -- destruct (buffer_step_total b msg Hb Hp) as [b' [o [E Hb']]]. rewrite E.
           destruct o; eexists _, _, _; (split; [reflexivity|exact Hb']).
      * eexists _, _, _. split; [reflexivity|exact Hb].
  - rewrite (Hc e Hp). eexists _, _, _. split; [reflexivity|exact Hb].
Qed.

(* ---------------------------------------------------------------- the composed readers *)

Section Readers.
  Variable uni : Z -> list Z -> option Z.

  Lemma produce_parsed_ok : forall line, parsed_ok (produce line).
  Proof.
    intros line. unfold parsed_ok. destruct (produce line) as [[a|g]|e] eqn:E.
    - unfold ranges_ok. apply (produce_ais_ranges line a E).
    - exact I.
    - apply (produce_raises_only_reader_set line e E).
  Qed.

  Lemma rd_feed_ok : forall use_tbq tq line p t tq' touts,
    rd_feed uni use_tbq tq line = (p, t, tq', touts) -> p = produce line /\ parsed_ok p /\ tbq_ok t.
  Proof.
    intros use_tbq tq line p t tq' touts H. unfold rd_feed in H.
    pose proof (produce_parsed_ok line) as Hp.
    destruct (produce line) as [s|e] eqn:E.
    - destruct use_tbq.
      + destruct (tbq_put uni tq s) as [[tq2 outs]|e] eqn:Et; inversion H; subst; (split; [reflexivity|split; [exact Hp|]]).
        * exact I.
        * eapply tbq_put_raises_only_reader_set; eassumption.
      + inversion H; subst. split; [reflexivity|split; [exact Hp|exact I]].
    - inversion H; subst. split; [reflexivity|split; [exact Hp|exact I]].
  Qed.

  Definition is_reader_loop (step : asm_stepfn) : Prop :=
    exists hs, catches_reader_set hs /\ forall st p t, step st p t = generic_step hs st p t.

  Lemma stream_is_reader_loop : is_reader_loop stream_step.
  Proof. exists stream_except. split; [exact stream_catches|exact stream_step_generic]. Qed.
  Lemma queue_is_reader_loop : is_reader_loop queue_step.
  Proof. exists queue_except. split; [exact queue_catches|exact queue_step_generic]. Qed.

  Definition rd_inv (st : rd_state) : Prop := buf_len255 (fst (fst st)).

  Lemma rd_step_total : forall step use_tbq st line, is_reader_loop step -> rd_inv st ->
    exists st' outs touts, rd_step uni step use_tbq st line = Ok (st', outs, touts) /\ rd_inv st'.
  Proof.
    intros step use_tbq [[b w] tq] line [hs [Hc Hs]] Hinv. unfold rd_step.
    destruct (rd_feed uni use_tbq tq line) as [[[p t] tq'] touts] eqn:E.
    destruct (rd_feed_ok _ _ _ _ _ _ _ E) as [_ [Hp Ht]].
    rewrite Hs. destruct (generic_step_total hs b w p t Hc Hinv Hp Ht) as [b' [w' [out [Eg Hb']]]].
    rewrite Eg. eexists _, _, _. split; [reflexivity|exact Hb'].
  Qed.

  (* no line sequence makes a reader raise: every line is consumed and the loop ends normally *)
  Theorem rd_run_total : forall step use_tbq lines st, is_reader_loop step -> rd_inv st ->
    exists outs st', rd_run uni step use_tbq st lines = (outs, Ok st') /\ length outs = length lines /\ rd_inv st'.
  Proof.
    intros step use_tbq lines. induction lines as [|l rest IH]; intros st Hl Hinv.
    - exists [], st. split; [reflexivity|split; [reflexivity|exact Hinv]].
    - cbn [rd_run]. destruct (rd_step_total step use_tbq st l Hl Hinv) as [st1 [outs [touts [E Hinv1]]]].
      rewrite E. destruct (IH st1 Hl Hinv1) as [r [st' [Er [Hlen Hinv']]]]. rewrite Er.
      exists ((outs, touts) :: r), st'. split; [reflexivity|split; [cbn [length]; now rewrite Hlen|exact Hinv']].
  Qed.

  Lemma rd_inv_init : rd_inv rd_init.
  Proof. constructor. Qed.

  (* ---------------------------------------------------------------- skipped lines are no-ops *)

  (* a line that does not parse changes nothing and delivers nothing *)
  Theorem rd_skip_unparsable : forall step use_tbq st line e, is_reader_loop step ->
    produce line = Raise e -> rd_step uni step use_tbq st line = Ok (st, [], []).
  Proof.
    intros step use_tbq [[b w] tq] line e [hs [Hc Hs]] E. unfold rd_step, rd_feed. rewrite E. rewrite Hs.
    unfold generic_step. rewrite (Hc e (produce_raises_only_reader_set line e E)). reflexivity.
  Qed.

  (* a sentence whose tag block is malformed is skipped as a whole: nothing delivered, neither state changes *)
  Theorem rd_skip_bad_tag_block : forall step st line s e, is_reader_loop step ->
    produce line = Ok s -> tbq_put uni (snd st) s = Raise e -> rd_step uni step true st line = Ok (st, [], []).
  Proof.
    intros step [[b w] tq] line s e [hs [Hc Hs]] E Et. cbn [snd] in Et. unfold rd_step, rd_feed. rewrite E, Et. rewrite Hs.
    unfold generic_step. rewrite (Hc e (tbq_put_raises_only_reader_set uni tq s e Et)). reflexivity.
  Qed.

  (* hence any block of unparsable lines can be deleted from the input without changing anything else *)
  Lemma rd_run_app : forall step use_tbq l1 l2 st,
    rd_run uni step use_tbq st (l1 ++ l2) =
    match rd_run uni step use_tbq st l1 with
    | (o1, Ok st1) => let '(o2, fin) := rd_run uni step use_tbq st1 l2 in (o1 ++ o2, fin)
    | (o1, Raise e) => (o1, Raise e)
    end.
  Proof.
    intros step use_tbq l1. induction l1 as [|l r IH]; intros l2 st.
    - cbn [app rd_run]. destruct (rd_run uni step use_tbq st l2). reflexivity.
    - cbn [app rd_run]. destruct (rd_step uni step use_tbq st l) as [[[st' outs] touts]|e]; [|reflexivity].
      rewrite IH. destruct (rd_run uni step use_tbq st' r) as [o1 [st1|e]]; [|reflexivity].
      destruct (rd_run uni step use_tbq st1 l2). reflexivity.
  Qed.

  Lemma rd_run_skip_block : forall step use_tbq bad st, is_reader_loop step ->
    Forall (fun l => exists e, produce l = Raise e) bad ->
    rd_run uni step use_tbq st bad = (map (fun _ => ([], [])) bad, Ok st).
  Proof.
    intros step use_tbq bad st Hl. induction bad as [|l r IH]; intros H; [reflexivity|].
    inversion H as [|x y [e He] Hr]; subst. cbn [rd_run map].
    rewrite (rd_skip_unparsable step use_tbq st l e Hl He). rewrite (IH Hr). reflexivity.
  Qed.

  Theorem rd_skipped_lines_are_noops : forall step use_tbq l1 bad l2 st, is_reader_loop step ->
    Forall (fun l => exists e, produce l = Raise e) bad ->
    rd_run uni step use_tbq st (l1 ++ bad ++ l2) =
    match rd_run uni step use_tbq st l1 with
    | (o1, Ok st1) => let '(o2, fin) := rd_run uni step use_tbq st1 l2 in
                      (o1 ++ map (fun _ => ([], [])) bad ++ o2, fin)
    | (o1, Raise e) => (o1, Raise e)
    end.
  Proof.
    intros step use_tbq l1 bad l2 st Hl Hbad. rewrite rd_run_app.
    destruct (rd_run uni step use_tbq st l1) as [o1 [st1|e]]; [|reflexivity].
    rewrite rd_run_app. rewrite (rd_run_skip_block step use_tbq bad st1 Hl Hbad).
    destruct (rd_run uni step use_tbq st1 l2). reflexivity.
  Qed.

  (* ---------------------------------------------------------------- a line only touches its own slot *)

  Theorem rd_slot_independence : forall step use_tbq b w tq line b' w' tq' outs touts s, is_reader_loop step ->
    rd_step uni step use_tbq ((b, w), tq) line = Ok (((b', w'), tq'), outs, touts) ->
    (forall a, produce line = Ok (SAis a) -> s <> slot_of a) ->
    buf_get b' s = buf_get b s.
  Proof.
    intros step use_tbq b w tq line b' w' tq' outs touts s [hs [Hc Hs]] H Hslot. unfold rd_step in H.
    destruct (rd_feed uni use_tbq tq line) as [[[p t] tq2] touts2] eqn:E.
    destruct (rd_feed_ok _ _ _ _ _ _ _ E) as [Hp _]. rewrite Hs in H.
    destruct (generic_step hs (b, w) p t) as [[[b2 w2] out2]|e] eqn:Eg; [|discriminate].
    inversion H; subst.
    apply (generic_slot_independence hs b w (produce line) t (b', w') outs s Eg). exact Hslot.
  Qed.
End Readers.
