(* variant_consistent, decode side: the class the regenerated dispatch trees select from the discriminator BITS of a
   payload is the class of the variant the ITU layout (Spec/Layout.v spec_variant) assigns to those bits.
   Unbounded in the payload; the finite part (64 type ids x the at most 5 discriminator bits) is checked by
   vm_compute against the regenerated Gen/GenDispatch.v. *)
From Coq Require Import ZArith List Bool String Lia.
Require Import Prim.Exn Prim.Bits Gen.GenEnums Model.FieldTypes Gen.GenTables Gen.GenDispatch Model.Codec.
Require Import Spec.Layout Proofs.RoundTripBits Proofs.RoundTripLoops.
Import ListNotations.
Open Scope Z_scope.

Local Notation len := (@List.length bool).

Definition cls_of (v : variant) : cls :=
  match v with
  | V1 => MessageType1 | V2 => MessageType2 | V3 => MessageType3 | V4 => MessageType4 | V5 => MessageType5
  | V6 => MessageType6 | V7 => MessageType7 | V8 => MessageType8 | V9 => MessageType9 | V10 => MessageType10
  | V11 => MessageType11 | V12 => MessageType12 | V13 => MessageType13 | V14 => MessageType14 | V15 => MessageType15
  | V16 => MessageType16 | V17 => MessageType17 | V18 => MessageType18 | V19 => MessageType19 | V20 => MessageType20
  | V21 => MessageType21 | V22Addressed => MessageType22Addressed | V22Broadcast => MessageType22Broadcast
  | V23 => MessageType23 | V24A => MessageType24PartA | V24B => MessageType24PartB
  | V25AddressedStructured => MessageType25AddressedStructured
  | V25BroadcastStructured => MessageType25BroadcastStructured
  | V25AddressedUnstructured => MessageType25AddressedUnstructured
  | V25BroadcastUnstructured => MessageType25BroadcastUnstructured
  | V26AddressedStructured => MessageType26AddressedStructured
  | V26BroadcastStructured => MessageType26BroadcastStructured
  | V26AddressedUnstructured => MessageType26AddressedUnstructured
  | V26BroadcastUnstructured => MessageType26BroadcastUnstructured
  | V27 => MessageType27
  end.

Lemma class_names : forallb (fun v => String.eqb (class_name (cls_of v)) (variant_class v)) all_variants = true.
Proof. vm_compute. reflexivity. Qed.

Lemma in_all_variants v : In v all_variants.
Proof. destruct v; cbn; tauto. Qed.

Lemma cls_eqb_eq a b : cls_eqb a b = true -> a = b.
Proof. destruct a, b; cbn; congruence. Qed.

(* ------------------------------------------------------------------------------------------------ *)
(* plain readings                                                                                     *)

Lemma uval_ubits b : uval b = ubits b.
Proof. induction b as [|x r IH]; [reflexivity|]. rewrite ubits_cons. cbn [uval]. rewrite IH. destruct x; cbn [b2z]; lia. Qed.

Lemma sub_is_slice (b : bits) off w : sub b off w = slice b off (off + w).
Proof. unfold sub, slice. f_equal. lia. Qed.

Lemma slice_length (b : bits) lo hi : (hi <= len b)%nat -> len (slice b lo hi) = (hi - lo)%nat.
Proof. intros H. unfold slice. rewrite firstn_length, skipn_length. lia. Qed.

Lemma get_int_uval b lo w : (lo + w <= len b)%nat -> get_int b lo (lo + w) false = uval (sub b lo w).
Proof.
  intros H. rewrite uval_ubits, sub_is_slice. apply get_int_slice; [reflexivity|]. apply slice_length. exact H.
Qed.

Lemma sub_one (b : bits) i : (i < len b)%nat -> sub b i 1 = [nth i b false].
Proof.
  revert i. induction b as [|x r IH]; intros i H; [cbn in H; lia|].
  destruct i as [|i]; [reflexivity|]. cbn [List.length] in H. unfold sub in *. cbn [skipn nth]. apply IH. lia.
Qed.

Lemma get_int_bit b i : (i + 1 <= len b)%nat -> get_int b i (i + 1) false = b2z (bit_at b i).
Proof.
  intros H. rewrite get_int_uval by assumption. rewrite sub_one by lia. unfold bit_at.
  destruct (nth i b false); reflexivity.
Qed.

(* ------------------------------------------------------------------------------------------------ *)
(* the dispatch trees read through an abstract reader                                                 *)

Fixpoint run_dtree_rd (rd : nat -> nat -> Z) (t : dtree cls) : M cls :=
  match t with
  | DLeaf c => Ok c
  | DRaise => Raise (Lib UnknownPartNoException)
  | DIfBits lo hi t1 t2 => if rd lo hi =? 0 then run_dtree_rd rd t2 else run_dtree_rd rd t1
  | DIfBitsEq lo hi v t1 t2 => if rd lo hi =? v then run_dtree_rd rd t1 else run_dtree_rd rd t2
  end.

Lemma run_dtree_as_rd t b : run_dtree t b = run_dtree_rd (fun lo hi => get_int b lo hi false) t.
Proof. induction t; cbn; try reflexivity; rewrite IHt1, IHt2; reflexivity. Qed.

Fixpoint reads (t : dtree cls) : list (nat * nat) :=
  match t with
  | DLeaf _ | DRaise => []
  | DIfBits lo hi t1 t2 | DIfBitsEq lo hi _ t1 t2 => (lo, hi) :: reads t1 ++ reads t2
  end.

Lemma run_dtree_rd_ext rd1 rd2 t :
  (forall lo hi, In (lo, hi) (reads t) -> rd1 lo hi = rd2 lo hi) -> run_dtree_rd rd1 t = run_dtree_rd rd2 t.
Proof.
  induction t; intros H; cbn [run_dtree_rd]; try reflexivity.
  - rewrite (H lo hi) by (left; reflexivity).
    rewrite IHt1, IHt2; [reflexivity| |]; intros; apply H; cbn [reads]; right; apply in_or_app; auto.
  - rewrite (H lo hi) by (left; reflexivity).
    rewrite IHt1, IHt2; [reflexivity| |]; intros; apply H; cbn [reads]; right; apply in_or_app; auto.
Qed.

(* ------------------------------------------------------------------------------------------------ *)
(* the finite part                                                                                    *)

(* spec_variant as a function of the five readings it makes *)
Definition spec_variant_num (t : Z) (a s d : bool) (pp : Z) : option variant :=
  if t =? 1 then Some V1 else if t =? 2 then Some V2 else if t =? 3 then Some V3 else if t =? 4 then Some V4
  else if t =? 5 then Some V5 else if t =? 6 then Some V6 else if t =? 7 then Some V7 else if t =? 8 then Some V8
  else if t =? 9 then Some V9 else if t =? 10 then Some V10 else if t =? 11 then Some V11 else if t =? 12 then Some V12
  else if t =? 13 then Some V13 else if t =? 14 then Some V14 else if t =? 15 then Some V15 else if t =? 16 then Some V16
  else if t =? 17 then Some V17 else if t =? 18 then Some V18 else if t =? 19 then Some V19 else if t =? 20 then Some V20
  else if t =? 21 then Some V21
  else if t =? 22 then Some (if d then V22Addressed else V22Broadcast)
  else if t =? 23 then Some V23
  else if t =? 24 then (match pp with 0 => Some V24A | 1 => Some V24B | _ => None end)
  else if t =? 25 then Some (if a then (if s then V25AddressedStructured else V25AddressedUnstructured)
                             else (if s then V25BroadcastStructured else V25BroadcastUnstructured))
  else if t =? 26 then Some (if a then (if s then V26AddressedStructured else V26AddressedUnstructured)
                             else (if s then V26BroadcastStructured else V26BroadcastUnstructured))
  else if t =? 27 then Some V27
  else None.

Lemma spec_variant_as_num b :
  spec_variant b = spec_variant_num (uval (sub b 0 6)) (bit_at b 38) (bit_at b 39) (bit_at b 139) (uval (sub b 38 2)).
Proof. reflexivity. Qed.

(* the readings the regenerated trees may make, answered from the same five numbers; any other reading is answered
   with -1, which makes the check below fail if a tree looks anywhere else *)
Definition rd_num (t : Z) (a s d : bool) (pp : Z) (lo hi : nat) : Z :=
  match lo, hi with
  | 0%nat, 6%nat => t
  | 38%nat, 39%nat => b2z a
  | 39%nat, 40%nat => b2z s
  | 38%nat, 40%nat => pp
  | 139%nat, 140%nat => b2z d
  | _, _ => -1
  end.

Definition known_read (n : nat) (p : nat * nat) : bool :=
  let (lo, hi) := p in
  (hi <=? n)%nat &&
  (((lo =? 38) && (hi =? 39)) || ((lo =? 39) && (hi =? 40)) || ((lo =? 38) && (hi =? 40)) || ((lo =? 139) && (hi =? 140)))%nat.

Definition dispatch_case_ok (t : Z) (a s d : bool) (pp : Z) : bool :=
  match spec_variant_num t a s d pp with
  | None => true
  | Some v =>
    match assoc_z t msg_class_table with
    | None => false
    | Some (dt, _) =>
      forallb (known_read (disc_end v)) (reads dt) &&
      match run_dtree_rd (rd_num t a s d pp) dt with
      | Ok c => cls_eqb c (cls_of v)
      | Raise _ => false
      end
    end
  end.

Lemma dispatch_checked :
  forallb (fun t => forallb (fun a => forallb (fun s => forallb (fun d => forallb (fun pp =>
    dispatch_case_ok t a s d pp) (zrange 0 3)) [false; true]) [false; true]) [false; true]) (zrange 0 63) = true.
Proof. vm_compute. reflexivity. Qed.

Lemma in_zrange_ lo hi c : lo <= c <= hi -> In c (zrange lo hi).
Proof.
  intros H. unfold zrange. apply in_map_iff. exists (Z.to_nat (c - lo)). split; [lia|]. apply in_seq. lia.
Qed.
Lemma in_bools (x : bool) : In x [false; true].
Proof. destruct x; cbn; tauto. Qed.

Lemma uval_sub_bound b off w : 0 <= uval (sub b off w) < 2 ^ Z.of_nat w.
Proof.
  rewrite uval_ubits. pose proof (ubits_bound (sub b off w)) as B.
  assert (len (sub b off w) <= w)%nat as L by (unfold sub; rewrite firstn_length; lia).
  assert (2 ^ Z.of_nat (len (sub b off w)) <= 2 ^ Z.of_nat w) by (apply Z.pow_le_mono_r; lia). lia.
Qed.

(* variant_consistent (decode side) *)
Theorem dispatch_matches_spec b v : spec_variant b = Some v -> (disc_end v <= len b)%nat ->
  exists dt ct, assoc_z (get_int b 0 6 false) msg_class_table = Some (dt, ct) /\ run_dtree dt b = Ok (cls_of v).
Proof.
  intros Hv Hl. rewrite spec_variant_as_num in Hv.
  set (t := uval (sub b 0 6)) in *. set (a := bit_at b 38) in *. set (s := bit_at b 39) in *.
  set (d := bit_at b 139) in *. set (pp := uval (sub b 38 2)) in *.
  assert (6 <= disc_end v)%nat as H6 by (destruct v; cbn; lia).
  assert (get_int b 0 6 false = t) as Ht by (apply (get_int_uval b 0 6); lia).
  pose proof dispatch_checked as K. rewrite forallb_forall in K.
  pose proof (uval_sub_bound b 0 6) as Bt. pose proof (uval_sub_bound b 38 2) as Bp.
  change (2 ^ Z.of_nat 6) with 64 in Bt. change (2 ^ Z.of_nat 2) with 4 in Bp.
  specialize (K t (in_zrange_ 0 63 t ltac:(fold t in Bt; lia))). rewrite forallb_forall in K.
  specialize (K a (in_bools a)). rewrite forallb_forall in K.
  specialize (K s (in_bools s)). rewrite forallb_forall in K.
  specialize (K d (in_bools d)). rewrite forallb_forall in K.
  specialize (K pp (in_zrange_ 0 3 pp ltac:(fold pp in Bp; lia))).
  unfold dispatch_case_ok in K. rewrite Hv in K.
  rewrite Ht. destruct (assoc_z t msg_class_table) as [[dt ct]|]; [|discriminate].
  exists dt, ct. split; [reflexivity|].
  apply andb_prop in K as [Kr Kc].
  rewrite run_dtree_as_rd.
  rewrite (run_dtree_rd_ext _ (rd_num t a s d pp)).
  - destruct (run_dtree_rd (rd_num t a s d pp) dt) as [c|]; [|discriminate]. apply cls_eqb_eq in Kc. congruence.
  - intros lo hi Hin. rewrite forallb_forall in Kr. specialize (Kr _ Hin). unfold known_read in Kr.
    apply andb_prop in Kr as [Khi Kp]. apply Nat.leb_le in Khi.
    repeat (apply orb_prop in Kp as [Kp|Kp]); apply andb_prop in Kp as [E1 E2];
      apply Nat.eqb_eq in E1, E2; subst lo hi; cbn [rd_num].
    + apply (get_int_bit b 38). lia.
    + apply (get_int_bit b 39). lia.
    + apply (get_int_uval b 38 2). lia.
    + apply (get_int_bit b 139). lia.
Qed.

(* the variant only depends on the first disc_end bits *)
Lemma sub_firstn (b : bits) n off w : (off + w <= n)%nat -> sub (firstn n b) off w = sub b off w.
Proof. intros H. rewrite !sub_is_slice. apply slice_firstn. exact H. Qed.

Lemma nth_firstn_lt (b : bits) n i : (i < n)%nat -> nth i (firstn n b) false = nth i b false.
Proof.
  revert n i. induction b as [|x r IH]; intros n i H.
  - rewrite firstn_nil. reflexivity.
  - destruct n; [lia|]. destruct i; [reflexivity|]. cbn. apply IH. lia.
Qed.

Lemma spec_variant_num_ext t a s d pp a' s' d' pp' v :
  spec_variant_num t a s d pp = Some v ->
  ((40 <= disc_end v)%nat -> a' = a /\ s' = s /\ pp' = pp) -> ((140 <= disc_end v)%nat -> d' = d) ->
  spec_variant_num t a' s' d' pp' = Some v.
Proof.
  unfold spec_variant_num. intros H H40 H140.
  repeat match type of H with
         | (if ?c then _ else _) = Some v => destruct c
         end; try assumption.
  - assert (disc_end v = 140%nat) as E by (destruct d; injection H as <-; reflexivity).
    rewrite H140 by lia. exact H.
  - assert (disc_end v = 40%nat) as E by (destruct pp as [|[ | |]|]; try discriminate; injection H as <-; reflexivity).
    destruct H40 as (_ & _ & ->); [lia|]. exact H.
  - assert (disc_end v = 40%nat) as E by (destruct a, s; injection H as <-; reflexivity).
    destruct H40 as (-> & -> & _); [lia|]. exact H.
  - assert (disc_end v = 40%nat) as E by (destruct a, s; injection H as <-; reflexivity).
    destruct H40 as (-> & -> & _); [lia|]. exact H.
Qed.

Lemma spec_variant_prefix b b' v : spec_variant b = Some v ->
  firstn (disc_end v) b' = firstn (disc_end v) b -> spec_variant b' = Some v.
Proof.
  intros Hv E.
  assert (6 <= disc_end v)%nat as H6 by (destruct v; cbn; lia).
  assert (uval (sub b' 0 6) = uval (sub b 0 6)) as E6.
  { rewrite <- (sub_firstn b' (disc_end v)), <- (sub_firstn b (disc_end v)) by lia. rewrite E. reflexivity. }
  assert (forall i, (i < disc_end v)%nat -> bit_at b' i = bit_at b i) as Eb.
  { intros i Hi. unfold bit_at. rewrite <- (nth_firstn_lt b' (disc_end v)), <- (nth_firstn_lt b (disc_end v)) by lia.
    rewrite E. reflexivity. }
  assert ((40 <= disc_end v)%nat -> uval (sub b' 38 2) = uval (sub b 38 2)) as Ep.
  { intros H. rewrite <- (sub_firstn b' (disc_end v)), <- (sub_firstn b (disc_end v)) by lia. rewrite E. reflexivity. }
  rewrite spec_variant_as_num in *. rewrite E6.
  apply (spec_variant_num_ext _ _ _ _ _ _ _ _ _ _ Hv).
  - intros H. repeat split; [apply Eb; lia|apply Eb; lia|apply Ep; exact H].
  - intros H. apply Eb. lia.
Qed.
