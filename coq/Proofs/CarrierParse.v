(* parse_carrier: NMEASentenceFactory.produce (Model/Nmea.v) applied to the text of ANY sentence of the carrier family
   (Spec/CarrierSpec.v sentence_text) yields an AIS sentence whose fragment count, fragment number, payload and bit
   array are the given ones -- whatever the talker, the letter case of VDM/VDO, the channel, the sequence id, the
   checksum digits, the tag block and the trailing white space. *)
From Coq Require Import ZArith List Bool Lia.
Require Import Prim.Exn Prim.Bits Prim.PyBytes Prim.PyInt Gen.GenConst Model.Sentence Model.Codec Model.Nmea
               Spec.CarrierSpec Proofs.Dearmor Proofs.CarrierPrim.
Import ListNotations.
Open Scope Z_scope.
Open Scope exn_scope.

(* ------------------------------------------------------------------------------------------------ *)
(* character classes of the specification, pointwise                                                  *)
Lemma upper_facts : forall c, is_upper c = true -> c <> 44 /\ c <> 42 /\ (c <? 128) = true /\ PyBytes.is_space c = false.
Proof. intros c H. unfold is_upper in H. unfold PyBytes.is_space. lia. Qed.

Lemma hex_facts : forall c, is_hexdigit c = true -> c <> 44 /\ c <> 42 /\ PyBytes.is_space c = false.
Proof. intros c H. unfold is_hexdigit in H. unfold PyBytes.is_space. lia. Qed.

Lemma armor_facts : forall c, is_armor c = true -> c <> 44 /\ printable c = true.
Proof. intros c H. unfold is_armor in H. unfold printable. lia. Qed.

Lemma armor_printable : forall p, forallb is_armor p = true -> forallb printable p = true.
Proof.
  induction p as [|c p IH]; intros H; [reflexivity|].
  cbn [forallb] in *. apply andb_prop in H. destruct H as [Hc Hp].
  rewrite (proj2 (armor_facts c Hc)), (IH Hp). reflexivity.
Qed.

Lemma armor_nosep : forall p, forallb is_armor p = true -> nosep 44 p.
Proof. intros p. apply nosep_of_forallb. intros c H. exact (proj1 (armor_facts c H)). Qed.

Lemma digit_facts : forall n, (n <= 9)%nat ->
  digit n <> 44 /\ digit n <> 42 /\ PyBytes.is_space (digit n) = false.
Proof. intros n H. unfold digit, PyBytes.is_space. lia. Qed.

(* ------------------------------------------------------------------------------------------------ *)
(* VDM / VDO in any letter case                                                                        *)
Lemma vdm_match : forall l : list Z,
  match l with [118; 100; 109] | [118; 100; 111] => true | _ => false end = true ->
  l = [118; 100; 109] \/ l = [118; 100; 111].
Proof.
  intros l H. destruct l as [|a [|b [|c [|? ?]]]]; try discriminate.
  - destruct a as [|a|a]; try discriminate.
    do 7 (destruct a as [a|a|]; try discriminate).
  - destruct a as [|a|a]; try discriminate.
    do 7 (destruct a as [a|a|]; try discriminate).
    destruct b as [|b|b]; try discriminate.
    do 7 (destruct b as [b|b|]; try discriminate).
  - destruct a as [|a|a]; try discriminate.
    do 7 (destruct a as [a|a|]; try discriminate).
    destruct b as [|b|b]; try discriminate.
    do 7 (destruct b as [b|b|]; try discriminate).
    destruct c as [|c|c]; try discriminate.
    do 7 (destruct c as [c|c|]; try discriminate); auto.
  - destruct a as [|a|a]; try discriminate.
    do 7 (destruct a as [a|a|]; try discriminate).
    destruct b as [|b|b]; try discriminate.
    do 7 (destruct b as [b|b|]; try discriminate).
    destruct c as [|c|c]; try discriminate.
    do 7 (destruct c as [c|c|]; try discriminate).
Qed.

Lemma lower_cases : forall c k, 97 <= k <= 122 -> lower c = k -> c = k \/ c = k - 32.
Proof.
  intros c k Hk H. unfold lower, is_upper in H.
  destruct (Z.leb_spec 65 c), (Z.leb_spec c 90); cbn [andb] in H; lia.
Qed.

Lemma type_word : forall t, is_vdm_vdo t = true ->
  exists y1 y2 y3, t = [y1; y2; y3] /\
    (bytes_eqb (bupper t) B_VDM || bytes_eqb (bupper t) B_VDO = true) /\
    forallb (fun c => c <? 128) t = true /\ nosep 44 t.
Proof.
  intros t H. unfold is_vdm_vdo in H. apply vdm_match in H.
  destruct t as [|y1 [|y2 [|y3 [|? ?]]]]; cbn [map] in H; try (destruct H as [H|H]; discriminate).
  exists y1, y2, y3. split; [reflexivity|].
  assert (Hc : (y1 = 118 \/ y1 = 86) /\ (y2 = 100 \/ y2 = 68) /\ ((y3 = 109 \/ y3 = 77) \/ (y3 = 111 \/ y3 = 79))).
  { destruct H as [H|H]; injection H as H1 H2 H3;
    apply lower_cases in H1; try lia; apply lower_cases in H2; try lia; apply lower_cases in H3; try lia;
    repeat split; lia. }
  destruct Hc as [[-> | ->] [[-> | ->] [[-> | ->] | [-> | ->]]]]; repeat split; reflexivity.
Qed.

(* ------------------------------------------------------------------------------------------------ *)
(* the pieces of the parser on explicit field lists                                                   *)
Lemma decode_ascii_ok : forall b, forallb (fun c => c <? 128) b = true -> decode_ascii b = Ok b.
Proof. intros b H. unfold decode_ascii. now rewrite H. Qed.

Lemma compute_checksum_ok : forall raw, exists v, compute_checksum raw = Ok v.
Proof.
  intros raw. unfold compute_checksum.
  destruct (bsplit_max_nonempty ASTERISK (py_slice raw (Some 1) None) 1) as [h [t ->]].
  rewrite py_index_0. cbn [bind]. now eexists.
Qed.

(* the last comma field  <fill digit> * <checksum characters>  *)
Lemma chk_to_int_ok : forall f hh, (f <= 9)%nat -> nosep 42 hh ->
  exists v, chk_to_int (digit f :: 42 :: hh) = Ok (Z.of_nat f, v).
Proof.
  intros f hh Hf Hh. unfold chk_to_int. cbn [length Nat.eqb].
  change (digit f :: 42 :: hh) with ([digit f] ++ 42 :: hh). unfold ASTERISK.
  rewrite bsplit_app by (apply nosep_cons; [exact (proj1 (proj2 (digit_facts f Hf)))|apply nosep_nil]).
  rewrite (bsplit_nosep 42 hh Hh). cbn [unpack2 mmap try_except bind].
  change (digit f) with (dec_digit f). rewrite (py_int_digit f Hf). cbn [try_except bind].
  destruct (py_int_bytes_outcome 16 hh) as [[v ->] | ->]; cbn; now eexists.
Qed.

Lemma index_last7 : forall (A : Type) (a b c d e f g : A), py_index [a; b; c; d; e; f; g] (-1) = Ok g.
Proof. reflexivity. Qed.
Lemma slice_mid7 : forall (A : Type) (a b c d e f g : A),
  py_slice [a; b; c; d; e; f; g] (Some 1) (Some (-1)) = [b; c; d; e; f].
Proof. reflexivity. Qed.
Lemma slice_five : forall (A : Type) (b c d e f : A), py_slice [b; c; d; e; f] None (Some 5) = [b; c; d; e; f].
Proof. reflexivity. Qed.
Lemma slice_delim : forall (d t1 t2 y1 y2 y3 : Z), py_slice [d; t1; t2; y1; y2; y3] None (Some 1) = [d].
Proof. reflexivity. Qed.
Lemma slice_talker : forall (d t1 t2 y1 y2 y3 : Z), py_slice [d; t1; t2; y1; y2; y3] (Some 1) (Some 3) = [t1; t2].
Proof. reflexivity. Qed.
Lemma slice_type : forall (d t1 t2 y1 y2 y3 : Z), py_slice [d; t1; t2; y1; y2; y3] (Some 3) None = [y1; y2; y3].
Proof. reflexivity. Qed.

Definition seq_field (seq : option nat) : list Z := match seq with Some s => [digit s] | None => [] end.
Definition seq_ok (seq : option nat) : Prop := match seq with Some s => (s <= 9)%nat | None => True end.

(* NMEASentence.__init__ *)
Lemma nmea_init_fields : forall raw d t1 t2 y1 y2 y3 F1 F2 F3 F4 F5 f hh,
  bsplit Nmea.COMMA raw = [[d; t1; t2; y1; y2; y3]; F1; F2; F3; F4; F5; digit f :: 42 :: hh] ->
  forallb (fun c => c <? 128) [t1; t2] = true -> forallb (fun c => c <? 128) [y1; y2; y3] = true ->
  (f <= 9)%nat -> nosep 42 hh ->
  exists chk valid,
    nmea_init raw = Ok (mkCommon raw [d] [t1; t2] [y1; y2; y3] chk (Z.of_nat f) valid [F1; F2; F3; F4; F5] None).
Proof.
  intros raw d t1 t2 y1 y2 y3 F1 F2 F3 F4 F5 f hh Hs Ht Hy Hf Hh.
  unfold nmea_init. cbv zeta. rewrite Hs. rewrite py_index_0. cbn [bind].
  rewrite slice_delim, slice_talker, slice_type.
  rewrite (decode_ascii_ok _ Ht), (decode_ascii_ok _ Hy). cbn [bind try_except].
  rewrite index_last7. cbn [bind].
  destruct (chk_to_int_ok f hh Hf Hh) as [chk ->]. cbn [bind].
  destruct (compute_checksum_ok raw) as [cs ->]. cbn [bind].
  rewrite slice_mid7. now eexists; eexists.
Qed.

(* AISSentence.__init__ *)
Lemma ais_init_fields : forall raw d t1 t2 y1 y2 y3 n i seq chan chunk f hh,
  bsplit Nmea.COMMA raw = [[d; t1; t2; y1; y2; y3]; [digit n]; [digit i]; seq_field seq; chan; chunk; digit f :: 42 :: hh] ->
  forallb (fun c => c <? 128) [t1; t2] = true -> forallb (fun c => c <? 128) [y1; y2; y3] = true ->
  forallb (fun c => c <? 128) chan = true ->
  (1 <= n <= 9)%nat -> (1 <= i <= 9)%nat -> seq_ok seq -> (f <= 5)%nat -> nosep 42 hh ->
  forallb printable chunk = true -> chunk <> [] -> (Z.of_nat (length chunk) <= MAX_PAYLOAD_LEN) ->
  let bits := firstn (6 * length chunk - f) (all_sixbits chunk) in
  exists c, c_tag_block c = None /\
    ais_init raw = Ok (mkAis c (Z.of_nat n) (Z.of_nat i) (option_map Z.of_nat seq) chan chunk bits
                             (get_int bits 0 6 false) None).
Proof.
  intros raw d t1 t2 y1 y2 y3 n i seq chan chunk f hh Hs Ht Hy Hch Hn Hi Hseq Hf Hh Hp Hne Hlen bits.
  destruct (nmea_init_fields raw d t1 t2 y1 y2 y3 _ _ _ _ _ f hh Hs Ht Hy ltac:(lia) Hh) as [chk [valid Hc]].
  eexists. split; [|unfold ais_init; rewrite Hc; cbn [bind c_data_fields c_fill_bits]].
  2: { rewrite slice_five. cbn [unpack5 bind].
       change (digit n) with (dec_digit n). change (digit i) with (dec_digit i).
       rewrite (py_int_digit n) by lia. rewrite (py_int_digit i) by lia. cbn [bind].
       assert (Hsq : (if nonempty (seq_field seq) then mmap Some (py_int_bytes 10 (seq_field seq)) else Ok None)
                     = Ok (option_map Z.of_nat seq)).
       { destruct seq as [s|]; cbn [seq_field nonempty option_map]; [|reflexivity].
         change (digit s) with (dec_digit s). rewrite (py_int_digit s Hseq). reflexivity. }
       rewrite Hsq. cbn [bind]. rewrite (decode_ascii_ok _ Hch). cbn [bind try_except].
       destruct (Z.gtb_spec (Z.of_nat (length chunk)) MAX_PAYLOAD_LEN) as [H|_]; [lia|].
       unfold MAX_FRAG_CNT.
       destruct (Z.gtb_spec (Z.of_nat n) 100) as [H|_]; [lia|].
       destruct (Z.gtb_spec (Z.of_nat i) 100) as [H|_]; [lia|]. cbn [orb].
       destruct (Z.ltb_spec (Z.of_nat n) 1) as [H|_]; [lia|].
       destruct (Z.ltb_spec (Z.of_nat i) 1) as [H|_]; [lia|]. cbn [orb].
       destruct (Z.leb_spec 0 (Z.of_nat f)) as [_|H]; [|lia].
       destruct (Z.leb_spec (Z.of_nat f) 5) as [_|H]; [|lia]. cbn [andb negb].
       rewrite (dearmor_char_list chunk (Z.of_nat f) Hp) by (try lia; now right).
       rewrite Nat2Z.id. cbn [bind]. reflexivity. }
  reflexivity.
Qed.

(* _produce: the type word decides *)
Lemma produce_inner_fields : forall raw d t1 t2 y1 y2 y3 n i seq chan chunk f hh,
  bsplit Nmea.COMMA raw = [[d; t1; t2; y1; y2; y3]; [digit n]; [digit i]; seq_field seq; chan; chunk; digit f :: 42 :: hh] ->
  (bytes_eqb (bupper [y1; y2; y3]) B_VDM || bytes_eqb (bupper [y1; y2; y3]) B_VDO = true) ->
  produce_inner raw = mmap SAis (ais_init raw).
Proof.
  intros raw d t1 t2 y1 y2 y3 n i seq chan chunk f hh Hs Hy.
  unfold produce_inner. cbv zeta. rewrite Hs, py_index_0. cbn [bind]. rewrite slice_type, Hy. reflexivity.
Qed.

(* ------------------------------------------------------------------------------------------------ *)
(* the text of a carrier sentence                                                                      *)
Lemma bsplit7 : forall F0 F1 F2 F3 F4 F5 F6,
  nosep 44 F0 -> nosep 44 F1 -> nosep 44 F2 -> nosep 44 F3 -> nosep 44 F4 -> nosep 44 F5 -> nosep 44 F6 ->
  bsplit 44 (F0 ++ 44 :: F1 ++ 44 :: F2 ++ 44 :: F3 ++ 44 :: F4 ++ 44 :: F5 ++ 44 :: F6) = [F0; F1; F2; F3; F4; F5; F6].
Proof.
  intros. rewrite !bsplit_app by assumption. now rewrite bsplit_nosep by assumption.
Qed.

(* the sentence proper: without tag block and trailing white space *)
Definition bare_sentence (t1 t2 y1 y2 y3 : Z) (n i : nat) (seq : option nat) (chan chunk : list Z) (f : nat)
           (h1 h2 : Z) : list Z :=
  [33; t1; t2; y1; y2; y3] ++ 44 :: [digit n] ++ 44 :: [digit i] ++ 44 :: seq_field seq ++ 44 :: chan ++ 44 :: chunk
  ++ 44 :: [digit f; 42; h1; h2].

Lemma channel_facts : forall ch,
  existsb (fun c => if list_eq_dec Z.eq_dec c ch then true else false) channels = true ->
  nosep 44 ch /\ forallb (fun c => c <? 128) ch = true.
Proof.
  intros ch H. unfold channels in H. cbn [existsb] in H.
  repeat (match type of H with
          | (if ?c then true else false) || _ = true => destruct c as [<-|_]; [split; reflexivity|cbn [orb] in H]
          end).
  discriminate.
Qed.

Lemma seq_field_nosep : forall seq, seq_ok seq -> nosep 44 (seq_field seq).
Proof.
  intros [s|] H; [|reflexivity]. cbn [seq_field]. apply nosep_cons; [exact (proj1 (digit_facts s H))|apply nosep_nil].
Qed.

Lemma bare_sentence_split : forall t1 t2 y1 y2 y3 n i seq chan chunk f h1 h2,
  nosep 44 [t1; t2] -> nosep 44 [y1; y2; y3] -> (n <= 9)%nat -> (i <= 9)%nat -> seq_ok seq -> nosep 44 chan ->
  nosep 44 chunk -> (f <= 9)%nat -> nosep 44 [h1; h2] ->
  bsplit Nmea.COMMA (bare_sentence t1 t2 y1 y2 y3 n i seq chan chunk f h1 h2) =
  [[33; t1; t2; y1; y2; y3]; [digit n]; [digit i]; seq_field seq; chan; chunk; digit f :: 42 :: [h1; h2]].
Proof.
  intros t1 t2 y1 y2 y3 n i seq chan chunk f h1 h2 Ht Hy Hn Hi Hseq Hch Hck Hf Hh.
  unfold bare_sentence, Nmea.COMMA. apply bsplit7; try assumption.
  - apply nosep_cons; [lia|]. change [t1; t2; y1; y2; y3] with ([t1; t2] ++ [y1; y2; y3]). now apply nosep_app.
  - apply nosep_cons; [exact (proj1 (digit_facts n Hn))|apply nosep_nil].
  - apply nosep_cons; [exact (proj1 (digit_facts i Hi))|apply nosep_nil].
  - now apply seq_field_nosep.
  - apply nosep_cons; [exact (proj1 (digit_facts f Hf))|]. apply nosep_cons; [lia|exact Hh].
Qed.

(* produce on the bare sentence *)
Lemma produce_inner_bare : forall t1 t2 y1 y2 y3 n i seq chan chunk f h1 h2,
  forallb is_upper [t1; t2] = true -> is_vdm_vdo [y1; y2; y3] = true ->
  existsb (fun c => if list_eq_dec Z.eq_dec c chan then true else false) channels = true ->
  forallb is_hexdigit [h1; h2] = true ->
  (1 <= n <= 9)%nat -> (1 <= i <= 9)%nat -> seq_ok seq -> (f <= 5)%nat ->
  forallb is_armor chunk = true -> chunk <> [] -> (Z.of_nat (length chunk) <= MAX_PAYLOAD_LEN) ->
  let bits := firstn (6 * length chunk - f) (all_sixbits chunk) in
  exists c, c_tag_block c = None /\
    produce_inner (bare_sentence t1 t2 y1 y2 y3 n i seq chan chunk f h1 h2) =
    Ok (SAis (mkAis c (Z.of_nat n) (Z.of_nat i) (option_map Z.of_nat seq) chan chunk bits (get_int bits 0 6 false) None)).
Proof.
  intros t1 t2 y1 y2 y3 n i seq chan chunk f h1 h2 Ht Hy Hch Hh Hn Hi Hseq Hf Hck Hne Hlen bits.
  destruct (type_word _ Hy) as [z1 [z2 [z3 [Ez [Hvd [Hy128 Hysep]]]]]]. injection Ez as <- <- <-.
  destruct (channel_facts _ Hch) as [Hchsep Hch128].
  assert (Ht' : nosep 44 [t1; t2] /\ forallb (fun c => c <? 128) [t1; t2] = true).
  { cbn [forallb] in Ht. apply andb_prop in Ht. destruct Ht as [H1 H2]. apply andb_prop in H2. destruct H2 as [H2 _].
    destruct (upper_facts t1 H1) as [A1 [_ [B1 _]]]. destruct (upper_facts t2 H2) as [A2 [_ [B2 _]]].
    split; [apply nosep_cons; [exact A1|apply nosep_cons; [exact A2|apply nosep_nil]]|].
    cbn [forallb]. now rewrite B1, B2. }
  destruct Ht' as [Htsep Ht128].
  assert (Hh' : nosep 44 [h1; h2] /\ nosep 42 [h1; h2]).
  { cbn [forallb] in Hh. apply andb_prop in Hh. destruct Hh as [H1 H2]. apply andb_prop in H2. destruct H2 as [H2 _].
    destruct (hex_facts h1 H1) as [A1 [B1 _]]. destruct (hex_facts h2 H2) as [A2 [B2 _]].
    split; (apply nosep_cons; [assumption|apply nosep_cons; [assumption|apply nosep_nil]]). }
  destruct Hh' as [Hh44 Hh42].
  pose proof (bare_sentence_split t1 t2 y1 y2 y3 n i seq chan chunk f h1 h2 Htsep Hysep ltac:(lia) ltac:(lia) Hseq
                                  Hchsep (armor_nosep _ Hck) ltac:(lia) Hh44) as Hs.
  rewrite (produce_inner_fields _ _ _ _ _ _ _ _ _ _ _ _ _ _ Hs Hvd).
  destruct (ais_init_fields _ _ _ _ _ _ _ n i seq chan chunk f [h1; h2] Hs Ht128 Hy128 Hch128 Hn Hi Hseq Hf Hh42
                            (armor_printable _ Hck) Hne Hlen) as [c [Htb ->]].
  exists c. split; [exact Htb|reflexivity].
Qed.

(* ------------------------------------------------------------------------------------------------ *)
(* from the text of the specification to the bare sentence: tag block and trailing white space          *)
Definition ends_with (e : Z) (a : list Z) : Prop := exists b, a = b ++ [e].

Lemma ends_with_one : forall e, ends_with e [e].
Proof. intros e. now exists []. Qed.
Lemma ends_with_cons : forall e c a, ends_with e a -> ends_with e (c :: a).
Proof. intros e c a [b ->]. now exists (c :: b). Qed.
Lemma ends_with_app : forall e x a, ends_with e a -> ends_with e (x ++ a).
Proof. intros e x a [b ->]. exists (x ++ b). now rewrite app_assoc. Qed.

Lemma strip_wrapped : forall c r e ws,
  PyBytes.is_space c = false -> ends_with e (c :: r) -> PyBytes.is_space e = false ->
  forallb PyBytes.is_space ws = true -> strip ((c :: r) ++ ws) = c :: r.
Proof.
  intros c r e ws Hc [b Hb] He Hws. unfold strip. cbn [app]. rewrite lstrip_nonspace by exact Hc.
  change (c :: r ++ ws) with ((c :: r) ++ ws). rewrite rstrip_app_spaces by exact Hws.
  rewrite Hb. now apply rstrip_last_nonspace.
Qed.

Lemma bare_ends : forall t1 t2 y1 y2 y3 n i seq chan chunk f h1 h2,
  ends_with h2 (bare_sentence t1 t2 y1 y2 y3 n i seq chan chunk f h1 h2).
Proof.
  intros. unfold bare_sentence.
  repeat first [apply ends_with_one | apply ends_with_app | apply ends_with_cons].
Qed.

Definition tag_part (tb : option (list Z)) : list Z :=
  match tb with Some t => 92 :: t ++ [92] | None => [] end.

(* what opts_ok says, field by field *)
Lemma opts_ok_inv : forall o, opts_ok o = true ->
  exists t1 t2 y1 y2 y3 h1 h2,
    o_talker o = [t1; t2] /\ o_type o = [y1; y2; y3] /\ o_checksum o = [h1; h2] /\
    forallb is_upper [t1; t2] = true /\ is_vdm_vdo [y1; y2; y3] = true /\
    existsb (fun c => if list_eq_dec Z.eq_dec c (o_channel o) then true else false) channels = true /\
    forallb is_hexdigit [h1; h2] = true /\
    match o_tagblock o with Some tb => tb <> [] /\ nosep 92 tb | None => True end /\
    forallb PyBytes.is_space (o_trailing o) = true.
Proof.
  intros o H. unfold opts_ok in H.
  repeat (apply andb_prop in H; let K := fresh "K" in destruct H as [H K]).
  destruct (o_talker o) as [|t1 [|t2 [|? ?]]]; try discriminate.
  destruct (type_word _ K4) as [y1 [y2 [y3 [Ey _]]]].
  destruct (o_checksum o) as [|h1 [|h2 [|? ?]]]; try discriminate.
  exists t1, t2, y1, y2, y3, h1, h2. rewrite Ey in *. repeat split; try assumption.
  destruct (o_tagblock o) as [tb|]; [|exact I].
  apply andb_prop in K0. destruct K0 as [A B]. split.
  - destruct tb; [discriminate|discriminate].
  - revert B. apply nosep_of_forallb. intros c Hc. unfold BACKSLASH in Hc. lia.
Qed.

Lemma sentence_text_shape : forall o n i seq chunk f t1 t2 y1 y2 y3 h1 h2,
  o_talker o = [t1; t2] -> o_type o = [y1; y2; y3] -> o_checksum o = [h1; h2] ->
  sentence_text o n i seq chunk f =
  (tag_part (o_tagblock o) ++ bare_sentence t1 t2 y1 y2 y3 n i seq (o_channel o) chunk f h1 h2) ++ o_trailing o.
Proof.
  intros o n i seq chunk f t1 t2 y1 y2 y3 h1 h2 Et Ey Eh.
  unfold sentence_text, bare_sentence, tag_part, seq_field. rewrite Et, Ey, Eh.
  unfold BACKSLASH, BANG, CarrierSpec.COMMA, STAR.
  destruct (o_tagblock o) as [tb|]; repeat (first [rewrite <- app_assoc | progress cbn [app]]); reflexivity.
Qed.

(* ------------------------------------------------------------------------------------------------ *)
(* parse_carrier                                                                                       *)
Definition carrier_bits (chunk : list Z) (f : nat) : bits := firstn (6 * length chunk - f) (all_sixbits chunk).

Theorem parse_carrier : forall o n i seq chunk f,
  opts_ok o = true -> (1 <= n <= 9)%nat -> (1 <= i <= 9)%nat -> seq_ok seq -> (f <= 5)%nat ->
  forallb is_armor chunk = true -> chunk <> [] -> (Z.of_nat (length chunk) <= MAX_PAYLOAD_LEN) ->
  exists c, c_tag_block c = o_tagblock o /\
    produce (sentence_text o n i seq chunk f) =
    Ok (SAis (mkAis c (Z.of_nat n) (Z.of_nat i) (option_map Z.of_nat seq) (o_channel o) chunk (carrier_bits chunk f)
                    (get_int (carrier_bits chunk f) 0 6 false) None)).
Proof.
  intros o n i seq chunk f Ho Hn Hi Hseq Hf Hck Hne Hlen.
  destruct (opts_ok_inv o Ho) as [t1 [t2 [y1 [y2 [y3 [h1 [h2 [Et [Ey [Eh [Ht [Hy [Hch [Hh [Htb Hws]]]]]]]]]]]]]]].
  rewrite (sentence_text_shape o n i seq chunk f _ _ _ _ _ _ _ Et Ey Eh).
  destruct (produce_inner_bare t1 t2 y1 y2 y3 n i seq (o_channel o) chunk f h1 h2 Ht Hy Hch Hh Hn Hi Hseq Hf Hck Hne Hlen)
    as [c [Hctb Hprod]].
  fold (carrier_bits chunk f) in Hprod.
  set (bare := bare_sentence t1 t2 y1 y2 y3 n i seq (o_channel o) chunk f h1 h2) in *.
  assert (Hh2 : PyBytes.is_space h2 = false).
  { cbn [forallb] in Hh. apply andb_prop in Hh. destruct Hh as [_ H2]. apply andb_prop in H2. destruct H2 as [H2 _].
    exact (proj2 (proj2 (hex_facts h2 H2))). }
  assert (Hend : ends_with h2 bare) by apply bare_ends.
  assert (Hbare : exists r, bare = 33 :: r) by (now eexists).
  destruct Hbare as [r Hr].
  unfold produce.
  destruct (o_tagblock o) as [tb|] eqn:Etb.
  - (* a leading tag block *)
    destruct Htb as [Htbne Htbsep].
    assert (Hshape : tag_part (Some tb) ++ bare = 92 :: tb ++ 92 :: bare).
    { unfold tag_part. cbn [app]. rewrite <- app_assoc. reflexivity. }
    rewrite Hshape.
    assert (Hstrip : strip ((92 :: tb ++ 92 :: bare) ++ o_trailing o) = 92 :: tb ++ 92 :: bare).
    { apply (strip_wrapped 92 _ h2); [reflexivity| |exact Hh2|exact Hws].
      apply ends_with_cons, ends_with_app, ends_with_cons. exact Hend. }
    unfold pre_process. rewrite Hstrip. cbn [length Nat.eqb]. rewrite py_index_0. cbn [bind].
    unfold TAG_BLOCK_START. cbn [Z.eqb Pos.eqb]. rewrite py_slice_tail.
    rewrite (bfind_app 92 tb bare Htbsep). rewrite py_slice_inner, py_slice_after. cbn [bind].
    rewrite Hprod. cbn [bind]. destruct tb as [|x tb']; [contradiction|]. cbn [nonempty sentence_set_tag_block].
    eexists. split; [|reflexivity]. reflexivity.
  - (* no tag block *)
    cbn [tag_part app]. rewrite Hr in *.
    assert (Hstrip : strip ((33 :: r) ++ o_trailing o) = 33 :: r).
    { apply (strip_wrapped 33 _ h2); [reflexivity|exact Hend|exact Hh2|exact Hws]. }
    unfold pre_process. rewrite Hstrip. cbn [length Nat.eqb]. rewrite py_index_0. cbn [bind].
    unfold TAG_BLOCK_START. cbn [Z.eqb Pos.eqb]. cbn [bind]. rewrite Hprod. cbn [bind].
    exists c. split; [exact Hctb|reflexivity].
Qed.
