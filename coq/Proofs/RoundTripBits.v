(* Bit-level lemmas behind C02/C08: readings of bit strings, integer packing (int_roundtrip), chunking, payload
   armoring (armor_roundtrip).  Everything here is unbounded in the lengths/widths, except the per-character checks
   of the armoring, which range over the (genuinely finite) set of bit strings of length <= 6. *)
From Coq Require Import ZArith List Bool Lia.
Require Import Prim.Exn Prim.Bits Model.FieldTypes Gen.GenAlpha Model.Codec.
Import ListNotations.
Open Scope Z_scope.

Local Notation len := (@List.length bool).

(* ------------------------------------------------------------------------------------------------ *)
(* unsigned / signed reading                                                                          *)

Lemma ubits_acc_lin : forall b acc, ubits_acc acc b = acc * 2 ^ Z.of_nat (len b) + ubits_acc 0 b.
Proof.
  induction b as [|x r IH]; intros acc.
  - simpl. lia.
  - cbn [ubits_acc List.length]. rewrite IH. rewrite (IH (2 * 0 + b2z x)).
    rewrite Nat2Z.inj_succ, Z.pow_succ_r by lia. ring.
Qed.

Lemma ubits_cons x r : ubits (x :: r) = b2z x * 2 ^ Z.of_nat (len r) + ubits r.
Proof. unfold ubits. cbn [ubits_acc]. rewrite ubits_acc_lin. f_equal. Qed.

Lemma ubits_nil : ubits [] = 0.
Proof. reflexivity. Qed.

Lemma ubits_bound b : 0 <= ubits b < 2 ^ Z.of_nat (len b).
Proof.
  induction b as [|x r IH].
  - cbn. lia.
  - rewrite ubits_cons. cbn [List.length]. rewrite Nat2Z.inj_succ, Z.pow_succ_r by lia.
    destruct x; cbn [b2z]; lia.
Qed.

Lemma ubits_app a b : ubits (a ++ b) = ubits a * 2 ^ Z.of_nat (len b) + ubits b.
Proof.
  induction a as [|x r IH].
  - cbn [app]. rewrite ubits_nil. lia.
  - cbn [app]. rewrite !ubits_cons, IH, app_length, Nat2Z.inj_add, Z.pow_add_r by lia. ring.
Qed.

Lemma ubits_zeros n : ubits (repeat false n) = 0.
Proof.
  induction n as [|n IH]. reflexivity.
  cbn [repeat]. rewrite ubits_cons, IH. cbn. lia.
Qed.

Lemma ubits_ones n : ubits (repeat true n) = 2 ^ Z.of_nat n - 1.
Proof.
  induction n as [|n IH]. reflexivity.
  cbn [repeat]. rewrite ubits_cons, IH, repeat_length, Nat2Z.inj_succ, Z.pow_succ_r by lia. cbn [b2z]. lia.
Qed.

Lemma ubits_inj : forall a b, len a = len b -> ubits a = ubits b -> a = b.
Proof.
  induction a as [|x r IH]; intros [|y s] Hl Hu; try discriminate. reflexivity.
  cbn [List.length] in Hl. injection Hl as Hl.
  rewrite !ubits_cons, Hl in Hu.
  pose proof (ubits_bound r) as Br. pose proof (ubits_bound s) as Bs. rewrite Hl in Br.
  assert (x = y /\ ubits r = ubits s) as [-> E].
  { destruct x, y; cbn [b2z] in Hu; split; try reflexivity; try lia. }
  f_equal. apply IH; assumption.
Qed.

(* two's complement reading in arithmetic form *)
Lemma sbits_alt b : b <> [] ->
  sbits b = if ubits b <? 2 ^ (Z.of_nat (len b) - 1) then ubits b else ubits b - 2 ^ Z.of_nat (len b).
Proof.
  destruct b as [|s r]; [congruence|]. intros _. unfold sbits.
  rewrite ubits_cons. cbn [List.length]. rewrite Nat2Z.inj_succ.
  replace (Z.succ (Z.of_nat (len r)) - 1) with (Z.of_nat (len r)) by lia.
  pose proof (ubits_bound r) as Br.
  destruct s; cbn [b2z].
  - destruct (Z.ltb_spec (1 * 2 ^ Z.of_nat (len r) + ubits r) (2 ^ Z.of_nat (len r))); [lia|reflexivity].
  - destruct (Z.ltb_spec (0 * 2 ^ Z.of_nat (len r) + ubits r) (2 ^ Z.of_nat (len r))); [reflexivity|lia].
Qed.

Lemma sbits_bound b : b <> [] -> - 2 ^ (Z.of_nat (len b) - 1) <= sbits b < 2 ^ (Z.of_nat (len b) - 1).
Proof.
  intros H. rewrite sbits_alt by assumption. pose proof (ubits_bound b) as B.
  destruct b as [|s r]; [congruence|]. cbn [List.length] in *. rewrite Nat2Z.inj_succ in *.
  replace (Z.succ (Z.of_nat (len r)) - 1) with (Z.of_nat (len r)) by lia.
  rewrite Z.pow_succ_r in * by lia.
  destruct (Z.ltb_spec (ubits (s :: r)) (2 ^ Z.of_nat (len r))); lia.
Qed.

(* ------------------------------------------------------------------------------------------------ *)
(* padding to whole bytes and the shift back: from_bytes(bits) >> shift                               *)

Lemma from_bytes_u_shift b : Z.shiftr (from_bytes_u b) (Z.of_nat (pad_len (len b))) = ubits b.
Proof.
  unfold from_bytes_u, pad8. rewrite ubits_app, ubits_zeros, repeat_length, Z.add_0_r.
  rewrite Z.shiftr_div_pow2 by lia. apply Z.div_mul. apply Z.pow_nonzero; lia.
Qed.

Lemma from_bytes_s_shift b : Z.shiftr (from_bytes_s b) (Z.of_nat (pad_len (len b))) = sbits b.
Proof.
  unfold from_bytes_s, pad8.
  destruct b as [|s r].
  - reflexivity.
  - set (k := pad_len (len (s :: r))).
    unfold sbits at 1. cbn [app]. fold (app (s :: r) (repeat false k)).
    change (s :: r ++ repeat false k) with ((s :: r) ++ repeat false k).
    rewrite ubits_app, ubits_zeros, repeat_length, Z.add_0_r, app_length, repeat_length.
    rewrite Z.shiftr_div_pow2 by lia.
    unfold sbits. destruct s.
    + rewrite Nat2Z.inj_add, Z.pow_add_r by lia.
      replace (ubits (true :: r) * 2 ^ Z.of_nat k - 2 ^ Z.of_nat (len (true :: r)) * 2 ^ Z.of_nat k)
        with ((ubits (true :: r) - 2 ^ Z.of_nat (len (true :: r))) * 2 ^ Z.of_nat k) by ring.
      apply Z.div_mul. apply Z.pow_nonzero; lia.
    + apply Z.div_mul. apply Z.pow_nonzero; lia.
Qed.

(* ------------------------------------------------------------------------------------------------ *)
(* z_to_bits                                                                                          *)

Lemma z_to_bits_length w z : len (z_to_bits w z) = w.
Proof. induction w; cbn; congruence. Qed.

Lemma mod_pow2_succ z n : 0 <= n -> z mod 2 ^ (Z.succ n) = 2 ^ n * ((z / 2 ^ n) mod 2) + z mod 2 ^ n.
Proof.
  intros Hn. rewrite Z.pow_succ_r by lia. rewrite (Z.mul_comm 2).
  rewrite Z.rem_mul_r by (try apply Z.pow_nonzero; lia). lia.
Qed.

Lemma ubits_z_to_bits w z : ubits (z_to_bits w z) = z mod 2 ^ Z.of_nat w.
Proof.
  induction w as [|w IH].
  - cbn. rewrite Z.mod_1_r. reflexivity.
  - cbn [z_to_bits]. rewrite ubits_cons, IH, z_to_bits_length, Nat2Z.inj_succ, mod_pow2_succ by lia.
    rewrite Z.testbit_spec' by lia.
    destruct (Z.eqb_spec ((z / 2 ^ Z.of_nat w) mod 2) 1) as [E|E].
    + rewrite E. cbn [Z.b2z b2z]. replace (Z.b2z (1 =? 1)) with 1 by reflexivity. lia.
    + assert (0 <= (z / 2 ^ Z.of_nat w) mod 2 < 2) as B by (apply Z.mod_pos_bound; lia).
      assert ((z / 2 ^ Z.of_nat w) mod 2 = 0) as E0 by lia. rewrite E0.
      assert (Z.testbit z (Z.of_nat w) = false) as T.
      { apply Z.testbit_false; [lia|assumption]. }
      lia.
Qed.

Lemma z_to_bits_testbit w z : z_to_bits (S w) z = Z.testbit z (Z.of_nat w) :: z_to_bits w z.
Proof. reflexivity. Qed.

Lemma skipn_z_to_bits k w z : skipn k (z_to_bits (k + w) z) = z_to_bits w z.
Proof. induction k as [|k IH]; [reflexivity|]. cbn [plus z_to_bits skipn]. exact IH. Qed.

Lemma z_to_bits_ubits b : z_to_bits (len b) (ubits b) = b.
Proof.
  apply ubits_inj. apply z_to_bits_length.
  rewrite ubits_z_to_bits. apply Z.mod_small. apply ubits_bound.
Qed.

Lemma z_to_bits_zero_mod k z : z mod 2 ^ Z.of_nat k = 0 -> z_to_bits k z = repeat false k.
Proof.
  intros H. apply ubits_inj. rewrite z_to_bits_length, repeat_length; reflexivity.
  rewrite ubits_z_to_bits, ubits_zeros. exact H.
Qed.

Lemma z_to_bits_mod w z : z_to_bits w (z mod 2 ^ Z.of_nat w) = z_to_bits w z.
Proof.
  apply ubits_inj. rewrite !z_to_bits_length; reflexivity.
  rewrite !ubits_z_to_bits. apply Z.mod_mod. apply Z.pow_nonzero; lia.
Qed.

Lemma z_to_bits_high n s u : 0 <= u < 2 ^ Z.of_nat s -> z_to_bits (n + s) u = repeat false n ++ z_to_bits s u.
Proof.
  intros Hu. apply ubits_inj.
  - rewrite app_length, repeat_length, !z_to_bits_length. reflexivity.
  - rewrite ubits_app, ubits_zeros, !ubits_z_to_bits. cbn [Z.mul Z.add].
    rewrite !Z.mod_small; try lia.
    rewrite Nat2Z.inj_add, Z.pow_add_r by lia.
    assert (0 < 2 ^ Z.of_nat n) by (apply Z.pow_pos_nonneg; lia). nia.
Qed.

(* ------------------------------------------------------------------------------------------------ *)
(* util.int_to_bin and the reading of its output: int_roundtrip                                        *)

Lemma nbits_ge w : (w <= nbits_of_width w)%nat.
Proof.
  unfold nbits_of_width.
  pose proof (Nat.div_mod (w + 7) 8 ltac:(lia)) as E.
  pose proof (Nat.mod_upper_bound (w + 7) 8 ltac:(lia)) as B. lia.
Qed.

Lemma skipn_nbits w x : skipn (nbits_of_width w - w) (z_to_bits (nbits_of_width w) x) = z_to_bits w x.
Proof.
  pose proof (nbits_ge w) as Hn.
  replace (nbits_of_width w) with ((nbits_of_width w - w) + w)%nat at 2 by lia.
  apply skipn_z_to_bits.
Qed.

Lemma pow2_mono a b : 0 <= a <= b -> 2 ^ a <= 2 ^ b.
Proof. intros. apply Z.pow_le_mono_r; lia. Qed.

Lemma int_to_bin_unsigned w x : (0 < w)%nat -> 0 <= x <= 2 ^ Z.of_nat w - 1 ->
  exists b, int_to_bin x w false = Ok b /\ len b = w /\ ubits b = x.
Proof.
  intros Hw Hx. unfold int_to_bin.
  destruct (Z.leb_spec (2 ^ Z.of_nat w - 1) x) as [Hs|Hs].
  - exists (repeat true w). rewrite repeat_length, ubits_ones. repeat split; lia.
  - pose proof (nbits_ge w) as Hn.
    destruct (Nat.eqb_spec (nbits_of_width w) 0) as [E|E]; [lia|].
    destruct (Z.leb_spec 0 x) as [_|]; [|lia].
    rewrite skipn_nbits.
    eexists; split; [reflexivity|]. rewrite z_to_bits_length, ubits_z_to_bits. split; [reflexivity|].
    apply Z.mod_small. lia.
Qed.

Lemma sbits_z_to_bits w x : (0 < w)%nat -> - 2 ^ (Z.of_nat w - 1) <= x < 2 ^ (Z.of_nat w - 1) ->
  sbits (z_to_bits w x) = x.
Proof.
  intros Hw Hx.
  assert (z_to_bits w x <> []) as Hne.
  { intro E. apply (f_equal len) in E. rewrite z_to_bits_length in E. cbn in E. lia. }
  rewrite sbits_alt by assumption. rewrite z_to_bits_length, ubits_z_to_bits.
  assert (2 ^ Z.of_nat w = 2 * 2 ^ (Z.of_nat w - 1)) as P.
  { rewrite <- Z.pow_succ_r by lia. f_equal. lia. }
  assert (0 < 2 ^ (Z.of_nat w - 1)) as Pp by (apply Z.pow_pos_nonneg; lia).
  destruct (Z.ltb_spec x 0) as [Hneg|Hpos].
  - assert (x mod 2 ^ Z.of_nat w = x + 2 ^ Z.of_nat w) as ->.
    { symmetry. apply Z.mod_unique with (q := -1); lia. }
    destruct (Z.ltb_spec (x + 2 ^ Z.of_nat w) (2 ^ (Z.of_nat w - 1))); lia.
  - rewrite Z.mod_small by lia.
    destruct (Z.ltb_spec x (2 ^ (Z.of_nat w - 1))); lia.
Qed.

Lemma int_to_bin_signed w x : (0 < w)%nat -> - 2 ^ (Z.of_nat w - 1) <= x < 2 ^ (Z.of_nat w - 1) ->
  exists b, int_to_bin x w true = Ok b /\ len b = w /\ sbits b = x.
Proof.
  intros Hw Hx. unfold int_to_bin.
  assert (2 ^ Z.of_nat w = 2 * 2 ^ (Z.of_nat w - 1)) as P.
  { rewrite <- Z.pow_succ_r by lia. f_equal. lia. }
  assert (0 < 2 ^ (Z.of_nat w - 1)) as Pp by (apply Z.pow_pos_nonneg; lia).
  destruct (Z.leb_spec (2 ^ Z.of_nat w - 1) x) as [Hs|Hs]; [lia|].
  pose proof (nbits_ge w) as Hn.
  destruct (Nat.eqb_spec (nbits_of_width w) 0) as [E|E]; [lia|].
  assert (2 ^ (Z.of_nat w - 1) <= 2 ^ (Z.of_nat (nbits_of_width w) - 1)) as Q by (apply pow2_mono; lia).
  destruct (Z.leb_spec (- 2 ^ (Z.of_nat (nbits_of_width w) - 1)) x); [|lia].
  destruct (Z.ltb_spec x (2 ^ (Z.of_nat (nbits_of_width w) - 1))); [|lia].
  cbn [andb].
  rewrite skipn_nbits.
  eexists; split; [reflexivity|]. rewrite z_to_bits_length. split; [reflexivity|].
  apply sbits_z_to_bits; assumption.
Qed.

(* int_roundtrip: what from_bitarray reads back from the output of int_to_bin (unbounded in the width) *)
Theorem int_roundtrip_unsigned w x : (0 < w)%nat -> 0 <= x <= 2 ^ Z.of_nat w - 1 ->
  exists b, int_to_bin x w false = Ok b /\ len b = w /\
            Z.shiftr (from_bytes_u b) (Z.of_nat (pad_len (len b))) = x.
Proof.
  intros Hw Hx. destruct (int_to_bin_unsigned w x Hw Hx) as (b & E & L & U).
  exists b. rewrite from_bytes_u_shift. auto.
Qed.

Theorem int_roundtrip_signed w x : (0 < w)%nat -> - 2 ^ (Z.of_nat w - 1) <= x < 2 ^ (Z.of_nat w - 1) ->
  exists b, int_to_bin x w true = Ok b /\ len b = w /\
            Z.shiftr (from_bytes_s b) (Z.of_nat (pad_len (len b))) = x.
Proof.
  intros Hw Hx. destruct (int_to_bin_signed w x Hw Hx) as (b & E & L & U).
  exists b. rewrite from_bytes_s_shift. auto.
Qed.

(* the other direction (C08): packing what was read gives the bits back *)
Lemma int_to_bin_ubits b : b <> [] -> int_to_bin (ubits b) (len b) false = Ok b.
Proof.
  intros Hne. pose proof (ubits_bound b) as B.
  assert (0 < len b)%nat as Hw by (destruct b; [congruence|cbn; lia]).
  destruct (int_to_bin_unsigned (len b) (ubits b) Hw ltac:(lia)) as (b' & E & L & U).
  rewrite E. f_equal. apply ubits_inj; assumption.
Qed.

Lemma sbits_inj a b : len a = len b -> a <> [] -> sbits a = sbits b -> a = b.
Proof.
  intros Hl Ha Hs.
  assert (b <> []) as Hb by (destruct a, b; cbn in *; congruence).
  rewrite !sbits_alt in Hs by assumption. rewrite <- Hl in Hs.
  pose proof (ubits_bound a) as Ba. pose proof (ubits_bound b) as Bb. rewrite <- Hl in Bb.
  apply ubits_inj; [assumption|].
  assert (0 < len a)%nat as Hw by (destruct a; [congruence|cbn; lia]).
  assert (2 ^ Z.of_nat (len a) = 2 * 2 ^ (Z.of_nat (len a) - 1)) as P.
  { rewrite <- Z.pow_succ_r by lia. f_equal. lia. }
  destruct (Z.ltb_spec (ubits a) (2 ^ (Z.of_nat (len a) - 1))), (Z.ltb_spec (ubits b) (2 ^ (Z.of_nat (len a) - 1))); lia.
Qed.

Lemma int_to_bin_sbits b : b <> [] -> int_to_bin (sbits b) (len b) true = Ok b.
Proof.
  intros Hne. pose proof (sbits_bound b Hne) as B.
  assert (0 < len b)%nat as Hw by (destruct b; [congruence|cbn; lia]).
  destruct (int_to_bin_signed (len b) (sbits b) Hw B) as (b' & E & L & U).
  rewrite E. f_equal. apply sbits_inj; try assumption.
  destruct b'; [cbn in L; lia|congruence].
Qed.

(* ------------------------------------------------------------------------------------------------ *)
(* slices and concatenation                                                                           *)

Lemma slice_app_mid {A} (pre b post : list A) :
  slice (pre ++ b ++ post) (List.length pre) (List.length pre + List.length b) = b.
Proof.
  unfold slice. rewrite skipn_app, skipn_all, Nat.sub_diag. cbn [skipn app].
  replace (List.length pre + List.length b - List.length pre)%nat with (List.length b) by lia.
  rewrite firstn_app, firstn_all, Nat.sub_diag. cbn. apply app_nil_r.
Qed.

(* ------------------------------------------------------------------------------------------------ *)
(* util.chunks                                                                                        *)

Lemma chunks_fuel_enough {A} n : (0 < n)%nat -> forall f f' (l : list A),
  (List.length l <= f)%nat -> (List.length l <= f')%nat -> chunks_fuel f n l = chunks_fuel f' n l.
Proof.
  intros Hn. induction f as [|f IH]; intros f' l H H'.
  - destruct l; [|cbn in H; lia]. destruct f'; reflexivity.
  - destruct l as [|x r]; [destruct f'; reflexivity|].
    destruct f' as [|f']; [cbn in H'; lia|].
    cbn [chunks_fuel]. f_equal.
    assert (List.length (skipn n (x :: r)) <= List.length r)%nat.
    { rewrite skipn_length. cbn [List.length]. lia. }
    cbn [List.length] in H, H'. apply IH; lia.
Qed.

Lemma chunks_nil {A} n : @chunks A n [] = [].
Proof. reflexivity. Qed.

Lemma chunks_step {A} n (l : list A) : (0 < n)%nat -> l <> [] ->
  chunks n l = firstn n l :: chunks n (skipn n l).
Proof.
  intros Hn Hl. unfold chunks. destruct l as [|x r]; [congruence|].
  cbn [List.length chunks_fuel]. f_equal.
  apply chunks_fuel_enough; try assumption.
  - rewrite skipn_length. cbn [List.length]. lia.
  - lia.
Qed.

Lemma chunks_app_full {A} n (c r : list A) : (0 < n)%nat -> List.length c = n ->
  chunks n (c ++ r) = c :: chunks n r.
Proof.
  intros Hn Hc. rewrite chunks_step; try assumption.
  - rewrite firstn_app, skipn_app, Hc, Nat.sub_diag, <- Hc, firstn_all, skipn_all. cbn. rewrite app_nil_r. reflexivity.
  - destruct c; [cbn in Hc; lia|discriminate].
Qed.

Lemma chunks_short {A} n (c : list A) : (0 < n)%nat -> c <> [] -> (List.length c <= n)%nat -> chunks n c = [c].
Proof.
  intros Hn Hc Hl. rewrite chunks_step by assumption.
  rewrite firstn_all2 by assumption. rewrite skipn_all2 by assumption. reflexivity.
Qed.

Lemma chunks_concat {A} n (cs : list (list A)) : (0 < n)%nat ->
  Forall (fun c => List.length c = n) cs -> chunks n (concat cs) = cs.
Proof.
  intros Hn H. induction H as [|c cs Hc _ IH]; [reflexivity|].
  cbn [concat]. rewrite chunks_app_full by assumption. f_equal. exact IH.
Qed.

(* strong induction on the length of a list, in steps of n *)
Lemma chunk_induction {A} n (P : list A -> Prop) : (0 < n)%nat ->
  P [] -> (forall l, l <> [] -> P (skipn n l) -> P l) -> forall l, P l.
Proof.
  intros Hn H0 Hs l.
  assert (forall m (l : list A), (List.length l <= m)%nat -> P l) as G.
  { induction m as [|m IH]; intros l0 Hl.
    - destruct l0; [exact H0|cbn in Hl; lia].
    - destruct l0 as [|x r]; [exact H0|]. apply Hs; [discriminate|].
      apply IH. rewrite skipn_length. cbn [List.length] in *. lia. }
  apply (G (List.length l)). lia.
Qed.

(* ------------------------------------------------------------------------------------------------ *)
(* all bit strings of a given length (finite enumeration for the per-character checks)                *)

Fixpoint all_bits (n : nat) : list bits :=
  match n with
  | O => [[]]
  | S n' => map (cons false) (all_bits n') ++ map (cons true) (all_bits n')
  end.

Lemma in_all_bits : forall n (b : bits), len b = n -> In b (all_bits n).
Proof.
  induction n as [|n IH]; intros b H.
  - destruct b; [left; reflexivity|discriminate].
  - destruct b as [|x r]; [discriminate|]. injection H as H. cbn [all_bits]. apply in_or_app.
    destruct x; [right|left]; apply in_map; apply IH; assumption.
Qed.

(* ------------------------------------------------------------------------------------------------ *)
(* armoring: decode_into_bit_array (encode_ascii_6 b) = b                                              *)

(* the character encode_ascii_6 emits for one chunk *)
Definition armor_of_chunk (c : bits) : M Z := armor_char (Z.shiftr (from_bytes_u c) 2).

Definition printable (c : Z) : bool := (32 <=? c) && (c <=? 126).

(* a full chunk anywhere, and a chunk of 1..6 bits in last position with its own fill count *)
Definition chunk_mid_ok (c : bits) : bool :=
  match armor_of_chunk c with
  | Ok a => printable a && (if list_eq_dec Bool.bool_dec (z_to_bits 6 (dearmor_char a)) c then true else false)
  | Raise _ => false
  end.
Definition chunk_last_ok (c : bits) : bool :=
  match armor_of_chunk c with
  | Ok a => match decode_into_bit_array [a] (Z.of_nat (6 - List.length c)) with
            | Ok b => if list_eq_dec Bool.bool_dec b c then true else false
            | Raise _ => false
            end
  | Raise _ => false
  end.

Lemma chunks_mid_checked : forallb chunk_mid_ok (all_bits 6) = true.
Proof. vm_compute. reflexivity. Qed.
Lemma chunks_last_checked :
  forallb (fun n => forallb chunk_last_ok (all_bits n)) [1; 2; 3; 4; 5; 6]%nat = true.
Proof. vm_compute. reflexivity. Qed.

Lemma chunk_mid c : len c = 6%nat ->
  exists a, armor_of_chunk c = Ok a /\ printable a = true /\ z_to_bits 6 (dearmor_char a) = c.
Proof.
  intros H. pose proof chunks_mid_checked as K. rewrite forallb_forall in K.
  specialize (K c (in_all_bits 6 c H)). unfold chunk_mid_ok in K.
  destruct (armor_of_chunk c) as [a|]; [|discriminate]. exists a.
  apply andb_prop in K as [K1 K2]. destruct (list_eq_dec _ _ c); [|discriminate]. auto.
Qed.

Lemma chunk_last c : (1 <= len c <= 6)%nat ->
  exists a, armor_of_chunk c = Ok a /\ decode_into_bit_array [a] (Z.of_nat (6 - len c)) = Ok c.
Proof.
  intros H. pose proof chunks_last_checked as K. rewrite forallb_forall in K.
  assert (In (len c) [1; 2; 3; 4; 5; 6]%nat) as Hin by (cbn; lia).
  specialize (K _ Hin). rewrite forallb_forall in K. specialize (K c (in_all_bits _ c eq_refl)).
  unfold chunk_last_ok in K.
  destruct (armor_of_chunk c) as [a|]; [|discriminate]. exists a. split; [reflexivity|].
  destruct (decode_into_bit_array [a] (Z.of_nat (6 - len c))) as [b|]; [|discriminate].
  destruct (list_eq_dec _ b c) as [->|]; [reflexivity|discriminate].
Qed.

Lemma decode_into_cons a rest fill : rest <> [] -> printable a = true ->
  decode_into_bit_array (a :: rest) fill =
  bind (decode_into_bit_array rest fill) (fun r => Ok (z_to_bits 6 (dearmor_char a) ++ r)).
Proof.
  intros Hr Hp. destruct rest as [|x r]; [congruence|].
  unfold printable in Hp. cbn [decode_into_bit_array]. rewrite Hp. reflexivity.
Qed.

Lemma encode_loop_padding_irrelevant : forall cs p p', cs <> [] ->
  encode_ascii_6_loop cs p = encode_ascii_6_loop cs p'.
Proof. intros [|c r] p p' H; [congruence|reflexivity]. Qed.

Definition fill_of (n : nat) : nat := ((6 - n mod 6) mod 6)%nat.

Theorem armor_roundtrip : forall b : bits,
  exists p fill, encode_ascii_6 b = Ok (p, fill) /\ fill = fill_of (len b) /\
                 decode_into_bit_array p (Z.of_nat fill) = Ok b /\ (b <> [] -> p <> []).
Proof.
  unfold encode_ascii_6.
  apply (chunk_induction 6); [lia| |].
  - exists [], 0%nat. repeat split; try reflexivity. congruence.
  - intros l Hne (p & fill & E & F & D & NE).
    rewrite chunks_step by (try lia; assumption).
    destruct (Nat.leb_spec (len l) 6) as [Hs|Hl].
    + (* the last chunk *)
      rewrite firstn_all2 by lia. rewrite skipn_all2 by lia. rewrite chunks_nil.
      assert (1 <= len l <= 6)%nat as Hr by (destruct l; [congruence|cbn in *; lia]).
      destruct (chunk_last l Hr) as (a & A & Dl).
      cbn [encode_ascii_6_loop]. unfold armor_of_chunk in A. rewrite A. cbn [bind].
      exists [a], (6 - len l)%nat. repeat split; try assumption; try discriminate.
      unfold fill_of. destruct (Nat.eq_dec (len l) 6) as [E6|N6].
      * rewrite E6. reflexivity.
      * rewrite (Nat.mod_small (len l) 6) by lia. rewrite Nat.mod_small by lia. reflexivity.
    + (* a full chunk followed by more *)
      assert (len (firstn 6 l) = 6%nat) as L6 by (rewrite firstn_length; lia).
      assert (skipn 6 l <> []) as Hrest.
      { intro E0. apply (f_equal len) in E0. rewrite skipn_length in E0. cbn in E0. lia. }
      destruct (chunk_mid _ L6) as (a & A & Pa & Za).
      cbn [encode_ascii_6_loop]. unfold armor_of_chunk in A. rewrite A. cbn [bind].
      assert (chunks 6 (skipn 6 l) <> []) as Hc.
      { rewrite chunks_step by (try lia; assumption). discriminate. }
      rewrite (encode_loop_padding_irrelevant _ _ 0%nat Hc), E. cbn [bind].
      exists (a :: p), fill. split; [reflexivity|]. split.
      { rewrite F. unfold fill_of. rewrite skipn_length.
        replace (len l) with (len l - 6 + 1 * 6)%nat at 2 by lia.
        rewrite Nat.mod_add by lia. reflexivity. }
      split; [|discriminate].
      rewrite decode_into_cons by (auto). rewrite D. cbn [bind]. rewrite Za, firstn_skipn. reflexivity.
Qed.
