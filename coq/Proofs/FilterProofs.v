(* C19: the filter chain of pyais/filter.py (Model/Filter.v) against the conjunction filter (Spec/FilterSpec.v).
   Everything is unbounded in the message list and in the chain; the distance function is a Section variable. *)
From Coq Require Import ZArith List Bool String Lia Permutation.
Require Import Prim.Exn Prim.Rat Prim.PyObj Model.Filter Spec.FilterSpec.
Require Import Model.FieldTypes Gen.GenTables.
Import ListNotations.
Open Scope Z_scope.

(* ---- lists --------------------------------------------------------------------------------------------- *)
Lemma forallb_pointwise {A} (p q : A -> bool) l :
  (forall x, In x l -> p x = q x) -> forallb p l = forallb q l.
Proof.
  induction l as [|x l IH]; intros H; simpl; [reflexivity|].
  rewrite (H x (or_introl eq_refl)). rewrite IH; [reflexivity|]. intros y Hy. apply H. right. exact Hy.
Qed.

Lemma forallb_perm {A} (p : A -> bool) l l' : Permutation l l' -> forallb p l = forallb p l'.
Proof.
  induction 1; simpl.
  - reflexivity.
  - rewrite IHPermutation. reflexivity.
  - destruct (p x), (p y); reflexivity.
  - congruence.
Qed.

Lemma filter_pointwise {A} (p q : A -> bool) l :
  (forall x, In x l -> p x = q x) -> filter p l = filter q l.
Proof.
  induction l as [|x l IH]; intros H; simpl; [reflexivity|].
  rewrite (H x (or_introl eq_refl)). rewrite IH; [reflexivity|]. intros y Hy. apply H. right. exact Hy.
Qed.

(* the conjunction filter is an order-preserving subsequence that keeps exactly the satisfying positions *)
Lemma filter_subseq {A} (p : A -> bool) l : subseq (filter p l) l.
Proof.
  induction l as [|x l IH]; simpl; [constructor|].
  destruct (p x); constructor; exact IH.
Qed.

Lemma filter_exactly {A} (p : A -> bool) l : exactly_those p (filter p l) l.
Proof.
  unfold exactly_those. induction l as [|x l IH]; simpl; [reflexivity|].
  destruct (p x); rewrite IH; reflexivity.
Qed.

Lemma subseq_In {A} (sub l : list A) x : subseq sub l -> In x sub -> In x l.
Proof.
  induction 1; simpl; intros Hin; [exact Hin| right; auto |].
  destruct Hin as [->|Hin]; [left; reflexivity | right; auto].
Qed.

(* ---- rationals ----------------------------------------------------------------------------------------- *)
Lemma ratio_geb_ltb a b : ratio_geb a b = negb (ratio_ltb a b).
Proof. unfold ratio_geb, ratio_leb, ratio_ltb. apply Z.leb_antisym. Qed.

(* ---- generators ---------------------------------------------------------------------------------------- *)
Definition seq_body (f g : pymsg -> M bool) (m : pymsg) : M bool :=
  match f m with
  | Ok true => g m
  | Ok false => Ok false
  | Raise e => Raise e
  end.

(* one loop feeding another is one loop that asks the first question, then (only if it was answered yes) the
   second: messages travel through nested generators one at a time *)
Lemma mgen_loop_compose f g s : mgen_loop g (mgen_loop f s) = mgen_loop (seq_body f g) s.
Proof.
  induction s as [|m r IH|e]; simpl; try reflexivity.
  unfold seq_body at 1. destruct (f m) as [[|]|e]; simpl.
  - destruct (g m) as [[|]|e']; simpl; rewrite ?IH; reflexivity.
  - exact IH.
  - reflexivity.
Qed.

Lemma mgen_loop_true s : mgen_loop (fun _ => Ok true) s = s.
Proof. induction s as [|m r IH|e]; simpl; congruence. Qed.

Lemma mgen_loop_list (body : pymsg -> M bool) (p : pymsg -> bool) xs :
  (forall m, In m xs -> body m = Ok (p m)) -> mgen_loop body (mgen_of_list xs) = mgen_of_list (filter p xs).
Proof.
  induction xs as [|x xs IH]; intros H; simpl; [reflexivity|].
  rewrite (H x (or_introl eq_refl)).
  assert (IH' : mgen_loop body (mgen_of_list xs) = mgen_of_list (filter p xs))
    by (apply IH; intros m Hm; apply H; right; exact Hm).
  destruct (p x); simpl; rewrite IH'; reflexivity.
Qed.

Lemma mgen_list_of_list xs : mgen_list (mgen_of_list xs) = Ok xs.
Proof.
  unfold mgen_list.
  assert (E : mgen_end (mgen_of_list xs) = None) by (induction xs; simpl; auto).
  rewrite E. clear E. f_equal. induction xs; simpl; congruence.
Qed.

Lemma filter_decode_gen_all_ok {S} (decode : S -> M pymsg) ss xs :
  map decode ss = map Ok xs -> filter_decode_gen decode ss = mgen_of_list xs.
Proof.
  revert xs. induction ss as [|s ss IH]; intros [|x xs] H; simpl in *; try discriminate; [reflexivity|].
  injection H as H1 H2. rewrite H1. rewrite (IH xs H2). reflexivity.
Qed.

Section Proofs.
  Variable dist : lat_lon -> lat_lon -> ratio.

  (* ---- the chain is one lazy loop ---------------------------------------------------------------------- *)
  (* ask the filters in chain order; stop at the first "no" or the first exception *)
  Fixpoint keep_all (fs : list filter_cfg) (m : pymsg) : M bool :=
    match fs with
    | [] => Ok true
    | f :: r => seq_body (filter_keep dist f) (keep_all r) m
    end.

  Fixpoint apply_filters (fs : list filter_cfg) (s : mgen) : mgen :=
    match fs with
    | [] => s
    | f :: r => apply_filters r (filter_data dist f s)
    end.

  Lemma filter_filter_link f rest s : filter_filter dist (filter_link f rest) s = apply_filters (f :: rest) s.
  Proof.
    revert f s. induction rest as [|g rest IH]; intros f s; simpl; [reflexivity|].
    rewrite IH. reflexivity.
  Qed.

  Lemma apply_filters_loop fs s : apply_filters fs s = mgen_loop (keep_all fs) s.
  Proof.
    revert s. induction fs as [|f r IH]; intros s; simpl.
    - symmetry. apply mgen_loop_true.
    - rewrite IH. unfold filter_data. rewrite mgen_loop_compose. reflexivity.
  Qed.

  (* Exact behaviour of FilterChain(filters).filter(stream) for EVERY chain, stream and user function, raising
     ones included: each message is decoded, then offered to the filters in chain order, and the first
     exception (decode error or user function) ends the iteration after the messages yielded so far. *)
  Theorem chain_semantics {S} (filters : list filter_cfg) (decode : S -> M pymsg) (stream : list S) :
    filters <> [] ->
    filter_chain_run dist filters decode stream = Ok (mgen_loop (keep_all filters) (filter_decode_gen decode stream)).
  Proof.
    intros Hne. destruct filters as [|f rest]; [congruence|].
    unfold filter_chain_run, filter_chain_init, bind, filter_chain_filter. simpl fc_start.
    rewrite filter_filter_link, apply_filters_loop. reflexivity.
  Qed.

  Theorem empty_chain_rejected {S} (decode : S -> M pymsg) (stream : list S) :
    filter_chain_run dist [] decode stream = Raise (Py ValueError).
  Proof. reflexivity. Qed.

  (* ---- each filter against its criterion ---------------------------------------------------------------- *)
  Definition criterion_of (f : filter_cfg) : criterion :=
    match f with
    | AttributeFilter ff => CPred (fun m => match ff m with Ok true => true | _ => false end)
    | NoneFilter attrs => CNotNone attrs
    | MessageTypeFilter types => CTypeIn types
    | DistanceFilter ref d => CWithin ref d
    | GridFilter a b c d => CInGrid a b c d
    end.

  Definition builtin (f : filter_cfg) : bool :=
    match f with AttributeFilter _ => false | _ => true end.

  (* [coords_numeric], [attr_reads_ok], [attr_reads_total] (Prim/PyObj.v): the shape of a decoded message.  lat / lon,
     where present, are stored fields holding None or a number: true of every decoded message (they are float
     fields of every class that has them: [latlon_float_everywhere] below); reading any attribute returns a value
     or raises TypeError / ValueError.  The harness evaluates the extracted predicates on every message it decodes. *)
  Lemma lookup_In l name r : py_attr_lookup l name = Some r -> In (name, r) l.
  Proof.
    induction l as [|[k v] l IH]; simpl; [discriminate|].
    destruct (String.eqb name k) eqn:E.
    - intros H. injection H as ->. apply String.eqb_eq in E. subst. left. reflexivity.
    - intros H. right. apply IH. exact H.
  Qed.

  Lemma reads_total_lookup m name r :
    attr_reads_total m = true -> py_attr_lookup (pm_attrs m) name = Some r -> exists v, r = Ok v.
  Proof.
    unfold attr_reads_total. rewrite forallb_forall. intros H Hl.
    specialize (H _ (lookup_In _ _ _ Hl)). simpl in H. destruct r as [v|e]; [eexists; reflexivity | discriminate].
  Qed.

  (* getattr(msg, name, default), case by case *)
  Lemma getattr_d_cases m name d :
    py_getattr_d m name d =
    match py_attr_lookup (pm_attrs m) name with
    | None => Ok d
    | Some (Ok v) => Ok v
    | Some (Raise e) => if catches [HPy AttributeError] e then Ok d else Raise e
    end.
  Proof.
    unfold py_getattr_d, py_getattr, try_except.
    destruct (py_attr_lookup (pm_attrs m) name) as [[v|e]|]; reflexivity.
  Qed.

  Lemma reads_ok_lookup m name e :
    attr_reads_ok m = true -> py_attr_lookup (pm_attrs m) name = Some (Raise e) ->
    catches [HPy TypeError; HPy ValueError] e = true.
  Proof.
    unfold attr_reads_ok. rewrite forallb_forall. intros H Hl.
    exact (H _ (lookup_In _ _ _ Hl)).
  Qed.

  (* _attr_or_none(msg, name), case by case *)
  Lemma attr_or_none_cases m name :
    attr_or_none m name =
    match py_attr_lookup (pm_attrs m) name with
    | None => Ok ANone
    | Some (Ok v) => Ok v
    | Some (Raise e) =>
      if catches [HPy AttributeError] e then Ok ANone
      else if catches [HPy TypeError; HPy ValueError] e then Ok ANone else Raise e
    end.
  Proof.
    unfold attr_or_none. rewrite getattr_d_cases. unfold try_except.
    destruct (py_attr_lookup (pm_attrs m) name) as [[v|e]|]; try reflexivity.
    destruct (catches [HPy AttributeError] e); reflexivity.
  Qed.

  (* an attribute that is present and not None is read as its value *)
  Lemma attr_or_none_present m name :
    present_not_none m name = true -> exists v, attr_or_none m name = Ok v /\ py_is_not_none v = true.
  Proof.
    rewrite attr_or_none_cases. unfold present_not_none.
    destruct (py_attr_lookup (pm_attrs m) name) as [[[|q|t]|e]|]; try discriminate; intros _; eexists; split; reflexivity.
  Qed.

  (* whenever all(...) of NoneFilter answers, the answer is "every listed attribute is present and not None"
     -- for EVERY message, whatever its getters raise *)
  Lemma none_all_sound m attrs b : none_all m attrs = Ok b -> forallb (present_not_none m) attrs = b.
  Proof.
    revert b. induction attrs as [|a r IH]; intros b; simpl; [intros H; injection H as <-; reflexivity|].
    rewrite attr_or_none_cases. unfold present_not_none, bind.
    destruct (py_attr_lookup (pm_attrs m) a) as [[[|q|t]|e]|].
    - simpl. intros H; injection H as <-; reflexivity.
    - simpl. apply IH.
    - simpl. apply IH.
    - destruct (catches [HPy AttributeError] e); [simpl; intros H; injection H as <-; reflexivity|].
      destruct (catches [HPy TypeError; HPy ValueError] e); simpl; [intros H; injection H as <-; reflexivity | discriminate].
    - simpl. intros H; injection H as <-; reflexivity.
  Qed.

  (* ... and it does answer when every read returns a value or raises TypeError / ValueError *)
  Lemma none_all_total m attrs : attr_reads_ok m = true -> exists b, none_all m attrs = Ok b.
  Proof.
    intros Ht. induction attrs as [|a r IH]; simpl; [eexists; reflexivity|].
    rewrite attr_or_none_cases. unfold bind.
    destruct (py_attr_lookup (pm_attrs m) a) as [[v|e]|] eqn:El.
    - destruct (py_is_not_none v); [exact IH | eexists; reflexivity].
    - rewrite (reads_ok_lookup m a e Ht El). destruct (catches [HPy AttributeError] e); simpl; eexists; reflexivity.
    - simpl. eexists; reflexivity.
  Qed.

  (* a listed computed attribute that cannot be evaluated for the message: whenever the filter answers, the answer
     is "not passed" *)
  Lemma none_unevaluable_not_passed m attrs name e b :
    In name attrs -> py_attr_lookup (pm_attrs m) name = Some (Raise e) ->
    filter_keep dist (NoneFilter attrs) m = Ok b -> b = false.
  Proof.
    intros Hin Hl Hk. simpl in Hk. unfold none_body in Hk. apply none_all_sound in Hk. subst b.
    apply not_true_is_false. intros Hall. rewrite forallb_forall in Hall. specialize (Hall name Hin).
    unfold present_not_none in Hall. rewrite Hl in Hall. discriminate.
  Qed.

  (* all() stops at the first attribute that is absent or None: what comes after it is not read *)
  Lemma none_all_short_circuit m pre a post :
    forallb (present_not_none m) pre = true ->
    (py_attr_lookup (pm_attrs m) a = None \/ py_attr_lookup (pm_attrs m) a = Some (Ok ANone)) ->
    none_all m (pre ++ a :: post) = Ok false.
  Proof.
    intros Hpre Ha. induction pre as [|p pre IH]; simpl in *.
    - rewrite attr_or_none_cases. destruct Ha as [-> | ->]; reflexivity.
    - apply andb_true_iff in Hpre. destruct Hpre as [Hp Hpre].
      destruct (attr_or_none_present m p Hp) as [v [-> Hv]]. simpl. rewrite Hv. apply IH. exact Hpre.
  Qed.

  (* what the repair does NOT absorb: a getter raising anything but AttributeError / TypeError / ValueError, reached
     after attributes that are present and not None, still kills the generator.  No decoded message has such a
     getter ([attr_reads_ok], checked by the harness on every decoded message); synthetic objects tie this to the code. *)
  Lemma none_other_exception_escapes m pre name post e :
    forallb (present_not_none m) pre = true ->
    py_attr_lookup (pm_attrs m) name = Some (Raise e) ->
    catches [HPy AttributeError] e = false -> catches [HPy TypeError; HPy ValueError] e = false ->
    filter_keep dist (NoneFilter (pre ++ name :: post)) m = Raise e.
  Proof.
    intros Hpre Hl H1 H2. simpl. unfold none_body. induction pre as [|p pre IH]; simpl in Hpre |- *.
    - rewrite attr_or_none_cases, Hl, H1, H2. reflexivity.
    - apply andb_true_iff in Hpre. destruct Hpre as [Hp Hpre].
      destruct (attr_or_none_present m p Hp) as [v [-> Hv]]. simpl. rewrite Hv. apply IH. exact Hpre.
  Qed.

  (* the unrepaired all(getattr(msg, attr, None) is not None ...) answered only when no getter raised *)
  Lemma none_all_unrepaired_total m attrs : attr_reads_total m = true -> exists b, none_all_unrepaired m attrs = Ok b.
  Proof.
    intros Ht. induction attrs as [|a r IH]; simpl; [eexists; reflexivity|].
    rewrite getattr_d_cases. unfold bind.
    destruct (py_attr_lookup (pm_attrs m) a) as [[v|e]|] eqn:El.
    - destruct (py_is_not_none v); [exact IH | eexists; reflexivity].
    - destruct (reads_total_lookup m a _ Ht El) as [v Hv]. discriminate.
    - simpl. eexists; reflexivity.
  Qed.

  (* the geographic filters' test for "the message reports a position" *)
  Lemma has_lat_lon_numeric m :
    coords_numeric m = true ->
    has_lat_lon m = Ok (match reported_position m with Some _ => true | None => false end).
  Proof.
    unfold coords_numeric, py_coord_ok, has_lat_lon, reported_position, bind. rewrite !getattr_d_cases.
    destruct (py_attr_lookup (pm_attrs m) "lat") as [[[|lat|t]|e]|];
      destruct (py_attr_lookup (pm_attrs m) "lon") as [[[|lon|t']|e']|]; simpl; intros H; try discriminate; reflexivity.
  Qed.

  Lemma grid_chain lat lon a b c d :
    is_in_grid (ANum lat) (ANum lon) a b c d
    = Ok (ratio_leb a lat && ratio_leb lat c && ratio_leb b lon && ratio_leb lon d).
  Proof.
    unfold is_in_grid, py_le, bind.
    destruct (ratio_leb a lat), (ratio_leb lat c), (ratio_leb b lon); reflexivity.
  Qed.

  Lemma reported_position_getattr m lat lon :
    reported_position m = Some (lat, lon) -> py_getattr m "lat" = Ok (ANum lat) /\ py_getattr m "lon" = Ok (ANum lon).
  Proof.
    unfold reported_position, py_getattr.
    destruct (py_attr_lookup (pm_attrs m) "lat") as [[[|lat'|t]|e]|]; try discriminate;
      destruct (py_attr_lookup (pm_attrs m) "lon") as [[[|lon'|t']|e']|]; try discriminate.
    intros H. injection H as -> ->. split; reflexivity.
  Qed.

  Lemma reported_position_numeric m p : reported_position m = Some p -> coords_numeric m = true.
  Proof.
    unfold coords_numeric, py_coord_ok, reported_position.
    destruct (py_attr_lookup (pm_attrs m) "lat") as [[[| |]|]|]; try discriminate;
      destruct (py_attr_lookup (pm_attrs m) "lon") as [[[| |]|]|]; try discriminate; reflexivity.
  Qed.

  (* the two geographic bodies on a message of the decoded shape *)
  Lemma distance_body_numeric ref d m :
    coords_numeric m = true ->
    distance_body dist ref d m
    = Ok (match reported_position m with None => true | Some p => ratio_ltb (dist ref p) d end).
  Proof.
    intros Hc. unfold distance_body. rewrite (has_lat_lon_numeric m Hc).
    destruct (reported_position m) as [[lat lon]|] eqn:Hp; simpl; [|reflexivity].
    destruct (reported_position_getattr m lat lon Hp) as [-> ->]. simpl.
    rewrite ratio_geb_ltb. destruct (ratio_ltb (dist ref (lat, lon)) d); reflexivity.
  Qed.

  Lemma grid_body_numeric a b c d m :
    coords_numeric m = true ->
    grid_body a b c d m
    = Ok (match reported_position m with
          | None => true
          | Some (lat, lon) => ratio_leb a lat && ratio_leb lat c && ratio_leb b lon && ratio_leb lon d
          end).
  Proof.
    intros Hc. unfold grid_body. rewrite (has_lat_lon_numeric m Hc).
    destruct (reported_position m) as [[lat lon]|] eqn:Hp; simpl; [|reflexivity].
    destruct (reported_position_getattr m lat lon Hp) as [-> ->]. cbn -[is_in_grid].
    rewrite grid_chain. simpl.
    destruct (ratio_leb a lat && ratio_leb lat c && ratio_leb b lon && ratio_leb lon d); reflexivity.
  Qed.

  (* whenever a filter answers, the answer is the criterion's.  (coords_numeric is needed: with a number for lat
     and a str for lon, is_in_grid answers False without looking at lon when lat is outside -- no exception, but
     not the criterion's answer either.  No decoded message has that shape.) *)
  Lemma keep_sound f m b :
    coords_numeric m = true -> filter_keep dist f m = Ok b -> crit_satisfies dist (criterion_of f) m = b.
  Proof.
    destruct f as [ff|attrs|types|ref d|a b0 c d]; simpl; intros Hc.
    - unfold attribute_body. intros ->. destruct b; reflexivity.
    - unfold none_body. apply none_all_sound.
    - unfold message_type_body. intros H.
      replace (existsb (fun t => pm_type m =? t) types) with (existsb (Z.eqb (pm_type m)) types) by reflexivity.
      destruct (existsb (Z.eqb (pm_type m)) types); simpl in H; congruence.
    - rewrite (distance_body_numeric ref d m Hc). intros H. injection H as <-. reflexivity.
    - rewrite (grid_body_numeric a b0 c d m Hc). intros H. injection H as <-.
      destruct (reported_position m) as [[lat lon]|]; reflexivity.
  Qed.

  (* "no decodable message makes a filter raise": the five classes minus the user function are total *)
  Theorem no_raise f m :
    builtin f = true -> coords_numeric m = true -> attr_reads_ok m = true -> exists b, filter_keep dist f m = Ok b.
  Proof.
    destruct f as [ff|attrs|types|ref d|a b0 c d]; simpl; intros Hb Hc Hr; try discriminate.
    - apply none_all_total. exact Hr.
    - unfold message_type_body. destruct (negb _); eexists; reflexivity.
    - rewrite (distance_body_numeric ref d m Hc). eexists; reflexivity.
    - rewrite (grid_body_numeric a b0 c d m Hc). eexists; reflexivity.
  Qed.

  Corollary keep_builtin f m :
    builtin f = true -> coords_numeric m = true -> attr_reads_ok m = true ->
    filter_keep dist f m = Ok (crit_satisfies dist (criterion_of f) m).
  Proof.
    intros Hb Hc Hr. destruct (no_raise f m Hb Hc Hr) as [b Hk]. rewrite Hk. f_equal. symmetry.
    apply keep_sound; assumption.
  Qed.

  (* the decision rules of the two geographic filters, on the model *)
  Theorem geo_pass_without_position m :
    reported_position m = None -> coords_numeric m = true ->
    (forall ref d, filter_keep dist (DistanceFilter ref d) m = Ok true) /\
    (forall a b c d, filter_keep dist (GridFilter a b c d) m = Ok true).
  Proof.
    intros Hp Hc. split; intros; simpl.
    - rewrite (distance_body_numeric _ _ m Hc), Hp. reflexivity.
    - rewrite (grid_body_numeric _ _ _ _ m Hc), Hp. reflexivity.
  Qed.

  Theorem distance_strict m lat lon ref d :
    reported_position m = Some (lat, lon) ->
    filter_keep dist (DistanceFilter ref d) m = Ok (ratio_ltb (dist ref (lat, lon)) d).
  Proof.
    intros Hp. simpl. rewrite (distance_body_numeric _ _ m (reported_position_numeric m _ Hp)), Hp. reflexivity.
  Qed.

  Theorem grid_closed m lat lon a b c d :
    reported_position m = Some (lat, lon) ->
    filter_keep dist (GridFilter a b c d) m
    = Ok (ratio_leb a lat && ratio_leb lat c && ratio_leb b lon && ratio_leb lon d).
  Proof.
    intros Hp. simpl. rewrite (grid_body_numeric _ _ _ _ m (reported_position_numeric m _ Hp)), Hp. reflexivity.
  Qed.

  (* ---- the chain is the conjunction filter --------------------------------------------------------------- *)
  (* no filter of the chain raises on any message of the list *)
  Definition chain_total (fs : list filter_cfg) (xs : list pymsg) : Prop :=
    forall m, In m xs -> forall f, In f fs -> exists b, filter_keep dist f m = Ok b.

  Lemma keep_all_total fs m :
    coords_numeric m = true ->
    (forall f, In f fs -> exists b, filter_keep dist f m = Ok b) ->
    keep_all fs m = Ok (crit_satisfies_all dist (map criterion_of fs) m).
  Proof.
    intros Hc. induction fs as [|f r IH]; intros H; simpl; [reflexivity|].
    destruct (H f (or_introl eq_refl)) as [b Hb].
    unfold seq_body. rewrite Hb. rewrite (keep_sound f m b Hc Hb).
    destruct b; simpl; [|reflexivity].
    apply IH. intros g Hg. apply H. right. exact Hg.
  Qed.

  Theorem chain_is_filter {S} (filters : list filter_cfg) (decode : S -> M pymsg) (stream : list S) (xs : list pymsg) :
    filters <> [] ->
    map decode stream = map Ok xs ->          (* every sentence of the stream decodes; xs are the messages *)
    forallb coords_numeric xs = true ->       (* ... and they have the shape of decoded messages *)
    chain_total filters xs ->                 (* no user function raises on them *)
    filter_chain_run dist filters decode stream
    = Ok (mgen_of_list (conj_filter dist (map criterion_of filters) xs)).
  Proof.
    intros Hne Hdec Hc Htot. rewrite chain_semantics by exact Hne.
    rewrite (filter_decode_gen_all_ok decode stream xs Hdec). f_equal.
    unfold conj_filter. apply mgen_loop_list. intros m Hm.
    rewrite forallb_forall in Hc.
    apply keep_all_total; [apply Hc; exact Hm|]. intros f Hf. exact (Htot m Hm f Hf).
  Qed.

  (* only user functions can break totality *)
  Definition user_functions_total (fs : list filter_cfg) (xs : list pymsg) : Prop :=
    forall m, In m xs -> forall ff, In (AttributeFilter ff) fs -> exists b, ff m = Ok b.

  Lemma user_total_chain_total fs xs :
    forallb coords_numeric xs = true -> forallb attr_reads_ok xs = true ->
    user_functions_total fs xs -> chain_total fs xs.
  Proof.
    intros Hc Hr Hu m Hm f Hf. rewrite forallb_forall in Hc, Hr.
    destruct f as [ff| | | |] eqn:E; try (apply no_raise; [reflexivity | apply Hc; exact Hm | apply Hr; exact Hm]).
    simpl. unfold attribute_body. apply (Hu m Hm ff Hf).
  Qed.

  (* chains of built-in filters over decoded messages: no side condition left *)
  Lemma builtin_chain_total fs xs :
    forallb builtin fs = true -> forallb coords_numeric xs = true -> forallb attr_reads_ok xs = true ->
    chain_total fs xs.
  Proof.
    intros Hb Hc Hr m Hm f Hf. rewrite forallb_forall in Hb, Hc, Hr. apply no_raise; auto.
  Qed.

  Theorem chain_perm {S} (fs fs' : list filter_cfg) (decode : S -> M pymsg) (stream : list S) (xs : list pymsg) :
    fs <> [] -> Permutation fs fs' ->
    map decode stream = map Ok xs -> forallb coords_numeric xs = true -> chain_total fs xs ->
    filter_chain_run dist fs decode stream = filter_chain_run dist fs' decode stream.
  Proof.
    intros Hne Hp Hdec Hc Htot.
    assert (Hne' : fs' <> []) by (intros ->; apply Hne; apply Permutation_nil; symmetry; exact Hp).
    assert (Htot' : chain_total fs' xs).
    { intros m Hm f Hf. apply (Htot m Hm). apply (Permutation_in f (Permutation_sym Hp)). exact Hf. }
    rewrite (chain_is_filter fs decode stream xs Hne Hdec Hc Htot).
    rewrite (chain_is_filter fs' decode stream xs Hne' Hdec Hc Htot').
    do 2 f_equal. unfold conj_filter. apply filter_pointwise. intros m _.
    unfold crit_satisfies_all. apply forallb_perm. apply Permutation_map. exact Hp.
  Qed.

  (* the result, as the caller sees it: list(chain.filter(stream)) *)
  Corollary chain_list {S} (filters : list filter_cfg) (decode : S -> M pymsg) (stream : list S) (xs : list pymsg) :
    filters <> [] -> map decode stream = map Ok xs -> forallb coords_numeric xs = true ->
    chain_total filters xs ->
    bind (filter_chain_run dist filters decode stream) mgen_list
    = Ok (conj_filter dist (map criterion_of filters) xs).
  Proof.
    intros. rewrite (chain_is_filter filters decode stream xs) by assumption.
    simpl. apply mgen_list_of_list.
  Qed.

  (* The property, assembled. *)
  Theorem C19_main {S} (filters filters' : list filter_cfg) (decode : S -> M pymsg) (stream : list S) (xs : list pymsg) :
    filters <> [] -> Permutation filters filters' ->
    map decode stream = map Ok xs ->
    forallb coords_numeric xs = true ->
    forallb attr_reads_ok xs = true ->
    user_functions_total filters xs ->
    let out := conj_filter dist (map criterion_of filters) xs in
    (* no filter raises *)
    chain_total filters xs /\
    (* the chain yields exactly [out] and ends normally *)
    filter_chain_run dist filters decode stream = Ok (mgen_of_list out) /\
    (* which is an order-preserving subsequence of the input holding exactly the messages that satisfy all *)
    subseq out xs /\
    exactly_those (crit_satisfies_all dist (map criterion_of filters)) out xs /\
    (forall m, In m out <-> In m xs /\ forall f, In f filters -> crit_satisfies dist (criterion_of f) m = true) /\
    (* whatever the order of the filters *)
    filter_chain_run dist filters' decode stream = filter_chain_run dist filters decode stream.
  Proof.
    intros Hne Hp Hdec Hc Hr Hu out.
    assert (Htot : chain_total filters xs) by (apply user_total_chain_total; assumption).
    split; [exact Htot|]. split; [apply chain_is_filter; assumption|].
    split; [apply filter_subseq|]. split; [apply filter_exactly|]. split.
    - intros m. unfold out, conj_filter. rewrite filter_In. unfold crit_satisfies_all. rewrite forallb_forall. split.
      + intros [Hin Hall]. split; [exact Hin|]. intros f Hf. apply Hall. apply in_map. exact Hf.
      + intros [Hin Hall]. split; [exact Hin|]. intros c Hcin. apply in_map_iff in Hcin.
        destruct Hcin as [f [<- Hf]]. apply Hall. exact Hf.
    - symmetry. apply (chain_perm filters filters' decode stream xs); assumption.
  Qed.

  (* the unchanged code: both geographic filters raise on a position report without coordinates *)
  Definition truncated_report : pymsg :=
    mkPyMsg 1 [("msg_type"%string, Ok (ANum (ratio_of_Z 1))); ("mmsi"%string, Ok (ANum (ratio_of_Z 366053209)));
             ("lon"%string, Ok ANone); ("lat"%string, Ok ANone)].

  Lemma unrepaired_raises ref d a b c e :
    distance_body_unrepaired dist ref d truncated_report = Raise (Py TypeError) /\
    grid_body_unrepaired a b c e truncated_report = Raise (Py TypeError) /\
    filter_keep dist (DistanceFilter ref d) truncated_report = Ok true /\
    filter_keep dist (GridFilter a b c e) truncated_report = Ok true.
  Proof. repeat split. Qed.

  (* the unchanged NoneFilter: a type 18 report cut before its radio field ([filter_truncated_type18], Model/Filter.v)
     made it raise TypeError for each of the three computed attributes -- unless an earlier listed attribute was None
     (all() stops there); the repaired one does not pass the message.  The message has the decoded shape, and it is
     NOT of the shape under which the unrepaired filter was total. *)
  Lemma nonefilter_unrepaired_raises :
    let m := filter_truncated_type18 in
    none_body_unrepaired ["is_sotdma"%string] m = Raise (Py TypeError) /\
    none_body_unrepaired ["is_itdma"%string] m = Raise (Py TypeError) /\
    none_body_unrepaired ["communication_state_raw"%string] m = Raise (Py TypeError) /\
    none_body_unrepaired ["mmsi"%string; "is_sotdma"%string] m = Raise (Py TypeError) /\
    none_body_unrepaired ["course"%string; "is_sotdma"%string] m = Ok false /\
    filter_keep dist (NoneFilter ["is_sotdma"%string]) m = Ok false /\
    filter_keep dist (NoneFilter ["is_itdma"%string]) m = Ok false /\
    filter_keep dist (NoneFilter ["communication_state_raw"%string]) m = Ok false /\
    filter_keep dist (NoneFilter ["mmsi"%string; "is_sotdma"%string]) m = Ok false /\
    filter_keep dist (NoneFilter ["mmsi"%string; "MAX_COMM_STATE_VALUE"%string]) m = Ok true /\
    coords_numeric m = true /\ attr_reads_ok m = true /\ attr_reads_total m = false.
  Proof. vm_compute. repeat split. Qed.
End Proofs.

(* ---- the attribute sets of the message classes (regenerated tables) --------------------------------------- *)
Definition has_field (c : cls) (name : string) : bool :=
  existsb (fun f => String.eqb (f_name f) name) (fields_of c).

Definition is_float_field (f : field) : bool := match f_dtype f with DFloat => true | _ => false end.

Lemma all_classes_complete c : In c all_classes.
Proof. destruct c; unfold all_classes; repeat (first [left; reflexivity | right]). Qed.

(* in every message class lat and lon come together and are float fields (so a decoded value is a float or None) *)
Lemma latlon_float_everywhere c :
  has_field c "lat" = has_field c "lon" /\
  forall f, In f (fields_of c) -> (f_name f = "lat" \/ f_name f = "lon")%string -> is_float_field f = true.
Proof.
  assert (H : forallb (fun c => Bool.eqb (has_field c "lat") (has_field c "lon") &&
                         forallb (fun f => implb (String.eqb (f_name f) "lat" || String.eqb (f_name f) "lon")
                                                 (is_float_field f)) (fields_of c)) all_classes = true)
    by (vm_compute; reflexivity).
  rewrite forallb_forall in H. specialize (H c (all_classes_complete c)).
  apply andb_true_iff in H. destruct H as [H1 H2]. split.
  - apply eqb_prop. exact H1.
  - intros f Hf Hn. rewrite forallb_forall in H2. specialize (H2 f Hf).
    destruct Hn as [Hn|Hn]; rewrite Hn in H2; simpl in H2; exact H2.
Qed.

Lemma every_class_has_msg_type c : has_field c "msg_type" = true.
Proof.
  assert (H : forallb (fun c => has_field c "msg_type") all_classes = true) by (vm_compute; reflexivity).
  rewrite forallb_forall in H. apply H. apply all_classes_complete.
Qed.
