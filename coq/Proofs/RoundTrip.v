(* C02 at the message level: the regenerated tables implement the ITU layouts (checked by vm_compute on every build),
   create / to_bitarray / from_bitarray are maps over the field list (RoundTripLoops), every field carries its in-range
   value to the normalised one (RoundTripField), the dispatch on create and on decode selects the same class
   (RoundTripDispatch); hence decode_bits (to_bitarray (create a)) = normalise a for every in-range assignment outside
   the three guards.  Plus the refutation witnesses and the tolerance corollary. *)
From Coq Require Import ZArith List Bool String Lia.
Require Import Prim.Exn Prim.Bits Gen.GenEnums Model.FieldTypes Gen.GenTables Gen.GenDispatch Gen.GenConv Gen.GenAlpha Model.Codec.
Require Import Spec.Layout Spec.RoundTripSpec.
Require Import Proofs.RoundTripBits Proofs.RoundTripLoops Proofs.RoundTripKinds Proofs.RoundTripField Proofs.RoundTripDispatch.
Import ListNotations.
Open Scope Z_scope.
Open Scope exn_scope.

Local Notation len := (@List.length bool).
Local Notation concat := (@List.concat bool).

(* the keyword arguments a caller passes for an assignment *)
Definition kwargs_of (a : assignment) : list (string * value) := map (fun kx => (fst kx, inj (snd kx))) a.

Lemma assoc_kwargs a k : assoc_s k (kwargs_of a) = option_map inj (lookup_s k a).
Proof.
  induction a as [|[k' x] r IH]; [reflexivity|]. cbn [kwargs_of map fst snd assoc_s lookup_s].
  destruct (String.eqb k k'); [reflexivity|]. exact IH.
Qed.

Lemma lookup_in {B} k (l : list (string * B)) x : lookup_s k l = Some x -> In (k, x) l.
Proof.
  induction l as [|[k' y] r IH]; [discriminate|]. cbn [lookup_s].
  destruct (String.eqb_spec k k') as [->|N].
  - intros H. injection H as ->. left. reflexivity.
  - intros H. right. apply IH. exact H.
Qed.

Lemma mem_s_in k l : mem_s k l = true <-> In k l.
Proof.
  induction l as [|k' r IH]; cbn [mem_s In]; [split; [discriminate|tauto]|].
  rewrite orb_true_iff, IH. destruct (String.eqb_spec k k') as [->|N].
  - split; auto.
  - split; intros [H|H]; auto; try discriminate; try congruence.
Qed.

Lemma lookup_none_not_mem {B} k (l : list (string * B)) : lookup_s k l = None -> mem_s k (map fst l) = false.
Proof.
  induction l as [|[k' y] r IH]; [reflexivity|]. cbn [lookup_s map fst mem_s].
  destruct (String.eqb k k'); [discriminate|]. exact IH.
Qed.

(* ------------------------------------------------------------------------------------------------ *)
(* the regenerated tables against the layouts                                                         *)

Definition default_okb (f : field) (is_last : bool) : bool :=
  match f_default f with
  | None => true
  | Some _ =>
    match create_field [] f with
    | Ok cv =>
      match bits_of_field f cv with
      | Ok b => (((len b =? f_width f)%nat && negb (len b =? 0)%nat) || (is_last && (len b <=? f_width f)%nat))
                && match decode_one f b with
                   | Ok r0 => is_ok (apply_opt_conv (f_attrs_conv f) r0)
                   | Raise _ => false
                   end
      | Raise _ => false
      end
    | Raise _ => false
    end
  end.

(* the default of msg_type is the type id of the class (not so for the undecorated subclasses: guard (b)) *)
Definition msg_type_default_ok (v : variant) (f : field) : bool :=
  match v with
  | V2 | V3 | V11 | V13 => true
  | _ => match create_field [] f with
         | Ok cv => match bits_of_field f cv with
                    | Ok b => (ubits b =? type_id v)
                    | Raise _ => false
                    end
         | Raise _ => false
         end
  end.

Definition pair_ok (v : variant) (is_last : bool) (sf : sfield) (f : field) : bool :=
  String.eqb (s_name sf) (f_name f) && (s_width sf =? f_width f)%nat && (0 <? f_width f)%nat
  && field_impl (s_kind sf) (f_varlen f) f
  && Bool.eqb is_last (ends_message v sf)
  && (match s_kind sf with
      | KT => (6 <=? f_width f)%nat
              && implb (f_varlen f) (var_len v sf && negb (match v with V21 => true | _ => false end))
      | _ => true
      end)
  && (is_last || match s_kind sf with
                 | KT => negb (f_varlen f) && (f_width f mod 6 =? 0)%nat
                 | _ => true
                 end)
  && default_okb f is_last
  && (match f_default f with None => mem_s (f_name f) (required v) | Some _ => true end)
  && (negb (String.eqb (s_name sf) "msg_type") || msg_type_default_ok v f).

Fixpoint pairs_ok (v : variant) (off : nat) (L : list sfield) (fs : list field) : bool :=
  match L, fs with
  | [], [] => true
  | sf :: L', f :: fs' =>
    (s_off sf =? off)%nat && pair_ok v (match fs' with [] => true | _ => false end) sf f
    && pairs_ok v (off + f_width f) L' fs'
  | _, _ => false
  end.

Definition value_eqb_int (v : option value) (z : Z) : bool :=
  match v with Some (VInt y) => y =? z | _ => false end.

(* the keyword arguments a create-side dispatch tree looks at, with the way it looks at them (true = as an integer) *)
Fixpoint ctree_keys (t : ctree cls) : list (string * bool) :=
  match t with
  | CLeaf _ | CRaise => []
  | CIfKw k _ t1 t2 => (k, false) :: ctree_keys t1 ++ ctree_keys t2
  | CIfKwIntEq k _ _ t1 t2 => (k, true) :: ctree_keys t1 ++ ctree_keys t2
  end.

Definition disc_key_ok (v : variant) (ki : string * bool) : bool :=
  match lookup_s (fst ki) (disc_values v) with
  | Some (SInt _) => true
  | Some (SBool _) => negb (snd ki)
  | _ => false
  end.

Definition variant_ok (v : variant) : bool :=
  pairs_ok v 0 (spec_layout v) (fields_of (cls_of v))
  && nodup_s (map s_name (spec_layout v))
  && (match find_field "msg_type" (spec_layout v) with
      | Some sf => (s_off sf =? 0)%nat && (s_width sf =? 6)%nat && negb (ends_message v sf)
                   && match s_kind sf with KU => true | _ => false end
      | None => false
      end)
  && forallb (fun ke => match find_field (fst ke) (spec_layout v) with
                        | Some sf => negb (ends_message v sf)
                                     && match s_kind sf, snd ke with
                                        | KB, SBool _ => (s_width sf =? 1)%nat
                                        | KU, SInt _ => true
                                        | _, _ => false
                                        end
                        | None => false
                        end) (disc_values v)
  && (match assoc_z (type_id v) msg_class_table with
      | Some (_, ct) =>
        forallb (disc_key_ok v) (ctree_keys ct)
        && match run_ctree ct (kwargs_of (disc_values v)) with Ok c => cls_eqb c (cls_of v) | Raise _ => false end
      | None => false
      end).

(* tables_match_spec: re-run against the regenerated Gen/GenTables.v, Gen/GenDispatch.v on every build *)
Lemma variants_checked : forallb variant_ok all_variants = true.
Proof. vm_compute. reflexivity. Qed.

Lemma variant_checked v : variant_ok v = true.
Proof. pose proof variants_checked as K. rewrite forallb_forall in K. apply K. apply in_all_variants. Qed.

(* every (layout field, table field) pair with its position *)
Lemma pairs_split v : forall L fs off, pairs_ok v off L fs = true ->
  List.length L = List.length fs /\
  forall sf f, In (sf, f) (combine L fs) ->
    exists fs1 fs2, fs = fs1 ++ f :: fs2 /\ (off + width_sum fs1 = s_off sf)%nat /\
                    pair_ok v (match fs2 with [] => true | _ => false end) sf f = true.
Proof.
  induction L as [|sf0 L IH]; intros [|f0 fs] off H; try discriminate.
  - split; [reflexivity|]. intros sf f [].
  - cbn [pairs_ok] in H. apply andb_prop in H as [H Hr]. apply andb_prop in H as [Ho Hp]. apply Nat.eqb_eq in Ho.
    destruct (IH fs (off + f_width f0)%nat Hr) as (Hl & Hin). split; [cbn; lia|].
    intros sf f [E|Hi].
    + injection E as <- <-. exists [], fs. cbn [app width_sum]. repeat split; [lia|exact Hp].
    + destruct (Hin sf f Hi) as (fs1 & fs2 & -> & Hoff & Hpk). exists (f0 :: fs1), fs2.
      cbn [app width_sum]. repeat split; [lia|exact Hpk].
Qed.

Lemma find_field_in k L sf : find_field k L = Some sf -> In sf L /\ s_name sf = k.
Proof.
  induction L as [|f r IH]; [discriminate|]. cbn [find_field].
  destruct (String.eqb_spec k (s_name f)) as [->|N].
  - intros H. injection H as ->. split; [left|]; reflexivity.
  - intros H. destruct (IH H). split; [right|]; assumption.
Qed.

Lemma find_field_unique L sf : nodup_s (map s_name L) = true -> In sf L -> find_field (s_name sf) L = Some sf.
Proof.
  induction L as [|f r IH]; intros Hn Hi; [destruct Hi|].
  cbn [map nodup_s] in Hn. apply andb_prop in Hn as [Hf Hn]. apply negb_true_iff in Hf. cbn [find_field].
  destruct Hi as [->|Hi].
  - rewrite String.eqb_refl. reflexivity.
  - destruct (String.eqb_spec (s_name sf) (s_name f)) as [E|N]; [|apply IH; assumption].
    exfalso. assert (mem_s (s_name f) (map s_name r) = true); [|congruence].
    apply mem_s_in. rewrite <- E. apply in_map. exact Hi.
Qed.

(* ------------------------------------------------------------------------------------------------ *)
(* one field of an in-range assignment                                                                *)

Lemma ceil8_ge w : (w / 8 <= ceil8 w)%nat.
Proof. destruct (ceil8_spec w) as [(A & B)|(A & B)]; pose proof (Nat.div_mod w 8 ltac:(lia)); lia. Qed.
Lemma ceil8_pos w : (0 < w)%nat -> (0 < ceil8 w)%nat.
Proof. intros H. destruct (ceil8_spec w) as [(A & B)|(A & B)]; lia. Qed.

Lemma arg_of_absent kw f : assoc_s (f_name f) kw = None -> create_field kw f = create_field [] f.
Proof. intros H. unfold create_field, arg_of. rewrite H. reflexivity. Qed.

Lemma empty_bytes_kind k w vl : (0 < w)%nat -> in_range_kind k w vl (SBytes []) = true -> k = KD \/ (k = KX /\ vl = true).
Proof.
  intros Hw H. pose proof (ceil8_pos w Hw). destruct k; cbn [in_range_kind real_of] in H; try discriminate.
  - left; reflexivity.
  - right. split; [reflexivity|]. cbn [forallb andb List.length] in H.
    destruct (Nat.eqb_spec 0 (ceil8 w)); [lia|]. cbn [andb orb] in H. destruct vl; [reflexivity|discriminate].
Qed.

(* the facts about one field that the message-level proof needs *)
Definition field_facts (kw : list (string * value)) (a : assignment) (sf : sfield) (f : field) (is_last : bool)
           (cv : value) (b : bits) (r0 r : value) : Prop :=
  create_field kw f = Ok cv /\ bits_of_field f cv = Ok b /\ (len b <= f_width f)%nat /\
  (is_last = false -> len b = f_width f /\ b <> []) /\
  decode_one f b = Ok r0 /\ apply_opt_conv (f_attrs_conv f) r0 = Ok r /\
  (forall x, lookup_s (s_name sf) a = Some x -> b <> [] /\ denotes r (normalise_kind (s_kind sf) x)).

Lemma one_field v a sf f is_last :
  pair_ok v is_last sf f = true -> In sf (spec_layout v) -> nodup_s (map s_name (spec_layout v)) = true ->
  in_range v a = true -> c02_guard v a = true ->
  exists cv b r0 r, field_facts (kwargs_of a) a sf f is_last cv b r0 r.
Proof.
  intros Hp Hin Hnd Hr Hg. unfold pair_ok in Hp.
  apply andb_prop in Hp as [Hp Hmt]. apply andb_prop in Hp as [Hp Hmand]. apply andb_prop in Hp as [Hp Hdef]. apply andb_prop in Hp as [Hp Hfull].
  apply andb_prop in Hp as [Hp Htext]. apply andb_prop in Hp as [Hp Hlast]. apply andb_prop in Hp as [Hp Himpl].
  apply andb_prop in Hp as [Hp Hw]. apply andb_prop in Hp as [Hname Hwidth].
  apply String.eqb_eq in Hname. apply Nat.eqb_eq in Hwidth. apply Nat.ltb_lt in Hw. apply eqb_prop in Hlast.
  unfold in_range in Hr. apply andb_prop in Hr as [Hr Hmsg]. apply andb_prop in Hr as [Hr Hdisc].
  apply andb_prop in Hr as [Hr Hreq]. apply andb_prop in Hr as [Hnodup Hfields].
  destruct (lookup_s (s_name sf) a) as [x|] eqn:Hx.
  - (* a supplied value *)
    pose proof (lookup_in _ _ _ Hx) as Hxa.
    rewrite forallb_forall in Hfields. pose proof (Hfields _ Hxa) as Hfr.
    unfold field_in_range in Hfr. cbn [fst snd] in Hfr. rewrite (find_field_unique _ _ Hnd Hin) in Hfr.
    rewrite Hwidth in Hfr.
    (* the guards, for this entry *)
    unfold c02_guard in Hg. apply andb_prop in Hg as [Hg Hg3]. apply andb_prop in Hg as [Hg1 _].
    apply negb_true_iff in Hg1, Hg3.
    assert (var_len v sf && empty_varlen_kind (s_kind sf) x
            && negb (match v, s_kind sf with V21, KT => true | _, _ => false end) = false) as G3.
    { unfold c02_empty_varlen in Hg3. destruct (_ && _ && _) eqn:E; [|reflexivity].
      exfalso. assert (existsb (fun kx => match find_field (fst kx) (spec_layout v) with
                     | Some f => var_len v f && empty_varlen_kind (s_kind f) (snd kx)
                                 && negb (match v, s_kind f with V21, KT => true | _, _ => false end)
                     | None => false end) a = true); [|congruence].
      apply existsb_exists. exists (s_name sf, x). split; [exact Hxa|]. cbn [fst snd].
      rewrite (find_field_unique _ _ Hnd Hin). exact E. }
    assert (match s_kind sf with KD => negb (ends_message v sf) && short_bytes (s_width sf) x | _ => false end = false) as G1.
    { unfold c02_short_data26 in Hg1. destruct (match s_kind sf with KD => _ | _ => false end) eqn:E; [|reflexivity].
      exfalso. assert (existsb (fun kx => match find_field (fst kx) (spec_layout v) with
                     | Some f => match s_kind f with
                                 | KD => negb (ends_message v f) && short_bytes (s_width f) (snd kx)
                                 | _ => false end
                     | None => false end) a = true); [|congruence].
      apply existsb_exists. exists (s_name sf, x). split; [exact Hxa|]. cbn [fst snd].
      rewrite (find_field_unique _ _ Hnd Hin). exact E. }
    assert (x <> SBytes []) as Hne.
    { intros ->. destruct (empty_bytes_kind _ _ _ Hw Hfr) as [Ek|(Ek & Ev)].
      - rewrite Ek in G3. unfold var_len in G3. rewrite Ek in G3. cbn in G3. destruct v; discriminate.
      - unfold var_len in Ev. rewrite Ek in Ev. discriminate. }
    destruct (kind_roundtrip (s_kind sf) (f_varlen f) (var_len v sf) f x Himpl Hw Hfr Hne)
      as (cv & b & Hc & Hb & Hlen & Hle & Hdec).
    (* the encoded field is not empty ... *)
    assert (0 < enc_len (s_kind sf) (f_varlen f) (f_width f) x)%nat as Hpos.
    { unfold enc_len. destruct (s_kind sf) eqn:Ek; try exact Hw.
      - destruct x; try exact Hw. apply andb_prop in Htext as [H6 Himp]. apply Nat.leb_le in H6.
        destruct (f_varlen f) eqn:Ev.
        + cbn [implb] in Himp. apply andb_prop in Himp as [Hv1 Hv2].
          rewrite Hv1, Hv2 in G3.
          destruct s; [|cbn [List.length]; lia].
          exfalso. cbn in G3. discriminate.
        + pose proof (Nat.div_mod (f_width f) 6 ltac:(lia)). pose proof (Nat.mod_upper_bound (f_width f) 6 ltac:(lia)). lia.
      - destruct x; try exact Hw. destruct (Nat.eqb_spec (List.length b0) (ceil8 (f_width f))); [exact Hw|].
        destruct b0; [congruence|cbn [List.length]; lia].
      - destruct x; try exact Hw. destruct (Nat.eqb_spec (List.length b0) (ceil8 (f_width f))); [exact Hw|].
        destruct b0; [congruence|cbn [List.length]; lia]. }
    assert (b <> []) as Hbne by (apply pos_len_ne; lia).
    destruct (Hdec Hbne) as (r0 & r & Hd0 & Hat & Hden).
    exists cv, b, r0, r. unfold field_facts.
    split.
    { unfold create_field, arg_of. rewrite <- Hname, assoc_kwargs, Hx. cbn [option_map]. exact Hc. }
    split; [exact Hb|]. split; [exact Hle|]. split.
    { (* ... and has its full width unless it is the last field *)
      intros ->. cbn [orb] in Hfull. split; [|exact Hbne]. rewrite Hlen. unfold enc_len.
      destruct (s_kind sf) eqn:Ek; try reflexivity.
      - destruct x; try reflexivity. apply andb_prop in Hfull as [Hv Hm]. apply negb_true_iff in Hv.
        apply Nat.eqb_eq in Hm. rewrite Hv. pose proof (Nat.div_mod (f_width f) 6 ltac:(lia)). lia.
      - destruct x; try reflexivity. destruct (Nat.eqb_spec (List.length b0) (ceil8 (f_width f))); [reflexivity|].
        exfalso. rewrite <- Hlast in G1. cbn [negb andb] in G1. unfold short_bytes in G1. rewrite Hwidth in G1.
        apply andb_false_iff in G1 as [G|G].
        + apply negb_false_iff, Nat.eqb_eq in G. destruct b0; [congruence|discriminate].
        + apply Nat.ltb_ge in G. cbn [in_range_kind] in Hfr. apply andb_prop in Hfr as [_ Hc2].
          apply orb_prop in Hc2 as [Hc2|Hc2]; apply andb_prop in Hc2 as [A B].
          * apply Nat.eqb_eq in A. lia.
          * apply Nat.leb_le in B. pose proof (ceil8_ge (f_width f)). lia.
      - destruct x; try reflexivity. destruct (Nat.eqb_spec (List.length b0) (ceil8 (f_width f))); [reflexivity|].
        exfalso. cbn [in_range_kind] in Hfr. apply andb_prop in Hfr as [_ Hc2].
        unfold var_len in Hc2. rewrite Ek in Hc2. cbn [andb orb] in Hc2. rewrite orb_false_r in Hc2.
        apply andb_prop in Hc2 as [A _]. apply Nat.eqb_eq in A. lia. }
    split; [destruct b; [congruence|exact Hd0]|]. split; [exact Hat|].
    intros x' Hx'. rewrite Hx in Hx'. injection Hx' as <-. split; [exact Hbne|exact Hden].
  - (* the default *)
    assert (assoc_s (f_name f) (kwargs_of a) = None) as Hk by (rewrite <- Hname, assoc_kwargs, Hx; reflexivity).
    destruct (f_default f) as [d|] eqn:Hd.
    2: { exfalso. rewrite forallb_forall in Hreq. apply mem_s_in in Hmand. specialize (Hreq _ Hmand).
         rewrite <- Hname in Hreq. rewrite (lookup_none_not_mem _ _ Hx) in Hreq. discriminate. }
    unfold default_okb in Hdef. rewrite Hd in Hdef.
    destruct (create_field [] f) as [cv|] eqn:Hc; [|discriminate].
    destruct (bits_of_field f cv) as [b|] eqn:Hb; [|discriminate].
    apply andb_prop in Hdef as [Hlen Hdec].
    destruct (decode_one f b) as [r0|] eqn:Hd0; [|discriminate].
    destruct (apply_opt_conv (f_attrs_conv f) r0) as [r|] eqn:Hat; [|discriminate].
    exists cv, b, r0, r. unfold field_facts.
    split; [rewrite arg_of_absent by assumption; exact Hc|]. split; [exact Hb|]. split.
    { apply orb_prop in Hlen as [H|H]; apply andb_prop in H as [A B].
      - apply Nat.eqb_eq in A. lia.
      - apply Nat.leb_le in B. exact B. }
    split.
    { intros ->. cbn [andb orb] in Hlen. rewrite orb_false_r in Hlen. apply andb_prop in Hlen as [A B].
      apply Nat.eqb_eq in A. apply negb_true_iff, Nat.eqb_neq in B. split; [exact A|]. destruct b; [cbn in B; lia|discriminate]. }
    split; [exact Hd0|]. split; [exact Hat|]. intros x' Hx'. rewrite Hx in Hx'. discriminate.
Qed.

(* ------------------------------------------------------------------------------------------------ *)
(* all fields of a message                                                                            *)

Section Message.
  Variable v : variant.
  Variable a : assignment.
  Hypothesis Hrange : in_range v a = true.
  Hypothesis Hguard : c02_guard v a = true.

  Let c := cls_of v.
  Let fs := fields_of c.
  Let L := spec_layout v.
  Let kw := kwargs_of a.

  Definition cvf (f : field) : value := get_ok VNone (create_field kw f).
  Definition hbf (f : field) : bits := get_ok [] (bits_of_field f (cvf f)).
  Definition r0f (f : field) : value := get_ok VNone (decode_one f (hbf f)).
  Definition rf (f : field) : value := get_ok VNone (apply_opt_conv (f_attrs_conv f) (r0f f)).

  Lemma facts_fun sf f il : (exists cv b r0 r, field_facts kw a sf f il cv b r0 r) ->
    field_facts kw a sf f il (cvf f) (hbf f) (r0f f) (rf f).
  Proof.
    intros (cv & b & r0 & r & H). pose proof H as (H1 & H2 & _ & _ & H5 & H6 & _).
    assert (cvf f = cv) as E1 by (unfold cvf; rewrite H1; reflexivity).
    assert (hbf f = b) as E2 by (unfold hbf; rewrite E1, H2; reflexivity).
    assert (r0f f = r0) as E3 by (unfold r0f; rewrite E2, H5; reflexivity).
    assert (rf f = r) as E4 by (unfold rf; rewrite E3, H6; reflexivity).
    rewrite E1, E2, E3, E4. exact H.
  Qed.

  Lemma Hpairs : pairs_ok v 0 L fs = true.
  Proof. pose proof (variant_checked v) as K. unfold variant_ok in K. repeat (apply andb_prop in K as [K _]). exact K. Qed.
  Lemma Hnodup : nodup_s (map s_name L) = true.
  Proof.
    pose proof (variant_checked v) as K. unfold variant_ok in K.
    do 3 (apply andb_prop in K as [K _]). apply andb_prop in K as [_ K]. exact K.
  Qed.

  Lemma pair_facts sf f : In (sf, f) (combine L fs) ->
    exists il fs1 fs2, fs = fs1 ++ f :: fs2 /\ width_sum fs1 = s_off sf /\ il = (match fs2 with [] => true | _ => false end) /\
                       pair_ok v il sf f = true /\ field_facts kw a sf f il (cvf f) (hbf f) (r0f f) (rf f).
  Proof.
    intros Hin. destruct (pairs_split v L fs 0 Hpairs) as (_ & Hs).
    destruct (Hs sf f Hin) as (fs1 & fs2 & E & Ho & Hp).
    eexists _, fs1, fs2. split; [exact E|]. split; [exact Ho|]. split; [reflexivity|]. split; [exact Hp|].
    apply facts_fun. apply (one_field v a sf f _ Hp); try assumption.
    - apply (in_combine_l _ _ _ _ Hin).
    - exact Hnodup.
  Qed.

  Lemma field_has_pair f : In f fs -> exists sf, In (sf, f) (combine L fs).
  Proof.
    destruct (pairs_split v L fs 0 Hpairs) as (Hl & _). revert Hl. generalize L fs. clear.
    intros l. induction l as [|s l IH]; intros [|g gs] Hl Hin; try discriminate; [destruct Hin|].
    destruct Hin as [->|Hin].
    - exists s. left. reflexivity.
    - destruct (IH gs ltac:(cbn in Hl; lia) Hin) as (sf & H). exists sf. right. exact H.
  Qed.

  Lemma created : create_cls c kw = Ok (map cvf fs).
  Proof.
    apply create_cls_map. intros f Hf. destruct (field_has_pair f Hf) as (sf & Hin).
    destruct (pair_facts sf f Hin) as (il & _ & _ & _ & _ & _ & _ & (H & _)). exact H.
  Qed.

  Lemma shape_pairs : forall l gs off, pairs_ok v off l gs = true ->
    (forall sf f, In (sf, f) (combine l gs) -> forall il, pair_ok v il sf f = true ->
        (len (hbf f) <= f_width f)%nat /\ (il = false -> len (hbf f) = f_width f /\ hbf f <> [])) ->
    shape gs (map hbf gs).
  Proof.
    induction l as [|s l IH]; intros [|g gs] off H Hf; try discriminate; [exact I|].
    cbn [pairs_ok] in H. apply andb_prop in H as [H Hr]. apply andb_prop in H as [_ Hp].
    cbn [map shape]. destruct (Hf s g (or_introl eq_refl) _ Hp) as (Hle & Hfull).
    destruct gs as [|g' gs'].
    - right. split; [exact Hle|]. split; [constructor|]. destruct l; [reflexivity|discriminate].
    - left. destruct (Hfull eq_refl) as (A & B). split; [exact A|]. split; [exact B|].
      apply (IH (g' :: gs') _ Hr). intros sf f Hin. apply Hf. right. exact Hin.
  Qed.

  Lemma encoded_shape : shape fs (map hbf fs).
  Proof.
    apply (shape_pairs L fs 0 Hpairs). intros sf f Hin il Hp.
    assert (field_facts kw a sf f il (cvf f) (hbf f) (r0f f) (rf f)) as (_ & _ & Hle & Hfull & _).
    { apply facts_fun. apply (one_field v a sf f il Hp); try assumption.
      - apply (in_combine_l _ _ _ _ Hin).
      - exact Hnodup. }
    split; assumption.
  Qed.

  Lemma whole_message :
    to_bitarray c (map cvf fs) = Ok (concat (map hbf fs)) /\
    from_bitarray c (concat (map hbf fs)) = Ok (map rf fs).
  Proof.
    apply (message_roundtrip c cvf hbf r0f rf).
    - intros f Hf. destruct (field_has_pair f Hf) as (sf & Hin).
      destruct (pair_facts sf f Hin) as (il & _ & _ & _ & _ & _ & _ & (_ & H & _)). exact H.
    - exact encoded_shape.
    - intros f Hf. destruct (field_has_pair f Hf) as (sf & Hin).
      destruct (pair_facts sf f Hin) as (il & _ & _ & _ & _ & _ & _ & (_ & _ & _ & _ & H & _)). exact H.
    - intros f Hf. destruct (field_has_pair f Hf) as (sf & Hin).
      destruct (pair_facts sf f Hin) as (il & _ & _ & _ & _ & _ & _ & (_ & _ & _ & _ & _ & H & _)). exact H.
  Qed.
End Message.

(* ------------------------------------------------------------------------------------------------ *)
(* variant_consistent, create side: the class create() selects from the discriminator VALUES          *)

Definition intview (x : value) : option Z :=
  match x with VInt z => Some z | VBool b => Some (b2z b) | _ => None end.

Lemma run_ctree_ext t kw1 kw2 :
  (forall k i d, In (k, i) (ctree_keys t) ->
     if i then intview (kw_get kw1 k d) = intview (kw_get kw2 k d)
     else truthy (kw_get kw1 k d) = truthy (kw_get kw2 k d)) ->
  run_ctree t kw1 = run_ctree t kw2.
Proof.
  induction t as [c| |k d t1 IH1 t2 IH2|k d z t1 IH1 t2 IH2]; intros H; cbn [run_ctree]; try reflexivity.
  - pose proof (H k false d (or_introl eq_refl)) as E. cbn in E. rewrite E.
    rewrite IH1, IH2; [reflexivity| |]; intros k' i' d' Hin; apply H; cbn [ctree_keys]; right; apply in_or_app; auto.
  - pose proof (H k true d (or_introl eq_refl)) as E. cbn in E.
    rewrite IH1, IH2; [| |]; try (intros k' i' d' Hin; apply H; cbn [ctree_keys]; right; apply in_or_app; auto).
    destruct (kw_get kw1 k d) as [| z1 | b1 | | | | |], (kw_get kw2 k d) as [| z2 | b2 | | | | |];
      cbn [intview] in E; try discriminate; try reflexivity; injection E as E; rewrite ?E; try reflexivity;
      rewrite <- ?E; reflexivity.
Qed.

Lemma lookup_normalise v a k :
  lookup_s k (normalise v a) = option_map (fun x => snd (field_normalise v (k, x))) (lookup_s k a).
Proof.
  induction a as [|[k' x] r IH]; [reflexivity|]. cbn [normalise map lookup_s].
  assert (fst (field_normalise v (k', x)) = k') as E by (unfold field_normalise; cbn [fst]; destruct (find_field _ _); reflexivity).
  destruct (field_normalise v (k', x)) as [k'' y] eqn:F. cbn [fst] in E. subst k''.
  destruct (String.eqb_spec k k') as [->|N].
  - cbn [option_map]. rewrite F. reflexivity.
  - exact IH.
Qed.

(* a value whose normal form is a given boolean / integer is seen alike by the dispatch *)
Ltac norm_view_tac :=
  cbn [normalise_kind inj truthy]; unfold frac_or; cbn [real_of];
  try match goal with |- context [0 <? ?d] => destruct (0 <? d) end;
  try (unfold spec_turn; repeat match goal with |- context [if ?c then _ else _] => destruct c end);
  cbn [sval_same]; try discriminate.

Lemma norm_view_bool k x bb : sval_same (normalise_kind k x) (SBool bb) = true -> truthy (inj x) = bb.
Proof.
  destruct k, x; norm_view_tac; intros H; apply eqb_prop in H; subst; reflexivity.
Qed.

Lemma norm_view_int k x z : sval_same (normalise_kind k x) (SInt z) = true -> inj x = VInt z.
Proof.
  destruct k, x; norm_view_tac; intros H; apply Z.eqb_eq in H; subst; reflexivity.
Qed.

Lemma kind_or_id v k x : exists kk, snd (field_normalise v (k, x)) = normalise_kind kk x.
Proof.
  unfold field_normalise. cbn [fst snd]. destruct (find_field k (spec_layout v)) as [f|].
  - exists (s_kind f). reflexivity.
  - exists KU. reflexivity.
Qed.

Lemma create_dispatch v a : in_range v a = true ->
  exists dt ct, assoc_z (type_id v) msg_class_table = Some (dt, ct) /\ run_ctree ct (kwargs_of a) = Ok (cls_of v).
Proof.
  intros Hr. pose proof (variant_checked v) as K. unfold variant_ok in K. apply andb_prop in K as [_ K].
  destruct (assoc_z (type_id v) msg_class_table) as [[dt ct]|]; [|discriminate].
  exists dt, ct. split; [reflexivity|]. apply andb_prop in K as [Kk Kc].
  rewrite (run_ctree_ext ct _ (kwargs_of (disc_values v))).
  - destruct (run_ctree ct (kwargs_of (disc_values v))) as [c'|]; [|discriminate]. apply cls_eqb_eq in Kc. congruence.
  - intros k i d Hin. rewrite forallb_forall in Kk. specialize (Kk _ Hin). unfold disc_key_ok in Kk. cbn [fst snd] in Kk.
    destruct (lookup_s k (disc_values v)) as [e|] eqn:He; [|discriminate].
    unfold in_range in Hr. apply andb_prop in Hr as [Hr _]. apply andb_prop in Hr as [_ Hdisc].
    rewrite forallb_forall in Hdisc. specialize (Hdisc _ (lookup_in _ _ _ He)). cbn [fst snd] in Hdisc.
    rewrite lookup_normalise in Hdisc. destruct (lookup_s k a) as [x|] eqn:Hx; [|discriminate]. cbn [option_map] in Hdisc.
    destruct (kind_or_id v k x) as (kk & Ek). rewrite Ek in Hdisc.
    unfold kw_get. rewrite !assoc_kwargs, Hx, He. cbn [option_map].
    destruct e; try discriminate.
    + rewrite (norm_view_int _ _ _ Hdisc). destruct i; reflexivity.
    + destruct i; [discriminate|]. rewrite (norm_view_bool _ _ _ Hdisc). reflexivity.
Qed.

(* ------------------------------------------------------------------------------------------------ *)
(* variant_consistent: the encoded discriminator fields sit where the decode-side dispatch reads       *)

Lemma shape_prefix_full : forall fs1 f fs2 (hb : field -> bits),
  shape (fs1 ++ f :: fs2) (map hb (fs1 ++ f :: fs2)) -> hb f <> [] ->
  forall g, In g fs1 -> len (hb g) = f_width g.
Proof.
  induction fs1 as [|g0 r IH]; intros f fs2 hb Hs Hne g Hin; [destruct Hin|].
  cbn [app map shape] in Hs. destruct Hs as [(A & _ & Hs)|(_ & Hnil & _)].
  - destruct Hin as [<-|Hin]; [exact A|]. apply (IH f fs2 hb Hs Hne g Hin).
  - exfalso. apply Hne. rewrite Forall_forall in Hnil. apply Hnil. rewrite map_app. apply in_or_app. right. left. reflexivity.
Qed.

Lemma concat_full_length (fs1 : list field) (hb : field -> bits) :
  (forall g, In g fs1 -> len (hb g) = f_width g) -> len (concat (map hb fs1)) = width_sum fs1.
Proof.
  induction fs1 as [|g r IH]; intros H; [reflexivity|]. cbn [map List.concat width_sum]. rewrite app_length.
  rewrite (H g (or_introl eq_refl)), IH; [reflexivity|]. intros; apply H; right; assumption.
Qed.

Lemma sval_same_eq x e : sval_same x e = true -> x = e.
Proof.
  destruct x, e; cbn; try discriminate; intros H.
  - apply Z.eqb_eq in H. congruence.
  - apply eqb_prop in H. congruence.
Qed.

Lemma spec_field_has_pair v sf : In sf (spec_layout v) ->
  exists f, In (sf, f) (combine (spec_layout v) (fields_of (cls_of v))).
Proof.
  destruct (pairs_split v _ _ 0 (Hpairs v)) as (Hl & _). revert Hl.
  generalize (spec_layout v) (fields_of (cls_of v)). intros l.
  induction l as [|s l IH]; intros [|g gs] Hl Hin; try discriminate; [destruct Hin|].
  destruct Hin as [->|Hin].
  - exists g. left. reflexivity.
  - destruct (IH gs ltac:(cbn in Hl; lia) Hin) as (f & H). exists f. right. exact H.
Qed.

Ltac use_disc Hd k e :=
  let sf := fresh "sf" in let Ef := fresh "Ef" in let Hb := fresh "Hb" in let Hl := fresh "Hl" in
  destruct (Hd k%string e) as (sf & Ef & Hb & Hl); [cbn; tauto|];
  vm_compute in Ef; injection Ef as <-; cbn [s_off s_width] in Hb, Hl.

Lemma variant_from_reads v (Bb : bits) :
  uval (sub Bb 0 6) = type_id v -> (6 <= len Bb)%nat ->
  (forall k e, In (k, e) (disc_values v) ->
     exists sf, find_field k (spec_layout v) = Some sf /\
       match e with
       | SBool bv => bit_at Bb (s_off sf) = bv /\ (s_off sf + 1 <= len Bb)%nat
       | SInt z => uval (sub Bb (s_off sf) (s_width sf)) = z /\ (s_off sf + s_width sf <= len Bb)%nat
       | _ => False
       end) ->
  spec_variant Bb = Some v /\ (disc_end v <= len Bb)%nat.
Proof.
  intros Ht H6 Hd. rewrite spec_variant_as_num, Ht.
  destruct v; cbn [type_id disc_end disc_values] in *; try (split; [reflexivity|exact H6]).
  - use_disc Hd "addressed" (SBool true). rewrite Hb. split; [reflexivity|lia].
  - use_disc Hd "addressed" (SBool false). rewrite Hb. split; [reflexivity|lia].
  - use_disc Hd "partno" (SInt 0). rewrite Hb. split; [reflexivity|lia].
  - use_disc Hd "partno" (SInt 1). rewrite Hb. split; [reflexivity|lia].
  - use_disc Hd "addressed" (SBool true). use_disc Hd "structured" (SBool true). rewrite Hb, Hb0. split; [reflexivity|lia].
  - use_disc Hd "addressed" (SBool false). use_disc Hd "structured" (SBool true). rewrite Hb, Hb0. split; [reflexivity|lia].
  - use_disc Hd "addressed" (SBool true). use_disc Hd "structured" (SBool false). rewrite Hb, Hb0. split; [reflexivity|lia].
  - use_disc Hd "addressed" (SBool false). use_disc Hd "structured" (SBool false). rewrite Hb, Hb0. split; [reflexivity|lia].
  - use_disc Hd "addressed" (SBool true). use_disc Hd "structured" (SBool true). rewrite Hb, Hb0. split; [reflexivity|lia].
  - use_disc Hd "addressed" (SBool false). use_disc Hd "structured" (SBool true). rewrite Hb, Hb0. split; [reflexivity|lia].
  - use_disc Hd "addressed" (SBool true). use_disc Hd "structured" (SBool false). rewrite Hb, Hb0. split; [reflexivity|lia].
  - use_disc Hd "addressed" (SBool false). use_disc Hd "structured" (SBool false). rewrite Hb, Hb0. split; [reflexivity|lia].
Qed.

Section Encoded.
  Variable v : variant.
  Variable a : assignment.
  Hypothesis Hrange : in_range v a = true.
  Hypothesis Hguard : c02_guard v a = true.

  Let fs := fields_of (cls_of v).
  Let L := spec_layout v.
  Let B := concat (map (hbf a) fs).

  (* a field that is followed by another one: its bits in the payload *)
  Lemma field_bits sf f : In (sf, f) (combine L fs) -> ends_message v sf = false ->
    sub B (s_off sf) (s_width sf) = hbf a f /\ len (hbf a f) = s_width sf /\ (s_off sf + s_width sf <= len B)%nat /\
    hbf a f <> [] /\ pair_ok v false sf f = true /\
    field_facts (kwargs_of a) a sf f false (cvf a f) (hbf a f) (r0f a f) (rf a f).
  Proof.
    intros Hin Hend. destruct (pair_facts v a Hrange Hguard sf f Hin) as (il & fs1 & fs2 & E & Ho & Hil & Hp & Hf).
    assert (il = false) as ->.
    { unfold pair_ok in Hp. repeat (apply andb_prop in Hp as [Hp ?]).
      match goal with H : Bool.eqb il (ends_message v sf) = true |- _ => apply eqb_prop in H; congruence end. }
    pose proof Hf as (_ & _ & _ & Hfull & _). destruct (Hfull eq_refl) as (Hlen & Hne).
    assert (s_width sf = f_width f) as Hw.
    { unfold pair_ok in Hp. repeat (apply andb_prop in Hp as [Hp ?]).
      match goal with H : (s_width sf =? f_width f)%nat = true |- _ => apply Nat.eqb_eq in H; exact H end. }
    pose proof (encoded_shape v a Hrange Hguard) as Hs. rewrite E in Hs.
    pose proof (shape_prefix_full fs1 f fs2 (hbf a) Hs Hne) as Hpre.
    unfold B, fs. rewrite E. rewrite sub_is_slice, <- Ho, Hw, <- Hlen.
    split; [apply slice_concat_field; exact Hpre|]. split; [reflexivity|]. split.
    { rewrite map_app, concat_app, app_length. cbn [map List.concat]. rewrite app_length.
      rewrite (concat_full_length fs1 (hbf a) Hpre). lia. }
    split; [exact Hne|]. split; [exact Hp|]. exact Hf.
  Qed.

  Lemma impl_of_pair il sf f : pair_ok v il sf f = true -> field_impl (s_kind sf) (f_varlen f) f = true.
  Proof.
    intros Hp. unfold pair_ok in Hp. repeat (apply andb_prop in Hp as [Hp ?]). assumption.
  Qed.

  (* ... and the number / bit it carries *)
  Lemma field_code_U sf f z : In (sf, f) (combine L fs) -> ends_message v sf = false -> s_kind sf = KU ->
    lookup_s (s_name sf) a = Some (SInt z) -> uval (sub B (s_off sf) (s_width sf)) = z.
  Proof.
    intros Hin Hend Hk Hx. destruct (field_bits sf f Hin Hend) as (Hsub & _ & _ & Hne & Hp & Hf).
    destruct Hf as (_ & _ & _ & _ & Hd & Hat & Hgiven). destruct (Hgiven _ Hx) as (_ & Hden).
    pose proof (impl_of_pair _ _ _ Hp) as Hi. rewrite Hk in Hi, Hden. cbn [field_impl] in Hi.
    apply andb_prop in Hi as [Hi Ha]. apply andb_prop in Hi as [Hi Ht]. apply andb_prop in Hi as [Hi _].
    apply andb_prop in Hi as [Hdt Hs]. apply is_dtype_inv in Hdt. apply negb_true_iff in Hs.
    apply conv_none_inv in Ha, Ht.
    destruct (hbf a f) as [|y ys] eqn:Eb; [congruence|]. cbn [decode_one] in Hd. rewrite <- Eb in *.
    rewrite decode_int in Hd by assumption. rewrite Hs, Ht in Hd. cbn [apply_opt_conv] in Hd. injection Hd as Hd.
    rewrite Ha, <- Hd in Hat. cbn [apply_opt_conv] in Hat. injection Hat as Hat. rewrite <- Hat in Hden.
    cbn [normalise_kind denotes] in Hden. rewrite Hsub, uval_ubits. exact Hden.
  Qed.

  Lemma field_code_B sf f x bv : In (sf, f) (combine L fs) -> ends_message v sf = false -> s_kind sf = KB ->
    s_width sf = 1%nat -> lookup_s (s_name sf) a = Some x -> normalise_kind KB x = SBool bv ->
    bit_at B (s_off sf) = bv.
  Proof.
    intros Hin Hend Hk Hw1 Hx Hn. destruct (field_bits sf f Hin Hend) as (Hsub & Hlen & Hle & Hne & Hp & Hf).
    destruct Hf as (_ & _ & _ & _ & Hd & Hat & Hgiven). destruct (Hgiven _ Hx) as (_ & Hden).
    pose proof (impl_of_pair _ _ _ Hp) as Hi. rewrite Hk in Hi, Hden. cbn [field_impl] in Hi.
    apply andb_prop in Hi as [Hi Hpl]. apply andb_prop in Hi as [Hdt Hs]. apply is_dtype_inv in Hdt.
    apply negb_true_iff in Hs. apply plain_inv in Hpl as (_ & Ht & Ha).
    destruct (hbf a f) as [|y ys] eqn:Eb; [congruence|]. cbn [decode_one] in Hd. rewrite <- Eb in *.
    rewrite decode_bool in Hd by assumption. rewrite Ht in Hd. cbn [apply_opt_conv] in Hd. injection Hd as Hd.
    rewrite Ha, <- Hd in Hat. cbn [apply_opt_conv] in Hat. injection Hat as Hat. rewrite <- Hat, Hn in Hden.
    cbn [denotes] in Hden.
    rewrite Hw1 in *. rewrite sub_one in Hsub by lia. unfold bit_at. rewrite <- Hsub in Hden.
    rewrite ubits_cons, ubits_nil in Hden. cbn [List.length] in Hden.
    destruct (nth (s_off sf) B false); cbn in Hden; congruence.
  Qed.

  (* the type id *)
  Lemma type_id_bits : uval (sub B 0 6) = type_id v /\ (6 <= len B)%nat.
  Proof.
    pose proof (variant_checked v) as K. unfold variant_ok in K.
    do 2 (apply andb_prop in K as [K _]). apply andb_prop in K as [_ K].
    destruct (find_field "msg_type" (spec_layout v)) as [sf|] eqn:Ef; [|discriminate].
    apply andb_prop in K as [K Kk]. apply andb_prop in K as [K Kend]. apply andb_prop in K as [Ko Kw].
    apply Nat.eqb_eq in Ko, Kw. apply negb_true_iff in Kend.
    destruct (find_field_in _ _ _ Ef) as (Hin & Hname).
    destruct (spec_field_has_pair v sf Hin) as (f & Hp).
    destruct (field_bits sf f Hp Kend) as (Hsub & Hlen & Hle & Hne & Hpk & Hf).
    rewrite Ko, Kw in *. split; [|lia].
    destruct (lookup_s "msg_type" a) as [x|] eqn:Hx.
    - pose proof Hrange as Hm. unfold in_range in Hm. apply andb_prop in Hm as [_ Hm]. rewrite Hx in Hm.
      apply sval_same_eq in Hm. subst x.
      pose proof (field_code_U sf f (type_id v) Hp Kend) as G. rewrite Ko, Kw, Hname in G. apply G; [|exact Hx].
      destruct (s_kind sf); try discriminate. reflexivity.
    - (* the default *)
      pose proof Hguard as Hg. unfold c02_guard in Hg. apply andb_prop in Hg as [Hg _]. apply andb_prop in Hg as [_ Hg].
      apply negb_true_iff in Hg. unfold c02_inherited_type in Hg. rewrite Hx in Hg.
      unfold pair_ok in Hpk. apply andb_prop in Hpk as [Hpk Hmt]. rewrite Hname in Hmt.
      change (negb ("msg_type" =? "msg_type")%string) with false in Hmt. cbn [orb] in Hmt.
      assert (String.eqb (s_name sf) (f_name f) = true) as Hnm.
      { repeat (apply andb_prop in Hpk as [Hpk ?]). assumption. }
      apply String.eqb_eq in Hnm.
      destruct Hf as (Hc & Hb & _).
      rewrite arg_of_absent in Hc by (rewrite <- Hnm, Hname, assoc_kwargs, Hx; reflexivity).
      unfold msg_type_default_ok in Hmt. rewrite Hc, Hb in Hmt.
      rewrite Hsub, uval_ubits. destruct v; try discriminate; apply Z.eqb_eq in Hmt; exact Hmt.
  Qed.

  (* the discriminator fields *)
  Lemma disc_reads k e : In (k, e) (disc_values v) ->
    exists sf, find_field k L = Some sf /\
      match e with
      | SBool bv => bit_at B (s_off sf) = bv /\ (s_off sf + 1 <= len B)%nat
      | SInt z => uval (sub B (s_off sf) (s_width sf)) = z /\ (s_off sf + s_width sf <= len B)%nat
      | _ => False
      end.
  Proof.
    intros Hin. pose proof (variant_checked v) as K. unfold variant_ok in K.
    apply andb_prop in K as [K _]. apply andb_prop in K as [_ K].
    rewrite forallb_forall in K. specialize (K _ Hin). cbn [fst snd] in K.
    destruct (find_field k (spec_layout v)) as [sf|] eqn:Ef; [|discriminate]. exists sf. split; [exact Ef|].
    apply andb_prop in K as [Kend K]. apply negb_true_iff in Kend.
    destruct (find_field_in _ _ _ Ef) as (Hsf & Hname).
    destruct (spec_field_has_pair v sf Hsf) as (f & Hp).
    pose proof Hrange as Hr. unfold in_range in Hr. apply andb_prop in Hr as [Hr _]. apply andb_prop in Hr as [_ Hdisc].
    rewrite forallb_forall in Hdisc. specialize (Hdisc _ Hin). cbn [fst snd] in Hdisc.
    rewrite lookup_normalise in Hdisc. destruct (lookup_s k a) as [x|] eqn:Hx; [|discriminate]. cbn [option_map] in Hdisc.
    unfold field_normalise in Hdisc. cbn [fst snd] in Hdisc. rewrite Ef in Hdisc. cbn [snd] in Hdisc.
    apply sval_same_eq in Hdisc.
    destruct (field_bits sf f Hp Kend) as (_ & _ & Hle & _).
    destruct (s_kind sf) eqn:Hk; try discriminate; destruct e; try discriminate.
    - (* an integer discriminator (part number) *)
      cbn [normalise_kind] in Hdisc. subst x. split; [|exact Hle].
      apply (field_code_U sf f z Hp Kend Hk). rewrite Hname. exact Hx.
    - apply Nat.eqb_eq in K. split; [|lia].
      apply (field_code_B sf f x b Hp Kend Hk K); [rewrite Hname; exact Hx|exact Hdisc].
  Qed.

  Lemma encoded_variant : spec_variant B = Some v /\ (disc_end v <= len B)%nat.
  Proof.
    destruct type_id_bits as (Ht & H6). apply variant_from_reads; try assumption. exact disc_reads.
  Qed.
End Encoded.

(* ------------------------------------------------------------------------------------------------ *)
(* C02                                                                                                *)

(* the decoded attributes agree with the expected values, attribute by attribute *)
Definition agrees (c : cls) (vs : list value) (expected : assignment) : Prop :=
  Forall (fun ke => exists y, assoc_s (fst ke) (combine (map f_name (fields_of c)) vs) = Some y /\ denotes y (snd ke))
         expected.

Definition c02_holds_for (v : variant) (a : assignment) : Prop :=
  exists vs b vs',
    create_msg (type_id v) (kwargs_of a) = Ok (cls_of v, vs) /\
    to_bitarray (cls_of v) vs = Ok b /\
    decode_bits b = Ok (cls_of v, vs') /\
    agrees (cls_of v) vs' (normalise v a).

Lemma lookup_nodup {B} k (x : B) l : nodup_s (map fst l) = true -> In (k, x) l -> lookup_s k l = Some x.
Proof.
  induction l as [|[k' y] r IH]; intros Hn Hi; [destruct Hi|].
  cbn [map fst nodup_s] in Hn. apply andb_prop in Hn as [Hf Hn]. apply negb_true_iff in Hf. cbn [lookup_s].
  destruct Hi as [E|Hi].
  - injection E as -> ->. rewrite String.eqb_refl. reflexivity.
  - destruct (String.eqb_spec k k') as [->|N]; [|apply IH; assumption].
    exfalso. assert (mem_s k' (map fst r) = true); [|congruence].
    apply mem_s_in. change k' with (fst (k', x)). apply in_map. exact Hi.
Qed.

Lemma assoc_pairs v (g : field -> value) : forall l gs off, pairs_ok v off l gs = true ->
  nodup_s (map s_name l) = true -> forall sf f, In (sf, f) (combine l gs) ->
  assoc_s (s_name sf) (combine (map f_name gs) (map g gs)) = Some (g f).
Proof.
  induction l as [|s l IH]; intros [|g0 gs] off H Hn sf f Hin; try discriminate; [destruct Hin|].
  cbn [pairs_ok] in H. apply andb_prop in H as [H Hr]. apply andb_prop in H as [_ Hp].
  assert (s_name s = f_name g0) as Hname.
  { unfold pair_ok in Hp. repeat (apply andb_prop in Hp as [Hp ?]). apply String.eqb_eq. assumption. }
  cbn [map nodup_s] in Hn. apply andb_prop in Hn as [Hf Hn]. apply negb_true_iff in Hf.
  cbn [map combine assoc_s]. destruct Hin as [E|Hin].
  - injection E as <- <-. rewrite Hname, String.eqb_refl. reflexivity.
  - destruct (String.eqb_spec (s_name sf) (f_name g0)) as [E|N]; [|apply (IH gs _ Hr Hn sf f Hin)].
    exfalso. assert (mem_s (s_name s) (map s_name l) = true); [|congruence].
    apply mem_s_in. rewrite Hname, <- E. apply in_map. apply (in_combine_l _ _ _ _ Hin).
Qed.

Theorem c02_partial v a : in_range v a = true -> c02_guard v a = true -> c02_holds_for v a.
Proof.
  intros Hr Hg.
  destruct (create_dispatch v a Hr) as (dt & ct & Hassoc & Hrun).
  destruct (whole_message v a Hr Hg) as (Henc & Hdec).
  destruct (encoded_variant v a Hr Hg) as (Hsv & Hde).
  destruct (dispatch_matches_spec _ v Hsv Hde) as (dt' & ct' & Hassoc' & Hrun').
  exists (map (cvf a) (fields_of (cls_of v))), (concat (map (hbf a) (fields_of (cls_of v)))),
         (map (rf a) (fields_of (cls_of v))).
  split.
  { unfold create_msg. rewrite Hassoc, Hrun. cbn [bind]. rewrite (created v a Hr Hg). reflexivity. }
  split; [exact Henc|]. split.
  { unfold decode_bits, decode_bits_as. rewrite Hassoc', Hrun'. cbn [bind]. rewrite Hdec. reflexivity. }
  unfold agrees, normalise. apply Forall_forall. intros ke Hke. apply in_map_iff in Hke as ([k x] & <- & Hin).
  pose proof Hr as Hr'. unfold in_range in Hr'. apply andb_prop in Hr' as [Hr' _]. apply andb_prop in Hr' as [Hr' _].
  apply andb_prop in Hr' as [Hr' _]. apply andb_prop in Hr' as [Hnd Hfields].
  rewrite forallb_forall in Hfields. pose proof (Hfields _ Hin) as Hfr. unfold field_in_range in Hfr. cbn [fst snd] in Hfr.
  unfold field_normalise. cbn [fst snd].
  destruct (find_field k (spec_layout v)) as [sf|] eqn:Ef; [|discriminate]. cbn [fst snd].
  destruct (find_field_in _ _ _ Ef) as (Hsf & Hname).
  destruct (spec_field_has_pair v sf Hsf) as (f & Hp).
  exists (rf a f). split.
  - rewrite <- Hname. apply (assoc_pairs v (rf a) _ _ 0 (Hpairs v) (Hnodup v) sf f Hp).
  - destruct (pair_facts v a Hr Hg sf f Hp) as (il & _ & _ & _ & _ & _ & _ & Hf).
    destruct Hf as (_ & _ & _ & _ & _ & _ & Hgiven).
    apply (Hgiven x). rewrite Hname. apply lookup_nodup; assumption.
Qed.

(* the three families of inputs on which the unchanged code violates the full statement: concrete witnesses *)
Local Open Scope string_scope.

Lemma refute_class v a c' :
  (exists vs b vs', create_msg (type_id v) (kwargs_of a) = Ok (cls_of v, vs) /\ to_bitarray (cls_of v) vs = Ok b /\
                    decode_bits b = Ok (c', vs')) -> c' <> cls_of v -> ~ c02_holds_for v a.
Proof.
  intros (vs & b & vs' & H1 & H2 & H3) Hne (ws & b2 & ws' & G1 & G2 & G3 & _).
  rewrite H1 in G1. injection G1 as <-. rewrite H2 in G2. injection G2 as <-. rewrite H3 in G3. injection G3 as E _.
  contradiction.
Qed.

(* (b) encode_dict({'type': 13, 'mmsi': 1}) goes out -- and comes back -- as a type 7 message *)
Lemma c02_witness_inherited_type :
  in_range V13 [("mmsi", SInt 1)] = true /\ c02_inherited_type V13 [("mmsi", SInt 1)] = true /\
  ~ c02_holds_for V13 [("mmsi", SInt 1)].
Proof.
  split; [vm_compute; reflexivity|]. split; [vm_compute; reflexivity|].
  apply (refute_class V13 _ MessageType7); [|discriminate].
  eexists _, _, _. split; [vm_compute; reflexivity|]. split; [vm_compute; reflexivity|]. vm_compute; reflexivity.
Qed.

Lemma refute_field v a k y e :
  (exists vs b vs', create_msg (type_id v) (kwargs_of a) = Ok (cls_of v, vs) /\ to_bitarray (cls_of v) vs = Ok b /\
                    decode_bits b = Ok (cls_of v, vs') /\
                    assoc_s k (combine (map f_name (fields_of (cls_of v))) vs') = Some y) ->
  In (k, e) (normalise v a) -> ~ denotes y e -> ~ c02_holds_for v a.
Proof.
  intros (vs & b & vs' & H1 & H2 & H3 & H4) Hin Hnd (ws & b2 & ws' & G1 & G2 & G3 & G4).
  rewrite H1 in G1. injection G1 as <-. rewrite H2 in G2. injection G2 as <-. rewrite H3 in G3. injection G3 as <-.
  unfold agrees in G4. rewrite Forall_forall in G4. destruct (G4 _ Hin) as (y' & Hy & Hd). cbn [fst snd] in Hy, Hd.
  rewrite H4 in Hy. injection Hy as <-. contradiction.
Qed.

(* (c) an empty text of type 12 comes back as None *)
Definition witness_empty_text : assignment := [("mmsi", SInt 1); ("dest_mmsi", SInt 2); ("text", SText [])].
Lemma c02_witness_empty_text :
  in_range V12 witness_empty_text = true /\ c02_empty_varlen V12 witness_empty_text = true /\
  ~ c02_holds_for V12 witness_empty_text.
Proof.
  split; [vm_compute; reflexivity|]. split; [vm_compute; reflexivity|].
  apply (refute_field V12 _ "text" VNone (SText [])).
  - eexists _, _, _. split; [vm_compute; reflexivity|]. split; [vm_compute; reflexivity|].
    split; [vm_compute; reflexivity|]. vm_compute; reflexivity.
  - vm_compute. tauto.
  - cbn. tauto.
Qed.

(* (d) empty binary data of type 8 comes back as 119 zero bytes *)
Definition witness_empty_data : assignment := [("mmsi", SInt 1); ("data", SBytes [])].
Lemma c02_witness_empty_data :
  in_range V8 witness_empty_data = true /\ c02_empty_varlen V8 witness_empty_data = true /\
  ~ c02_holds_for V8 witness_empty_data.
Proof.
  split; [vm_compute; reflexivity|]. split; [vm_compute; reflexivity|].
  apply (refute_field V8 _ "data" (VBytes (repeat 0 119)) (SBytes [])).
  - eexists _, _, _. split; [vm_compute; reflexivity|]. split; [vm_compute; reflexivity|].
    split; [vm_compute; reflexivity|]. vm_compute; reflexivity.
  - vm_compute. tauto.
  - cbn. discriminate.
Qed.

(* (a) type 26 with two bytes of data: the communication state is read into `data`, `radio` comes back as None *)
Definition witness_short_data : assignment :=
  [("mmsi", SInt 1); ("addressed", SBool false); ("structured", SBool false); ("data", SBytes [1; 2]); ("radio", SInt 77)].
Lemma c02_witness_short_data :
  in_range V26BroadcastUnstructured witness_short_data = true /\
  c02_short_data26 V26BroadcastUnstructured witness_short_data = true /\
  ~ c02_holds_for V26BroadcastUnstructured witness_short_data.
Proof.
  split; [vm_compute; reflexivity|]. split; [vm_compute; reflexivity|].
  apply (refute_field V26BroadcastUnstructured _ "radio" VNone (SInt 77)).
  - eexists _, _, _. split; [vm_compute; reflexivity|]. split; [vm_compute; reflexivity|].
    split; [vm_compute; reflexivity|]. vm_compute; reflexivity.
  - vm_compute. tauto.
  - cbn. tauto.
Qed.
Local Close Scope string_scope.
