(* The payload decoder never raises a foreign exception:
     decode_bits_as ais_id bits  (= MSG_CLASS[ais_id].from_bitarray(bit_array) with AISSentence.decode's KeyError
     conversion) either returns a message or raises UnknownMessageException / UnknownPartNoException,
   for EVERY bit string of every length.  Proof: a boolean check on the regenerated field tables ([field_safe]: the
   decode-side converter of a field is one whose shape cannot fail on the raw value its d_type produces) evaluated by
   vm_compute on the tables of this run, plus a generic lemma per converter shape and an induction on the field list. *)
From Coq Require Import ZArith List Bool String Lia.
Require Import Prim.Exn Prim.Bits Prim.Dict Gen.GenEnums Model.FieldTypes Gen.GenTables Gen.GenDispatch Gen.GenConv
               Model.Codec Proofs.ExnLemmas.
Import ListNotations.
Open Scope Z_scope.

(* ---- enumerations whose constructor accepts every integer (they define _missing_ with a fall-back member) ---- *)
Definition enum_total (e : enum_id) : bool :=
  match e with
  | E_NavigationStatus | E_ManeuverIndicator | E_EpfdType | E_ShipType | E_NavAid | E_TransmitMode | E_StationType
  | E_StationIntervals => true
  | _ => false
  end.

Lemma enum_total_ok : forall e z, enum_total e = true -> total (enum_ctor e z).
Proof.
  intros e z H; destruct e; simpl in H; try discriminate; cbv [enum_ctor];
    match goal with |- total (?f z) => unfold f end;
    match goal with |- context [zmem z ?l] => destruct (zmem z l) end;
    eexists; reflexivity.
Qed.

(* ---- raw values ---- *)
Definition int_raw (v : value) : Prop := (exists z, v = VInt z) \/ (exists b, v = VBool b).
Definition numeric_raw (v : value) : Prop := int_raw v \/ (exists z, v = VFloat z 1).

Lemma as_frac_numeric : forall v, numeric_raw v -> exists n, as_frac v = Some (n, 1).
Proof. intros v [[[z ->]|[b ->]]|[z ->]]; simpl; eauto. Qed.

(* ---- converter shapes that cannot fail on a numeric raw value ---- *)
Definition shape_safe (sh : conv_shape) : bool :=
  match sh with
  | ShMul _ | ShFloatMul _ | ShRoundFloatMul _ | ShInt => true
  | ShDiv c => negb (dec_num c =? 0)
  | ShRoundFloatDiv c nd => (0 <? dec_num c) && (0 <=? nd)
  | ShToTurn k127 _ c => (k127 =? 127) && (0 <? dec_num c)
  | ShFromTurn _ _ _ => false
  end.

Lemma turn_ctor_127 : forall n, Z.abs n = 127 -> total (TurnRate_ctor (n / 1)).
Proof.
  intros n H. rewrite Z.div_1_r.
  assert (n = 127 \/ n = -127) as [-> | ->] by lia; eexists; reflexivity.
Qed.

Lemma shape_safe_ok : forall sh v, shape_safe sh = true -> numeric_raw v -> total (apply_shape sh v).
Proof.
  intros sh v Hs Hv. destruct (as_frac_numeric v Hv) as [n Hn].
  destruct sh; simpl in Hs; try discriminate; unfold apply_shape; try rewrite Hn; unfold dec_num_den.
  - eexists; reflexivity.
  - eexists; reflexivity.
  - apply negb_true_iff in Hs. rewrite Hs. eexists; reflexivity.
  - eexists; reflexivity.
  - apply andb_true_iff in Hs as [H1 H2]. apply Z.ltb_lt in H1. apply Z.leb_le in H2.
    destruct (dec_num c <=? 0) eqn:E1; [apply Z.leb_le in E1; lia|].
    destruct (nd <? 0) eqn:E2; [apply Z.ltb_lt in E2; lia|].
    eexists; reflexivity.
  - destruct Hv as [[[z ->]|[b ->]]|[z ->]]; eexists; reflexivity.
  - apply andb_true_iff in Hs as [H1 H2]. apply Z.eqb_eq in H1. subst k127. apply Z.ltb_lt in H2.
    destruct (n =? 0); [eexists; reflexivity|].
    unfold zabs_frac_eq.
    destruct (Z.abs n =? 127 * 1) eqn:E1.
    + apply Z.eqb_eq in E1. rewrite Z.mod_1_r. simpl (0 =? 0).
      destruct (turn_ctor_127 n ltac:(lia)) as [m Hm]. cbv iota. rewrite Hm. eexists; reflexivity.
    + destruct (Z.abs n =? k128 * 1); [eexists; reflexivity|].
      destruct (dec_num c <=? 0) eqn:E3; [apply Z.leb_le in E3; lia|].
      eexists; reflexivity.
Qed.

Definition conv_safe (c : conv_ref) : bool :=
  match c with
  | CNamed name => match assoc_s name conv_table with Some sh => shape_safe sh | None => false end
  | CEnumFromValue e | CEnumCtor e => enum_total e
  end.

Lemma enum_of_value_ok : forall e v, enum_total e = true -> int_raw v -> total (enum_of_value e v).
Proof.
  intros e v He [[z ->]|[b ->]]; simpl.
  - destruct (enum_total_ok e z He) as [m ->]. eexists; reflexivity.
  - destruct (enum_total_ok e (b2z b) He) as [m ->]. eexists; reflexivity.
Qed.

(* ---- fields ---- *)
Definition dtype_numeric (d : dtype) : bool := match d with DInt | DBool | DFloat => true | _ => false end.
Definition dtype_intlike (d : dtype) : bool := match d with DInt | DBool => true | _ => false end.

Definition to_safe (f : field) : bool :=
  match f_to f with
  | None => true
  | Some (CNamed name) => dtype_numeric (f_dtype f) && conv_safe (CNamed name)
  | Some c => dtype_intlike (f_dtype f) && conv_safe c
  end.

Definition attrs_safe (f : field) : bool :=
  match f_attrs_conv f with
  | None => true
  | Some (CEnumFromValue e) =>
    enum_total e && dtype_intlike (f_dtype f) && (match f_to f with None => true | Some _ => false end)
  | Some _ => false
  end.

Definition field_safe (f : field) : bool := to_safe f && attrs_safe f.

(* every field of every class of THIS run's tables *)
Lemma fields_safe : forall c, forallb field_safe (fields_of c) = true.
Proof. destruct c; vm_compute; reflexivity. Qed.

(* what __init__'s attrs-level converter may be handed *)
Definition attr_input_ok (f : field) (v : value) : Prop := f_attrs_conv f = None \/ v = VNone \/ int_raw v.

Lemma decode_field_ok : forall f bs, field_safe f = true ->
  exists v, decode_field f bs = Ok v /\ attr_input_ok f v.
Proof.
  intros f bs H. apply andb_true_iff in H as [Ht Ha].
  unfold decode_field, to_safe, attrs_safe, attr_input_ok in *.
  destruct (f_to f) as [c|] eqn:Eto.
  - (* a decode-side converter: then no attrs-level converter relies on the shape of the result *)
    assert (Hattr : f_attrs_conv f = None).
    { destruct (f_attrs_conv f) as [[nm | e | e]|]; auto; try discriminate.
      destruct (enum_total e), (dtype_intlike (f_dtype f)); discriminate. }
    destruct c as [name | e | e].
    + apply andb_true_iff in Ht as [Hd Hc]. cbv [conv_safe] in Hc.
      destruct (assoc_s name conv_table) as [sh|] eqn:Etab; [|discriminate].
      match goal with |- exists v, apply_opt_conv _ ?raw = _ /\ _ =>
        assert (Hraw : numeric_raw raw) by
          (destruct (f_dtype f); try discriminate; [left; left | left; right | right]; eexists; reflexivity) end.
      match goal with |- exists v, apply_opt_conv _ ?raw = _ /\ _ =>
        destruct (shape_safe_ok sh raw Hc Hraw) as [v Hv] end.
      exists v. split; [|auto]. cbv [apply_opt_conv apply_conv]. rewrite Etab. exact Hv.
    + apply andb_true_iff in Ht as [Hd Hc]. cbv [conv_safe] in Hc.
      match goal with |- exists v, apply_opt_conv _ ?raw = _ /\ _ =>
        assert (Hraw : int_raw raw) by
          (destruct (f_dtype f); try discriminate; [left | right]; eexists; reflexivity) end.
      match goal with |- exists v, apply_opt_conv _ ?raw = _ /\ _ =>
        destruct (enum_of_value_ok e raw Hc Hraw) as [v Hv];
        exists v; split; [|auto]; simpl; destruct Hraw as [[z Hz]|[b Hb]]; [rewrite Hz in *|rewrite Hb in *]; exact Hv end.
    + apply andb_true_iff in Ht as [Hd Hc]. cbv [conv_safe] in Hc.
      match goal with |- exists v, apply_opt_conv _ ?raw = _ /\ _ =>
        assert (Hraw : int_raw raw) by
          (destruct (f_dtype f); try discriminate; [left | right]; eexists; reflexivity) end.
      match goal with |- exists v, apply_opt_conv _ ?raw = _ /\ _ =>
        destruct (enum_of_value_ok e raw Hc Hraw) as [v Hv]; exists v; split; [exact Hv|auto] end.
  - (* no converter: the raw value itself *)
    simpl. eexists; split; [reflexivity|].
    destruct (f_attrs_conv f) as [[nm | e | e]|]; try discriminate; auto.
    rewrite !andb_true_iff in Ha. destruct Ha as [[_ Hd] _].
    right; right. destruct (f_dtype f); try discriminate; [left | right]; eexists; reflexivity.
Qed.

Lemma from_bitarray_loop_ok : forall fs b cur end_, forallb field_safe fs = true ->
  exists vs, from_bitarray_loop fs b cur end_ = Ok vs /\ Forall2 attr_input_ok fs vs.
Proof.
  induction fs as [|f fs IH]; intros b cur end_ H; simpl.
  - eexists; split; [reflexivity | constructor].
  - simpl in H. apply andb_true_iff in H as [Hf Hfs].
    destruct (Nat.leb (List.length b) end_).
    + destruct (IH b cur end_ Hfs) as [vs [E F]]. rewrite E. simpl.
      eexists; split; [reflexivity|]. constructor; [right; left; reflexivity | exact F].
    + destruct (decode_field_ok f (slice b cur (Nat.min (List.length b) (cur + f_width f))) Hf) as [v [Ev Av]].
      rewrite Ev. simpl.
      destruct (IH b (Nat.min (List.length b) (cur + f_width f)) (Nat.min (List.length b) (cur + f_width f)) Hfs)
        as [vs [E F]].
      rewrite E. simpl. eexists; split; [reflexivity|]. constructor; assumption.
Qed.

Lemma init_attrs_ok : forall fs vs, forallb field_safe fs = true -> Forall2 attr_input_ok fs vs ->
  total (init_attrs fs vs).
Proof.
  induction fs as [|f fs IH]; intros vs H F; inversion F; subst; simpl.
  - eexists; reflexivity.
  - simpl in H. apply andb_true_iff in H as [Hf Hfs].
    destruct (IH _ Hfs H4) as [r Er].
    apply andb_true_iff in Hf as [_ Ha]. unfold attrs_safe in Ha. unfold attr_input_ok in H2.
    destruct (f_attrs_conv f) as [[nm | e | e]|] eqn:Ec; try discriminate.
    + rewrite !andb_true_iff in Ha. destruct Ha as [[He _] _].
      destruct H2 as [H2 | [-> | Hi]]; [discriminate | |].
      * simpl. rewrite Er. eexists; reflexivity.
      * destruct (enum_of_value_ok e y He Hi) as [m Hm].
        assert (apply_opt_conv (Some (CEnumFromValue e)) y = Ok m) as ->.
        { simpl. destruct Hi as [[z ->]|[b ->]]; exact Hm. }
        simpl. rewrite Er. eexists; reflexivity.
    + simpl. rewrite Er. eexists; reflexivity.
Qed.

Lemma from_bitarray_total : forall c b, total (from_bitarray c b).
Proof.
  intros c b. unfold from_bitarray.
  destruct (from_bitarray_loop_ok (fields_of c) b 0%nat 0%nat (fields_safe c)) as [vs [E F]].
  rewrite E. simpl. apply init_attrs_ok; [apply fields_safe | exact F].
Qed.

Lemma run_dtree_raises : forall t b, raises_only (run_dtree t b) (fun e => e = Lib UnknownPartNoException).
Proof.
  induction t; intros b; simpl; auto.
  - destruct (get_int b lo hi false =? 0); auto.
  - destruct (get_int b lo hi false =? v); auto.
Qed.

(* what MSG_CLASS[ais_id].from_bitarray(bits), wrapped by AISSentence.decode, can raise *)
Definition payload_exn (e : exn) : Prop := e = Lib UnknownMessageException \/ e = Lib UnknownPartNoException.

Theorem decode_bits_as_raises : forall ais_id b, raises_only (decode_bits_as ais_id b) payload_exn.
Proof.
  intros ais_id b. unfold decode_bits_as.
  destruct (assoc_z ais_id msg_class_table) as [[dt ct]|]; [|left; reflexivity].
  apply raises_only_bind.
  - eapply raises_only_weaken; [apply run_dtree_raises|]. intros e ->; right; reflexivity.
  - intros c _. destruct (from_bitarray_total c b) as [vs ->]. exact I.
Qed.

Corollary decode_bits_as_no_escape : forall ais_id b, no_escape (decode_bits_as ais_id b).
Proof.
  intros. apply no_escape_iff. eapply raises_only_weaken; [apply decode_bits_as_raises|].
  intros e [-> | ->]; exact I.
Qed.
