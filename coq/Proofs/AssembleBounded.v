(* Backpressure extension of the NMEAQueue clauses of C03 / C07 / C18: queue_step_b (Model/Assemble.v), the model of
   NMEAQueue.put_line on a bounded queue whose final put may raise queue.Full, against queue_step (the unbounded queue).

     queue_step_b_gate     one call: same state as the unbounded call, and the unbounded call's delivery is put / refused
                           according to the environment's answer; nothing else changes
     bq_run_gates          the same for every sequence of calls and every pattern of put outcomes
     bq_*                  the clauses read off it; the corollaries over well-formed schedules via the C03 / C18 theorems *)
From Coq Require Import ZArith List Bool Lia.
Require Import Prim.Exn Prim.Bits Prim.PyList Model.Sentence Model.AssembleIter Model.Assemble Spec.AssembleSpec
               Proofs.AssembleProofs.
Import ListNotations.
Open Scope Z_scope.

(* ================================================================ vocabulary *)

Definition bq_outs (o : bq_out) : list ais_sentence := match o with BqPut a => [a] | _ => [] end.
Definition bq_is_full (o : bq_out) : bool := match o with BqFull => true | _ => false end.
(* the call reached its final put (accepted or not) *)
Definition bq_attempted (o : bq_out) : bool := match o with BqNone => false | _ => true end.
Definition bq_accepts (env : bq_put) : bool := match env with BqPutOk => true | BqPutFull => false end.

(* what a bounded queue makes of the deliveries of one unbounded call *)
Definition bq_gate (env : bq_put) (out : list ais_sentence) : bq_out :=
  match out with
  | [] => BqNone
  | a :: _ => match env with BqPutOk => BqPut a | BqPutFull => BqFull end
  end.

Fixpoint bq_gates (envs : list bq_put) (outs : list (list ais_sentence)) : list bq_out :=
  match envs, outs with
  | e :: es, o :: os => bq_gate e o :: bq_gates es os
  | _, _ => []
  end.

Definition at_most_one {A} (o : list A) : Prop := o = [] \/ exists a, o = [a].

(* ================================================================ one call *)

Lemma ais_step_at_most_one : forall st msg st' out, ais_step st msg = Ok (st', out) -> at_most_one out.
Proof.
  intros [buffer w] msg st' out H. unfold ais_step in H.
  destruct (is_single msg); [inversion H; right; eexists; reflexivity|].
  destruct (buffer_step buffer msg) as [[b' [full|]]|e]; inversion H; [right; eexists; reflexivity|left; reflexivity].
Qed.

Lemma generic_step_at_most_one : forall hs st p t st' out, generic_step hs st p t = Ok (st', out) -> at_most_one out.
Proof.
  intros hs st p t st' out H. unfold generic_step in H.
  destruct p as [s|e]; [|destruct (catches hs e); inversion H; left; reflexivity].
  destruct t as [e|]; [destruct (catches hs e); inversion H; left; reflexivity|].
  destruct s as [msg|g]; [exact (ais_step_at_most_one _ _ _ _ H)|inversion H; left; reflexivity].
Qed.

Lemma queue_step_at_most_one : forall st p t st' out, queue_step st p t = Ok (st', out) -> at_most_one out.
Proof. intros st p t st' out H. rewrite queue_step_generic in H. exact (generic_step_at_most_one _ _ _ _ _ _ H). Qed.

(* THE STEP LEMMA.  For every state, every line and either answer of the environment: the bounded call ends in the state
   in which the unbounded call ends, raises what it raises, and hands its delivery (if any) to the put. *)
Theorem queue_step_b_gate : forall st p t env,
  queue_step_b st p t env =
  match queue_step st p t with
  | Raise e => Raise e
  | Ok (st', out) => Ok (st', bq_gate env out)
  end.
Proof.
  intros [buffer w] p t env. unfold queue_step_b, queue_step, queue_try, try_except, add_to_tbq, bind.
  destruct p as [s|e]; [|destruct (catches queue_except e); reflexivity].
  destruct t as [e|]; [destruct (catches queue_except e); reflexivity|].
  destruct s as [msg|g]; [|reflexivity].
  unfold bq_do_put, bq_gate.
  destruct (is_single msg); [destruct w; destruct env; reflexivity|].
  match goal with |- context [buf_get ?b ?s] => destruct (buf_get b s) as [arr|] end; [|reflexivity].
  destruct (pyl_setitem arr (a_frag_num msg - 1) (Some msg)) as [arr'|e]; [|reflexivity].
  unfold bind.
  destruct (pyl_len (not_none (pyl_slice arr' 0 (fragment_count msg))) =? fragment_count msg); [|reflexivity].
  destruct (assemble_from_iterable _) as [full|e]; [|reflexivity].
  destruct w; destruct env; reflexivity.
Qed.

Lemma bq_outs_gate_ok : forall out, at_most_one out -> bq_outs (bq_gate BqPutOk out) = out.
Proof. intros out [H|[a H]]; subst; reflexivity. Qed.

(* (i) with the put succeeding, the bounded call IS the unbounded call *)
Theorem queue_step_b_all_accepted : forall st p t,
  mmap (fun r => (fst r, bq_outs (snd r))) (queue_step_b st p t BqPutOk) = queue_step st p t.
Proof.
  intros st p t. rewrite queue_step_b_gate. destruct (queue_step st p t) as [[st' out]|e] eqn:E; [|reflexivity].
  simpl. rewrite (bq_outs_gate_ok _ (queue_step_at_most_one _ _ _ _ _ E)). reflexivity.
Qed.

(* ================================================================ sequences of calls *)

(* (ii) for every sequence of lines and every pattern of put outcomes: outcomes per line = the unbounded run's deliveries
   passed through the gate, and the same end (final state, or the same escaping exception at the same line) *)
Theorem bq_run_gates : forall ios st,
  bq_run queue_step_b st ios =
  (bq_gates (map snd ios) (fst (asm_run queue_step st (map fst ios))), snd (asm_run queue_step st (map fst ios))).
Proof.
  induction ios as [|[[p t] env] ios IH]; intro st; simpl; [reflexivity|].
  rewrite queue_step_b_gate. destruct (queue_step st p t) as [[st' out]|e]; [|reflexivity].
  rewrite IH. destruct (asm_run queue_step st' (map fst ios)) as [outs fin]. reflexivity.
Qed.

(* the state (buffer, pending wrapper) after EACH line is the state of the unbounded run after that line *)
Corollary bq_states_equal : forall ios st n,
  snd (bq_run queue_step_b st (firstn n ios)) = snd (asm_run queue_step st (map fst (firstn n ios))).
Proof. intros ios st n. rewrite bq_run_gates. reflexivity. Qed.

Lemma asm_run_length : forall step ins st, (length (fst (asm_run step st ins)) <= length ins)%nat.
Proof.
  induction ins as [|[p t] ins IH]; intro st; simpl; [lia|].
  destruct (step st p t) as [[st' out]|e]; [|simpl; lia].
  specialize (IH st'). destruct (asm_run step st' ins) as [outs fin]. simpl in *. lia.
Qed.

Lemma queue_run_at_most_one : forall ins st, Forall at_most_one (fst (asm_run queue_step st ins)).
Proof.
  induction ins as [|[p t] ins IH]; intro st; simpl; [constructor|].
  destruct (queue_step st p t) as [[st' out]|e] eqn:E; [|constructor].
  specialize (IH st'). destruct (asm_run queue_step st' ins) as [outs fin]. simpl in *.
  constructor; [exact (queue_step_at_most_one _ _ _ _ _ E)|exact IH].
Qed.

(* all puts accepted: the bounded run is the unbounded run *)
Theorem bq_run_all_accepted : forall ins st,
  (map bq_outs (fst (bq_run queue_step_b st (map (fun i => (i, BqPutOk)) ins))),
   snd (bq_run queue_step_b st (map (fun i => (i, BqPutOk)) ins))) = asm_run queue_step st ins.
Proof.
  intros ins st. rewrite bq_run_gates. simpl. rewrite !map_map. simpl. rewrite map_id.
  pose proof (queue_run_at_most_one ins st) as F. pose proof (asm_run_length queue_step ins st) as L.
  destruct (asm_run queue_step st ins) as [outs fin]. simpl in *. f_equal.
  revert outs F L. induction ins as [|i ins IH]; intros outs F L.
  - destruct outs; [reflexivity|simpl in L; lia].
  - destruct outs as [|o outs]; [reflexivity|]. inversion F; subst. simpl.
    rewrite bq_outs_gate_ok by assumption. rewrite IH; [reflexivity|assumption|simpl in L; lia].
Qed.

(* ---------------------------------------------------------------- the clauses of (ii), read off the gate *)

(* delivered = the unbounded run's deliveries at the lines whose put was accepted, the very same sentences *)
Lemma gates_delivered : forall envs outs, Forall at_most_one outs ->
  map bq_outs (bq_gates envs outs) = spec_accepted (map bq_accepts envs) outs.
Proof.
  induction envs as [|e envs IH]; intros outs F; [reflexivity|].
  destruct outs as [|o outs]; [reflexivity|]. inversion F as [|? ? Fo Fr]; subst. simpl. rewrite (IH _ Fr). f_equal.
  destruct Fo as [H|[a H]]; subst; destruct e; reflexivity.
Qed.

(* queue.Full exactly where the unbounded run delivers and the put is refused *)
Lemma gates_full : forall envs outs, map bq_is_full (bq_gates envs outs) = spec_refused (map bq_accepts envs) outs.
Proof.
  induction envs as [|e envs IH]; intros outs; [reflexivity|].
  destruct outs as [|o outs]; [reflexivity|]. simpl. rewrite IH. f_equal. destruct o; destruct e; reflexivity.
Qed.

(* a put is attempted exactly where the unbounded run delivers *)
Lemma gates_attempted : forall envs outs, (length outs <= length envs)%nat ->
  map bq_attempted (bq_gates envs outs) = map has_delivery outs.
Proof.
  induction envs as [|e envs IH]; intros outs L.
  - destruct outs; [reflexivity|simpl in L; lia].
  - destruct outs as [|o outs]; [reflexivity|]. simpl. rewrite IH by (simpl in L; lia). f_equal.
    destruct o; destruct e; reflexivity.
Qed.

Lemma spec_accepted_map : forall A B (f : A -> B) acc per,
  map (map f) (spec_accepted acc per) = spec_accepted acc (map (map f) per).
Proof.
  induction acc as [|a acc IH]; intros per; [reflexivity|].
  destruct per as [|d per]; [reflexivity|]. simpl. rewrite IH. destruct a; reflexivity.
Qed.

Lemma spec_refused_map : forall A B (f : A -> B) acc per, spec_refused acc (map (map f) per) = spec_refused acc per.
Proof.
  induction acc as [|a acc IH]; intros per; [reflexivity|].
  destruct per as [|d per]; [reflexivity|]. simpl. rewrite IH. destruct d; reflexivity.
Qed.

(* BACKPRESSURE ONLY DROPS WHOLE MESSAGES, in one statement over the two runs *)
Theorem bq_backpressure : forall (ios : list bq_input) st,
  let b := bq_run queue_step_b st ios in
  let u := asm_run queue_step st (map fst ios) in
  let accepted := map bq_accepts (map snd ios) in
  snd b = snd u /\
  map bq_outs (fst b) = spec_accepted accepted (fst u) /\
  map bq_is_full (fst b) = spec_refused accepted (fst u) /\
  map bq_attempted (fst b) = map has_delivery (fst u).
Proof.
  intros ios st. cbv zeta. rewrite bq_run_gates. simpl.
  repeat split.
  - apply gates_delivered, queue_run_at_most_one.
  - apply gates_full.
  - apply gates_attempted. rewrite map_length. rewrite <- (map_length fst ios). apply asm_run_length.
Qed.

(* every sentence a bounded queue holds was delivered by the unbounded queue at the same line (no chimera, nothing new) *)
Corollary bq_delivered_sub : forall ios st i a,
  nth_error (fst (bq_run queue_step_b st ios)) i = Some (BqPut a) ->
  nth_error (fst (asm_run queue_step st (map fst ios))) i = Some [a].
Proof.
  intros ios st i a. rewrite bq_run_gates. simpl.
  pose proof (queue_run_at_most_one (map fst ios) st) as F.
  generalize dependent (fst (asm_run queue_step st (map fst ios))). generalize (map snd ios). clear.
  intros envs. revert i. induction envs as [|e envs IH]; intros i outs F H; [destruct i; discriminate|].
  destruct outs as [|o outs]; [destruct i; discriminate|]. inversion F as [|? ? Fo Fr]; subst.
  destruct i as [|i]; simpl in *; [|exact (IH _ _ Fr H)].
  destruct Fo as [E|[x E]]; subst; simpl in H; [discriminate|]. destruct e; inversion H. reflexivity.
Qed.

(* ================================================================ with the C03 / C18 theorems: well-formed schedules *)

(* C03 under backpressure: deliveries = the specified deliveries at the accepted lines (each message whole, in fragment
   order, at the arrival of its last fragment, at most once), queue.Full at the refused ones, no other exception, and the
   slot table ends as that of the unbounded queue *)
Theorem bq_deliveries_correct : forall s (ios : list bq_input), WF s -> map fst ios = schedule_lines s ->
  exists outs st, bq_run queue_step_b asm_init ios = (outs, Ok st) /\
    snd (asm_run queue_step asm_init (schedule_lines s)) = Ok st /\
    map (map delivery_of) (map bq_outs outs) = spec_accepted (map bq_accepts (map snd ios)) (spec_deliveries s) /\
    map bq_is_full outs = spec_refused (map bq_accepts (map snd ios)) (spec_deliveries s).
Proof.
  intros s ios W E. destruct (queue_deliveries_correct s W) as [outs [st [R D]]].
  pose proof (bq_backpressure ios asm_init) as B. cbv zeta in B. unfold bq_input, asm_input in *. rewrite E, R in B. simpl in B.
  destruct B as [B1 [B2 [B3 _]]].
  exists (fst (bq_run queue_step_b asm_init ios)), st. repeat split.
  - rewrite <- B1. destruct (bq_run queue_step_b asm_init ios); reflexivity.
  - rewrite R. reflexivity.
  - rewrite B2, spec_accepted_map, D. reflexivity.
  - rewrite B3, <- D, spec_refused_map. reflexivity.
Qed.

(* C18 under backpressure, every sequence of lines: a delivered message carries the wrapper the specification prescribes,
   where a put that was ATTEMPTED counts as the delivery that consumes the pending wrapper -- a refused message takes its
   wrapper with it *)
Theorem bq_wrappers_correct : forall ios : list bq_input, Forall fresh_line (map fst ios) ->
  let outs := fst (bq_run queue_step_b asm_init ios) in
  map (map a_wrapper) (map bq_outs outs) =
  spec_accepted (map bq_accepts (map snd ios)) (spec_wrapper (asm_events (map fst ios) (map bq_attempted outs))).
Proof.
  intros ios F. cbv zeta. pose proof (bq_backpressure ios asm_init) as B. cbv zeta in B.
  destruct B as [_ [B2 [_ B4]]]. rewrite B2, B4, spec_accepted_map.
  rewrite (queue_wrappers_correct _ F). reflexivity.
Qed.

(* both, with pure specification on the right-hand sides *)
Theorem bq_schedule_correct : forall s (ios : list bq_input), WF s -> (forall f, In (IFrag f) s -> a_wrapper (sf_sent f) = None) ->
  map fst ios = schedule_lines s ->
  exists outs st, bq_run queue_step_b asm_init ios = (outs, Ok st) /\
    map (map delivery_of) (map bq_outs outs) = spec_accepted (map bq_accepts (map snd ios)) (spec_deliveries s) /\
    map (map a_wrapper) (map bq_outs outs) =
      spec_accepted (map bq_accepts (map snd ios)) (spec_wrapper (schedule_events s (spec_deliveries s))) /\
    map bq_is_full outs = spec_refused (map bq_accepts (map snd ios)) (spec_deliveries s).
Proof.
  intros s ios W Fr E. destruct (queue_schedule_correct s W Fr) as [outs [st [R [D Wr]]]].
  pose proof (bq_backpressure ios asm_init) as B. cbv zeta in B. unfold bq_input, asm_input in *. rewrite E, R in B. simpl in B.
  destruct B as [B1 [B2 [B3 _]]].
  exists (fst (bq_run queue_step_b asm_init ios)), st. repeat split.
  - rewrite <- B1. destruct (bq_run queue_step_b asm_init ios); reflexivity.
  - rewrite B2, spec_accepted_map, D. reflexivity.
  - rewrite B2, spec_accepted_map, Wr. reflexivity.
  - rewrite B3, <- D, spec_refused_map. reflexivity.
Qed.

(* C07 under backpressure: whenever the stream reader's loop gets through the lines, the bounded queue is in the same
   state after them and has put / refused exactly the stream reader's deliveries *)
Theorem bq_stream_agree : forall (ios : list bq_input) st outs fin,
  asm_run stream_step st (map fst ios) = (outs, Ok fin) ->
  bq_run queue_step_b st ios = (bq_gates (map snd ios) outs, Ok fin).
Proof. intros ios st outs fin H. rewrite bq_run_gates, (runs_agree _ _ _ _ H). reflexivity. Qed.
